/-
  C02 helper lemmas, part 6: assembly at the level of `StarkProof::verify`.

  * `accept_table_side`, `accept_fri_heights` — the side conditions of the two-openings theorems
    (heights `≤ 64`, indices in range, sorted, non-empty) hold in every accepted run;
  * `witness_agree` (B) — two accepted proofs that differ only in the witness agree on every
    decommitted value, on every consumed authentication node and on every consumed FRI witness
    leaf, or a collision is exhibited;
  * `oods_length_forced`, `last_layer_length_forced`, `decommitment_lengths_forced` (C).
-/
import Swiftness.Proofs.PipelineMain
import Swiftness.Proofs.TamperFri
import Swiftness.Proofs.FriSoundVerify

namespace Swiftness.Proofs.Tamper

open Swiftness Swiftness.Spec Swiftness.Fri Swiftness.Merkle Swiftness.TableSpec
open Swiftness.Proofs.Pipeline Swiftness.Proofs.FriSound

variable {L : LayoutOps} {H : Hashes} {stone6 : Bool} {p : Stark.Proof} {sec : Felt}
  {r : Felt × Felt} {n1 n2 : Nat} {d : StarkDomains} {t' : Transcript} {c : Stark.Commitment}
  {queries : List Felt} {tq : Transcript}

/-! ### the FRI commitment carries the configured table shapes -/

theorem commitRounds_layers : ∀ (n : Nat) (t : Transcript) (cfgs : List TableConfig)
    (roots : List Felt) (t3 : Transcript) (cs : List Table.Commitment) (es : List Felt),
    commitRounds H n t cfgs roots = .ok (t3, cs, es) →
    ∀ (i : Nat) (ci : Table.Commitment), cs[i]? = some ci → ∃ tc rt, cfgs[i]? = some tc ∧
      roots[i]? = some rt ∧ ci = ⟨tc.nColumns, ⟨tc.vector, rt⟩⟩ := by
  intro n
  induction n with
  | zero =>
    intro t cfgs roots t3 cs es h i ci hci
    simp only [commitRounds, Outcome.ok.injEq, Prod.mk.injEq] at h
    obtain ⟨_, rfl, _⟩ := h
    simp at hci
  | succ n ih =>
    intro t cfgs roots t3 cs es h i ci hci
    unfold commitRounds at h
    cases roots with
    | nil => simp at h
    | cons rt roots' =>
      cases cfgs with
      | nil => simp at h
      | cons tc cfgs' =>
        simp only at h
        split at h
        · next t3' cs' es' heq =>
          simp only [Outcome.ok.injEq, Prod.mk.injEq] at h
          obtain ⟨_, rfl, _⟩ := h
          cases i with
          | zero =>
            simp only [List.getElem?_cons_zero, Option.some.injEq] at hci
            exact ⟨tc, rt, rfl, rfl, hci.symm⟩
          | succ i =>
            simp only [List.getElem?_cons_succ] at hci ⊢
            exact ih _ _ _ _ _ _ heq i ci hci
        · simp at h
        · simp at h

theorem friCommit_layers {t tf : Transcript} {roots coefs : List Felt} {cfg : Fri.Config}
    {fc : Fri.Commitment} (h : Fri.commit H t roots coefs cfg = .ok (tf, fc)) :
    fc.config = cfg ∧ ∀ (i : Nat) (ci : Table.Commitment), fc.innerLayers[i]? = some ci → ∃ tc rt,
      cfg.innerLayers[i]? = some tc ∧ roots[i]? = some rt ∧ ci = ⟨tc.nColumns, ⟨tc.vector, rt⟩⟩ := by
  unfold Fri.commit at h
  split at h
  · simp at h
  split at h
  · simp at h
  split at h
  · next t1 cs es heq =>
    split at h
    · simp at h
    · simp only [Outcome.ok.injEq, Prod.mk.injEq] at h
      obtain ⟨_, rfl⟩ := h
      exact ⟨rfl, commitRounds_layers _ _ _ _ _ _ _ heq⟩
  · simp at h
  · simp at h

theorem commit_fri_commit {t : Transcript} {pi : PublicInput} {u : Stark.UnsentCommitment}
    {cfg : StarkConfig} (h : Stark.commit L H t pi u cfg d = .ok (t', c)) :
    ∃ t0 tf, Fri.commit H t0 u.friInnerLayers u.friLastLayerCoefficients cfg.fri = .ok (tf, c.fri) := by
  unfold Stark.commit at h
  simp only at h
  split at h
  · simp at h
  · simp at h
  · split at h
    · simp at h
    · split at h
      · simp at h
      · simp at h
      · next tf fc hfri =>
        split at h
        · simp at h
        · simp at h
        · simp only [Outcome.ok.injEq, Prod.mk.injEq] at h
          obtain ⟨_, rfl⟩ := h
          exact ⟨_, tf, hfri⟩

/-! ### side conditions of the two-openings theorems in an accepted run -/

/-- the three table commitments have height `t + k ≤ 64`, and the queries are non-empty, strictly
    increasing, `< 2^64` and in range for that height -/
theorem accepting_table_side (A : Accepting L H stone6 p sec r n1 n2 d t' c queries tq) :
    queries ≠ [] ∧ (queries.map (·.val)).Pairwise (· < ·) ∧ (∀ x ∈ queries, x.val < 2 ^ 64) ∧
    (c.tracesOriginal.vector.config.height.val ≤ 250 ∧
      ∀ x ∈ queries, x.val < 2 ^ c.tracesOriginal.vector.config.height.val) ∧
    (c.tracesInteraction.vector.config.height.val ≤ 250 ∧
      ∀ x ∈ queries, x.val < 2 ^ c.tracesInteraction.vector.config.height.val) ∧
    (c.composition.vector.config.height.val ≤ 250 ∧
      ∀ x ∈ queries, x.val < 2 ^ c.composition.vector.config.height.val) := by
  obtain ⟨_, _, h64, _, _, _, _, hrange, hsorted, hlen, _⟩ := A.domain_facts
  obtain ⟨_, _, _, _, _, _, v1, v2, v3, _⟩ := config_ok A.config
  obtain ⟨_, _, s3, s4, s5, _⟩ := commit_fri_shape A.commit
  have hne : queries ≠ [] := by
    intro h0; rw [h0] at hlen; simp at hlen
  have hs : (queries.map (·.val)).Pairwise (· < ·) := by
    rw [List.pairwise_map]; exact hsorted
  have hpow : 2 ^ (p.config.logTraceDomainSize.val + p.config.logNCosets.val) ≤ 2 ^ 64 :=
    Nat.pow_le_pow_right (by omega) h64
  refine ⟨hne, hs, fun x hx => Nat.lt_of_lt_of_le (hrange x hx) hpow, ?_, ?_, ?_⟩
  · rw [s3]; simp only [Stark.tableCommitment]; rw [v1.1]
    exact ⟨by omega, hrange⟩
  · rw [s4]; simp only [Stark.tableCommitment]; rw [v2.1]
    exact ⟨by omega, hrange⟩
  · rw [s5]; simp only [Stark.tableCommitment]; rw [v3.1]
    exact ⟨by omega, hrange⟩

theorem pow2_step_val (st : Felt) (h : st.val ≤ 4) :
    (Felt.pow (@OfNat.ofNat Felt 2 Fin.instOfNat) st.val).val = 2 ^ st.val := by
  have hP : 4 < P := by decide +kernel
  rw [Proofs.pow2_model _ (by omega), Proofs.two_pow_val _ (by omega)]

/-- every FRI inner-layer commitment of an accepted run has height `≤ 64`, and the coset indices
    of every layer of any accepting FRI trace are in range for it -/
theorem accepting_fri_heights (A : Accepting L H stone6 p sec r n1 n2 d t' c queries tq)
    {evals points : List Felt} {w : List LayerWitness} {q : Nat → List LayerQuery}
    {nl : Nat → NextLayer} (ht : AcceptTrace H queries c.fri evals points w q nl) :
    ∀ i, i < (c.fri.config.nLayers - 1).val → ∀ ci, c.fri.innerLayers[i]? = some ci →
      ci.vector.config.height.val ≤ 250 ∧
      ∀ x ∈ (nl i).verifyIndices, x.val < 2 ^ ci.vector.config.height.val := by
  obtain ⟨hne, hs, hb, _⟩ := accepting_table_side A
  obtain ⟨_, _, h64, _, hlis, _, _, hrange, _⟩ := A.domain_facts
  obtain ⟨_, _, _, _, _, _, _, _, _, _, _, _, _, hinner, _⟩ := config_ok A.config
  obtain ⟨_, _, hsub, _, hcfg, _⟩ := A.fri_shape
  obtain ⟨t0, tf, hfc⟩ := commit_fri_commit A.commit
  obtain ⟨_, hlayers⟩ := friCommit_layers hfc
  let lis := p.config.fri.logInputSize.val
  let steps := p.config.fri.friStepSizes
  have hstep : ∀ i, i < (c.fri.config.nLayers - 1).val → ∃ st tc,
      steps[i + 1]? = some st ∧ p.config.fri.innerLayers[i]? = some tc ∧ st.val ≤ 4 ∧
      tc.vector.height.val + stepSum steps (i + 1) = lis ∧
      stepSum steps (i + 1) = stepSum steps i + st.val := by
    intro i hi
    rw [hcfg, hsub] at hi
    obtain ⟨st, tc, x1, x2, _, x4, _, x6, _⟩ := hinner (i + 1) (by omega) (by omega)
    simp only [Nat.add_sub_cancel] at x2
    refine ⟨st, tc, x1, x2, x4, x6, ?_⟩
    unfold stepSum
    have h1 : (steps.drop 1)[i]? = some st := by rw [List.getElem?_drop, Nat.add_comm]; exact x1
    obtain ⟨hk, hxe⟩ := List.getElem?_eq_some_iff.mp h1
    rw [List.take_succ_eq_append_getElem hk, List.map_append, List.sum_append, hxe]
    simp
  have hrng := (FriSound.trace_range ht hne hs hb (fun j => 2 ^ (lis - stepSum steps j))
    (by
      intro x hx
      have : stepSum steps 0 = 0 := by simp [stepSum]
      simp only [this, Nat.sub_zero]
      show x.val < 2 ^ p.config.fri.logInputSize.val
      rw [hlis]; exact hrange x hx)
    (by
      intro i hi st hst
      obtain ⟨st', tc, x1, _, x4, x6, x7⟩ := hstep i hi
      rw [hcfg] at hst
      rw [x1] at hst
      have hst' : st = st' := (Option.some.inj hst).symm
      subst hst'
      rw [pow2_step_val st x4, x7, ← Nat.pow_add]
      apply Nat.pow_le_pow_right (by omega)
      omega)).2
  intro i hi ci hci
  obtain ⟨st, tc, _, x2, _, x6, _⟩ := hstep i hi
  obtain ⟨tc', rt, y1, _, rfl⟩ := hlayers i ci hci
  rw [x2] at y1; cases y1
  simp only
  have hh : tc.vector.height.val = lis - stepSum steps (i + 1) := by omega
  refine ⟨by rw [hh]; show p.config.fri.logInputSize.val - _ ≤ 250; rw [hlis]; omega, ?_⟩
  intro x hx
  rw [hh]
  exact hrng i hi x hx

/-! ### B: witness-only mutations -/

/-- what two accepted proofs that differ only in the witness agree on -/
structure WitnessAgree (H : Hashes) (c : Stark.Commitment) (queries : List Felt)
    (w w' : Stark.Witness) : Prop where
  originalValues : w.tracesOriginalValues = w'.tracesOriginalValues
  interactionValues : w.tracesInteractionValues = w'.tracesInteractionValues
  compositionValues : w.compositionValues = w'.compositionValues
  /-- consumed authentication nodes: a common prefix of the length the query set needs -/
  originalAuths : ∃ pre ra rb, w.tracesOriginalAuths = pre ++ ra ∧ w'.tracesOriginalAuths = pre ++ rb ∧
    pre.length = authCount c.tracesOriginal.vector.config.height.val (queries.map (·.val))
  interactionAuths : ∃ pre ra rb, w.tracesInteractionAuths = pre ++ ra ∧
    w'.tracesInteractionAuths = pre ++ rb ∧
    pre.length = authCount c.tracesInteraction.vector.config.height.val (queries.map (·.val))
  compositionAuths : ∃ pre ra rb, w.compositionAuths = pre ++ ra ∧ w'.compositionAuths = pre ++ rb ∧
    pre.length = authCount c.composition.vector.config.height.val (queries.map (·.val))
  /-- FRI: the two runs have traces with the same query lists in every layer, and every inner
      layer agrees on coset indices, coset rows, next queries, consumed leaves and consumed
      authentication nodes (`LayerAgree`) -/
  fri : ∃ evals points q q' nl nl',
    AcceptTrace H queries c.fri evals points w.friLayers q nl ∧
    AcceptTrace H queries c.fri evals points w'.friLayers q' nl' ∧
    (∀ i, i ≤ (c.fri.config.nLayers - 1).val → q i = q' i) ∧
    ∀ i, i < (c.fri.config.nLayers - 1).val →
      LayerAgree c.fri w.friLayers w'.friLayers i (nl i) (nl' i)

/-- **B.** -/
theorem witness_agree {sec' : Felt} {r' : Felt × Felt} {w' : Stark.Witness}
    (A : Accepting L H stone6 p sec r n1 n2 d t' c queries tq)
    (hok' : Stark.verify L H stone6 ⟨p.config, p.publicInput, p.unsent, w'⟩ sec' = .ok r') :
    WitnessAgree H c queries p.witness w' ∨ Collision H ∨ ManyCollision H ∨ MaskedCollision H := by
  have A' : Accepting L H stone6 ⟨p.config, p.publicInput, p.unsent, w'⟩ sec' r' n1 n2 d t' c
      queries tq := accepting_of_parts' hok' A.cols1 A.cols2 A.domains A.commit A.sampled
  obtain ⟨hne, hs, hb, ⟨hh1, hr1⟩, ⟨hh2, hr2⟩, ⟨hh3, hr3⟩⟩ := accepting_table_side A
  obtain ⟨a1, a2, a3, _, points, evals, a5, a6, a7⟩ := verifyPhase_ok_elim A.phase
  obtain ⟨b1, b2, b3, _, points', evals', b5, b6, b7⟩ := verifyPhase_ok_elim A'.phase
  simp only at b1 b2 b3 b5 b6 b7
  rw [a5] at b5; cases b5
  rcases table_two_openings _ hh1 _ _ _ _ _ hne hs hr1 a1 b1 with ⟨v1, p1⟩ | hc
  swap
  · exact Or.inr hc
  rcases table_two_openings _ hh2 _ _ _ _ _ hne hs hr2 a2 b2 with ⟨v2, p2⟩ | hc
  swap
  · exact Or.inr hc
  rcases table_two_openings _ hh3 _ _ _ _ _ hne hs hr3 a3 b3 with ⟨v3, p3⟩ | hc
  swap
  · exact Or.inr hc
  rw [← v1, ← v2, ← v3, a6] at b6
  cases b6
  obtain ⟨_, _, _, _, q, nl, ht⟩ := (verify_ok_iff_trace H _ _ _ _ _).mp a7
  obtain ⟨_, _, _, _, q', nl', ht'⟩ := (verify_ok_iff_trace H _ _ _ _ _).mp b7
  rcases fri_two_runs ht ht' hne hs hb (accepting_fri_heights A ht) with ⟨hq, hl⟩ | hc
  · exact Or.inl ⟨v1, v2, v3, p1, p2, p3, evals, points, q, q', nl, nl', ht, ht', hq, hl⟩
  · exact Or.inr hc

/-- every accepted proof carries at least `authCount` authentication nodes for each of the three
    tables (they were consumed) -/
theorem accepting_auths_length_ge (A : Accepting L H stone6 p sec r n1 n2 d t' c queries tq) :
    authCount c.tracesOriginal.vector.config.height.val (queries.map (·.val)) ≤
      p.witness.tracesOriginalAuths.length ∧
    authCount c.tracesInteraction.vector.config.height.val (queries.map (·.val)) ≤
      p.witness.tracesInteractionAuths.length ∧
    authCount c.composition.vector.config.height.val (queries.map (·.val)) ≤
      p.witness.compositionAuths.length := by
  obtain ⟨hne, hs, _, ⟨hh1, hr1⟩, ⟨hh2, hr2⟩, ⟨hh3, hr3⟩⟩ := accepting_table_side A
  obtain ⟨a1, a2, a3, _⟩ := verifyPhase_ok_elim A.phase
  exact ⟨table_auths_length_ge _ hh1 _ _ _ hne hs hr1 a1,
    table_auths_length_ge _ hh2 _ _ _ hne hs hr2 a2,
    table_auths_length_ge _ hh3 _ _ _ hne hs hr3 a3⟩

/-! ### C: lengths -/

/-- the OODS vector of every accepted proof (for the layout `L`) has `MASK_SIZE + CONSTRAINT_DEGREE`
    entries -/
theorem accept_oods_length (hok : Stark.verify L H stone6 p sec = .ok r) :
    p.unsent.oodsValues.length = L.maskSize + L.constraintDegree := by
  obtain ⟨n1, n2, d, t', c, qs, tq, A⟩ := verify_ok_elim hok
  exact A.oods_facts.2.1

/-- the last FRI layer of every accepted proof has `2^bound` coefficients (if shorter than `P`) -/
theorem accept_last_layer_length (hok : Stark.verify L H stone6 p sec = .ok r)
    (hlt : p.unsent.friLastLayerCoefficients.length < P) :
    p.unsent.friLastLayerCoefficients.length = 2 ^ p.config.fri.logLastLayerDegreeBound.val := by
  obtain ⟨n1, n2, d, t', c, qs, tq, A⟩ := verify_ok_elim hok
  have := A.fri_shape.2.1
  rwa [Nat.mod_eq_of_lt hlt] at this

/-- two accepted proofs with the same configuration, public input and unsent commitment have
    decommitment value lists of the same lengths -/
theorem decommitment_lengths_forced {sec' : Felt} {r' : Felt × Felt} {w' : Stark.Witness}
    (hok : Stark.verify L H stone6 p sec = .ok r)
    (hok' : Stark.verify L H stone6 ⟨p.config, p.publicInput, p.unsent, w'⟩ sec' = .ok r') :
    p.witness.tracesOriginalValues.length = w'.tracesOriginalValues.length ∧
    p.witness.tracesInteractionValues.length = w'.tracesInteractionValues.length ∧
    p.witness.compositionValues.length = w'.compositionValues.length := by
  obtain ⟨n1, n2, d, t', c, qs, tq, A⟩ := verify_ok_elim hok
  have A' : Accepting L H stone6 ⟨p.config, p.publicInput, p.unsent, w'⟩ sec' r' n1 n2 d t' c
      qs tq := accepting_of_parts' hok' A.cols1 A.cols2 A.domains A.commit A.sampled
  obtain ⟨_, _, x1, x2, x3⟩ := A.shape_facts
  obtain ⟨_, _, y1, y2, y3⟩ := A'.shape_facts
  simp only at y1 y2 y3
  exact ⟨x1.trans y1.symm, x2.trans y2.symm, x3.trans y3.symm⟩

end Swiftness.Proofs.Tamper
