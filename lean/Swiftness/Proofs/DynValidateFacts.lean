/-
  C14 (dynamic layout) helper lemmas, part 2: what an ACCEPTED assertion list says about the row ratios
  that `validate_public_input` divides by.  From the generated list (membership facts by kernel
  computation): the trace length is a power of two; each of the three unit row ratios and each
  switched-on builtin's row ratio is a power of two not exceeding the trace length (hence divides it).
-/
import Swiftness.Proofs.DynAssertsSound
import Swiftness.Model.LayoutDynamic
import Swiftness.Generated.DynamicParams
import Swiftness.Generated.Layout.dynamic_asserts

namespace Swiftness.DynAsserts
open Swiftness

theorem isPow2_iff (n : Nat) : isPow2 n = true ↔ ∃ k, n = 2 ^ k := by
  unfold isPow2
  rw [Bool.and_eq_true, bne_iff_ne, beq_iff_eq]
  exact Nat.ne_zero_and_sub_one_eq_zero_iff_isPowerOfTwo

theorem two_pow_64_lt_P : 2 ^ 64 < P := by decide +kernel

/-- `r` is a power of two and at most `T` -/
def Pow2Le (r T : Nat) : Prop := (∃ k, r = 2 ^ k) ∧ r ≤ T

theorem dpAt_val {dp : Array Nat} (hdp : ∀ i, dp.getD i 0 < 2 ^ 64) (i : Nat) :
    (dpAt dp i).val = dp.getD i 0 :=
  ofNat_val_of_lt (Nat.lt_trans (hdp i) two_pow_64_lt_P)

theorem activeG_some {dp : Array Nat} (hdp : ∀ i, dp.getD i 0 < 2 ^ 64) (j : Nat) :
    activeG dp (some j) = true ↔ dp.getD j 0 ≠ 0 := by
  simp only [activeG, bne_iff_ne, ne_eq]
  constructor
  · intro h h0
    apply h
    apply Fin.ext
    rw [dpAt_val hdp, h0]; rfl
  · intro h h0
    apply h
    have := congrArg Fin.val h0
    rw [dpAt_val hdp] at this
    exact this

/-- a floor quotient that is a (non-zero) power of two: the divisor is at most the dividend -/
theorem le_of_fdiv_pow2 {T r : Nat} {z : Felt} (hz : z = Felt.ofNat (T / r)) (hp : isPow2 z.val = true) :
    r ≤ T := by
  have hnz := isPow2_ne_zero hp
  rcases Nat.lt_or_ge T r with h | h
  · exfalso
    apply hnz
    rw [hz, Nat.div_eq_of_lt h]
    rfl
  · exact h

variable {u : Nat} {dp : Array Nat} {tl : Felt} {l : List Assert}

theorem tlen_pow2 (hC : check u dp tl l = .ok ()) (hm : (⟨none, .tlen, .pow2⟩ : Assert) ∈ l) :
    ∃ t, tl.val = 2 ^ t := by
  obtain ⟨x, hx, hh⟩ := check_ok_mem hC _ hm rfl
  cases hx
  exact (isPow2_iff _).mp hh

/-- `pow2 (dp r)` and `pow2 (tlen / dp r)` under the same guard -/
theorem ratio_fact (hdp : ∀ i, dp.getD i 0 < 2 ^ 64) (hC : check u dp tl l = .ok ()) (g : Option Nat)
    (r : Nat) (h1 : (⟨g, .dp r, .pow2⟩ : Assert) ∈ l) (h2 : (⟨g, .fdiv .tlen (.dp r), .pow2⟩ : Assert) ∈ l)
    (hg : activeG dp g = true) : Pow2Le (dp.getD r 0) tl.val := by
  obtain ⟨x, hx, hh⟩ := check_ok_mem hC _ h1 (by rw [active_eq]; exact hg)
  cases hx
  obtain ⟨z, hz, hhz⟩ := check_ok_mem hC _ h2 (by rw [active_eq]; exact hg)
  obtain ⟨a, b, ha, hb, _, hzv⟩ := eval_fdiv_inv hz
  cases ha; cases hb
  dsimp only [holds] at hh hhz
  rw [dpAt_val hdp] at hh hzv
  exact ⟨(isPow2_iff _).mp hh, le_of_fdiv_pow2 hzv hhz⟩

/-- `pow2 (dp r)` and `pow2 (tlen / (16 * dp r))` under the same guard (keccak) -/
theorem ratio_fact16 (hdp : ∀ i, dp.getD i 0 < 2 ^ 64) (hC : check u dp tl l = .ok ()) (g : Option Nat)
    (r : Nat) (h1 : (⟨g, .dp r, .pow2⟩ : Assert) ∈ l)
    (h2 : (⟨g, .fdiv .tlen (.mul (.lit 16) (.dp r)), .pow2⟩ : Assert) ∈ l)
    (hg : activeG dp g = true) : Pow2Le (dp.getD r 0) tl.val := by
  obtain ⟨x, hx, hh⟩ := check_ok_mem hC _ h1 (by rw [active_eq]; exact hg)
  cases hx
  obtain ⟨z, hz, hhz⟩ := check_ok_mem hC _ h2 (by rw [active_eq]; exact hg)
  obtain ⟨a, b, ha, hb, _, hzv⟩ := eval_fdiv_inv hz
  cases ha
  have hb' : b = Felt.ofNat 16 * dpAt dp r := by
    simp only [eval] at hb
    cases hb; rfl
  dsimp only [holds] at hh hhz
  have hbv : b.val = 16 * dp.getD r 0 := by
    have hP := two_pow_128_lt_P
    have := hdp r
    rw [hb', Fin.val_mul, dpAt_val hdp, ofNat_val_of_lt (by omega), Nat.mod_eq_of_lt (by omega)]
  rw [dpAt_val hdp] at hh
  rw [hbv] at hzv
  have := le_of_fdiv_pow2 hzv hhz
  exact ⟨(isPow2_iff _).mp hh, by omega⟩

end Swiftness.DynAsserts

namespace Swiftness.DynData
open Swiftness DynAsserts

/-- indices of the (switch, row ratio) parameters of the ten builtins, in `builtinTable` order, and of the
    three unit row ratios, in the generated `Vec<usize>` order -/
def genIdx (n : String) : Nat :=
  (Gen.DynamicParams.toVecOrder.idxOf? n).getD Gen.DynamicParams.toVecOrder.length

theorem builtin_idx : builtinTable.map (fun row => (genIdx row.1, genIdx row.2.1)) =
    [(336, 287), (339, 328), (333, 146), (331, 38), (332, 103), (334, 168), (337, 311), (338, 325),
     (330, 33), (335, 267)] := by decide +kernel

theorem unit_idx : ["memory_units_row_ratio", "range_check_units_row_ratio", "diluted_units_row_ratio"].map genIdx =
    [179, 329, 75] := by decide +kernel

/-- closed membership facts about the generated list -/
theorem gen_mem_tlen : (⟨none, .tlen, .pow2⟩ : Assert) ∈ Gen.Layout.dynamic.asserts := by decide +kernel

theorem gen_mem_units : ∀ r ∈ [179, 329, 75],
    (⟨none, .dp r, .pow2⟩ : Assert) ∈ Gen.Layout.dynamic.asserts ∧
    (⟨none, .fdiv .tlen (.dp r), .pow2⟩ : Assert) ∈ Gen.Layout.dynamic.asserts := by decide +kernel

theorem gen_mem_rows : ∀ gr ∈ [(336, 287), (339, 328), (333, 146), (331, 38), (332, 103), (337, 311), (338, 325),
      (330, 33), (335, 267)],
    (⟨some gr.1, .dp gr.2, .pow2⟩ : Assert) ∈ Gen.Layout.dynamic.asserts ∧
    (⟨some gr.1, .fdiv .tlen (.dp gr.2), .pow2⟩ : Assert) ∈ Gen.Layout.dynamic.asserts := by decide +kernel

theorem gen_mem_keccak :
    (⟨some 334, .dp 168, .pow2⟩ : Assert) ∈ Gen.Layout.dynamic.asserts ∧
    (⟨some 334, .fdiv .tlen (.mul (.lit 16) (.dp 168)), .pow2⟩ : Assert) ∈ Gen.Layout.dynamic.asserts := by
  decide +kernel

/-- what an accepted generated list says about the divisors of `validate_public_input` -/
structure AssertFacts (D : DynData) (dp : Array Nat) (T : Nat) : Prop where
  tpow : ∃ t, T = 2 ^ t
  units : ∀ n ∈ ["memory_units_row_ratio", "range_check_units_row_ratio", "diluted_units_row_ratio"],
    Pow2Le (D.dpv dp n) T
  rows : ∀ row ∈ builtinTable, D.dpv dp row.1 ≠ 0 → Pow2Le (D.dpv dp row.2.1) T

theorem dpIdx_eq (D : DynData) (hF : D.dpFields = Gen.DynamicParams.toVecOrder) (n : String) :
    D.dpIdx n = genIdx n := by
  unfold dpIdx genIdx; rw [hF]

theorem assertFacts (D : DynData) (hF : D.dpFields = Gen.DynamicParams.toVecOrder) {u : Nat}
    {dp : Array Nat} (hdp : ∀ i, dp.getD i 0 < 2 ^ 64) {tl : Felt}
    (hC : check u dp tl Gen.Layout.dynamic.asserts = .ok ()) : AssertFacts D dp tl.val where
  tpow := tlen_pow2 hC gen_mem_tlen
  units := by
    intro n hn
    have hidx : genIdx n ∈ [179, 329, 75] := by
      rw [← unit_idx]; exact List.mem_map_of_mem (f := genIdx) hn
    obtain ⟨h1, h2⟩ := gen_mem_units _ hidx
    have := ratio_fact hdp hC none _ h1 h2 rfl
    unfold dpv; rw [dpIdx_eq D hF]; exact this
  rows := by
    intro row hrow hon
    have hidx : (genIdx row.1, genIdx row.2.1) ∈ [(336, 287), (339, 328), (333, 146), (331, 38), (332, 103),
        (334, 168), (337, 311), (338, 325), (330, 33), (335, 267)] := by
      rw [← builtin_idx]; exact List.mem_map.mpr ⟨row, hrow, rfl⟩
    unfold dpv at hon ⊢
    rw [dpIdx_eq D hF] at hon ⊢
    have hg : activeG dp (some (genIdx row.1)) = true := (activeG_some hdp _).mpr hon
    by_cases hk : (genIdx row.1, genIdx row.2.1) = (334, 168)
    · have h1 := congrArg Prod.fst hk
      have h2 := congrArg Prod.snd hk
      dsimp only at h1 h2
      rw [h1] at hg; rw [h2]
      exact ratio_fact16 hdp hC _ _ gen_mem_keccak.1 gen_mem_keccak.2 hg
    · have hidx' : (genIdx row.1, genIdx row.2.1) ∈ [(336, 287), (339, 328), (333, 146), (331, 38), (332, 103),
          (337, 311), (338, 325), (330, 33), (335, 267)] := by
        simp only [List.mem_cons, List.mem_nil_iff, or_false] at hidx ⊢
        rcases hidx with h | h | h | h | h | h | h | h | h | h
        all_goals first
          | exact absurd h hk
          | simp [h]
      obtain ⟨h1, h2⟩ := gen_mem_rows _ hidx'
      exact ratio_fact hdp hC _ _ h1 h2 hg

end Swiftness.DynData
