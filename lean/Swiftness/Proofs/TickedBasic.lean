/-
  C17, instrumented semantics, part 0: the two step-counting monads and the charged primitives.
  Core Lean only (no Mathlib): the twins are written with the same literals / instances as the model.

  `Tk α`  — a value with the number of steps ("ticks") spent computing it (total model functions);
  `TO α`  — an `Outcome α` with the ticks spent until it was produced (functions that may fail: the
            ticks of a failing run are those spent up to the failure).

  A twin `fT` of a model function `f` is the SAME program written in one of these monads.  Ticks enter
  only through
    * `tick k` — one per loop iteration / recursive call, written at the head of the loop body;
    * the charged primitives of this file:
        hash calls      `poseidon2T`, `pedersenT`, `hashFUT`, `h256`-based straight-line code : 1 each;
                        `poseidonManyT l`, `maskedRowT l` : `l.length + 1` (one per absorbed element);
        transcript      `randomFeltT` : 1, `readFeltT`, `readU64T` : 3, `readFeltVectorT vs` : `vs.length + 2`;
        exponentiation  `powT`, `invT` : `Cost.F = 256` (the fuel of `Felt.powAux`, see `powAuxT_ticks`);
        bulk list ops   `mapT`, `flatMapT`, `reverseT` : number of elements produced;
                        `takeT n l`, `dropT n l` : `min n l.length` (elements walked — NOT `n`);
                        `appendT a b` : `a.length + b.length` (covers both the list append of the model
                        and the `Vec::push` / `extend` of the Rust code);
        callbacks       `ofOutcome o k` — an opaque / straight-line computation `o` charged `k`.
  NOT charged separately (unit cost, covered by the tick of the enclosing step): field arithmetic and
  comparisons, `List.length`, indexing `l[i]?`, `headD`, pattern matching on a bounded prefix, and the
  fixed-width byte encodings (32-byte `toBytesBE`, the 41/40-byte proof-of-work preimages).
-/
import Swiftness.Model.Cost

namespace Swiftness.Ticked
open Swiftness

/-! ### `Tk`: value + ticks -/

structure Tk (α : Type) where
  val : α
  ticks : Nat

namespace Tk
instance : Monad Tk where
  pure a := ⟨a, 0⟩
  bind x f := ⟨(f x.val).val, x.ticks + (f x.val).ticks⟩

/-- spend `k` steps -/
def tick (k : Nat) : Tk Unit := ⟨(), k⟩

@[simp] theorem pure_val {α} (a : α) : (pure a : Tk α).val = a := rfl
@[simp] theorem pure_ticks {α} (a : α) : (pure a : Tk α).ticks = 0 := rfl
@[simp] theorem bind_val {α β} (x : Tk α) (f : α → Tk β) : (x >>= f).val = (f x.val).val := rfl
@[simp] theorem bind_ticks {α β} (x : Tk α) (f : α → Tk β) :
    (x >>= f).ticks = x.ticks + (f x.val).ticks := rfl
@[simp] theorem tick_ticks (k : Nat) : (tick k).ticks = k := rfl
@[simp] theorem mk_val {α} (a : α) (k : Nat) : (Tk.mk a k).val = a := rfl
@[simp] theorem mk_ticks {α} (a : α) (k : Nat) : (Tk.mk a k).ticks = k := rfl
end Tk

/-! ### `TO`: outcome + ticks -/

structure TO (α : Type) where
  out : Outcome α
  ticks : Nat

namespace TO
instance : Monad TO where
  pure a := ⟨.ok a, 0⟩
  bind x f := match x.out with
    | .ok a => ⟨(f a).out, x.ticks + (f a).ticks⟩
    | .err e => ⟨.err e, x.ticks⟩
    | .panic s => ⟨.panic s, x.ticks⟩

def err {α} (e : String) : TO α := ⟨.err e, 0⟩
def panic {α} (s : String) : TO α := ⟨.panic s, 0⟩
def tick (k : Nat) : TO Unit := ⟨.ok (), k⟩
/-- an opaque (layout callback) or straight-line computation with outcome `o`, charged `k` steps -/
def ofOutcome {α} (o : Outcome α) (k : Nat) : TO α := ⟨o, k⟩
/-- `map_err` -/
def mapErr {α} (g : String → String) (x : TO α) : TO α :=
  ⟨match x.out with | .ok a => .ok a | .err e => .err (g e) | .panic s => .panic s, x.ticks⟩
/-- `a.and(b)` of two unit results that were BOTH evaluated (`traces_decommit`): panics first, then errors -/
def both (r1 r2 : TO Unit) : TO Unit :=
  ⟨match r1.out, r2.out with
    | .panic s, _ => .panic s
    | _, .panic s => .panic s
    | .err e, _ => .err e
    | _, .err e => .err e
    | .ok (), .ok () => .ok (), r1.ticks + r2.ticks⟩

instance : MonadLift Tk TO := ⟨fun x => ⟨.ok x.val, x.ticks⟩⟩

/-- ticks of the continuation `f` after an outcome `o` (none when `o` is a failure) -/
def rest {α β} (o : Outcome α) (f : α → TO β) : Nat := match o with | .ok a => (f a).ticks | _ => 0

@[simp] theorem pure_out {α} (a : α) : (pure a : TO α).out = .ok a := rfl
@[simp] theorem pure_ticks {α} (a : α) : (pure a : TO α).ticks = 0 := rfl
@[simp] theorem err_out {α} (e : String) : (err e : TO α).out = .err e := rfl
@[simp] theorem err_ticks {α} (e : String) : (err e : TO α).ticks = 0 := rfl
@[simp] theorem panic_out {α} (e : String) : (panic e : TO α).out = .panic e := rfl
@[simp] theorem panic_ticks {α} (e : String) : (panic e : TO α).ticks = 0 := rfl
@[simp] theorem tick_out (k : Nat) : (tick k).out = .ok () := rfl
@[simp] theorem tick_ticks (k : Nat) : (tick k).ticks = k := rfl
@[simp] theorem ofOutcome_out {α} (o : Outcome α) (k : Nat) : (ofOutcome o k).out = o := rfl
@[simp] theorem ofOutcome_ticks {α} (o : Outcome α) (k : Nat) : (ofOutcome o k).ticks = k := rfl
@[simp] theorem mapErr_ticks {α} (g : String → String) (x : TO α) : (mapErr g x).ticks = x.ticks := rfl
theorem mapErr_out {α} (g : String → String) (x : TO α) :
    (mapErr g x).out = match x.out with | .ok a => .ok a | .err e => .err (g e) | .panic s => .panic s := rfl
theorem mapErr_out_ok {α} (g : String → String) (x : TO α) (a : α) (h : (mapErr g x).out = .ok a) :
    x.out = .ok a := by
  rw [mapErr_out] at h; split at h <;> simp_all
@[simp] theorem both_ticks (r1 r2 : TO Unit) : (both r1 r2).ticks = r1.ticks + r2.ticks := rfl
theorem both_out (r1 r2 : TO Unit) : (both r1 r2).out =
    match r1.out, r2.out with
    | .panic s, _ => .panic s
    | _, .panic s => .panic s
    | .err e, _ => .err e
    | _, .err e => .err e
    | .ok (), .ok () => .ok () := rfl
@[simp] theorem monadLift_out {α} (x : Tk α) : (MonadLiftT.monadLift x : TO α).out = .ok x.val := rfl
@[simp] theorem monadLift_ticks {α} (x : Tk α) : (MonadLiftT.monadLift x : TO α).ticks = x.ticks := rfl
@[simp] theorem liftM_out {α} (x : Tk α) : (liftM x : TO α).out = .ok x.val := rfl
@[simp] theorem liftM_ticks {α} (x : Tk α) : (liftM x : TO α).ticks = x.ticks := rfl

@[simp] theorem bind_out {α β} (x : TO α) (f : α → TO β) :
    (x >>= f).out = x.out.bind (fun a => (f a).out) := by
  show (match x.out with | .ok a => _ | .err e => _ | .panic s => _ : TO β).out = _
  cases x.out <;> rfl
@[simp] theorem bind_ticks {α β} (x : TO α) (f : α → TO β) :
    (x >>= f).ticks = x.ticks + rest x.out f := by
  show (match x.out with | .ok a => _ | .err e => _ | .panic s => _ : TO β).ticks = _
  cases x.out <;> rfl
@[simp] theorem rest_ok {α β} (a : α) (f : α → TO β) : rest (.ok a) f = (f a).ticks := rfl
@[simp] theorem rest_err {α β} (e : String) (f : α → TO β) : rest (.err e) f = 0 := rfl
@[simp] theorem rest_panic {α β} (e : String) (f : α → TO β) : rest (.panic e) f = 0 := rfl
theorem rest_le {α β} (o : Outcome α) (f : α → TO β) (B : Nat) (h : ∀ a, o = .ok a → (f a).ticks ≤ B) :
    rest o f ≤ B := by
  cases o <;> simp_all

/-- the compositional form of the tick bound of a `bind` -/
theorem bind_ticks_le {α β} (x : TO α) (f : α → TO β) (A B : Nat) (hx : x.ticks ≤ A)
    (hf : ∀ a, x.out = .ok a → (f a).ticks ≤ B) : (x >>= f).ticks ≤ A + B := by
  rw [bind_ticks]; exact Nat.add_le_add hx (rest_le _ _ _ hf)
end TO

@[simp] theorem Outcome.bind_ok {α β} (a : α) (f : α → Outcome β) : (Outcome.ok a).bind f = f a := rfl
@[simp] theorem Outcome.bind_err {α β} (e : String) (f : α → Outcome β) :
    (Outcome.err e : Outcome α).bind f = .err e := rfl
@[simp] theorem Outcome.bind_panic {α β} (e : String) (f : α → Outcome β) :
    (Outcome.panic e : Outcome α).bind f = .panic e := rfl

theorem Outcome.bind_not_ok {α} (o : Outcome α) (f : α → Outcome α) (h : ∀ r, ¬ o = .ok r) :
    o.bind f = o := by
  cases o <;> simp_all

/-! ### charged primitives -/

section prims
variable {α β : Type}

def takeT (n : Nat) (l : List α) : Tk (List α) := ⟨l.take n, min n l.length⟩
def dropT (n : Nat) (l : List α) : Tk (List α) := ⟨l.drop n, min n l.length⟩
def mapT (f : α → β) (l : List α) : Tk (List β) := ⟨l.map f, l.length⟩
def flatMapT (f : α → List β) (l : List α) : Tk (List β) := ⟨l.flatMap f, (l.flatMap f).length⟩
def appendT (a b : List α) : Tk (List α) := ⟨a ++ b, a.length + b.length⟩
def reverseT (l : List α) : Tk (List α) := ⟨l.reverse, l.length⟩

@[simp] theorem takeT_val (n : Nat) (l : List α) : (takeT n l).val = l.take n := rfl
@[simp] theorem takeT_ticks (n : Nat) (l : List α) : (takeT n l).ticks = min n l.length := rfl
@[simp] theorem dropT_val (n : Nat) (l : List α) : (dropT n l).val = l.drop n := rfl
@[simp] theorem dropT_ticks (n : Nat) (l : List α) : (dropT n l).ticks = min n l.length := rfl
@[simp] theorem mapT_val (f : α → β) (l : List α) : (mapT f l).val = l.map f := rfl
@[simp] theorem mapT_ticks (f : α → β) (l : List α) : (mapT f l).ticks = l.length := rfl
@[simp] theorem flatMapT_val (f : α → List β) (l : List α) : (flatMapT f l).val = l.flatMap f := rfl
@[simp] theorem flatMapT_ticks (f : α → List β) (l : List α) :
    (flatMapT f l).ticks = (l.flatMap f).length := rfl
@[simp] theorem appendT_val (a b : List α) : (appendT a b).val = a ++ b := rfl
@[simp] theorem appendT_ticks (a b : List α) : (appendT a b).ticks = a.length + b.length := rfl
@[simp] theorem reverseT_val (l : List α) : (reverseT l).val = l.reverse := rfl
@[simp] theorem reverseT_ticks (l : List α) : (reverseT l).ticks = l.length := rfl
end prims

def powT (a : Felt) (e : Nat) : Tk Felt := ⟨Felt.pow a e, Cost.F⟩
def invT (a : Felt) : Tk Felt := ⟨Felt.inv a, Cost.F⟩
@[simp] theorem powT_val (a : Felt) (e : Nat) : (powT a e).val = Felt.pow a e := rfl
@[simp] theorem powT_ticks (a : Felt) (e : Nat) : (powT a e).ticks = Cost.F := rfl
@[simp] theorem invT_val (a : Felt) : (invT a).val = Felt.inv a := rfl
@[simp] theorem invT_ticks (a : Felt) : (invT a).ticks = Cost.F := rfl

/-- justification of the fixed charge `F`: the square-and-multiply loop, one tick per call -/
def powAuxT : Nat → Felt → Nat → Tk Felt
  | 0, _, _ => pure 1
  | fuel + 1, a, e => do
    Tk.tick 1
    if e = 0 then pure 1
    else do
      let r ← powAuxT fuel (a * a) (e / 2)
      if e % 2 = 1 then pure (a * r) else pure r

theorem powAuxT_val (fuel : Nat) (a : Felt) (e : Nat) : (powAuxT fuel a e).val = Felt.powAux fuel a e := by
  induction fuel generalizing a e with
  | zero => rfl
  | succ n ih =>
    simp only [powAuxT, Felt.powAux, Tk.bind_val]
    split
    · rfl
    · simp only [Tk.bind_val, ih]; split <;> rfl

theorem powAuxT_ticks (fuel : Nat) (a : Felt) (e : Nat) : (powAuxT fuel a e).ticks ≤ fuel := by
  induction fuel generalizing a e with
  | zero => simp [powAuxT]
  | succ n ih =>
    simp only [powAuxT, Tk.bind_ticks, Tk.tick_ticks]
    split
    · simp
    · have := ih (a * a) (e / 2)
      simp only [Tk.bind_ticks]
      split <;> simp <;> omega

/-- `Felt.pow a e` is `powAuxT 256 a e`, which takes at most `F` steps -/
theorem pow_steps (a : Felt) (e : Nat) :
    (powAuxT 256 a e).val = Felt.pow a e ∧ (powAuxT 256 a e).ticks ≤ Cost.F :=
  ⟨powAuxT_val 256 a e, powAuxT_ticks 256 a e⟩

/-! hashes -/

def poseidon2T (H : Hashes) (x y : Felt) : Tk Felt := ⟨H.poseidon2 x y, 1⟩
def pedersenT (H : Hashes) (x y : Felt) : Tk Felt := ⟨H.pedersen x y, 1⟩
def poseidonManyT (H : Hashes) (l : List Felt) : Tk Felt := ⟨H.poseidonMany l, l.length + 1⟩
/-- masked hash of a row: `32 * row.length` bytes are absorbed -/
def maskedRowT (H : Hashes) (row : List Felt) : Tk Felt :=
  ⟨H.masked (row.flatMap Felt.toBytesBE), row.length + 1⟩
/-- `hash_friendly_unfriendly`: one hash call on two field elements -/
def hashFUT (H : Hashes) (x y : Felt) (friendly : Bool) : Tk Felt := ⟨Vector.hashFU H x y friendly, 1⟩

@[simp] theorem poseidon2T_val (H : Hashes) (x y : Felt) : (poseidon2T H x y).val = H.poseidon2 x y := rfl
@[simp] theorem poseidon2T_ticks (H : Hashes) (x y : Felt) : (poseidon2T H x y).ticks = 1 := rfl
@[simp] theorem pedersenT_val (H : Hashes) (x y : Felt) : (pedersenT H x y).val = H.pedersen x y := rfl
@[simp] theorem pedersenT_ticks (H : Hashes) (x y : Felt) : (pedersenT H x y).ticks = 1 := rfl
@[simp] theorem poseidonManyT_val (H : Hashes) (l : List Felt) : (poseidonManyT H l).val = H.poseidonMany l := rfl
@[simp] theorem poseidonManyT_ticks (H : Hashes) (l : List Felt) : (poseidonManyT H l).ticks = l.length + 1 := rfl
@[simp] theorem maskedRowT_val (H : Hashes) (l : List Felt) :
    (maskedRowT H l).val = H.masked (l.flatMap Felt.toBytesBE) := rfl
@[simp] theorem maskedRowT_ticks (H : Hashes) (l : List Felt) : (maskedRowT H l).ticks = l.length + 1 := rfl
@[simp] theorem hashFUT_val (H : Hashes) (x y : Felt) (b : Bool) : (hashFUT H x y b).val = Vector.hashFU H x y b := rfl
@[simp] theorem hashFUT_ticks (H : Hashes) (x y : Felt) (b : Bool) : (hashFUT H x y b).ticks = 1 := rfl

/-! transcript -/

def randomFeltT (H : Hashes) (t : Transcript) : Tk (Felt × Transcript) := ⟨t.randomFelt H, 1⟩
def readFeltT (H : Hashes) (t : Transcript) (v : Felt) : Tk Transcript := ⟨t.readFelt H v, 3⟩
def readFeltVectorT (H : Hashes) (t : Transcript) (vs : List Felt) : Tk Transcript :=
  ⟨t.readFeltVector H vs, vs.length + 2⟩
def readU64T (H : Hashes) (t : Transcript) (n : Nat) : Tk Transcript := ⟨t.readU64 H n, 3⟩

@[simp] theorem randomFeltT_val (H : Hashes) (t : Transcript) : (randomFeltT H t).val = t.randomFelt H := rfl
@[simp] theorem randomFeltT_ticks (H : Hashes) (t : Transcript) : (randomFeltT H t).ticks = 1 := rfl
@[simp] theorem readFeltT_val (H : Hashes) (t : Transcript) (v : Felt) : (readFeltT H t v).val = t.readFelt H v := rfl
@[simp] theorem readFeltT_ticks (H : Hashes) (t : Transcript) (v : Felt) : (readFeltT H t v).ticks = 3 := rfl
@[simp] theorem readFeltVectorT_val (H : Hashes) (t : Transcript) (vs : List Felt) :
    (readFeltVectorT H t vs).val = t.readFeltVector H vs := rfl
@[simp] theorem readFeltVectorT_ticks (H : Hashes) (t : Transcript) (vs : List Felt) :
    (readFeltVectorT H t vs).ticks = vs.length + 2 := rfl
@[simp] theorem readU64T_val (H : Hashes) (t : Transcript) (n : Nat) : (readU64T H t n).val = t.readU64 H n := rfl
@[simp] theorem readU64T_ticks (H : Hashes) (t : Transcript) (n : Nat) : (readU64T H t n).ticks = 3 := rfl

/-! ### the layout callbacks' cost functions -/

/-- the ACTUAL step counts of the opaque callbacks of a `LayoutOps`, as functions of their arguments -/
structure LayoutCostFn where
  evalComposition : List Felt → PublicInput → List Felt → List Felt → Felt → Felt → Felt → Nat
  evalOods : PublicInput → List Felt → List Felt → List Felt → Felt → Felt → Felt → Nat
  validatePublicInput : PublicInput → StarkDomains → Nat
  verifyPublicInput : PublicInput → Nat

/-- the callbacks' costs are bounded as `LayoutCost` (`Model/Cost.lean`) declares -/
structure LayoutCostFn.BoundedBy (KF : LayoutCostFn) (K : LayoutCost) : Prop where
  comp : ∀ ie pi mask coefs z tds tg,
    KF.evalComposition ie pi mask coefs z tds tg ≤ K.compA + K.compB * pi.size
  oods : ∀ pi cols ov coefs x z tg, KF.evalOods pi cols ov coefs x z tg ≤ K.oods
  pub : ∀ pi d, KF.validatePublicInput pi d + KF.verifyPublicInput pi ≤ K.piA + K.piB * pi.size

end Swiftness.Ticked
