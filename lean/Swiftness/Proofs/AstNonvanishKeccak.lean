/-
  Per-layout kernel-checked facts for C16, "no coefficient position is identically zero" (restated in
  `Props/C16.lean`): on the generated witness input the fast shadow run (`Model/AstFast.lean`) executes ALL
  accumulate statements of the generated program and every term is non-zero.  Split over several modules so
  that they build in parallel.  Programs and witnesses are referred to by name only.
-/
import Swiftness.Proofs.AstFast
import Swiftness.Generated.Consts
import Swiftness.Generated.Layout.starknet_with_keccak
import Swiftness.Generated.Witness.starknet_with_keccak

set_option maxRecDepth 100000

namespace Swiftness.Proofs.AstFast.Facts
open Swiftness Swiftness.Ast Swiftness.Ast.Fast Swiftness.Gen Swiftness.Gen.Layout

theorem nz_starknet_with_keccak_composition :
    nzCount starknet_with_keccak.witnessComposition starknet_with_keccak.witnessCompositionInv starknet_with_keccak.composition = some starknet_with_keccak.N_CONSTRAINTS := by
  ast_nz starknet_with_keccak.composition

theorem nz_starknet_with_keccak_oods :
    nzCount starknet_with_keccak.witnessOods starknet_with_keccak.witnessOodsInv starknet_with_keccak.oods = some (starknet_with_keccak.MASK_SIZE + starknet_with_keccak.CONSTRAINT_DEGREE) := by
  ast_nz starknet_with_keccak.oods

end Swiftness.Proofs.AstFast.Facts
