/-
  C17, instrumented semantics, part 2: vector / table decommitment — twins and erasure.  Core Lean only.
-/
import Swiftness.Proofs.TickedBasic

namespace Swiftness.Ticked
open Swiftness

/-- twin of `Vector.computeRoot`: per iteration one tick, one hash call, and the re-queued parent
    (`rest ++ [parent]`, charged as a list append) -/
def computeRootT (H : Hashes) (nFriendly : Felt) : Nat → List Vector.QD → List Felt → TO Felt
  | 0, _, _ => TO.err "fuel"
  | fuel + 1, queue, auths => do
    TO.tick 1
    match queue with
    | [] => TO.err "IndexInvalid"
    | cur :: rest =>
      if cur.index = 1 then pure cur.value
      else
        let parent := Felt.ofNat (cur.index.val / 2)
        let bit := cur.index.val % 2
        let friendly := decide (nFriendly.val ≥ cur.depth.val)
        let withAuth : Unit → TO Felt := fun _ =>
          match auths with
          | [] => TO.err "IndexInvalid"
          | a :: auths' => do
            let h ← (if bit = 0 then hashFUT H cur.value a friendly else hashFUT H a cur.value friendly)
            let queue' ← appendT rest [⟨parent, h, cur.depth - 1⟩]
            computeRootT H nFriendly fuel queue' auths'
        if bit = 0 then
          match rest with
          | next :: rest' =>
            if cur.index + 1 = next.index then do
              let h ← hashFUT H cur.value next.value friendly
              let queue' ← appendT rest' [⟨parent, h, cur.depth - 1⟩]
              computeRootT H nFriendly fuel queue' auths
            else withAuth ()
          | [] => withAuth ()
        else withAuth ()

/-- twin of `Vector.decommit` -/
def vectorDecommitT (H : Hashes) (c : Vector.Commitment) (queries : List Vector.Query) (auths : List Felt) :
    TO Unit := do
  TO.tick 1
  let shift ← powT 2 c.config.height.val
  let shifted ← mapT (fun q => (⟨q.index + shift, q.value, c.config.height⟩ : Vector.QD)) queries
  let r ← computeRootT H c.config.nFriendly (shifted.length + auths.length + 1) shifted auths
  if c.root ≠ r then TO.err "MisMatch" else pure ()

/-- twin of `Table.rowHash`: one tick per absorbed element -/
def rowHashT (H : Hashes) (nColumns : Nat) (friendly : Bool) (row : List Felt) : Tk Felt :=
  if nColumns = 1 then do Tk.tick 1; pure (row.headD 0)
  else if friendly then poseidonManyT H row
  else maskedRowT H row

/-- twin of `Table.vectorQueries` -/
def vectorQueriesT (H : Hashes) (nColumns : Nat) (friendly : Bool) :
    List Felt → List Felt → Tk (List Vector.Query)
  | [], _ => pure []
  | q :: qs, values => do
    Tk.tick 1
    let row ← takeT nColumns values
    let h ← rowHashT H nColumns friendly row
    let rest ← dropT nColumns values
    let r ← vectorQueriesT H nColumns friendly qs rest
    pure (⟨q, h⟩ :: r)

/-- twin of `Table.decommit` -/
def tableDecommitT (H : Hashes) (c : Table.Commitment) (queries values auths : List Felt) : TO Unit := do
  TO.tick 1
  let bottomDepth := c.vector.config.height + 1
  let friendly := decide (c.vector.config.nFriendly.val ≥ bottomDepth.val)
  if c.nColumns.val ≥ 2 ^ 32 then TO.err "TryFromBigInt"
  else if c.nColumns.val * queries.length ≠ values.length then TO.err "DecommitmentLength"
  else do
    let mont ← mapT (· * Table.MONTGOMERY_R) values
    let vq ← vectorQueriesT H c.nColumns.val friendly queries mont
    vectorDecommitT H c.vector vq auths

/-! ### erasure -/

@[simp] theorem computeRootT_out (H : Hashes) (nf : Felt) (fuel : Nat) (queue : List Vector.QD)
    (auths : List Felt) :
    (computeRootT H nf fuel queue auths).out = Vector.computeRoot H nf fuel queue auths := by
  induction fuel generalizing queue auths with
  | zero => rfl
  | succ n ih =>
    simp only [computeRootT, Vector.computeRoot, TO.bind_out, TO.tick_out, Outcome.bind_ok]
    repeat' split
    all_goals simp_all

@[simp] theorem vectorDecommitT_out (H : Hashes) (c : Vector.Commitment) (queries : List Vector.Query)
    (auths : List Felt) : (vectorDecommitT H c queries auths).out = Vector.decommit H c queries auths := by
  simp only [vectorDecommitT, Vector.decommit, TO.bind_out, TO.tick_out, Outcome.bind_ok, TO.monadLift_out,
    powT_val, mapT_val, computeRootT_out]
  repeat' split
  all_goals simp_all

@[simp] theorem rowHashT_val (H : Hashes) (nc : Nat) (fr : Bool) (row : List Felt) :
    (rowHashT H nc fr row).val = Table.rowHash H nc fr row := by
  unfold rowHashT Table.rowHash
  repeat' split
  all_goals simp

@[simp] theorem vectorQueriesT_val (H : Hashes) (nc : Nat) (fr : Bool) (qs values : List Felt) :
    (vectorQueriesT H nc fr qs values).val = Table.vectorQueries H nc fr qs values := by
  induction qs generalizing values with
  | nil => rfl
  | cons q qs ih => simp [vectorQueriesT, Table.vectorQueries, ih]

@[simp] theorem tableDecommitT_out (H : Hashes) (c : Table.Commitment) (queries values auths : List Felt) :
    (tableDecommitT H c queries values auths).out = Table.decommit H c queries values auths := by
  simp only [tableDecommitT, Table.decommit, TO.bind_out, TO.tick_out, Outcome.bind_ok]
  repeat' split
  all_goals simp

end Swiftness.Ticked
