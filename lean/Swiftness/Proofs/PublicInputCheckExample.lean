/-
  C14 helper lemmas, part 4: the recursive layout's generated data (`Generated/Consts.lean`,
  `Generated/Layout/recursive.lean`) is well-formed; concrete public inputs (non-vacuity and the
  short-trace witness).
-/
import Swiftness.Spec.PublicInputOK
import Swiftness.Generated.Consts
import Swiftness.Generated.Layout.recursive

namespace Swiftness.Proofs.PIC
open Swiftness Swiftness.LayoutData Swiftness.Spec

/-- the part of the recursive layout's `LayoutData` that `validate_public_input` /
    `verify_public_input` read (the driver loads the same values from the translator's text
    files; evaluator programs and field lists are irrelevant here and left empty) -/
def recursiveData : LayoutData where
  name := "recursive"
  consts := [("CPU_COMPONENT_HEIGHT", Gen.Layout.recursive.CPU_COMPONENT_HEIGHT),
    ("CPU_COMPONENT_STEP", Gen.Layout.recursive.CPU_COMPONENT_STEP),
    ("LAYOUT_CODE", Gen.Layout.recursive.LAYOUT_CODE),
    ("SEG_N_SEGMENTS", Gen.Layout.recursive.SEG_N_SEGMENTS),
    ("SEG_OUTPUT", Gen.Layout.recursive.SEG_OUTPUT),
    ("SEG_PROGRAM", Gen.Layout.recursive.SEG_PROGRAM),
    ("SEG_EXECUTION", Gen.Layout.recursive.SEG_EXECUTION),
    ("PM_MAX_LOG_N_STEPS", Gen.PublicMemory.MAX_LOG_N_STEPS),
    ("PM_MAX_RANGE_CHECK", Gen.PublicMemory.MAX_RANGE_CHECK),
    ("PM_MAX_ADDRESS", Gen.PublicMemory.MAX_ADDRESS),
    ("PM_INITIAL_PC", Gen.PublicMemory.INITIAL_PC)]
  builtins := Gen.Layout.recursive.builtinTable
  gvFields := []
  interactionFields := []
  composition := ([], 0)
  oods := ([], 0)
  periodic := []

theorem recursiveData_wellFormed : WellFormed recursiveData where
  maxLogNSteps := by decide
  maxRangeCheck := by decide
  cpu := by decide
  rows := by
    intro row hrow
    have h : row = (3, 2048, 3) ∨ row = (4, 128, 1) ∨ row = (5, 128, 5) := by
      simpa [recursiveData, Gen.Layout.recursive.builtinTable] using hrow
    rcases h with h | h | h <;> subst h
    · exact ⟨by decide, by decide, 11, by decide, by decide⟩
    · exact ⟨by decide, by decide, 7, by decide, by decide⟩
    · exact ⟨by decide, by decide, 7, by decide, by decide⟩

def seg (b s : Nat) : SegmentInfo := ⟨Felt.ofNat b, Felt.ofNat s⟩

def mkDomains (traceLen : Nat) : StarkDomains :=
  ⟨Felt.ofNat 0, Felt.ofNat 0, Felt.ofNat 0, Felt.ofNat 0, Felt.ofNat traceLen, Felt.ofNat 0⟩

/-- an honest small input: `2^7` steps (trace length `2048`), a 2-cell program at addresses 1, 2,
    one output cell at address 20, one Pedersen instance, 16 range-check cells, one bitwise
    instance -/
def goodPi : PublicInput where
  logNSteps := Felt.ofNat 7
  rangeCheckMin := Felt.ofNat 0
  rangeCheckMax := Felt.ofNat 65535
  layout := Felt.ofNat Gen.Layout.recursive.LAYOUT_CODE
  dynamicParams := none
  segments := [seg 1 5, seg 5 9, seg 20 21, seg 100 103, seg 200 216, seg 300 305]
  paddingAddr := Felt.ofNat 1
  paddingValue := Felt.ofNat 0
  mainPage := [⟨Felt.ofNat 1, Felt.ofNat 11⟩, ⟨Felt.ofNat 2, Felt.ofNat 22⟩, ⟨Felt.ofNat 20, Felt.ofNat 33⟩]
  continuousPageHeaders := []

theorem goodPi_validate : recursiveData.validatePublicInput goodPi (mkDomains 2048) = .ok () := by
  decide +kernel

theorem goodPi_verify (H : Hashes) :
    recursiveData.verifyPublicInput H goodPi =
      .ok (hashChain H [Felt.ofNat 11, Felt.ofNat 22], hashChain H [Felt.ofNat 33]) := by
  rfl

/-- the same page with the program cells at addresses 1001, 1002 -/
def shiftedPi : PublicInput :=
  { goodPi with mainPage := [⟨Felt.ofNat 1001, Felt.ofNat 11⟩, ⟨Felt.ofNat 1002, Felt.ofNat 22⟩,
      ⟨Felt.ofNat 20, Felt.ofNat 33⟩] }

theorem shiftedPi_verify (H : Hashes) :
    recursiveData.verifyPublicInput H shiftedPi = .err "MainPageInvalid" := by
  rfl

/-- SHORT TRACE (accepted before the `copies <= u128::MAX` check was added, now rejected): one step, trace length `16`, shorter than every builtin's row ratio
    (`2048`, `128`, `128`).  Pedersen usage `1` (not a multiple of `3`), range-check usage `1000`,
    bitwise usage `7` (not a multiple of `5`). -/
def shortPi : PublicInput :=
  { goodPi with
    logNSteps := Felt.ofNat 0
    segments := [seg 1 5, seg 5 9, seg 20 21, seg 100 101, seg 200 1200, seg 300 307] }

theorem shortPi_validate :
    recursiveData.validatePublicInput shortPi (mkDomains 16) = .err "UsesInvalid" := by
  decide +kernel

theorem shortPi_not_ok : ¬ PublicInputOK recursiveData shortPi 16 := by
  rintro ⟨_, _, _, _, _, _, _, h⟩
  obtain ⟨s, hs, hdvd, _⟩ := h (3, 2048, 3) (by decide)
  have h2 : some (seg 100 101) = some s := hs
  cases h2
  revert hdvd
  decide +kernel

end Swiftness.Proofs.PIC
