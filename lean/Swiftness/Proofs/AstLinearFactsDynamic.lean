/-
  Per-layout kernel-checked facts for C16 (restated in `Props/C16.lean`); split over several modules so
  that they build in parallel.  The generated programs are referred to by name only.
-/
import Swiftness.Proofs.AstLinearCover
import Swiftness.Proofs.AstChain
import Swiftness.Proofs.AstChainFlags
import Swiftness.Proofs.AstScope
import Swiftness.Generated.Consts
import Swiftness.Generated.DynamicParams
import Swiftness.Generated.Layout.dynamic

set_option maxRecDepth 100000

namespace Swiftness.Proofs.AstLinear.Facts
open Swiftness Swiftness.Ast Swiftness.Gen Swiftness.Gen.Layout

theorem linear_dynamic_composition :
    checkLinear dynamic.composition dynamic.compositionAcc dynamic.compositionRes = true := by
  ast_linear dynamic.composition

theorem linear_dynamic_oods :
    checkLinear dynamic.oods dynamic.oodsAcc dynamic.oodsRes = true := by
  ast_linear dynamic.oods

theorem coverage_dynamic_composition :
    checkCoverage dynamic.composition dynamic.N_CONSTRAINTS = true := by
  ast_coverage dynamic.composition

theorem coverage_dynamic_oods :
    checkCoverage dynamic.oods (dynamic.MASK_SIZE + dynamic.CONSTRAINT_DEGREE) = true := by
  ast_coverage dynamic.oods

theorem chain_dynamic_composition :
    checkChain dynamic.composition dynamic.compositionAcc dynamic.compositionRes = true := by
  ast_chain dynamic.composition

theorem chain_dynamic_oods :
    checkChain dynamic.oods dynamic.oodsAcc dynamic.oodsRes = true := by
  ast_chain dynamic.oods

theorem flagdisc_dynamic_oods : (flagMap dynamic.oods).isSome = true := by
  ast_flags dynamic.oods

theorem unguarded_dynamic_oods : unguarded dynamic.oods = true := by
  ast_unguarded dynamic.oods

theorem flags_dynamic_composition :
    (flagMap dynamic.composition).map (fun L => (accGuardSlots dynamic.composition).map
        fun g => (L.lookup g).map fun j => DynamicParams.fields.getD j "") =
      some [some "uses_pedersen_builtin", some "uses_range_check_builtin", some "uses_ecdsa_builtin",
        some "uses_bitwise_builtin", some "uses_ec_op_builtin", some "uses_keccak_builtin",
        some "uses_poseidon_builtin", some "uses_range_check96_builtin",
        some "uses_add_mod_builtin", some "uses_mul_mod_builtin"] := by
  have hnum : (flagMap dynamic.composition).map (fun L => (accGuardSlots dynamic.composition).map
      fun g => L.lookup g) = some [some 336, some 339, some 333, some 331, some 332, some 334,
        some 337, some 338, some 330, some 335] := by
    unfold flagMap accGuardSlots dynamic.composition
    simp only [Proofs.AstLinear.flagsFrom_append, Proofs.AstLinear.accGuards_append,
      List.flatMap_append]
    decide +kernel
  have := congrArg (Option.map (List.map (Option.map fun j => DynamicParams.fields.getD j ""))) hnum
  simp only [Option.map_map, Function.comp_def, List.map_map] at this
  exact this

end Swiftness.Proofs.AstLinear.Facts
