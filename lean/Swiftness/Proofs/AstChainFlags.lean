/-
  Which accumulate statements are executed in a guarded program (C16, dynamic layout): if the flag
  discipline `flagsFrom` holds, the accumulate statement for coefficient `i` is executed exactly when
  every one of its guard flags — each a dynamic parameter loaded by `g := felt!(dynamic_params.f)` —
  is non-zero in the field.
-/
import Swiftness.Proofs.AstChain
import Swiftness.Proofs.AstLinearCover

namespace Swiftness.Proofs.AstLinear
open Swiftness Swiftness.Ast
attribute [-instance] Fin.instOfNat

/-- the field value of the flag in slot `g` according to the load list `L` -/
def flagVal (inp : Inputs) (L : List (Nat × Nat)) (g : Nat) : Felt :=
  match L.lookup g with
  | some j => Felt.ofNat (inp.dp.getD j 0)
  | none => 0

/-- the coefficient indices whose guard flags are all non-zero, in program order -/
def expectedIdx (inp : Inputs) (L : List (Nat × Nat)) (p : Prog) : List Nat :=
  (accGuards p).filterMap fun x => if x.2.all (fun g => flagVal inp L g != 0) then some x.1 else none

/-! ### well-formedness of the checker state -/

structure FWF (σ : FlagState) : Prop where
  mem : ∀ x, σ.mask.testBit x = true ↔ x ∈ σ.loads.map (·.1)
  nodup : (σ.loads.map (·.1)).Nodup

theorem FWF.init : FWF ⟨0, []⟩ := ⟨fun x => by simp, by simp⟩

theorem testBit_or_bit (M x y : Nat) :
    (M ||| (1 <<< x)).testBit y = (M.testBit y || decide (x = y)) := by
  rw [Nat.testBit_or, Nat.one_shiftLeft, Nat.testBit_two_pow]

theorem flagStep_wf {σ σ1 : FlagState} {gs : List Nat} {s : Stmt} (h : flagStep σ gs s = some σ1)
    (hw : FWF σ) : FWF σ1 ∧ ∃ new, σ1.loads = new ++ σ.loads := by
  unfold flagStep at h
  split at h
  · next hc =>
    simp only [Bool.and_eq_true, Bool.not_eq_true'] at hc
    split at h
    · next x j =>
      cases h
      have hx : σ.mask.testBit x = false := hc.2
      refine ⟨⟨?_, ?_⟩, [(x, j)], rfl⟩
      · intro y
        simp only [testBit_or_bit, Bool.or_eq_true, decide_eq_true_eq, List.map_cons,
          List.mem_cons, hw.mem y]
        constructor
        · rintro (h | h)
          · exact Or.inr h
          · exact Or.inl h.symm
        · rintro (h | h)
          · exact Or.inr h.symm
          · exact Or.inl h
      · simp only [List.map_cons, List.nodup_cons]
        refine ⟨fun hm => ?_, hw.nodup⟩
        have := (hw.mem x).2 hm
        rw [hx] at this
        exact Bool.noConfusion this
    · cases h
      exact ⟨hw, [], rfl⟩
  · cases h

theorem flagsFrom_wf (p : Prog) : ∀ {σ σf : FlagState}, flagsFrom p σ = some σf → FWF σ →
    FWF σf ∧ ∃ new, σf.loads = new ++ σ.loads := by
  induction p with
  | nil =>
    intro σ σf h hw
    simp only [flagsFrom, Option.some.injEq] at h
    subst h
    exact ⟨hw, [], rfl⟩
  | cons g rest ih =>
    intro σ σf h hw
    simp only [flagsFrom] at h
    cases hs : flagStep σ g.guards g.stmt with
    | none => simp [hs] at h
    | some σ1 =>
      simp only [hs] at h
      obtain ⟨hw1, n1, h1⟩ := flagStep_wf hs hw
      obtain ⟨hwf, n2, h2⟩ := ih h hw1
      exact ⟨hwf, n2 ++ n1, by rw [h2, h1, List.append_assoc]⟩

theorem lookup_of_mem_nodup (L : List (Nat × Nat)) (hn : (L.map (·.1)).Nodup) (g j : Nat)
    (hm : (g, j) ∈ L) : L.lookup g = some j := by
  induction L with
  | nil => cases hm
  | cons a rest ih =>
    obtain ⟨x, y⟩ := a
    simp only [List.map_cons, List.nodup_cons] at hn
    simp only [List.mem_cons, Prod.mk.injEq] at hm
    rcases hm with ⟨hx, hy⟩ | hm
    · subst hx; subst hy
      simp [List.lookup]
    · have hne : g ≠ x := by
        intro e
        subst e
        exact hn.1 (List.mem_map.2 ⟨(g, j), hm, rfl⟩)
      simp only [List.lookup]
      split
      · next heq => exact absurd (beq_iff_eq.1 heq) hne
      · exact ih hn.2 hm

/-! ### the semantic invariant: loaded flags hold their parameter value -/

def FInv (inp : Inputs) (σ : FlagState) (sf : Store) : Prop :=
  ∀ x j, (x, j) ∈ σ.loads → sf x = Felt.ofNat (inp.dp.getD j 0)

theorem execFree_dst (inp : Inputs) (sf sf1 : Store) (s : Stmt) (h : execFree inp sf s = .ok sf1) :
    ∀ y, y ≠ s.dst → sf1 y = sf y := by
  intro y hy
  cases s with
  | set x e =>
    simp only [execFree] at h
    split at h
    · cases h; exact set_ne _ hy
    · cases h
    · cases h
  | acc dst src i e =>
    simp only [execFree] at h
    split at h
    · cases h; exact set_ne _ hy
    · cases h
    · cases h

theorem flagStep_inv {inp : Inputs} {σ σ1 : FlagState} {gs : List Nat} {s : Stmt} {sf sf1 : Store}
    (h : flagStep σ gs s = some σ1) (hw : FWF σ) (hinv : FInv inp σ sf)
    (hex : execFree inp sf s = .ok sf1) : FInv inp σ1 sf1 := by
  have hdst := execFree_dst inp sf sf1 s hex
  unfold flagStep at h
  split at h
  · next hc =>
    simp only [Bool.and_eq_true, Bool.not_eq_true'] at hc
    have hold : ∀ x j, (x, j) ∈ σ.loads → sf1 x = Felt.ofNat (inp.dp.getD j 0) := by
      intro x j hm
      have hx : σ.mask.testBit x = true := (hw.mem x).2 (List.mem_map.2 ⟨(x, j), hm, rfl⟩)
      have hne : x ≠ s.dst := by
        intro e; rw [e, hc.2] at hx; exact Bool.noConfusion hx
      rw [hdst x hne]
      exact hinv x j hm
    split at h
    · next x j =>
      cases h
      intro y k hm
      simp only [List.mem_cons, Prod.mk.injEq] at hm
      rcases hm with ⟨hy, hk⟩ | hm
      · subst hy; subst hk
        simp only [execFree, Expr.eval] at hex
        cases hd : inp.dp[k]? with
        | none => simp [hd] at hex
        | some v =>
          simp only [hd] at hex
          cases hex
          rw [set_eq]
          have : inp.dp.getD k 0 = v := by
            obtain ⟨hlt, hval⟩ := Array.getElem?_eq_some_iff.1 hd
            simp [Array.getD, hlt, hval]
          rw [this]
      · exact hold y k hm
    · cases h
      exact hold
  · cases h

/-! ### executed indices -/

theorem flags_run {A : Nat} (inp : Inputs) (c : Array Felt) (p : Prog)
    (hp : p.all (GStmt.linearOK A) = true) (Lf : List (Nat × Nat)) (hLf : (Lf.map (·.1)).Nodup) :
    ∀ {σ σf : FlagState} {st sf st' : Store},
      flagsFrom p σ = some σf → (∃ new, Lf = new ++ σf.loads) → FWF σ →
      FInv {inp with coeff := #[]} σ sf → Agree A st sf →
      run {inp with coeff := c} p st = .ok st' →
      (termsFrom {inp with coeff := #[]} p sf).map (·.1) = expectedIdx {inp with coeff := #[]} Lf p := by
  induction p with
  | nil => intro σ σf st sf st' _ _ _ _ _ _; rfl
  | cons g rest ih =>
    intro σ σf st sf st' hfl hext hw hinv hag hrun
    simp only [List.all_cons, Bool.and_eq_true] at hp
    obtain ⟨hg, hrest⟩ := hp
    obtain ⟨gs, s⟩ := g
    have hguards : gs.all (fun s => !A.testBit s) = true := by
      simp only [GStmt.linearOK, Bool.and_eq_true] at hg
      exact hg.1
    have gcong := guards_congr A st sf hag gs hguards
    simp only [flagsFrom] at hfl
    cases hs : flagStep σ gs s with
    | none => simp [hs] at hfl
    | some σ1 =>
      simp only [hs] at hfl
      obtain ⟨hw1, n1, hl1⟩ := flagStep_wf hs hw
      obtain ⟨-, n2, hl2⟩ := flagsFrom_wf rest hfl hw1
      obtain ⟨n3, hl3⟩ := hext
      -- every guard of this statement is a loaded flag whose value is `flagVal … Lf`
      have hgv : ∀ y ∈ gs, sf y = flagVal {inp with coeff := #[]} Lf y := by
        intro y hy
        have hmask : σ.mask.testBit y = true := by
          unfold flagStep at hs
          split at hs
          · next hc =>
            simp only [Bool.and_eq_true, List.all_eq_true] at hc
            exact hc.1 y hy
          · cases hs
        obtain ⟨⟨y', j⟩, hm, hy'⟩ := List.mem_map.1 ((hw.mem y).1 hmask)
        simp only at hy'
        subst hy'
        have hmf : (y', j) ∈ Lf := by
          rw [hl3, hl2, hl1]
          simp [hm]
        unfold flagVal
        rw [lookup_of_mem_nodup Lf hLf y' j hmf]
        exact hinv y' j hm
      have hgh : guardsHold sf gs =
          gs.all (fun y => flagVal {inp with coeff := #[]} Lf y != 0) := by
        unfold guardsHold
        rw [Bool.eq_iff_iff]
        simp only [List.all_eq_true]
        constructor
        · intro h y hy; rw [← hgv y hy]; exact h y hy
        · intro h y hy; rw [hgv y hy]; exact h y hy
      simp only [run] at hrun
      simp only [termsFrom]
      rw [← gcong] at hgh
      by_cases hgd : guardsHold st gs = true
      · simp only [hgd, if_true] at hrun
        rw [← gcong]
        simp only [hgd, if_true]
        cases hex : s.exec {inp with coeff := c} st with
        | ok st1 =>
          simp only [hex] at hrun
          obtain ⟨sf1, hsf, hag1, hidx⟩ := exec_shadow inp c hag s gs hg hex
          have hinv1 := flagStep_inv hs hw hinv hsf
          have ihr := ih hrest hfl ⟨n3, hl3⟩ hw1 hinv1 hag1 hrun
          simp only [hsf, List.map_append, hidx, ihr]
          cases s with
          | set x e => simp [expectedIdx, accGuards]
          | acc dst src i e =>
            simp only [expectedIdx, accGuards, List.filterMap_cons, ← hgh, hgd, if_true]
            rfl
        | err x => simp [hex] at hrun
        | panic x => simp [hex] at hrun
      · have hgd' : guardsHold st gs = false := by simpa using hgd
        simp only [hgd', Bool.false_eq_true, if_false] at hrun
        rw [← gcong]
        simp only [hgd', Bool.false_eq_true, if_false]
        -- skipped: the flag state may only change for an unguarded statement, which is never skipped
        have hσ : σ1 = σ := by
          unfold flagStep at hs
          split at hs
          · split at hs
            · simp [guardsHold_nil] at hgd'
            · cases hs; rfl
          · cases hs
        subst hσ
        have ihr := ih hrest hfl ⟨n3, hl3⟩ hw hinv hag hrun
        rw [ihr]
        cases s with
        | set x e => simp [expectedIdx, accGuards]
        | acc dst src i e =>
          simp only [expectedIdx, accGuards, List.filterMap_cons, ← hgh, hgd', Bool.false_eq_true,
            if_false]

/-- **Executed terms of a guarded program.**  If the flag discipline holds (`flagMap p = some L`),
    the accumulate statements executed in any successful run are exactly those whose guard flags
    are all non-zero. -/
theorem executedTerms_flags (p : Prog) (A res : Nat) (hl : checkLinear p A res = true)
    (L : List (Nat × Nat)) (hL : flagMap p = some L) (inp : Inputs) (c : Array Felt) (r : Felt)
    (h : evalProg {inp with coeff := c} p res = .ok r) :
    (executedTerms inp p).map (·.1) = expectedIdx inp L p := by
  simp only [checkLinear, Bool.and_eq_true] at hl
  unfold flagMap at hL
  cases hfl : flagsFrom p ⟨0, []⟩ with
  | none => simp [hfl] at hL
  | some σf =>
    simp only [hfl, Option.map_some, Option.some.injEq] at hL
    subst hL
    obtain ⟨hwf, -⟩ := flagsFrom_wf p hfl FWF.init
    unfold evalProg at h
    cases hrun : run {inp with coeff := c} p (fun _ => 0) with
    | ok st' =>
      have := flags_run inp c p hl.2 σf.loads hwf.nodup hfl ⟨[], rfl⟩ FWF.init
        (fun x j hm => by cases hm) (fun _ _ => rfl) hrun
      exact this
    | err x => simp [hrun] at h
    | panic x => simp [hrun] at h

/-! ### per-index form: coefficient `i` contributes iff its guard flags are non-zero -/

theorem accIndices_eq_map (p : Prog) : accIndices p = (accGuards p).map (·.1) := by
  induction p with
  | nil => rfl
  | cons g rest ih =>
    obtain ⟨gs, s⟩ := g
    cases s with
    | set x e => simpa only [accIndices, accGuards] using ih
    | acc dst src i e => simp only [accIndices, accGuards, List.map_cons, ih]

theorem not_mem_filterMap_guard (l : List (Nat × List Nat)) (P : List Nat → Bool) (i : Nat)
    (h : i ∉ l.map (·.1)) :
    i ∉ l.filterMap fun x => if P x.2 then some x.1 else none := by
  intro hm
  obtain ⟨x, hx, hxi⟩ := List.mem_filterMap.1 hm
  split at hxi
  · cases hxi
    exact h (List.mem_map.2 ⟨x, hx, rfl⟩)
  · cases hxi

theorem count_filterMap_guard (l : List (Nat × List Nat)) (P : List Nat → Bool) (i : Nat)
    (gs : List Nat) (hc : (l.map (·.1)).count i = 1) (hm : (i, gs) ∈ l) :
    (l.filterMap fun x => if P x.2 then some x.1 else none).count i = if P gs then 1 else 0 := by
  induction l with
  | nil => cases hm
  | cons a rest ih =>
    obtain ⟨a, g'⟩ := a
    by_cases hai : a = i
    · subst hai
      simp only [List.map_cons, List.count_cons_self, Nat.add_eq_right] at hc
      have hnot : a ∉ rest.map (·.1) := List.count_eq_zero.1 hc
      have hgs : gs = g' := by
        simp only [List.mem_cons, Prod.mk.injEq, true_and] at hm
        rcases hm with h | h
        · exact h
        · exact absurd (List.mem_map.2 ⟨(a, gs), h, rfl⟩) hnot
      subst hgs
      have h0 := List.count_eq_zero.2 (not_mem_filterMap_guard rest P a hnot)
      by_cases hPg : P gs = true
      · simp [hPg, h0]
      · simp [hPg, h0]
    · have hc' : (rest.map (·.1)).count i = 1 := by
        simpa only [List.map_cons, List.count_cons, beq_iff_eq, hai, if_false, Nat.add_zero] using hc
      have hm' : (i, gs) ∈ rest := by
        simp only [List.mem_cons, Prod.mk.injEq] at hm
        rcases hm with ⟨h, -⟩ | h
        · exact absurd h.symm hai
        · exact h
      have := ih hc' hm'
      simp only [List.filterMap_cons]
      split
      · exact this
      · next b hP =>
        split at hP
        · cases hP
          rw [List.count_cons_of_ne hai]
          exact this
        · cases hP

/-- coefficient `i` (accumulated under the guards `gs`) contributes exactly when all flags in `gs`
    are non-zero -/
theorem executed_count_flags (p : Prog) (A res n : Nat) (hl : checkLinear p A res = true)
    (hcov : checkCoverage p n = true) (L : List (Nat × Nat)) (hL : flagMap p = some L)
    (inp : Inputs) (c : Array Felt) (r : Felt)
    (h : evalProg {inp with coeff := c} p res = .ok r) (i : Nat) (hi : i < n) (gs : List Nat)
    (hm : (i, gs) ∈ accGuards p) :
    ((executedTerms inp p).map (·.1)).count i =
      if gs.all (fun g => flagVal inp L g != 0) then 1 else 0 := by
  rw [executedTerms_flags p A res hl L hL inp c r h]
  have hc := coverage_spec p n hcov i hi
  rw [accIndices_eq_map] at hc
  exact count_filterMap_guard (accGuards p) (fun gs => gs.all (fun g => flagVal inp L g != 0)) i gs hc hm

/-! ### bundles used by `Props/C16.lean` -/

/-- "No term is dropped" for a program without conditionals: in every successful run the result is
    the sum of `coeff[i] * term_i` over the executed accumulate statements, and every coefficient
    position `i < n` is executed exactly once. -/
structure AllTermsUsed (p : Prog) (res n : Nat) : Prop where
  sum : ∀ (inp : Inputs) (c : Array Felt) (r : Felt),
    evalProg {inp with coeff := c} p res = .ok r → r = wsum c (executedTerms inp p)
  once : ∀ (inp : Inputs) (c : Array Felt) (r : Felt),
    evalProg {inp with coeff := c} p res = .ok r →
    ∀ i, i < n → ((executedTerms inp p).map (·.1)).count i = 1

theorem allTermsUsed_of_checks (p : Prog) (A res n : Nat) (hl : checkLinear p A res = true)
    (hc : checkChain p A res = true) (hcov : checkCoverage p n = true)
    (hu : unguarded p = true) : AllTermsUsed p res n := by
  refine ⟨fun inp c r h => chain_sound p A res hl hc inp c r h, fun inp c r h i hi => ?_⟩
  rw [executedTerms_unguarded p A res hl hu inp c r h]
  exact coverage_spec p n hcov i hi

/-- "No term is dropped" for a program whose conditionals are component switches: the result is the
    sum over the executed accumulate statements, and coefficient position `i < n` (accumulated under
    the guards `gs`) is executed exactly once if all flags in `gs` are non-zero, and not at all
    otherwise.  `L` maps flag slots to dynamic-parameter indices. -/
structure TermsUsedIffFlags (p : Prog) (res n : Nat) (L : List (Nat × Nat)) : Prop where
  sum : ∀ (inp : Inputs) (c : Array Felt) (r : Felt),
    evalProg {inp with coeff := c} p res = .ok r → r = wsum c (executedTerms inp p)
  iff : ∀ (inp : Inputs) (c : Array Felt) (r : Felt),
    evalProg {inp with coeff := c} p res = .ok r →
    ∀ i, i < n → ∀ gs, (i, gs) ∈ accGuards p →
      ((executedTerms inp p).map (·.1)).count i =
        if gs.all (fun g => flagVal inp L g != 0) then 1 else 0

theorem termsUsedIffFlags_of_checks (p : Prog) (A res n : Nat) (hl : checkLinear p A res = true)
    (hc : checkChain p A res = true) (hcov : checkCoverage p n = true)
    (L : List (Nat × Nat)) (hL : flagMap p = some L) : TermsUsedIffFlags p res n L :=
  ⟨fun inp c r h => chain_sound p A res hl hc inp c r h,
   fun inp c r h i hi gs hm => executed_count_flags p A res n hl hcov L hL inp c r h i hi gs hm⟩

/-! ### `++` homomorphism -/

theorem flagsFrom_append (p q : Prog) (σ : FlagState) :
    flagsFrom (p ++ q) σ = (flagsFrom p σ).bind (flagsFrom q) := by
  induction p generalizing σ with
  | nil => rfl
  | cons g rest ih =>
    simp only [List.cons_append, flagsFrom]
    cases flagStep σ g.guards g.stmt with
    | none => rfl
    | some σ1 => exact ih σ1

end Swiftness.Proofs.AstLinear
