/-
  C06, generic algebra: coefficient lists, even/odd split, `2^k`-way split and the recursive FRI fold
  over an arbitrary field.
-/
import Swiftness.Spec.FoldSpec
import Mathlib.Algebra.BigOperators.Ring.Finset
import Mathlib.Algebra.Field.Basic
import Mathlib.Tactic.Ring
import Mathlib.Tactic.LinearCombination

namespace Swiftness.Proofs
open Swiftness FoldSpec

/-! ### lists -/

theorem evens_getElem? {α : Type} (l : List α) (m : ℕ) : (evens l)[m]? = l[2 * m]? := by
  induction l using evens.induct generalizing m with
  | case1 => simp [evens]
  | case2 a => cases m <;> simp [evens]
  | case3 a b t ih =>
    cases m with
    | zero => simp [evens]
    | succ m => simp only [evens, List.getElem?_cons_succ, ih, Nat.mul_succ]

theorem odds_getElem? {α : Type} (l : List α) (m : ℕ) : (odds l)[m]? = l[2 * m + 1]? := by
  induction l using odds.induct generalizing m with
  | case1 => simp [odds]
  | case2 a => cases m <;> simp [odds]
  | case3 a b t ih =>
    cases m with
    | zero => simp [odds]
    | succ m => simp only [odds, List.getElem?_cons_succ, ih, Nat.mul_succ]

/-- `split k cs j` is the sub-list of coefficients at positions `≡ j (mod 2^k)`. -/
theorem split_getElem? {α : Type} (k : ℕ) (cs : List α) (j m : ℕ) (hj : j < 2 ^ k) :
    (split k cs j)[m]? = cs[j + 2 ^ k * m]? := by
  induction k generalizing j m with
  | zero =>
    have : j = 0 := by simpa using hj
    subst this; simp [split]
  | succ k ih =>
    unfold split
    split
    · next h =>
      rw [evens_getElem?, ih _ _ h]
      congr 1; rw [pow_succ]; ring
    · next h =>
      have h2 : j - 2 ^ k < 2 ^ k := by rw [pow_succ] at hj; omega
      rw [odds_getElem?, ih _ _ h2]
      congr 1
      have : j = (j - 2 ^ k) + 2 ^ k := by omega
      conv_rhs => rw [this]
      rw [pow_succ]; ring

theorem evens_length_le {α : Type} (l : List α) : (evens l).length ≤ l.length := by
  induction l using evens.induct with
  | case1 => simp [evens]
  | case2 a => simp [evens]
  | case3 a b t ih => simp only [evens, List.length_cons]; omega

/-! ### polynomial identities over a field -/

section generic
variable {F : Type} [Field F]

/-- generic `fri_formula2` -/
def f2 (fx fmx e xi : F) : F := fx + fmx + e * xi * (fx - fmx)

theorem evalL_evens_odds (cs : List F) (x : F) :
    evalL cs x = evalL (evens cs) (x * x) + x * evalL (odds cs) (x * x) := by
  induction cs using evens.induct with
  | case1 => simp [evalL, evens, odds]
  | case2 a => simp [evalL, evens, odds]
  | case3 a b t ih => simp only [evalL, evens, odds, ih]; ring

theorem f2_identity (cs : List F) (x xi b : F) (h : x * xi = 1) :
    f2 (evalL cs x) (evalL cs (-x)) b xi
      = 2 * (evalL (evens cs) (x * x) + b * evalL (odds cs) (x * x)) := by
  unfold f2
  rw [evalL_evens_odds cs x, evalL_evens_odds cs (-x), neg_mul_neg]
  linear_combination (2 * b * evalL (odds cs) (x * x)) * h

theorem f2_linear (s : Finset ℕ) (c E zi : F) (a u v : ℕ → F) :
    f2 (c * ∑ j ∈ s, a j * u j) (c * ∑ j ∈ s, a j * v j) E zi
      = c * ∑ j ∈ s, a j * f2 (u j) (v j) E zi := by
  unfold f2
  simp only [Finset.mul_sum, ← Finset.sum_add_distrib, ← Finset.sum_sub_distrib]
  apply Finset.sum_congr rfl
  intro j _
  ring

/-- `P(x) = Σ_{j<2^k} x^j · P_j(x^(2^k))` -/
theorem split_spec (k : ℕ) (cs : List F) (x : F) :
    evalL cs x = ∑ j ∈ Finset.range (2 ^ k), x ^ j * evalL (split k cs j) (x ^ 2 ^ k) := by
  induction k with
  | zero => simp [split]
  | succ k ih =>
    rw [ih, pow_succ 2 k, mul_two, Finset.sum_range_add, ← Finset.sum_add_distrib]
    apply Finset.sum_congr rfl
    intro j hj
    have hj' : j < 2 ^ k := Finset.mem_range.mp hj
    have h1 : split (k + 1) cs j = evens (split k cs j) := by
      simp only [split, if_pos hj']
    have h2 : split (k + 1) cs (2 ^ k + j) = odds (split k cs j) := by
      have : ¬ (2 ^ k + j < 2 ^ k) := by omega
      simp only [split, if_neg this, Nat.add_sub_cancel_left]
    rw [h1, h2, evalL_evens_odds (split k cs j) (x ^ 2 ^ k), ← pow_add]
    ring

/-- The recursive fold: halves of the value list are folded with `x⁻¹` resp. `x⁻¹·om (k+1)`, the two
    results are combined by `f2` with challenge `e^(2^k)` and inverse point `(x⁻¹)^(2^k)`. -/
def foldRec (om : ℕ → F) : ℕ → List F → F → F → F
  | 0, v, _, _ => v.headD 0
  | k + 1, v, e, xi =>
    f2 (foldRec om k (v.take (2 ^ k)) e xi) (foldRec om k (v.drop (2 ^ k)) e (xi * om (k + 1)))
      (e ^ 2 ^ k) (xi ^ 2 ^ k)

theorem foldRec_succ (om : ℕ → F) (k : ℕ) (v : List F) (e xi : F) :
    foldRec om (k + 1) v e xi
      = f2 (foldRec om k (v.take (2 ^ k)) e xi) (foldRec om k (v.drop (2 ^ k)) e (xi * om (k + 1)))
          (e ^ 2 ^ k) (xi ^ 2 ^ k) := rfl

/-- The `j`-th element (`j < 2^k`) of the size-`2^k` coset of `1`, in the order in which `foldRec`
    consumes the values: `w (k+1) (j + 2^k) = w k j · wi (k+1)` where `wi (k+1) = (om (k+1))⁻¹`. -/
def cosetW (wi : ℕ → F) : ℕ → ℕ → F
  | 0, _ => 1
  | k + 1, j => if j < 2 ^ k then cosetW wi k j else cosetW wi k (j - 2 ^ k) * wi (k + 1)

theorem foldRec_spec (om wi : ℕ → F) (K : ℕ) (hom : ∀ k < K, om (k + 1) ^ 2 ^ k = -1)
    (hwi : ∀ k < K, wi (k + 1) * om (k + 1) = 1) (cs : List F) (b : F) :
    ∀ k ≤ K, ∀ x xi : F, x * xi = 1 →
      foldRec om k ((List.range (2 ^ k)).map (fun j => evalL cs (x * cosetW wi k j))) b xi
        = (2 : F) ^ k * ∑ j ∈ Finset.range (2 ^ k), b ^ j * evalL (split k cs j) (x ^ 2 ^ k) := by
  intro k
  induction k with
  | zero =>
    intro _ x xi _
    simp [foldRec, cosetW, split]
  | succ k ih =>
    intro hk x xi hx
    have hkK : k < K := hk
    have ihk := ih (Nat.le_of_lt hkK)
    have hlen : ((List.range (2 ^ k)).map (fun j => evalL cs (x * cosetW wi k j))).length = 2 ^ k := by
      simp
    have hlist : (List.range (2 ^ (k + 1))).map (fun j => evalL cs (x * cosetW wi (k + 1) j))
        = (List.range (2 ^ k)).map (fun j => evalL cs (x * cosetW wi k j))
          ++ (List.range (2 ^ k)).map (fun j => evalL cs ((x * wi (k + 1)) * cosetW wi k j)) := by
      rw [pow_succ 2 k, mul_two, List.range_add, List.map_append, List.map_map]
      congr 1
      · apply List.map_congr_left
        intro j hj
        have hj' : j < 2 ^ k := List.mem_range.mp hj
        simp only [cosetW, if_pos hj']
      · apply List.map_congr_left
        intro j _
        have : ¬ (2 ^ k + j < 2 ^ k) := by omega
        simp only [Function.comp, cosetW, if_neg this, Nat.add_sub_cancel_left]
        congr 1; ring
    have hw : wi (k + 1) ^ 2 ^ k = -1 := by
      have h1 := congrArg (· ^ 2 ^ k) (hwi k hkK)
      simp only [mul_pow, hom k hkK, one_pow] at h1
      linear_combination -h1
    have hx' : (x * wi (k + 1)) * (xi * om (k + 1)) = 1 := by
      linear_combination (wi (k + 1) * om (k + 1)) * hx + hwi k hkK
    have hz : x ^ 2 ^ k * xi ^ 2 ^ k = 1 := by rw [← mul_pow, hx, one_pow]
    rw [hlist]
    unfold foldRec
    rw [List.take_left' hlen, List.drop_left' hlen, ihk x xi hx, ihk _ _ hx', mul_pow, hw,
      mul_neg_one, f2_linear]
    have hstep : ∀ j, f2 (evalL (split k cs j) (x ^ 2 ^ k)) (evalL (split k cs j) (-(x ^ 2 ^ k)))
        (b ^ 2 ^ k) (xi ^ 2 ^ k)
        = 2 * (evalL (evens (split k cs j)) (x ^ 2 ^ (k + 1))
          + b ^ 2 ^ k * evalL (odds (split k cs j)) (x ^ 2 ^ (k + 1))) := by
      intro j
      rw [f2_identity _ _ _ _ hz, ← pow_two, ← pow_mul, ← pow_succ]
    simp only [hstep]
    rw [pow_succ 2 k, mul_two, Finset.sum_range_add, ← Finset.sum_add_distrib, ← mul_two,
      ← pow_succ 2 k, pow_succ (2 : F) k, mul_assoc, Finset.mul_sum _ _ (2 : F)]
    congr 1
    apply Finset.sum_congr rfl
    intro j hj
    have hj' : j < 2 ^ k := Finset.mem_range.mp hj
    have h1 : split (k + 1) cs j = evens (split k cs j) := by
      simp only [split, if_pos hj']
    have h2 : split (k + 1) cs (2 ^ k + j) = odds (split k cs j) := by
      have : ¬ (2 ^ k + j < 2 ^ k) := by omega
      simp only [split, if_neg this, Nat.add_sub_cancel_left]
    rw [h1, h2, pow_add]
    ring

end generic

end Swiftness.Proofs
