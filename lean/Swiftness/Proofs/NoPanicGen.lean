/-
  C18, per-layout facts: the translated evaluators of the six static layouts pass the syntactic
  bounds check `Ast.boundsOK` for the layout's own sizes.  The generated programs and constants are
  mentioned BY NAME only (they are regenerated from the Rust sources on every run); each fact is one
  kernel evaluation, distributed over the `chunk_0 ++ chunk_1 ++ …` structure of the program.
-/
import Swiftness.Proofs.NoPanicAst
import Swiftness.Proofs.NoPanicLayout
import Swiftness.Generated.Consts
import Swiftness.Generated.Layout.dex
import Swiftness.Generated.Layout.recursive
import Swiftness.Generated.Layout.recursive_with_poseidon
import Swiftness.Generated.Layout.small
import Swiftness.Generated.Layout.starknet
import Swiftness.Generated.Layout.starknet_with_keccak

set_option maxRecDepth 100000

namespace Swiftness.Proofs.NoPanic
open Swiftness Swiftness.Ast Swiftness.Gen Swiftness.Gen.Layout

/-! ### `dex` -/

theorem bounds_dex_composition :
    boundsOK dex.composition dex.MASK_SIZE 0 0 dex.N_CONSTRAINTS dex.globalValueFields.length 0 = true := by
  ast_bounds dex.composition

theorem bounds_dex_oods :
    boundsOK dex.oods 0 (dex.NUM_COLUMNS_FIRST + dex.NUM_COLUMNS_SECOND + dex.CONSTRAINT_DEGREE)
      (dex.MASK_SIZE + dex.CONSTRAINT_DEGREE) (dex.MASK_SIZE + dex.CONSTRAINT_DEGREE) 0 0 = true := by
  ast_bounds dex.oods

/-! ### `recursive` -/

theorem bounds_recursive_composition :
    boundsOK recursive.composition recursive.MASK_SIZE 0 0 recursive.N_CONSTRAINTS
      recursive.globalValueFields.length 0 = true := by
  ast_bounds recursive.composition

theorem bounds_recursive_oods :
    boundsOK recursive.oods 0
      (recursive.NUM_COLUMNS_FIRST + recursive.NUM_COLUMNS_SECOND + recursive.CONSTRAINT_DEGREE)
      (recursive.MASK_SIZE + recursive.CONSTRAINT_DEGREE) (recursive.MASK_SIZE + recursive.CONSTRAINT_DEGREE)
      0 0 = true := by
  ast_bounds recursive.oods

/-! ### `recursive_with_poseidon` -/

theorem bounds_recursive_with_poseidon_composition :
    boundsOK recursive_with_poseidon.composition recursive_with_poseidon.MASK_SIZE 0 0
      recursive_with_poseidon.N_CONSTRAINTS recursive_with_poseidon.globalValueFields.length 0 = true := by
  ast_bounds recursive_with_poseidon.composition

theorem bounds_recursive_with_poseidon_oods :
    boundsOK recursive_with_poseidon.oods 0
      (recursive_with_poseidon.NUM_COLUMNS_FIRST + recursive_with_poseidon.NUM_COLUMNS_SECOND
        + recursive_with_poseidon.CONSTRAINT_DEGREE)
      (recursive_with_poseidon.MASK_SIZE + recursive_with_poseidon.CONSTRAINT_DEGREE)
      (recursive_with_poseidon.MASK_SIZE + recursive_with_poseidon.CONSTRAINT_DEGREE) 0 0 = true := by
  ast_bounds recursive_with_poseidon.oods

/-! ### `small` -/

theorem bounds_small_composition :
    boundsOK small.composition small.MASK_SIZE 0 0 small.N_CONSTRAINTS small.globalValueFields.length 0
      = true := by
  ast_bounds small.composition

theorem bounds_small_oods :
    boundsOK small.oods 0 (small.NUM_COLUMNS_FIRST + small.NUM_COLUMNS_SECOND + small.CONSTRAINT_DEGREE)
      (small.MASK_SIZE + small.CONSTRAINT_DEGREE) (small.MASK_SIZE + small.CONSTRAINT_DEGREE) 0 0 = true := by
  ast_bounds small.oods

/-! ### `starknet` -/

theorem bounds_starknet_composition :
    boundsOK starknet.composition starknet.MASK_SIZE 0 0 starknet.N_CONSTRAINTS
      starknet.globalValueFields.length 0 = true := by
  ast_bounds starknet.composition

theorem bounds_starknet_oods :
    boundsOK starknet.oods 0
      (starknet.NUM_COLUMNS_FIRST + starknet.NUM_COLUMNS_SECOND + starknet.CONSTRAINT_DEGREE)
      (starknet.MASK_SIZE + starknet.CONSTRAINT_DEGREE) (starknet.MASK_SIZE + starknet.CONSTRAINT_DEGREE)
      0 0 = true := by
  ast_bounds starknet.oods

/-! ### `starknet_with_keccak` -/

theorem bounds_starknet_with_keccak_composition :
    boundsOK starknet_with_keccak.composition starknet_with_keccak.MASK_SIZE 0 0
      starknet_with_keccak.N_CONSTRAINTS starknet_with_keccak.globalValueFields.length 0 = true := by
  ast_bounds starknet_with_keccak.composition

theorem bounds_starknet_with_keccak_oods :
    boundsOK starknet_with_keccak.oods 0
      (starknet_with_keccak.NUM_COLUMNS_FIRST + starknet_with_keccak.NUM_COLUMNS_SECOND
        + starknet_with_keccak.CONSTRAINT_DEGREE)
      (starknet_with_keccak.MASK_SIZE + starknet_with_keccak.CONSTRAINT_DEGREE)
      (starknet_with_keccak.MASK_SIZE + starknet_with_keccak.CONSTRAINT_DEGREE) 0 0 = true := by
  ast_bounds starknet_with_keccak.oods

/-! ### from the generated data to `StaticOK`

  The driver loads a `LayoutData` from the translator's output at run time; `Matches` says that such a
  record carries the translated programs, the `GlobalValues` field list and the five size constants of
  a generated layout. -/

structure Matches (D : LayoutData) (comp oods : Prog) (gvf : List String)
    (nc1 nc2 cd mask ncons : Nat) : Prop where
  composition : D.composition.1 = comp
  oods : D.oods.1 = oods
  gvFields : D.gvFields = gvf
  numColumnsFirst : D.constD "NUM_COLUMNS_FIRST" = nc1
  numColumnsSecond : D.constD "NUM_COLUMNS_SECOND" = nc2
  constraintDegree : D.constD "CONSTRAINT_DEGREE" = cd
  maskSize : D.constD "MASK_SIZE" = mask
  nConstraints : D.constD "N_CONSTRAINTS" = ncons

theorem staticOK_of_matches {D : LayoutData} {comp oods : Prog} {gvf : List String}
    {nc1 nc2 cd mask ncons : Nat} (h : Matches D comp oods gvf nc1 nc2 cd mask ncons) (hcd : cd = 2)
    (hc : boundsOK comp mask 0 0 ncons gvf.length 0 = true)
    (ho : boundsOK oods 0 (nc1 + nc2 + cd) (mask + cd) (mask + cd) 0 0 = true) : StaticOK D where
  degree := by rw [h.constraintDegree, hcd]
  composition := by rw [h.composition, h.maskSize, h.nConstraints, h.gvFields]; exact hc
  oods := by
    rw [h.oods, h.numColumnsFirst, h.numColumnsSecond, h.constraintDegree, h.maskSize]; exact ho

abbrev IsDex (D : LayoutData) : Prop :=
  Matches D dex.composition dex.oods dex.globalValueFields dex.NUM_COLUMNS_FIRST dex.NUM_COLUMNS_SECOND
    dex.CONSTRAINT_DEGREE dex.MASK_SIZE dex.N_CONSTRAINTS
abbrev IsRecursive (D : LayoutData) : Prop :=
  Matches D recursive.composition recursive.oods recursive.globalValueFields recursive.NUM_COLUMNS_FIRST
    recursive.NUM_COLUMNS_SECOND recursive.CONSTRAINT_DEGREE recursive.MASK_SIZE recursive.N_CONSTRAINTS
abbrev IsRecursiveWithPoseidon (D : LayoutData) : Prop :=
  Matches D recursive_with_poseidon.composition recursive_with_poseidon.oods
    recursive_with_poseidon.globalValueFields recursive_with_poseidon.NUM_COLUMNS_FIRST
    recursive_with_poseidon.NUM_COLUMNS_SECOND recursive_with_poseidon.CONSTRAINT_DEGREE
    recursive_with_poseidon.MASK_SIZE recursive_with_poseidon.N_CONSTRAINTS
abbrev IsSmall (D : LayoutData) : Prop :=
  Matches D small.composition small.oods small.globalValueFields small.NUM_COLUMNS_FIRST
    small.NUM_COLUMNS_SECOND small.CONSTRAINT_DEGREE small.MASK_SIZE small.N_CONSTRAINTS
abbrev IsStarknet (D : LayoutData) : Prop :=
  Matches D starknet.composition starknet.oods starknet.globalValueFields starknet.NUM_COLUMNS_FIRST
    starknet.NUM_COLUMNS_SECOND starknet.CONSTRAINT_DEGREE starknet.MASK_SIZE starknet.N_CONSTRAINTS
abbrev IsStarknetWithKeccak (D : LayoutData) : Prop :=
  Matches D starknet_with_keccak.composition starknet_with_keccak.oods
    starknet_with_keccak.globalValueFields starknet_with_keccak.NUM_COLUMNS_FIRST
    starknet_with_keccak.NUM_COLUMNS_SECOND starknet_with_keccak.CONSTRAINT_DEGREE
    starknet_with_keccak.MASK_SIZE starknet_with_keccak.N_CONSTRAINTS

theorem staticOK_dex {D : LayoutData} (h : IsDex D) : StaticOK D :=
  staticOK_of_matches h rfl bounds_dex_composition bounds_dex_oods
theorem staticOK_recursive {D : LayoutData} (h : IsRecursive D) : StaticOK D :=
  staticOK_of_matches h rfl bounds_recursive_composition bounds_recursive_oods
theorem staticOK_recursive_with_poseidon {D : LayoutData} (h : IsRecursiveWithPoseidon D) : StaticOK D :=
  staticOK_of_matches h rfl bounds_recursive_with_poseidon_composition bounds_recursive_with_poseidon_oods
theorem staticOK_small {D : LayoutData} (h : IsSmall D) : StaticOK D :=
  staticOK_of_matches h rfl bounds_small_composition bounds_small_oods
theorem staticOK_starknet {D : LayoutData} (h : IsStarknet D) : StaticOK D :=
  staticOK_of_matches h rfl bounds_starknet_composition bounds_starknet_oods
theorem staticOK_starknet_with_keccak {D : LayoutData} (h : IsStarknetWithKeccak D) : StaticOK D :=
  staticOK_of_matches h rfl bounds_starknet_with_keccak_composition bounds_starknet_with_keccak_oods

/-- the `dex` record as the driver assembles it (only the fields relevant here; non-vacuity of `IsDex`) -/
def dexData : LayoutData where
  name := "dex"
  consts := [("NUM_COLUMNS_FIRST", dex.NUM_COLUMNS_FIRST), ("NUM_COLUMNS_SECOND", dex.NUM_COLUMNS_SECOND),
    ("CONSTRAINT_DEGREE", dex.CONSTRAINT_DEGREE), ("MASK_SIZE", dex.MASK_SIZE),
    ("N_CONSTRAINTS", dex.N_CONSTRAINTS)]
  builtins := []
  gvFields := dex.globalValueFields
  interactionFields := []
  composition := (dex.composition, dex.compositionRes)
  oods := (dex.oods, dex.oodsRes)
  periodic := []

theorem isDex_dexData : IsDex dexData :=
  ⟨rfl, rfl, rfl, by decide, by decide, by decide, by decide, by decide⟩

end Swiftness.Proofs.NoPanic
