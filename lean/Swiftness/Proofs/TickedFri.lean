/-
  C17, instrumented semantics, part 3: `crates/fri` — twins and erasure.  Core Lean only.
-/
import Swiftness.Proofs.TickedMerkle

namespace Swiftness.Ticked
open Swiftness Fri

/-- fixed charge of the straight-line `fri_formula`: at most 15 `formula2` evaluations and six
    `take` / `drop` of at most 8 elements each -/
def FF : Nat := 64

/-- `fri_formula` is straight-line code on at most 16 values -/
def friFormulaT (values : List Felt) (evalPoint xInv cosetSize : Felt) : TO Felt :=
  TO.ofOutcome (friFormula values evalPoint xInv cosetSize) FF

/-- twin of `Fri.cosetLoop`: one tick per iteration, and the final `acc.reverse` -/
def cosetLoopT (start : Felt) :
    Nat → Nat → List LayerQuery → List Felt → Felt → List Felt → TO CosetResult
  | 0, _, qs, sibs, xInv, acc => do
    let elements ← reverseT acc
    pure ⟨elements, xInv, qs, sibs⟩
  | n + 1, i, qs, sibs, xInv, acc => do
    TO.tick 1
    match qs with
    | q :: qs' =>
      if q.index = start + Felt.ofNat i then
        match friGroup[i]? with
        | some g => cosetLoopT start n (i + 1) qs' sibs (q.xInvValue * g) (q.yValue :: acc)
        | none => TO.panic "layer.rs:compute_coset_elements:unwrap"
      else
        match sibs with
        | s :: sibs' => cosetLoopT start n (i + 1) qs sibs' xInv (s :: acc)
        | [] => TO.err "SiblingWitnessTooShort"
    | [] =>
      match sibs with
      | s :: sibs' => cosetLoopT start n (i + 1) qs sibs' xInv (s :: acc)
      | [] => TO.err "SiblingWitnessTooShort"

def cosetElementsT (queries : List LayerQuery) (sibs : List Felt) (cosetSize start : Felt) :
    TO CosetResult := do
  TO.tick 1
  if cosetSize.val ≥ 2 ^ 64 then TO.panic "layer.rs:compute_coset_elements:unwrap_usize"
  else cosetLoopT start cosetSize.val 0 queries sibs 0 []

/-- twin of `Fri.nextLayerLoop`: per iteration one tick, the coset loop, `fri_formula`, one
    exponentiation, and `verify_y_values.extend(coset_elements)`; at the end the two `reverse`s -/
def nextLayerLoopT (cosetSize evalPoint : Felt) :
    Nat → List LayerQuery → List Felt → List LayerQuery → List Felt → List Felt → TO NextLayer
  | 0, _, _, _, _, _ => TO.err "fuel"
  | fuel + 1, qs, sibs, nq, vi, vy => do
    TO.tick 1
    match qs with
    | [] => do
      let nq' ← reverseT nq
      let vi' ← reverseT vi
      pure ⟨nq', vi', vy, sibs⟩
    | q :: _ =>
      if cosetSize = 0 then TO.panic "layer.rs:compute_next_layer:div0"
      else do
        let cosetIndex := Felt.ofNat (q.index.val / cosetSize.val)
        let r ← cosetElementsT qs sibs cosetSize (cosetIndex * cosetSize)
        let y ← friFormulaT r.elements evalPoint r.xInv cosetSize
        let x ← powT r.xInv cosetSize.val
        let vy' ← appendT vy r.elements
        nextLayerLoopT cosetSize evalPoint fuel r.queries r.siblings
          (⟨cosetIndex, y, x⟩ :: nq) (cosetIndex :: vi) vy'

def computeNextLayerT (queries : List LayerQuery) (sibs : List Felt) (cosetSize evalPoint : Felt) :
    TO NextLayer := do
  TO.tick 1
  nextLayerLoopT cosetSize evalPoint (queries.length + 1) queries sibs [] [] []

/-- twin of `Fri.gatherFirstLayer`: per query one tick and one inversion -/
def gatherFirstLayerT : List Felt → List Felt → List Felt → TO (List LayerQuery)
  | [], _, _ => pure []
  | q :: qs, evals, xs => do
    TO.tick 1
    match xs with
    | [] => TO.panic "first_layer.rs:gather_first_layer_queries:unwrap_x"
    | x :: xs' =>
      let shifted := x * FIELD_GENERATOR_INVERSE
      match evals with
      | [] => TO.panic "first_layer.rs:gather_first_layer_queries:unwrap_eval"
      | y :: evals' =>
        if shifted = 0 then TO.panic "first_layer.rs:gather_first_layer_queries:div0"
        else do
          let r ← gatherFirstLayerT qs evals' xs'
          let i ← invT shifted
          pure (⟨q, y, i⟩ :: r)

/-- twin of `Fri.hornerEval` (a `foldr`): one tick per coefficient -/
def hornerEvalT : List Felt → Felt → Tk Felt
  | [], _ => pure 0
  | c :: cs, point => do
    Tk.tick 1
    let r ← hornerEvalT cs point
    pure (r * point + c)

/-- twin of `Fri.verifyLastLayer`: per query one tick, one inversion, one Horner evaluation -/
def verifyLastLayerT : List LayerQuery → List Felt → TO Unit
  | [], _ => pure ()
  | q :: qs, coefs => do
    TO.tick 1
    if q.xInvValue = 0 then TO.panic "last_layer.rs:verify_last_layer:div0"
    else do
      let x ← invT q.xInvValue
      let y ← hornerEvalT coefs x
      if y ≠ q.yValue then TO.err "QueryMismatch"
      else verifyLastLayerT qs coefs

/-- twin of `Fri.commitRounds`: per round one tick, one absorb, one squeeze -/
def commitRoundsT (H : Hashes) : Nat → Transcript → List TableConfig → List Felt →
    TO (Transcript × List Table.Commitment × List Felt)
  | 0, t, _, _ => pure (t, [], [])
  | n + 1, t, cfgs, roots => do
    TO.tick 1
    match roots with
    | [] => TO.panic "fri.rs:fri_commit_rounds:unwrap_commitment"
    | r :: roots' =>
      match cfgs with
      | [] => TO.panic "fri.rs:fri_commit_rounds:unwrap_config"
      | c :: cfgs' => do
        let t1 ← readFeltT H t r
        let (e, t2) ← randomFeltT H t1
        let (t3, cs, es) ← commitRoundsT H n t2 cfgs' roots'
        pure (t3, ⟨c.nColumns, ⟨c.vector, r⟩⟩ :: cs, e :: es)

/-- twin of `Fri.commit` -/
def friCommitT (H : Hashes) (t : Transcript) (innerRoots lastCoefs : List Felt) (cfg : Config) :
    TO (Transcript × Commitment) := do
  TO.tick 1
  if ¬ (cfg.nLayers.val > 0) then TO.panic "fri.rs:fri_commit:assert_layers"
  else if (cfg.nLayers - 1).val ≥ 2 ^ 64 then TO.panic "fri.rs:fri_commit_rounds:unwrap_len"
  else do
    let (t1, cs, es) ← commitRoundsT H (cfg.nLayers - 1).val t cfg.innerLayers innerRoots
    let t2 ← readFeltVectorT H t1 lastCoefs
    let pw ← powT 2 cfg.logLastLayerDegreeBound.val
    if pw ≠ Felt.ofNat lastCoefs.length then TO.panic "fri.rs:fri_commit:assert_last_layer"
    else pure (t2, ⟨cfg, cs, es, lastCoefs⟩)

/-- twin of `Fri.verifyLayers`: per layer one tick, the coset-size exponentiation,
    `compute_next_layer` and the layer's table decommitment -/
def verifyLayersT (H : Hashes) : Nat → List Table.Commitment → List LayerWitness → List Felt → List Felt →
    List LayerQuery → TO (List LayerQuery)
  | 0, _, _, _, _, qs => pure qs
  | n + 1, cs, ws, es, steps, qs => do
    TO.tick 1
    match ws with
    | [] => TO.err "LayerWitnessMissing"
    | w :: ws' =>
      match cs with
      | [] => TO.panic "fri.rs:fri_verify_layers:unwrap_commitment"
      | c :: cs' =>
        match steps with
        | [] => TO.panic "fri.rs:fri_verify_layers:unwrap_step"
        | st :: steps' =>
          match es with
          | [] => TO.panic "fri.rs:fri_verify_layers:unwrap_eval_point"
          | e :: es' => do
            let cosetSize ← powT 2 st.val
            let nl ← (computeNextLayerT qs w.leaves cosetSize e).mapErr (fun _ => "LayerComputationError")
            tableDecommitT H c nl.verifyIndices nl.verifyYValues w.auths
            verifyLayersT H n cs' ws' es' steps' nl.nextQueries

/-- twin of `Fri.verify` -/
def friVerifyT (H : Hashes) (queries : List Felt) (c : Commitment) (values points : List Felt)
    (witness : List LayerWitness) : TO Unit := do
  TO.tick 1
  if queries.length ≠ values.length then TO.err "InvalidLength"
  else do
    let fq ← gatherFirstLayerT queries values points
    if c.config.friStepSizes.length < 1 then TO.panic "fri.rs:fri_verify:slice"
    else if (c.config.nLayers - 1).val ≥ 2 ^ 64 then TO.panic "fri.rs:fri_verify_layers:unwrap_len"
    else do
      let steps ← dropT 1 c.config.friStepSizes
      let last ← verifyLayersT H (c.config.nLayers - 1).val c.innerLayers witness c.evalPoints steps fq
      let pw ← powT 2 c.config.logLastLayerDegreeBound.val
      if Felt.ofNat c.lastLayerCoefficients.length ≠ pw then TO.err "InvalidValue"
      else (verifyLastLayerT last c.lastLayerCoefficients).mapErr (fun _ => "LastLayerVerificationError")

/-! ### erasure -/

@[simp] theorem friFormulaT_out (v : List Felt) (e x cs : Felt) :
    (friFormulaT v e x cs).out = friFormula v e x cs := rfl
@[simp] theorem friFormulaT_ticks (v : List Felt) (e x cs : Felt) : (friFormulaT v e x cs).ticks = FF := rfl

@[simp] theorem cosetLoopT_out (start : Felt) (n i : Nat) (qs : List LayerQuery) (sibs : List Felt)
    (xInv : Felt) (acc : List Felt) :
    (cosetLoopT start n i qs sibs xInv acc).out = cosetLoop start n i qs sibs xInv acc := by
  induction n generalizing i qs sibs xInv acc with
  | zero => simp [cosetLoopT, cosetLoop]
  | succ n ih =>
    simp only [cosetLoopT, cosetLoop, TO.bind_out, TO.tick_out, Outcome.bind_ok]
    repeat' split
    all_goals simp_all

@[simp] theorem cosetElementsT_out (qs : List LayerQuery) (sibs : List Felt) (cs start : Felt) :
    (cosetElementsT qs sibs cs start).out = cosetElements qs sibs cs start := by
  simp only [cosetElementsT, cosetElements, TO.bind_out, TO.tick_out, Outcome.bind_ok]
  split <;> simp

@[simp] theorem nextLayerLoopT_out (cs e : Felt) (fuel : Nat) (qs : List LayerQuery) (sibs : List Felt)
    (nq : List LayerQuery) (vi vy : List Felt) :
    (nextLayerLoopT cs e fuel qs sibs nq vi vy).out = nextLayerLoop cs e fuel qs sibs nq vi vy := by
  induction fuel generalizing qs sibs nq vi vy with
  | zero => rfl
  | succ n ih =>
    simp only [nextLayerLoopT, nextLayerLoop, TO.bind_out, TO.tick_out, Outcome.bind_ok]
    repeat' split
    all_goals simp_all

@[simp] theorem computeNextLayerT_out (qs : List LayerQuery) (sibs : List Felt) (cs e : Felt) :
    (computeNextLayerT qs sibs cs e).out = computeNextLayer qs sibs cs e := by
  simp [computeNextLayerT, computeNextLayer]

@[simp] theorem gatherFirstLayerT_out (qs evals xs : List Felt) :
    (gatherFirstLayerT qs evals xs).out = gatherFirstLayer qs evals xs := by
  induction qs generalizing evals xs with
  | nil => rfl
  | cons q qs ih =>
    simp only [gatherFirstLayerT, gatherFirstLayer, TO.bind_out, TO.tick_out, Outcome.bind_ok]
    repeat' split
    all_goals simp_all [Outcome.bind_not_ok]

@[simp] theorem hornerEvalT_val (coefs : List Felt) (point : Felt) :
    (hornerEvalT coefs point).val = hornerEval coefs point := by
  induction coefs with
  | nil => rfl
  | cons c cs ih => simp_all [hornerEvalT, hornerEval]

@[simp] theorem verifyLastLayerT_out (qs : List LayerQuery) (coefs : List Felt) :
    (verifyLastLayerT qs coefs).out = verifyLastLayer qs coefs := by
  induction qs with
  | nil => rfl
  | cons q qs ih =>
    simp only [verifyLastLayerT, verifyLastLayer, TO.bind_out, TO.tick_out, Outcome.bind_ok]
    repeat' split
    all_goals simp_all

@[simp] theorem commitRoundsT_out (H : Hashes) (n : Nat) (t : Transcript) (cfgs : List TableConfig)
    (roots : List Felt) : (commitRoundsT H n t cfgs roots).out = commitRounds H n t cfgs roots := by
  induction n generalizing t cfgs roots with
  | zero => rfl
  | succ n ih =>
    simp only [commitRoundsT, commitRounds]
    repeat' split
    all_goals simp_all

@[simp] theorem friCommitT_out (H : Hashes) (t : Transcript) (roots lc : List Felt) (cfg : Config) :
    (friCommitT H t roots lc cfg).out = Fri.commit H t roots lc cfg := by
  simp only [friCommitT, Fri.commit, TO.bind_out, TO.tick_out, Outcome.bind_ok]
  repeat' split
  all_goals simp_all

@[simp] theorem verifyLayersT_out (H : Hashes) (n : Nat) (cs : List Table.Commitment) (ws : List LayerWitness)
    (es steps : List Felt) (qs : List LayerQuery) :
    (verifyLayersT H n cs ws es steps qs).out = verifyLayers H n cs ws es steps qs := by
  induction n generalizing cs ws es steps qs with
  | zero => rfl
  | succ n ih =>
    simp only [verifyLayersT, verifyLayers, TO.bind_out, TO.tick_out, Outcome.bind_ok]
    repeat' split
    all_goals simp_all [TO.mapErr_out]

@[simp] theorem friVerifyT_out (H : Hashes) (queries : List Felt) (c : Commitment) (values points : List Felt)
    (witness : List LayerWitness) :
    (friVerifyT H queries c values points witness).out = Fri.verify H queries c values points witness := by
  simp only [friVerifyT, Fri.verify, TO.bind_out, TO.tick_out, Outcome.bind_ok]
  repeat' split
  all_goals simp_all [TO.mapErr_out]

end Swiftness.Ticked
