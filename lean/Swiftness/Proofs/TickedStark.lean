/-
  C17, instrumented semantics, part 4: configuration validation, domains, public-input hash,
  `stark_commit`, `stark_verify`, `StarkProof::verify` — twins and erasure.  Core Lean only.
-/
import Swiftness.Proofs.TickedQueries
import Swiftness.Proofs.TickedFri

namespace Swiftness.Ticked
open Swiftness

/-! ### configuration validation -/

/-- twin of `Fri.validateLoop`: per layer one tick, one exponentiation and the (straight-line)
    `vector::Config::validate` -/
def validateLoopT (nFriendly : Felt) : List Felt → List Fri.TableConfig → Felt → Felt → TO (Felt × Felt)
  | [], _, lis, sum => pure (lis, sum)
  | _ :: _, [], _, _ => do TO.tick 1; TO.panic "fri/config.rs:validate:index"
  | step :: steps, tc :: tcs, lis, sum => do
    TO.tick 1
    let lis := lis - step
    let sum := sum + step
    if step.val < Fri.MIN_FRI_STEP ∨ step.val > Fri.MAX_FRI_STEP then TO.err "OutOfBounds"
    else do
      let expected ← powT 2 step.val
      if tc.nColumns ≠ expected then TO.err "InvalidColumnCount"
      else do
        TO.ofOutcome (tc.vector.validate lis nFriendly) 1
        validateLoopT nFriendly steps tcs lis sum

/-- twin of `Fri.Config.validate` -/
def friConfigValidateT (c : Fri.Config) (logNCosets nFriendly : Felt) : TO Felt := do
  TO.tick 1
  if c.nLayers.val < Fri.MIN_FRI_LAYERS ∨ c.nLayers.val > Fri.MAX_FRI_LAYERS then TO.err "OutOfBounds"
  else if c.logLastLayerDegreeBound.val > Fri.MAX_LAST_LAYER_LOG_DEGREE_BOUND then TO.err "OutOfBounds"
  else
    match c.friStepSizes with
    | [] => TO.err "FirstFriStepInvalid"
    | s0 :: _ =>
      if s0 ≠ 0 then TO.err "FirstFriStepInvalid"
      else
        let n := c.nLayers.val
        if c.friStepSizes.length < n ∨ c.innerLayers.length < n - 1 then TO.err "InvalidLayersLength"
        else do
          let tail ← dropT 1 c.friStepSizes
          let steps ← takeT (n - 1) tail
          let tcs ← takeT (n - 1) c.innerLayers
          let (_, sum) ← validateLoopT nFriendly steps tcs c.logInputSize 0
          let deg := sum + c.logLastLayerDegreeBound
          if deg + logNCosets ≠ c.logInputSize then TO.err "LogInputSizeMismatch" else pure deg

/-- twin of `StarkConfig.validate`; the proof-of-work, trace and vector configuration checks are
    straight-line comparisons, charged one tick each -/
def configValidateT (c : StarkConfig) (securityBits nColsFirst nColsSecond : Felt) : TO Unit := do
  TO.tick 1
  TO.ofOutcome (Pow.configValidate c.powBits) 1
  if ¬ (c.logNCosets.val ≥ 1 ∧ c.logNCosets.val ≤ StarkConfig.MAX_LOG_BLOWUP_FACTOR) then TO.err "OutOfBounds"
  else if ¬ (c.nQueries.val ≥ 1 ∧ c.nQueries.val ≤ StarkConfig.MAX_N_QUERIES) then TO.err "OutOfBounds"
  else if ¬ (securityBits.val ≤ c.securityBits.val) then TO.err "InsufficientSecurity"
  else do
    let logEval := c.logTraceDomainSize + c.logNCosets
    TO.ofOutcome (c.traces.validate logEval c.nFriendly nColsFirst nColsSecond) 1
    TO.ofOutcome (c.composition.vector.validate logEval c.nFriendly) 1
    let deg ← friConfigValidateT c.fri c.logNCosets c.nFriendly
    if deg ≠ c.logTraceDomainSize then TO.err "DegreeBoundMismatch" else pure ()

/-! ### domains -/

/-- twin of `StarkDomains.new`: six exponentiations / inversions -/
def domainsNewT (logTrace logNCosets : Felt) : TO StarkDomains := do
  TO.tick 1
  let logEval := logTrace + logNCosets
  let evalSize ← powT 2 logEval.val
  let traceSize ← powT 2 logTrace.val
  if evalSize = 0 then TO.panic "domains.rs:new:unwrap:0"
  else if traceSize = 0 then TO.panic "domains.rs:new:unwrap:1"
  else do
    let ie ← invT evalSize
    let eg ← powT StarkDomains.FIELD_GENERATOR (StarkDomains.STARK_PRIME_MINUS_ONE * ie).val
    let it ← invT traceSize
    let tg ← powT StarkDomains.FIELD_GENERATOR (StarkDomains.STARK_PRIME_MINUS_ONE * it).val
    pure {
      logEvalDomainSize := logEval
      evalDomainSize := evalSize
      evalGenerator := eg
      logTraceDomainSize := logTrace
      traceDomainSize := traceSize
      traceGenerator := tg }

/-! ### public-input hash -/

/-- the Pedersen chain (`foldl`) over the main page: per cell one tick and two hash calls -/
def mainPageLoopT (H : Hashes) : List AddrValue → Felt → Tk Felt
  | [], h => pure h
  | c :: cs, h => do
    Tk.tick 1
    let h1 ← pedersenT H h c.address
    let h2 ← pedersenT H h1 c.value
    mainPageLoopT H cs h2

def mainPageHashT (H : Hashes) (page : List AddrValue) : Tk Felt := do
  let h ← mainPageLoopT H page 0
  pedersenT H h (2 * Felt.ofNat page.length)

/-- twin of `PublicInput.hashData`: every list that is built is charged -/
def hashDataT (H : Hashes) (stone6 : Bool) (nFriendly : Felt) (pi : PublicInput) : Tk (List Felt) := do
  let dyn ← (match pi.dynamicParams with | some d => mapT Felt.ofNat d | none => pure [])
  let segs ← flatMapT (fun s : SegmentInfo => [s.beginAddr, s.stopPtr]) pi.segments
  let mph ← mainPageHashT H pi.mainPage
  let hdrs ← flatMapT (fun h : ContinuousPageHeader => [h.startAddress, h.size, h.hash])
    pi.continuousPageHeaders
  let l1 ← appendT (if stone6 then [nFriendly] else [])
    [pi.logNSteps, pi.rangeCheckMin, pi.rangeCheckMax, pi.layout]
  let l2 ← appendT l1 dyn
  let l3 ← appendT l2 segs
  let l4 ← appendT l3 [pi.paddingAddr, pi.paddingValue, Felt.ofNat (pi.continuousPageHeaders.length + 1),
    Felt.ofNat pi.mainPage.length, mph]
  appendT l4 hdrs

/-- twin of `PublicInput.getHash` -/
def getHashT (H : Hashes) (stone6 : Bool) (nFriendly : Felt) (pi : PublicInput) : Tk Felt := do
  let data ← hashDataT H stone6 nFriendly pi
  poseidonManyT H data

/-! ### `stark_commit` -/

def powersArrayT : Nat → Felt → Felt → Tk (List Felt)
  | 0, _, _ => pure []
  | n + 1, v, alpha => do
    Tk.tick 1
    let r ← powersArrayT n (v * alpha) alpha
    pure (v :: r)

def squeezeNT (H : Hashes) : Nat → Transcript → Tk (List Felt × Transcript)
  | 0, t => pure ([], t)
  | n + 1, t => do
    Tk.tick 1
    let (c, t') ← randomFeltT H t
    let (cs, t'') ← squeezeNT H n t'
    pure (c :: cs, t'')

/-- twin of `Stark.verifyOods`; the layout's composition evaluator is charged `KF.evalComposition` -/
def verifyOodsT (L : LayoutOps) (KF : LayoutCostFn) (oods interaction : List Felt) (pi : PublicInput)
    (coefficients : List Felt) (oodsPoint traceDomainSize traceGenerator : Felt) : TO Unit := do
  TO.tick 1
  if oods.length ≠ L.maskSize + L.constraintDegree then TO.err "InvalidLength"
  else do
    let mask ← takeT (oods.length - 2) oods
    let fromTrace ← TO.ofOutcome
      (L.evalComposition interaction pi mask coefficients oodsPoint traceDomainSize traceGenerator)
      (KF.evalComposition interaction pi mask coefficients oodsPoint traceDomainSize traceGenerator)
    match oods[oods.length - 2]?, oods[oods.length - 1]? with
    | some a, some b =>
      if oods.length < 2 then TO.panic "oods.rs:verify_oods:index"
      else if fromTrace = a + b * oodsPoint then pure () else TO.err "EvaluationInvalid"
    | _, _ => TO.panic "oods.rs:verify_oods:index"

/-- twin of `Pow.commit`: `verify_pow` is straight-line (two hash calls on 41 / 40 bytes and one
    exponentiation), then the nonce is absorbed -/
def powCommitT (H : Hashes) (t : Transcript) (nBits nonce : Nat) : TO Transcript := do
  TO.tick 1
  TO.ofOutcome (Pow.verifyPow H t.digest.toBytesBE nBits nonce) (2 + Cost.F)
  let t' ← readU64T H t nonce
  pure t'

/-- twin of `Stark.commit` -/
def starkCommitT (L : LayoutOps) (KF : LayoutCostFn) (H : Hashes) (t : Transcript) (pi : PublicInput)
    (u : Stark.UnsentCommitment) (cfg : StarkConfig) (d : StarkDomains) :
    TO (Transcript × Stark.Commitment) := do
  TO.tick 1
  let t ← readFeltT H t u.tracesOriginal
  let (interaction, t) ← squeezeNT H L.nInteractionElements t
  let t ← readFeltT H t u.tracesInteraction
  let (compositionAlpha, t) ← randomFeltT H t
  let tracesCoefficients ← powersArrayT L.nConstraints 1 compositionAlpha
  let t ← readFeltT H t u.composition
  let (interactionAfterComposition, t) ← randomFeltT H t
  let t ← readFeltVectorT H t u.oodsValues
  verifyOodsT L KF u.oodsValues interaction pi tracesCoefficients interactionAfterComposition
      d.traceDomainSize d.traceGenerator
  let (oodsAlpha, t) ← randomFeltT H t
  let oodsCoefficients ← powersArrayT (L.maskSize + L.constraintDegree) 1 oodsAlpha
  let pw ← powT 2 cfg.fri.logLastLayerDegreeBound.val
  if ¬ ((Felt.ofNat u.friInnerLayers.length + 1).val ≥ cfg.fri.nLayers.val ∧
        pw = Felt.ofNat u.friLastLayerCoefficients.length) then
    TO.err "FriCommitmentInvalid"
  else do
    let (t, friCommitment) ← friCommitT H t u.friInnerLayers u.friLastLayerCoefficients cfg.fri
    let t ← powCommitT H t cfg.powBits u.powNonce
    pure (t, {
      tracesOriginal := Stark.tableCommitment cfg.traces.original u.tracesOriginal
      interactionElements := interaction
      tracesInteraction := Stark.tableCommitment cfg.traces.interaction u.tracesInteraction
      composition := Stark.tableCommitment cfg.composition u.composition
      interactionAfterComposition := interactionAfterComposition
      oodsValues := u.oodsValues
      interactionAfterOods := oodsCoefficients
      fri := friCommitment })

/-! ### `stark_verify` -/

/-- twin of `Stark.oodsEvalLoop`: per point one tick, the three row slices, their concatenation,
    the layout's `eval_oods_polynomial` (charged `KF.evalOods`) and the three `drop`s -/
def oodsEvalLoopT (L : LayoutOps) (KF : LayoutCostFn) (pi : PublicInput) (n1 n2 : Nat)
    (oodsValues coefs : List Felt) (oodsPoint traceGen : Felt) :
    List Felt → List Felt → List Felt → List Felt → TO (List Felt)
  | [], _, _, _ => pure []
  | p :: ps, v1, v2, v3 => do
    TO.tick 1
    let r1 ← takeT n1 v1
    let r2 ← takeT n2 v2
    let r3 ← takeT L.constraintDegree v3
    let r12 ← appendT r1 r2
    let cols ← appendT r12 r3
    let y ← (TO.ofOutcome (L.evalOods pi cols oodsValues coefs p oodsPoint traceGen)
      (KF.evalOods pi cols oodsValues coefs p oodsPoint traceGen)).mapErr (fun _ => "OodsPolyEvalError")
    let d1 ← dropT n1 v1
    let d2 ← dropT n2 v2
    let d3 ← dropT L.constraintDegree v3
    let ys ← oodsEvalLoopT L KF pi n1 n2 oodsValues coefs oodsPoint traceGen ps d1 d2 d3
    pure (y :: ys)

def evalOodsBoundaryT (L : LayoutOps) (KF : LayoutCostFn) (n1 n2 : Nat) (pi : PublicInput)
    (oodsValues coefs : List Felt) (oodsPoint traceGen : Felt) (points v1 v2 v3 : List Felt) :
    TO (List Felt) := do
  TO.tick 1
  if v1.length ≠ points.length * n1 then TO.err "InvalidDecommitmentLength"
  else if v2.length ≠ points.length * n2 then TO.err "InvalidDecommitmentLength"
  else if v3.length ≠ points.length * L.constraintDegree then TO.err "InvalidDecommitmentLength"
  else oodsEvalLoopT L KF pi n1 n2 oodsValues coefs oodsPoint traceGen points v1 v2 v3

/-- twin of `Stark.verifyPhase` -/
def verifyPhaseT (L : LayoutOps) (KF : LayoutCostFn) (H : Hashes) (n1 n2 : Nat) (pi : PublicInput)
    (queries : List Felt) (c : Stark.Commitment) (w : Stark.Witness) (d : StarkDomains) : TO Unit := do
  TO.tick 1
  TO.both
    (tableDecommitT H c.tracesOriginal queries w.tracesOriginalValues w.tracesOriginalAuths)
    (tableDecommitT H c.tracesInteraction queries w.tracesInteractionValues w.tracesInteractionAuths)
  tableDecommitT H c.composition queries w.compositionValues w.compositionAuths
  if d.logEvalDomainSize.val > 64 then TO.err "EvalDomainTooLarge" else do
  let points ← queriesToPointsT queries d
  let evals ← evalOodsBoundaryT L KF n1 n2 pi c.oodsValues c.interactionAfterOods
    c.interactionAfterComposition d.traceGenerator points w.tracesOriginalValues w.tracesInteractionValues
    w.compositionValues
  friVerifyT H queries c.fri evals points w.friLayers

/-- twin of `Stark.verify`: the instrumented `StarkProof::verify` -/
def verifyT (L : LayoutOps) (KF : LayoutCostFn) (H : Hashes) (stone6 : Bool) (p : Stark.Proof)
    (securityBits : Felt) : TO (Felt × Felt) := do
  TO.tick 1
  match L.numColumnsFirst p.publicInput, L.numColumnsSecond p.publicInput with
  | some n1, some n2 => do
    configValidateT p.config securityBits (Felt.ofNat n1) (Felt.ofNat n2)
    let d ← domainsNewT p.config.logTraceDomainSize p.config.logNCosets
    TO.ofOutcome (L.validatePublicInput p.publicInput d) (KF.validatePublicInput p.publicInput d)
    let digest ← getHashT H stone6 p.config.nFriendly p.publicInput
    let (t, c) ← starkCommitT L KF H (Transcript.new digest) p.publicInput p.unsent p.config d
    let (queries, _) ← generateQueriesT H t p.config.nQueries d.evalDomainSize
    verifyPhaseT L KF H n1 n2 p.publicInput queries c p.witness d
    TO.ofOutcome (L.verifyPublicInput p.publicInput) (KF.verifyPublicInput p.publicInput)
  | _, _ => TO.err "ColumnMissing"

/-! ### erasure -/

@[simp] theorem validateLoopT_out (nf : Felt) (steps : List Felt) (tcs : List Fri.TableConfig) (lis sum : Felt) :
    (validateLoopT nf steps tcs lis sum).out = Fri.validateLoop nf steps tcs lis sum := by
  induction steps generalizing tcs lis sum with
  | nil => rfl
  | cons step steps ih =>
    cases tcs with
    | nil => simp [validateLoopT, Fri.validateLoop]
    | cons tc tcs =>
      simp only [validateLoopT, Fri.validateLoop, TO.bind_out, TO.tick_out, Outcome.bind_ok]
      repeat' split
      all_goals simp_all

@[simp] theorem friConfigValidateT_out (c : Fri.Config) (lnc nf : Felt) :
    (friConfigValidateT c lnc nf).out = c.validate lnc nf := by
  simp only [friConfigValidateT, Fri.Config.validate, TO.bind_out, TO.tick_out, Outcome.bind_ok]
  repeat' split
  all_goals simp_all

@[simp] theorem configValidateT_out (c : StarkConfig) (sec n1 n2 : Felt) :
    (configValidateT c sec n1 n2).out = c.validate sec n1 n2 := by
  simp only [configValidateT, StarkConfig.validate, TO.bind_out, TO.tick_out, Outcome.bind_ok,
    TO.ofOutcome_out]
  repeat' split
  all_goals simp_all

@[simp] theorem domainsNewT_out (lt lnc : Felt) : (domainsNewT lt lnc).out = StarkDomains.new lt lnc := by
  simp only [domainsNewT, StarkDomains.new, TO.bind_out, TO.tick_out, Outcome.bind_ok]
  repeat' split
  all_goals simp_all

theorem mainPageLoopT_val (H : Hashes) (page : List AddrValue) (h : Felt) :
    (mainPageLoopT H page h).val =
      page.foldl (fun h c => H.pedersen (H.pedersen h c.address) c.value) h := by
  induction page generalizing h with
  | nil => rfl
  | cons c cs ih => simp [mainPageLoopT, ih]

@[simp] theorem mainPageHashT_val (H : Hashes) (page : List AddrValue) :
    (mainPageHashT H page).val = PublicInput.mainPageHash H page := by
  simp [mainPageHashT, PublicInput.mainPageHash, mainPageLoopT_val]

@[simp] theorem hashDataT_val (H : Hashes) (stone6 : Bool) (nf : Felt) (pi : PublicInput) :
    (hashDataT H stone6 nf pi).val = PublicInput.hashData H stone6 nf pi := by
  simp only [hashDataT, PublicInput.hashData, Tk.bind_val, appendT_val, flatMapT_val, mainPageHashT_val]
  cases pi.dynamicParams <;> simp

@[simp] theorem getHashT_val (H : Hashes) (stone6 : Bool) (nf : Felt) (pi : PublicInput) :
    (getHashT H stone6 nf pi).val = pi.getHash H stone6 nf := by
  simp [getHashT, PublicInput.getHash]

@[simp] theorem powersArrayT_val (n : Nat) (v a : Felt) : (powersArrayT n v a).val = Stark.powersArray n v a := by
  induction n generalizing v with
  | zero => rfl
  | succ n ih => simp [powersArrayT, Stark.powersArray, ih]

@[simp] theorem squeezeNT_val (H : Hashes) (n : Nat) (t : Transcript) :
    (squeezeNT H n t).val = Stark.squeezeN H n t := by
  induction n generalizing t with
  | zero => rfl
  | succ n ih => simp [squeezeNT, Stark.squeezeN, ih]

@[simp] theorem verifyOodsT_out (L : LayoutOps) (KF : LayoutCostFn) (oods ie : List Felt) (pi : PublicInput)
    (coefs : List Felt) (z tds tg : Felt) :
    (verifyOodsT L KF oods ie pi coefs z tds tg).out = Stark.verifyOods L oods ie pi coefs z tds tg := by
  simp only [verifyOodsT, Stark.verifyOods, TO.bind_out, TO.tick_out, Outcome.bind_ok]
  repeat' split
  all_goals simp_all

@[simp] theorem powCommitT_out (H : Hashes) (t : Transcript) (nBits nonce : Nat) :
    (powCommitT H t nBits nonce).out = Pow.commit H t nBits nonce := by
  simp only [powCommitT, Pow.commit, TO.bind_out, TO.tick_out, Outcome.bind_ok, TO.ofOutcome_out]
  repeat' split
  all_goals simp_all

@[simp] theorem starkCommitT_out (L : LayoutOps) (KF : LayoutCostFn) (H : Hashes) (t : Transcript)
    (pi : PublicInput) (u : Stark.UnsentCommitment) (cfg : StarkConfig) (d : StarkDomains) :
    (starkCommitT L KF H t pi u cfg d).out = Stark.commit L H t pi u cfg d := by
  simp only [starkCommitT, Stark.commit, TO.bind_out, TO.tick_out, Outcome.bind_ok]
  repeat' split
  all_goals simp_all

@[simp] theorem oodsEvalLoopT_out (L : LayoutOps) (KF : LayoutCostFn) (pi : PublicInput) (n1 n2 : Nat)
    (ov coefs : List Felt) (z tg : Felt) (ps v1 v2 v3 : List Felt) :
    (oodsEvalLoopT L KF pi n1 n2 ov coefs z tg ps v1 v2 v3).out =
      Stark.oodsEvalLoop L pi n1 n2 ov coefs z tg ps v1 v2 v3 := by
  induction ps generalizing v1 v2 v3 with
  | nil => rfl
  | cons p ps ih =>
    simp only [oodsEvalLoopT, Stark.oodsEvalLoop, TO.bind_out, TO.tick_out, Outcome.bind_ok]
    repeat' split
    all_goals simp_all [TO.mapErr_out, Outcome.bind_not_ok]

@[simp] theorem evalOodsBoundaryT_out (L : LayoutOps) (KF : LayoutCostFn) (n1 n2 : Nat) (pi : PublicInput)
    (ov coefs : List Felt) (z tg : Felt) (ps v1 v2 v3 : List Felt) :
    (evalOodsBoundaryT L KF n1 n2 pi ov coefs z tg ps v1 v2 v3).out =
      Stark.evalOodsBoundary L n1 n2 pi ov coefs z tg ps v1 v2 v3 := by
  simp only [evalOodsBoundaryT, Stark.evalOodsBoundary, TO.bind_out, TO.tick_out, Outcome.bind_ok]
  repeat' split
  all_goals simp_all

@[simp] theorem verifyPhaseT_out (L : LayoutOps) (KF : LayoutCostFn) (H : Hashes) (n1 n2 : Nat)
    (pi : PublicInput) (queries : List Felt) (c : Stark.Commitment) (w : Stark.Witness) (d : StarkDomains) :
    (verifyPhaseT L KF H n1 n2 pi queries c w d).out = Stark.verifyPhase L H n1 n2 pi queries c w d := by
  simp only [verifyPhaseT, Stark.verifyPhase, TO.bind_out, TO.tick_out, Outcome.bind_ok, TO.both_out,
    tableDecommitT_out]
  repeat' split
  all_goals simp_all

/-- ERASURE: the instrumented verifier computes exactly `Stark.verify` -/
theorem verifyT_out (L : LayoutOps) (KF : LayoutCostFn) (H : Hashes) (stone6 : Bool) (p : Stark.Proof)
    (sec : Felt) : (verifyT L KF H stone6 p sec).out = Stark.verify L H stone6 p sec := by
  simp only [verifyT, Stark.verify, TO.bind_out, TO.tick_out, Outcome.bind_ok]
  repeat' split
  all_goals simp_all

end Swiftness.Ticked
