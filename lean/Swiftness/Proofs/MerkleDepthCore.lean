/-
  Recursion depth of the Merkle walk `Vector.computeRoot` (C18 / C17).  Core Lean only.

  The Rust `compute_root_from_queries` is recursive, one call per processed queue entry.
  `computeRootCalls` counts those calls in the model; `computeRoot_fuel_iff` shows it is exactly the
  fuel the model walk needs (so it IS the recursion depth, not a free-floating definition);
  `computeRootCalls_le` bounds it by `1 + Σ log2 index`, for ANY list of authentication nodes.
-/
import Swiftness.Proofs.MerkleWalk
import Swiftness.Proofs.MerkleFuel
import Swiftness.Model.Table
import Swiftness.Model.Stark

namespace Swiftness.Proofs.MerkleDepth
open Swiftness Swiftness.Vector
open Swiftness.Proofs.Merkle (one_val)

/-- Number of (recursive) calls `computeRoot` makes on these arguments: the same case analysis as
    `Vector.computeRoot`, returning the count instead of the value.  A call that finds the fuel
    exhausted is not counted (the Rust has no fuel), so `computeRootCalls … ≤ fuel`. -/
def computeRootCalls (H : Hashes) (nFriendly : Felt) : Nat → List QD → List Felt → Nat
  | 0, _, _ => 0
  | fuel + 1, queue, auths =>
    match queue with
    | [] => 1
    | cur :: rest =>
      if cur.index = 1 then 1
      else
        let parent := Felt.ofNat (cur.index.val / 2)
        let bit := cur.index.val % 2
        let friendly := decide (nFriendly.val ≥ cur.depth.val)
        let withAuth : Unit → Nat := fun _ =>
          match auths with
          | [] => 1
          | a :: auths' =>
            let h := if bit = 0 then hashFU H cur.value a friendly else hashFU H a cur.value friendly
            1 + computeRootCalls H nFriendly fuel (rest ++ [⟨parent, h, cur.depth - 1⟩]) auths'
        if bit = 0 then
          match rest with
          | next :: rest' =>
            if cur.index + 1 = next.index then
              1 + computeRootCalls H nFriendly fuel
                (rest' ++ [⟨parent, hashFU H cur.value next.value friendly, cur.depth - 1⟩]) auths
            else withAuth ()
          | [] => withAuth ()
        else withAuth ()

/-! ### one step of the walk -/

/-- what one call does: return, or call itself on a new queue and the remaining nodes -/
inductive Step where
  | done (r : Outcome Felt)
  | next (queue : List QD) (auths : List Felt)

/-- the body of `computeRoot` with the recursive calls reified -/
def step (H : Hashes) (nFriendly : Felt) (queue : List QD) (auths : List Felt) : Step :=
  match queue with
  | [] => .done (.err "IndexInvalid")
  | cur :: rest =>
    if cur.index = 1 then .done (.ok cur.value)
    else
      let parent := Felt.ofNat (cur.index.val / 2)
      let bit := cur.index.val % 2
      let friendly := decide (nFriendly.val ≥ cur.depth.val)
      let withAuth : Unit → Step := fun _ =>
        match auths with
        | [] => .done (.err "IndexInvalid")
        | a :: auths' =>
          let h := if bit = 0 then hashFU H cur.value a friendly else hashFU H a cur.value friendly
          .next (rest ++ [⟨parent, h, cur.depth - 1⟩]) auths'
      if bit = 0 then
        match rest with
        | next :: rest' =>
          if cur.index + 1 = next.index then
            .next (rest' ++ [⟨parent, hashFU H cur.value next.value friendly, cur.depth - 1⟩]) auths
          else withAuth ()
        | [] => withAuth ()
      else withAuth ()

variable {H : Hashes} {nf : Felt}

theorem computeRoot_succ (fuel : Nat) (q : List QD) (a : List Felt) :
    computeRoot H nf (fuel + 1) q a =
      match step H nf q a with
      | .done r => r
      | .next q' a' => computeRoot H nf fuel q' a' := by
  simp only [computeRoot, step]
  repeat' split
  all_goals simp_all

theorem computeRootCalls_succ (fuel : Nat) (q : List QD) (a : List Felt) :
    computeRootCalls H nf (fuel + 1) q a =
      match step H nf q a with
      | .done _ => 1
      | .next q' a' => 1 + computeRootCalls H nf fuel q' a' := by
  simp only [computeRootCalls, step]
  repeat' split
  all_goals simp_all

/-- a call that returns without recursing never reports exhausted fuel -/
theorem step_done_ne_fuel {q : List QD} {a : List Felt} {r : Outcome Felt}
    (h : step H nf q a = .done r) : r ≠ .err "fuel" := by
  unfold step at h
  simp only [] at h
  repeat' split at h
  all_goals first | (injection h with h; subst h; simp) | cases h

theorem computeRoot_done {q : List QD} {a : List Felt} {r : Outcome Felt} (fuel : Nat)
    (h : step H nf q a = .done r) : computeRoot H nf (fuel + 1) q a = r := by
  rw [computeRoot_succ, h]

theorem computeRoot_next {q q' : List QD} {a a' : List Felt} (fuel : Nat)
    (h : step H nf q a = .next q' a') :
    computeRoot H nf (fuel + 1) q a = computeRoot H nf fuel q' a' := by
  rw [computeRoot_succ, h]

theorem computeRootCalls_done {q : List QD} {a : List Felt} {r : Outcome Felt} (fuel : Nat)
    (h : step H nf q a = .done r) : computeRootCalls H nf (fuel + 1) q a = 1 := by
  rw [computeRootCalls_succ, h]

theorem computeRootCalls_next {q q' : List QD} {a a' : List Felt} (fuel : Nat)
    (h : step H nf q a = .next q' a') :
    computeRootCalls H nf (fuel + 1) q a = 1 + computeRootCalls H nf fuel q' a' := by
  rw [computeRootCalls_succ, h]

/-! ### `computeRootCalls` is the fuel the walk needs -/

theorem computeRootCalls_le_fuel : ∀ (fuel : Nat) (q : List QD) (a : List Felt),
    computeRootCalls H nf fuel q a ≤ fuel := by
  intro fuel
  induction fuel with
  | zero => intro q a; simp [computeRootCalls]
  | succ n ih =>
    intro q a
    cases hs : step H nf q a with
    | done r => rw [computeRootCalls_done n hs]; omega
    | next q' a' => rw [computeRootCalls_next n hs]; have := ih q' a'; omega

/-- With less fuel than `computeRootCalls` the model walk gives up … -/
theorem computeRoot_fuel_of_lt : ∀ (fuel' fuel : Nat) (q : List QD) (a : List Felt),
    fuel' < computeRootCalls H nf fuel q a → computeRoot H nf fuel' q a = .err "fuel" := by
  intro fuel'
  induction fuel' with
  | zero => intro fuel q a _; simp [computeRoot]
  | succ m ih =>
    intro fuel q a hlt
    cases fuel with
    | zero => simp [computeRootCalls] at hlt
    | succ n =>
      cases hs : step H nf q a with
      | done r => rw [computeRootCalls_done n hs] at hlt; omega
      | next q' a' =>
        rw [computeRootCalls_next n hs] at hlt
        rw [computeRoot_next m hs]
        exact ih n q' a' (by omega)

/-- … and with at least that much it computes the same result as with the full fuel (whenever the
    full fuel is itself sufficient): `computeRootCalls` is the recursion depth actually used. -/
theorem computeRoot_eq_of_calls_le : ∀ (fuel fuel' : Nat) (q : List QD) (a : List Felt),
    computeRootCalls H nf fuel q a ≤ fuel' → computeRoot H nf fuel q a ≠ .err "fuel" →
    computeRoot H nf fuel' q a = computeRoot H nf fuel q a := by
  intro fuel
  induction fuel with
  | zero => intro fuel' q a _ h; simp [computeRoot] at h
  | succ n ih =>
    intro fuel' q a hle hne
    cases hs : step H nf q a with
    | done r =>
      rw [computeRootCalls_done n hs] at hle
      obtain ⟨m, rfl⟩ : ∃ m, fuel' = m + 1 := ⟨fuel' - 1, by omega⟩
      rw [computeRoot_done m hs, computeRoot_done n hs]
    | next q' a' =>
      rw [computeRootCalls_next n hs] at hle
      obtain ⟨m, rfl⟩ : ∃ m, fuel' = m + 1 := ⟨fuel' - 1, by omega⟩
      rw [computeRoot_next n hs] at hne
      rw [computeRoot_next m hs, computeRoot_next n hs]
      exact ih m q' a' (by omega) hne

/-- the minimal sufficient fuel is exactly `computeRootCalls` (for a run that terminates within `fuel`) -/
theorem computeRoot_fuel_iff (fuel fuel' : Nat) (q : List QD) (a : List Felt)
    (hne : computeRoot H nf fuel q a ≠ .err "fuel") :
    computeRoot H nf fuel' q a ≠ .err "fuel" ↔ computeRootCalls H nf fuel q a ≤ fuel' := by
  constructor
  · intro h
    apply Nat.le_of_not_lt
    intro hlt
    exact h (computeRoot_fuel_of_lt fuel' fuel q a hlt)
  · intro hle
    rw [computeRoot_eq_of_calls_le fuel fuel' q a hle hne]
    exact hne

/-- the count does not depend on the fuel either, once the fuel suffices -/
theorem computeRootCalls_fuel_indep : ∀ (fuel fuel' : Nat) (q : List QD) (a : List Felt),
    computeRoot H nf fuel q a ≠ .err "fuel" → computeRoot H nf fuel' q a ≠ .err "fuel" →
    computeRootCalls H nf fuel' q a = computeRootCalls H nf fuel q a := by
  intro fuel
  induction fuel with
  | zero => intro fuel' q a h; simp [computeRoot] at h
  | succ n ih =>
    intro fuel' q a h1 h2
    cases fuel' with
    | zero => simp [computeRoot] at h2
    | succ m =>
      cases hs : step H nf q a with
      | done r => rw [computeRootCalls_done m hs, computeRootCalls_done n hs]
      | next q' a' =>
        rw [computeRoot_next n hs] at h1
        rw [computeRoot_next m hs] at h2
        rw [computeRootCalls_next m hs, computeRootCalls_next n hs, ih m q' a' h1 h2]

/-! ### the bound -/

/-- the measure: sum of the bit lengths (minus one) of the heap indices in the queue -/
def logSum (q : List QD) : Nat := (q.map fun e => Nat.log2 e.index.val).sum

theorem logSum_nil : logSum [] = 0 := rfl

theorem logSum_cons (e : QD) (q : List QD) : logSum (e :: q) = Nat.log2 e.index.val + logSum q := by
  simp [logSum]

theorem logSum_append (p q : List QD) : logSum (p ++ q) = logSum p + logSum q := by
  simp [logSum, List.sum_append]

/-- what a recursive call is made on: the head `cur` is replaced by its parent `cur.index / 2`
    (appended at the end), and possibly the next entry is dropped as well -/
theorem step_next_shape {cur : QD} {rest q' : List QD} {a a' : List Felt}
    (h : step H nf (cur :: rest) a = .next q' a') :
    cur.index ≠ 1 ∧ ∃ (r : List QD) (v d : Felt),
      q' = r ++ [⟨Felt.ofNat (cur.index.val / 2), v, d⟩] ∧ (r = rest ∨ ∃ n, rest = n :: r) := by
  unfold step at h
  simp only [] at h
  repeat' split at h
  all_goals try cases h
  all_goals refine ⟨‹_›, _, _, _, rfl, ?_⟩
  all_goals first | exact Or.inl rfl | exact Or.inr ⟨_, rfl⟩

/-- every step strictly decreases `logSum` and keeps the indices non-zero -/
theorem step_next_measure {q q' : List QD} {a a' : List Felt}
    (h : step H nf q a = .next q' a') (hpos : ∀ e ∈ q, 1 ≤ e.index.val) :
    (∀ e ∈ q', 1 ≤ e.index.val) ∧ logSum q' + 1 ≤ logSum q := by
  cases q with
  | nil => simp [step] at h
  | cons cur rest =>
    obtain ⟨h1, r, v, d, rfl, hr⟩ := step_next_shape h
    have hc1 : 1 ≤ cur.index.val := hpos cur (by simp)
    have hc2 : 2 ≤ cur.index.val := by
      have : cur.index.val ≠ 1 := fun e => h1 (Fin.ext (by rw [e, one_val]))
      omega
    have hpv : (Felt.ofNat (cur.index.val / 2)).val = cur.index.val / 2 := by
      show cur.index.val / 2 % P = _
      exact Nat.mod_eq_of_lt (by have := cur.index.isLt; omega)
    have hlog : Nat.log2 cur.index.val = Nat.log2 (cur.index.val / 2) + 1 := by
      rw [Nat.log2_def cur.index.val, if_pos hc2]
    have hsub : (∀ e ∈ r, e ∈ rest) ∧ logSum r ≤ logSum rest := by
      rcases hr with rfl | ⟨n, rfl⟩
      · exact ⟨fun _ h => h, Nat.le_refl _⟩
      · exact ⟨fun e he => by simp [he], by rw [logSum_cons]; omega⟩
    constructor
    · intro e he
      rw [List.mem_append] at he
      rcases he with he | he
      · exact hpos e (by simp [hsub.1 e he])
      · simp only [List.mem_singleton] at he
        subst he
        show 1 ≤ (Felt.ofNat (cur.index.val / 2)).val
        rw [hpv]; omega
    · rw [logSum_append, logSum_cons, logSum_cons, logSum_nil]
      show logSum r + (Nat.log2 (Felt.ofNat (cur.index.val / 2)).val + 0) + 1 ≤ _
      rw [hpv]
      have := hsub.2
      omega

/-- **Depth bound.**  If every queue entry has a non-zero heap index, the walk makes at most
    `1 + Σ log2 index` calls — for ANY list of authentication nodes and any fuel. -/
theorem computeRootCalls_le : ∀ (fuel : Nat) (queue : List QD) (auths : List Felt),
    (∀ e ∈ queue, 1 ≤ e.index.val) →
    computeRootCalls H nf fuel queue auths ≤ 1 + logSum queue := by
  intro fuel
  induction fuel with
  | zero => intro q a _; simp [computeRootCalls]
  | succ n ih =>
    intro q a hpos
    cases hs : step H nf q a with
    | done r => rw [computeRootCalls_done n hs]; omega
    | next q' a' =>
      rw [computeRootCalls_next n hs]
      obtain ⟨hpos', hm⟩ := step_next_measure hs hpos
      have := ih q' a' hpos'
      omega

/-- the measure in the brief's notation -/
theorem computeRootCalls_le' (fuel : Nat) (queue : List QD) (auths : List Felt)
    (hpos : ∀ e ∈ queue, 1 ≤ e.index.val) :
    computeRootCalls H nf fuel queue auths ≤ 1 + (queue.map fun e => Nat.log2 e.index.val).sum :=
  computeRootCalls_le fuel queue auths hpos

/-! ### the count depends only on the indices and on HOW MANY authentication nodes there are -/

/-- the walk on heap indices alone: `nAuth` authentication nodes are available -/
def idxCalls : Nat → List Felt → Nat → Nat
  | 0, _, _ => 0
  | fuel + 1, queue, nAuth =>
    match queue with
    | [] => 1
    | cur :: rest =>
      if cur = 1 then 1
      else
        let parent := Felt.ofNat (cur.val / 2)
        let withAuth : Unit → Nat := fun _ =>
          match nAuth with
          | 0 => 1
          | n + 1 => 1 + idxCalls fuel (rest ++ [parent]) n
        if cur.val % 2 = 0 then
          match rest with
          | next :: rest' =>
            if cur + 1 = next then 1 + idxCalls fuel (rest' ++ [parent]) nAuth
            else withAuth ()
          | [] => withAuth ()
        else withAuth ()

/-- neither the hash functions, nor the values, nor the contents of `auths` influence the depth -/
theorem computeRootCalls_eq_idxCalls : ∀ (fuel : Nat) (q : List QD) (a : List Felt),
    computeRootCalls H nf fuel q a = idxCalls fuel (q.map (·.index)) a.length := by
  intro fuel
  induction fuel with
  | zero => intro q a; rfl
  | succ n ih =>
    intro q a
    simp only [computeRootCalls, idxCalls]
    repeat' split
    all_goals simp_all

/-! ### the callers: `Vector.decommit`, `Table.decommit` -/

/-- the queue `vector_commitment_decommit` starts the walk from -/
def shiftedQueue (c : Commitment) (queries : List Query) : List QD :=
  queries.map fun q => (⟨q.index + Felt.pow 2 c.config.height.val, q.value, c.config.height⟩ : QD)

/-- recursive calls of `compute_root_from_queries` made by `Vector.decommit` -/
def decommitCalls (H : Hashes) (c : Commitment) (queries : List Query) (auths : List Felt) : Nat :=
  computeRootCalls H c.config.nFriendly ((shiftedQueue c queries).length + auths.length + 1)
    (shiftedQueue c queries) auths

/-- recursive calls of `compute_root_from_queries` made by `Table.decommit` (none when it fails before
    reaching the vector decommitment) -/
def tableDecommitCalls (H : Hashes) (c : Table.Commitment) (queries values auths : List Felt) : Nat :=
  let bottomDepth := c.vector.config.height + 1
  let friendly := decide (c.vector.config.nFriendly.val ≥ bottomDepth.val)
  if c.nColumns.val ≥ 2 ^ 32 then 0
  else if c.nColumns.val * queries.length ≠ values.length then 0
  else
    let mont := values.map (· * Table.MONTGOMERY_R)
    decommitCalls H c.vector (Table.vectorQueries H c.nColumns.val friendly queries mont) auths

/-- `decommitCalls` is the recursion depth of `Vector.decommit`: the model gives `computeRoot` the fuel
    `queue.length + auths.length + 1`, but any fuel `≥ decommitCalls` yields the same outcome. -/
theorem decommit_eq_of_fuel (c : Commitment) (queries : List Query) (auths : List Felt) (fuel : Nat)
    (hf : decommitCalls H c queries auths ≤ fuel) :
    Vector.decommit H c queries auths =
      match computeRoot H c.config.nFriendly fuel (shiftedQueue c queries) auths with
      | .ok r => if c.root ≠ r then .err "MisMatch" else .ok ()
      | .err e => .err e
      | .panic s => .panic s := by
  have h := computeRoot_eq_of_calls_le (H := H) (nf := c.config.nFriendly)
    ((shiftedQueue c queries).length + auths.length + 1) fuel (shiftedQueue c queries) auths hf
    (Merkle.computeRoot_fuel_aux _ _ _ (Nat.lt_succ_self _))
  rw [h]
  rfl

/-- … and it is the least such fuel -/
theorem decommit_fuel_of_lt (c : Commitment) (queries : List Query) (auths : List Felt) (fuel : Nat)
    (hf : fuel < decommitCalls H c queries auths) :
    computeRoot H c.config.nFriendly fuel (shiftedQueue c queries) auths = .err "fuel" :=
  computeRoot_fuel_of_lt fuel _ _ _ hf

/-- `tableDecommitCalls` against `Table.decommit` -/
theorem tableDecommit_eq (c : Table.Commitment) (queries values auths : List Felt) :
    Table.decommit H c queries values auths =
      if c.nColumns.val ≥ 2 ^ 32 then .err "TryFromBigInt"
      else if c.nColumns.val * queries.length ≠ values.length then .err "DecommitmentLength"
      else Vector.decommit H c.vector
        (Table.vectorQueries H c.nColumns.val
          (decide (c.vector.config.nFriendly.val ≥ (c.vector.config.height + 1).val)) queries
          (values.map (· * Table.MONTGOMERY_R))) auths := rfl

theorem tableDecommitCalls_eq (c : Table.Commitment) (queries values auths : List Felt)
    (h1 : ¬ c.nColumns.val ≥ 2 ^ 32) (h2 : ¬ c.nColumns.val * queries.length ≠ values.length) :
    tableDecommitCalls H c queries values auths =
      decommitCalls H c.vector
        (Table.vectorQueries H c.nColumns.val
          (decide (c.vector.config.nFriendly.val ≥ (c.vector.config.height + 1).val)) queries
          (values.map (· * Table.MONTGOMERY_R))) auths := by
  unfold tableDecommitCalls
  simp only []
  rw [if_neg h1, if_neg h2]

theorem logSum_le (h : Nat) : ∀ (q : List QD), (∀ e ∈ q, Nat.log2 e.index.val ≤ h) →
    logSum q ≤ q.length * h := by
  intro q
  induction q with
  | nil => intro _; simp [logSum]
  | cons e q ih =>
    intro hq
    rw [logSum_cons, List.length_cons, Nat.succ_mul]
    have := ih (fun x hx => hq x (by simp [hx]))
    have := hq e (by simp)
    omega

/-! ### the callers of `Table.decommit`: `Fri.verifyLayers`, `Fri.verify`, `Stark.verifyPhase`

  Each function below follows the control flow of its model twin and returns the list of the call
  counts of the Merkle walks that are started (one entry per executed `Table.decommit`). -/

/-- one entry per FRI layer table that `fri_verify_layers` decommits -/
def verifyLayersCalls (H : Hashes) : Nat → List Table.Commitment → List Fri.LayerWitness → List Felt →
    List Felt → List Fri.LayerQuery → List Nat
  | 0, _, _, _, _, _ => []
  | n + 1, cs, ws, es, steps, qs =>
    match ws with
    | [] => []
    | w :: ws' =>
      match cs with
      | [] => []
      | c :: cs' =>
        match steps with
        | [] => []
        | st :: steps' =>
          match es with
          | [] => []
          | e :: es' =>
            let cosetSize := Felt.pow 2 st.val
            match Fri.computeNextLayer qs w.leaves cosetSize e with
            | .ok nl =>
              tableDecommitCalls H c nl.verifyIndices nl.verifyYValues w.auths ::
                match Table.decommit H c nl.verifyIndices nl.verifyYValues w.auths with
                | .ok () => verifyLayersCalls H n cs' ws' es' steps' nl.nextQueries
                | _ => []
            | _ => []

/-- the walks started by `fri_verify` -/
def friVerifyCalls (H : Hashes) (queries : List Felt) (c : Fri.Commitment) (values points : List Felt)
    (witness : List Fri.LayerWitness) : List Nat :=
  if queries.length ≠ values.length then []
  else
    match Fri.gatherFirstLayer queries values points with
    | .ok fq =>
      if c.config.friStepSizes.length < 1 then []
      else if (c.config.nLayers - 1).val ≥ 2 ^ 64 then []
      else verifyLayersCalls H (c.config.nLayers - 1).val c.innerLayers witness c.evalPoints
        (c.config.friStepSizes.drop 1) fq
    | _ => []

/-- the walks started by `stark_verify` (`Stark.verifyPhase`): the two trace tables always, the
    composition table when both succeed, then those of `fri_verify` when it is reached -/
def verifyPhaseCalls (L : LayoutOps) (H : Hashes) (n1 n2 : Nat) (pi : PublicInput) (queries : List Felt)
    (c : Stark.Commitment) (w : Stark.Witness) (d : StarkDomains) : List Nat :=
  let k1 := tableDecommitCalls H c.tracesOriginal queries w.tracesOriginalValues w.tracesOriginalAuths
  let k2 := tableDecommitCalls H c.tracesInteraction queries w.tracesInteractionValues
    w.tracesInteractionAuths
  match Table.decommit H c.tracesOriginal queries w.tracesOriginalValues w.tracesOriginalAuths,
      Table.decommit H c.tracesInteraction queries w.tracesInteractionValues w.tracesInteractionAuths with
  | .ok (), .ok () =>
    k1 :: k2 :: tableDecommitCalls H c.composition queries w.compositionValues w.compositionAuths ::
      match Table.decommit H c.composition queries w.compositionValues w.compositionAuths with
      | .ok () =>
        if d.logEvalDomainSize.val > 64 then [] else
        match Queries.queriesToPoints queries d with
        | .ok points =>
          match Stark.evalOodsBoundary L n1 n2 pi c.oodsValues c.interactionAfterOods
              c.interactionAfterComposition d.traceGenerator points w.tracesOriginalValues
              w.tracesInteractionValues w.compositionValues with
          | .ok evals => friVerifyCalls H queries c.fri evals points w.friLayers
          | _ => []
        | _ => []
      | _ => []
  | _, _ => [k1, k2]

/-- tie to the model: a successful `verifyLayers` has decommitted all `n` layer tables -/
theorem verifyLayersCalls_length_of_ok : ∀ (n : Nat) (cs : List Table.Commitment)
    (ws : List Fri.LayerWitness) (es steps : List Felt) (qs r : List Fri.LayerQuery),
    Fri.verifyLayers H n cs ws es steps qs = .ok r →
    (verifyLayersCalls H n cs ws es steps qs).length = n := by
  intro n
  induction n with
  | zero => intros; rfl
  | succ n ih =>
    intro cs ws es steps qs r h
    cases ws with
    | nil => simp [Fri.verifyLayers] at h
    | cons w ws' =>
    cases cs with
    | nil => simp [Fri.verifyLayers] at h
    | cons c cs' =>
    cases steps with
    | nil => simp [Fri.verifyLayers] at h
    | cons st steps' =>
    cases es with
    | nil => simp [Fri.verifyLayers] at h
    | cons e es' =>
      simp only [Fri.verifyLayers] at h
      simp only [verifyLayersCalls]
      cases hnl : Fri.computeNextLayer qs w.leaves (Felt.pow 2 st.val) e with
      | err x => simp [hnl] at h
      | panic x => simp [hnl] at h
      | ok nl =>
        simp only [hnl] at h ⊢
        cases hdec : Table.decommit H c nl.verifyIndices nl.verifyYValues w.auths with
        | err x => simp [hdec] at h
        | panic x => simp [hdec] at h
        | ok u =>
          simp only [hdec] at h ⊢
          rw [List.length_cons, ih _ _ _ _ _ _ h]

/-- tie to the model: an accepting `verifyPhase` has started the three trace / composition walks and
    one walk per FRI inner layer -/
theorem verifyPhaseCalls_length_of_ok (L : LayoutOps) (n1 n2 : Nat) (pi : PublicInput)
    (queries : List Felt) (c : Stark.Commitment) (w : Stark.Witness) (d : StarkDomains)
    (h : Stark.verifyPhase L H n1 n2 pi queries c w d = .ok ()) :
    (verifyPhaseCalls L H n1 n2 pi queries c w d).length = 3 + (c.fri.config.nLayers - 1).val := by
  unfold Stark.verifyPhase at h
  unfold verifyPhaseCalls
  simp only [] at h ⊢
  repeat' split at h
  all_goals try (cases h; done)
  rename_i h1 h2 _ h3 hle _ points hp _ evals he
  simp only [h1, h2, h3, hp, he, if_neg hle, List.length_cons]
  unfold Fri.verify at h
  unfold friVerifyCalls
  repeat' split at h
  all_goals try (cases h; done)
  all_goals rename_i hlen _ fq hfq hsl hnl _ last hlast _ _ _
  all_goals simp only [hfq, if_neg hlen, if_neg hsl, if_neg hnl]
  all_goals rw [verifyLayersCalls_length_of_ok _ _ _ _ _ _ _ hlast]
  all_goals omega

/-! ### index 0 is excluded for a reason -/

/-- an entry with heap index 0 is its own parent -/
theorem step_index_zero (v a d : Felt) (k : Nat) :
    step H nf [⟨0, v, d⟩] (List.replicate (k + 1) a) =
      .next [⟨0, hashFU H v a (decide (nf.val ≥ d.val)), d - 1⟩] (List.replicate k a) := by
  have h01 : ¬ ((0 : Felt) = 1) := by decide
  have hz : Felt.ofNat 0 = 0 := rfl
  simp [step, h01, List.replicate_succ, hz]

/-- With a heap index 0 in the queue the walk consumes one authentication node per call until they
    run out: the number of calls is `auths.length + 1`, so the hypothesis `1 ≤ index` of
    `computeRootCalls_le` cannot be dropped. -/
theorem computeRootCalls_index_zero (a : Felt) : ∀ (n fuel : Nat) (v d : Felt), n < fuel →
    computeRootCalls H nf fuel [⟨0, v, d⟩] (List.replicate n a) = n + 1 := by
  intro n
  induction n with
  | zero =>
    intro fuel v d hf
    obtain ⟨m, rfl⟩ : ∃ m, fuel = m + 1 := ⟨fuel - 1, by omega⟩
    have : step H nf [⟨0, v, d⟩] (List.replicate 0 a) = .done (.err "IndexInvalid") := by
      have h01 : ¬ ((0 : Felt) = 1) := by decide
      simp [step, h01]
    rw [computeRootCalls_done m this]
  | succ k ih =>
    intro fuel v d hf
    obtain ⟨m, rfl⟩ : ∃ m, fuel = m + 1 := ⟨fuel - 1, by omega⟩
    rw [computeRootCalls_next m (step_index_zero v a d k), ih m _ _ (by omega)]
    omega

end Swiftness.Proofs.MerkleDepth
