/-
  Per-layout kernel-checked facts for C16, "no coefficient position is identically zero" (restated in
  `Props/C16.lean`): on the generated witness input the fast shadow run (`Model/AstFast.lean`) executes ALL
  accumulate statements of the generated program and every term is non-zero.  Split over several modules so
  that they build in parallel.  Programs and witnesses are referred to by name only.
-/
import Swiftness.Proofs.AstFast
import Swiftness.Generated.Consts
import Swiftness.Proofs.AstLinearCover
import Swiftness.Generated.Layout.dynamic
import Swiftness.Generated.Witness.dynamic

set_option maxRecDepth 100000

namespace Swiftness.Proofs.AstFast.Facts
open Swiftness Swiftness.Ast Swiftness.Ast.Fast Swiftness.Gen Swiftness.Gen.Layout

theorem nz_dynamic_composition :
    nzCount dynamic.witnessComposition dynamic.witnessCompositionInv dynamic.composition = some dynamic.N_CONSTRAINTS := by
  ast_nz dynamic.composition

/-- in the witness of the composition evaluator every parameter that guards an accumulate statement (the ten
    `uses_*_builtin` switches, see `dynamic_composition_guards`) is `1`: all builtins are enabled -/
theorem witness_dynamic_switches :
    (AstLinear.accGuardParams dynamic.composition).map
        (fun j => (j.map fun j => dynamic.witnessComposition.dp.getD j 0)) = List.replicate 10 (some 1) := by
  unfold AstLinear.accGuardParams AstLinear.accGuardSlots dynamic.composition
  simp only [AstLinear.accGuards_append, List.flatMap_append, AstLinear.writers_append]
  decide +kernel

end Swiftness.Proofs.AstFast.Facts
