/-
  Multiplication by `MONTGOMERY_R` is injective (field cancellation; the only table lemma that
  needs the field structure).
-/
import Swiftness.Model.Table
import Swiftness.Proofs.FeltField

namespace Swiftness.Proofs.Table
open Swiftness

theorem MONTGOMERY_R_ne_zero : Table.MONTGOMERY_R ≠ Felt.ofNat 0 := by decide +kernel

theorem montgomery_injective {v v' : Felt}
    (h : v * Table.MONTGOMERY_R = v' * Table.MONTGOMERY_R) : v = v' := by
  have hR : Table.MONTGOMERY_R ≠ (0 : Felt) := by
    intro h0
    apply MONTGOMERY_R_ne_zero
    rw [h0]; rfl
  exact mul_right_cancel₀ hR h

end Swiftness.Proofs.Table
