/-
  C17, instrumented semantics: tick bounds for `queries.rs` and the vector / table decommitment.
  Core Lean only.
-/
import Swiftness.Proofs.TickedQueries
import Swiftness.Proofs.TickedMerkle

namespace Swiftness.Ticked
open Swiftness

/-! ### `queries.rs` -/

/-- the sampling loop takes exactly `2 n` steps (one iteration + one squeeze per sample), for ANY `n` -/
theorem sampleT_ticks (H : Hashes) (bound n : Nat) (t : Transcript) : (sampleT H bound n t).ticks = 2 * n := by
  induction n generalizing t with
  | zero => rfl
  | succ n ih => simp [sampleT, ih]; omega

theorem sample_length (H : Hashes) (bound n : Nat) (t : Transcript) :
    (Queries.sample H bound n t).1.length = n := by
  induction n generalizing t with
  | zero => rfl
  | succ n ih => simp [Queries.sample, ih]

theorem length_insertSorted (x : Felt) (l : List Felt) : (Queries.insertSorted x l).length = l.length + 1 := by
  induction l with
  | nil => rfl
  | cons y ys ih => simp only [Queries.insertSorted]; split <;> simp [ih]

theorem length_sort (l : List Felt) : (Queries.sort l).length = l.length := by
  induction l with
  | nil => rfl
  | cons x xs ih => simp [Queries.sort, length_insertSorted, ih]

theorem length_dedup (l : List Felt) : (Queries.dedup l).length ≤ l.length := by
  fun_induction Queries.dedup l <;> simp_all <;> omega

theorem insertSortedT_ticks (x : Felt) (l : List Felt) : (insertSortedT x l).ticks ≤ l.length + 1 := by
  induction l with
  | nil => simp [insertSortedT]
  | cons y ys ih =>
    simp only [insertSortedT, Tk.bind_ticks, Tk.tick_ticks]
    split <;> simp <;> omega

theorem sortT_ticks (l : List Felt) : (sortT l).ticks ≤ l.length * l.length + l.length := by
  induction l with
  | nil => simp [sortT]
  | cons x xs ih =>
    simp only [sortT, Tk.bind_ticks, Tk.tick_ticks, sortT_val, List.length_cons]
    have := insertSortedT_ticks x (Queries.sort xs)
    rw [length_sort] at this
    have e : (xs.length + 1) * (xs.length + 1) = xs.length * xs.length + 2 * xs.length + 1 := by grind
    omega

theorem dedupT_ticks (l : List Felt) : (dedupT l).ticks ≤ l.length := by
  fun_induction Queries.dedup l <;> simp_all [dedupT] <;> omega

/-- `generate_queries`: sampling, insertion sort, dedup -/
def Cost'.sampling (q : Nat) : Nat := 1 + 2 * q + (q * q + q) + q

theorem generateQueriesT_ticks (H : Hashes) (t : Transcript) (n bound : Felt) :
    (generateQueriesT H t n bound).ticks ≤ Cost'.sampling n.val := by
  unfold Cost'.sampling
  simp only [generateQueriesT, TO.bind_ticks, TO.tick_ticks, TO.tick_out, TO.rest_ok]
  split
  · simp; omega
  · split
    · simp; omega
    · simp only [TO.bind_ticks, TO.monadLift_ticks, TO.monadLift_out, TO.rest_ok, sampleT_ticks,
        sampleT_val, sortT_val, TO.pure_ticks]
      have h1 := sortT_ticks (Queries.sample H bound.val n.val t).1
      have h2 := dedupT_ticks (Queries.sort (Queries.sample H bound.val n.val t).1)
      rw [length_sort] at h2
      rw [sample_length] at h1 h2
      omega

/-- the queries handed to the later phases are at most `n_queries` many -/
theorem generateQueries_length {H : Hashes} {t t' : Transcript} {n bound : Felt} {qs : List Felt}
    (h : Queries.generateQueries H t n bound = .ok (qs, t')) : qs.length ≤ n.val := by
  unfold Queries.generateQueries at h
  split at h
  · cases h
  · split at h
    · cases h
    · simp only [Outcome.ok.injEq, Prod.mk.injEq] at h
      rw [← h.1]
      refine Nat.le_trans (length_dedup _) ?_
      rw [length_sort, sample_length]; exact Nat.le_refl _

theorem reverseBits64AuxT_ticks (k n acc : Nat) : (reverseBits64AuxT k n acc).ticks = k := by
  induction k generalizing n acc with
  | zero => rfl
  | succ k ih => simp [reverseBits64AuxT, ih]; omega

theorem pointsLoopT_ticks (shift g : Felt) (qs : List Felt) :
    (pointsLoopT shift g qs).ticks ≤ qs.length * (65 + Cost.F) := by
  induction qs with
  | nil => simp [pointsLoopT]
  | cons q qs ih =>
    simp only [pointsLoopT, TO.bind_ticks, TO.tick_ticks, TO.tick_out, TO.rest_ok, List.length_cons]
    rw [Nat.add_mul]
    split
    · simp; omega
    · simp only [TO.bind_ticks, TO.rest]
      split
      · simp [reverseBits64T, reverseBits64AuxT_ticks] <;> omega
      · omega

/-- `queries_to_points`: per query a 64-step bit reversal and one exponentiation -/
def Cost'.points (nq : Nat) : Nat := 1 + Cost.F + nq * (65 + Cost.F)

theorem queriesToPointsT_ticks (qs : List Felt) (d : StarkDomains) :
    (queriesToPointsT qs d).ticks ≤ Cost'.points qs.length := by
  unfold Cost'.points
  simp only [queriesToPointsT, TO.bind_ticks, TO.tick_ticks, TO.tick_out, TO.rest_ok]
  split
  · simp; omega
  · have := pointsLoopT_ticks (Felt.pow 2 (Felt.ofNat Queries.MAX_DOMAIN_SIZE - d.logEvalDomainSize).val)
      d.evalGenerator qs
    simp only [TO.bind_ticks, TO.monadLift_ticks, TO.monadLift_out, TO.rest_ok, powT_ticks, powT_val]
    omega

/-! ### `compute_root_from_queries` -/

/-- at most `fuel` iterations, each with one hash call and a re-queue of at most `queue.length` items -/
theorem computeRootT_ticks (H : Hashes) (nf : Felt) (fuel : Nat) (queue : List Vector.QD) (auths : List Felt) :
    (computeRootT H nf fuel queue auths).ticks ≤ fuel * (queue.length + 2) := by
  induction fuel generalizing queue auths with
  | zero => simp [computeRootT]
  | succ n ih =>
    have key : ∀ (q' : List Vector.QD) (a' : List Felt), q'.length ≤ queue.length →
        (computeRootT H nf n q' a').ticks ≤ n * (queue.length + 2) := by
      intro q' a' hq
      exact Nat.le_trans (ih q' a') (Nat.mul_le_mul_left _ (by omega))
    rw [Nat.add_mul, Nat.one_mul]
    generalize n * (queue.length + 2) = M at key
    simp only [computeRootT, TO.bind_ticks, TO.tick_ticks, TO.tick_out, TO.rest_ok]
    repeat' split
    all_goals simp only [TO.pure_ticks, TO.err_ticks, TO.bind_ticks, TO.monadLift_ticks, TO.monadLift_out,
      TO.rest_ok, hashFUT_ticks, appendT_ticks, appendT_val, List.length_cons, List.length_nil] at *
    all_goals first
      | omega
      | grind

/-- `vector_commitment_decommit` for `nq` queries and `na` authentication values -/
def Cost'.vectorDecommit (nq na : Nat) : Nat := 1 + Cost.F + nq + (nq + na + 1) * (nq + 2)

theorem vectorDecommitT_ticks (H : Hashes) (c : Vector.Commitment) (queries : List Vector.Query)
    (auths : List Felt) :
    (vectorDecommitT H c queries auths).ticks ≤ Cost'.vectorDecommit queries.length auths.length := by
  unfold Cost'.vectorDecommit
  simp only [vectorDecommitT, TO.bind_ticks, TO.tick_ticks, TO.tick_out, TO.rest_ok, TO.monadLift_ticks,
    TO.monadLift_out, powT_ticks, mapT_ticks, mapT_val, List.length_map]
  have := computeRootT_ticks H c.config.nFriendly (queries.length + auths.length + 1)
    (queries.map fun q => (⟨q.index + Felt.pow 2 c.config.height.val, q.value, c.config.height⟩ : Vector.QD)) auths
  rw [List.length_map] at this
  have h2 : TO.rest (computeRootT H c.config.nFriendly (queries.length + auths.length + 1)
      (queries.map fun q => (⟨q.index + Felt.pow 2 c.config.height.val, q.value, c.config.height⟩ : Vector.QD))
      auths).out (fun r => if c.root ≠ r then TO.err "MisMatch" else pure ()) ≤ 0 :=
    TO.rest_le _ _ 0 (by intro a _; split <;> simp)
  simp only [powT_val]
  omega

/-! ### `table_decommit` -/

theorem rowHashT_ticks (H : Hashes) (nc : Nat) (fr : Bool) (row : List Felt) :
    (rowHashT H nc fr row).ticks ≤ row.length + 1 := by
  unfold rowHashT
  repeat' split
  all_goals simp

theorem vectorQueries_length (H : Hashes) (nc : Nat) (fr : Bool) (qs vals : List Felt) :
    (Table.vectorQueries H nc fr qs vals).length = qs.length := by
  induction qs generalizing vals with
  | nil => rfl
  | cons q qs ih => simp [Table.vectorQueries, ih]

theorem vectorQueriesT_ticks (H : Hashes) (nc : Nat) (fr : Bool) (qs values : List Felt) :
    (vectorQueriesT H nc fr qs values).ticks ≤ 2 * qs.length + 3 * values.length := by
  induction qs generalizing values with
  | nil => simp [vectorQueriesT]
  | cons q qs ih =>
    simp only [vectorQueriesT, Tk.bind_ticks, Tk.tick_ticks, takeT_ticks, takeT_val, dropT_ticks, dropT_val,
      Tk.pure_ticks, List.length_cons]
    have h1 := rowHashT_ticks H nc fr (values.take nc)
    have h2 := ih (values.drop nc)
    rw [List.length_take] at h1
    rw [List.length_drop] at h2
    omega

/-- `table_decommit` of `nq` rows, `nv` values, `na` authentication values: Montgomery map (`nv`),
    row slicing and hashing (`2 nq + 3 nv`), vector decommitment -/
def Cost'.tableDecommit (nq nv na : Nat) : Nat := 1 + nv + (2 * nq + 3 * nv) + Cost'.vectorDecommit nq na

theorem tableDecommitT_ticks (H : Hashes) (c : Table.Commitment) (queries values auths : List Felt) :
    (tableDecommitT H c queries values auths).ticks ≤
      Cost'.tableDecommit queries.length values.length auths.length := by
  unfold Cost'.tableDecommit
  simp only [tableDecommitT, TO.bind_ticks, TO.tick_ticks, TO.tick_out, TO.rest_ok]
  split
  · simp; omega
  · split
    · simp; omega
    · simp only [TO.bind_ticks, TO.monadLift_ticks, TO.monadLift_out, TO.rest_ok, mapT_ticks, mapT_val,
        vectorQueriesT_val]
      have h1 := vectorQueriesT_ticks H c.nColumns.val
        (decide (c.vector.config.nFriendly.val ≥ (c.vector.config.height + 1).val)) queries
        (values.map (· * Table.MONTGOMERY_R))
      have h2 := vectorDecommitT_ticks H c.vector (Table.vectorQueries H c.nColumns.val
        (decide (c.vector.config.nFriendly.val ≥ (c.vector.config.height + 1).val)) queries
        (values.map (· * Table.MONTGOMERY_R))) auths
      rw [vectorQueries_length] at h2
      rw [List.length_map] at h1
      omega

theorem Cost'.tableDecommit_mono {a a' b b' c c' : Nat} (ha : a ≤ a') (hb : b ≤ b') (hc : c ≤ c') :
    Cost'.tableDecommit a b c ≤ Cost'.tableDecommit a' b' c' := by
  unfold Cost'.tableDecommit Cost'.vectorDecommit
  have : (a + c + 1) * (a + 2) ≤ (a' + c' + 1) * (a' + 2) := Nat.mul_le_mul (by omega) (by omega)
  omega

end Swiftness.Ticked
