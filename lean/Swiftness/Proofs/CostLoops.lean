/-
  C17, per-function step counts: the iteration count of every loop of the model is either an explicit
  numeric argument (structural recursion on a `Nat`: `sample`, `commitRounds`, `verifyLayers`,
  `cosetLoop`, `powAux`, `Diluted.iter`, `reverseBits64Aux`, and the fuels of `computeRoot` /
  `nextLayerLoop`) or the length of a list.  This file relates those counts to the sizes of the data:
  how many queries / rows / values each phase handles.
-/
import Swiftness.Proofs.FriLayerFuel
import Swiftness.Proofs.Queries
import Swiftness.Model.Stark

namespace Swiftness.Proofs.Cost
open Swiftness Fri
attribute [-instance] Fin.instOfNat

/-! ### `queries.rs` -/

/-- the sampling loop of `generate_queries` runs exactly `n` times and returns `n` samples, for ANY `n` -/
theorem sample_length (H : Hashes) (bound n : ℕ) (t : Transcript) :
    (Queries.sample H bound n t).1.length = n := by
  induction n generalizing t with
  | zero => rfl
  | succ n ih => simp [Queries.sample, ih]

/-- … and advances the transcript counter `n` times -/
theorem sample_counter (H : Hashes) (bound n : ℕ) (t : Transcript) :
    (Queries.sample H bound n t).2.counter = t.counter + (n : Felt) ∧
    (Queries.sample H bound n t).2.digest = t.digest := by
  induction n generalizing t with
  | zero => simp [Queries.sample]
  | succ n ih =>
    simp only [Queries.sample]
    have := ih (t.randomFelt H).2
    simp only [Transcript.randomFelt] at this ⊢
    refine ⟨?_, this.2⟩
    rw [this.1, one_felt]; push_cast; ring

theorem pointsLoop_length (shift g : Felt) (qs ps : List Felt)
    (h : Queries.pointsLoop shift g qs = .ok ps) : ps.length = qs.length := by
  induction qs generalizing ps with
  | nil => simp [Queries.pointsLoop] at h; subst h; rfl
  | cons q qs ih =>
    simp only [Queries.pointsLoop] at h
    split at h
    · cases h
    · split at h
      · next ps' hps => injection h with h; subst h; simp [ih _ hps]
      · cases h
      · cases h

/-! ### table / vector decommitment -/

/-- `generate_vector_queries` produces one Merkle query per FRI/trace query -/
theorem vectorQueries_length (H : Hashes) (nc : ℕ) (fr : Bool) (qs vals : List Felt) :
    (Table.vectorQueries H nc fr qs vals).length = qs.length := by
  induction qs generalizing vals with
  | nil => rfl
  | cons q qs ih => simp [Table.vectorQueries, ih]

/-! ### `layer.rs` -/

/-- `compute_coset_elements` returns exactly `n` more coset elements -/
theorem cosetLoop_elements_length (start : Felt) (n i : ℕ) (qs : List LayerQuery) (sibs : List Felt)
    (x : Felt) (acc : List Felt) (r : CosetResult) (h : cosetLoop start n i qs sibs x acc = .ok r) :
    r.elements.length = acc.length + n := by
  induction n generalizing i qs sibs x acc with
  | zero => simp only [cosetLoop, Outcome.ok.injEq] at h; subst h; simp
  | succ n ih =>
    simp only [cosetLoop] at h
    split at h
    · split at h
      · split at h
        · rw [ih _ _ _ _ _ h]; simp; omega
        · cases h
      · split at h
        · rw [ih _ _ _ _ _ h]; simp; omega
        · cases h
    · split at h
      · rw [ih _ _ _ _ _ h]; simp; omega
      · cases h

/-- `compute_coset_elements` consumes at most `n` sibling values -/
theorem cosetLoop_siblings (start : Felt) (n i : ℕ) (qs : List LayerQuery) (sibs : List Felt)
    (x : Felt) (acc : List Felt) (r : CosetResult) (h : cosetLoop start n i qs sibs x acc = .ok r) :
    r.siblings.length ≤ sibs.length ∧ sibs.length ≤ r.siblings.length + n := by
  induction n generalizing i qs sibs x acc with
  | zero => simp only [cosetLoop, Outcome.ok.injEq] at h; subst h; simp
  | succ n ih =>
    simp only [cosetLoop] at h
    split at h
    · split at h
      · split at h
        · have := ih _ _ _ _ _ h; omega
        · cases h
      · split at h
        · have := ih _ _ _ _ _ h; simp only [List.length_cons]; omega
        · cases h
    · split at h
      · have := ih _ _ _ _ _ h; simp only [List.length_cons]; omega
      · cases h

/-- `compute_next_layer`: at most one next-layer query, one verify index and `coset_size` verify values
    per query of this layer — whatever the indices are -/
theorem nextLayerLoop_counts (cs e : Felt) : ∀ (fuel : ℕ) (qs : List LayerQuery) (sibs : List Felt)
    (nq : List LayerQuery) (vi vy : List Felt) (r : NextLayer),
    nextLayerLoop cs e fuel qs sibs nq vi vy = .ok r →
    r.nextQueries.length ≤ nq.length + qs.length ∧ r.verifyIndices.length ≤ vi.length + qs.length ∧
    r.verifyYValues.length ≤ vy.length + qs.length * cs.val := by
  intro fuel
  induction fuel with
  | zero => intro qs sibs nq vi vy r h; simp [nextLayerLoop] at h
  | succ f ih =>
    intro qs sibs nq vi vy r h
    cases qs with
    | nil =>
      simp only [nextLayerLoop, Outcome.ok.injEq] at h
      subst h; simp
    | cons q qs' =>
      rw [nextLayerLoop] at h
      simp only at h
      split at h
      · cases h
      · next hcs0 =>
        split at h
        · next r' hr' =>
          split at h
          · have hpos : 0 < cs.val := by
              rcases Nat.eq_zero_or_pos cs.val with h0 | h0
              · exfalso; apply hcs0; apply Fin.ext; rw [h0]; rfl
              · exact h0
            unfold cosetElements at hr'
            split at hr'
            · cases hr'
            · have hprog := cosetLoop_progress _ _ _ _ _ _ _ _ _ hr'
                ⟨q.index.val % cs.val, Nat.zero_le _, by have := Nat.mod_lt q.index.val hpos; omega,
                  index_decomp q.index cs⟩
              have hel : r'.elements.length = cs.val := by
                simpa using cosetLoop_elements_length _ _ _ _ _ _ _ _ hr'
              have hih := ih _ _ _ _ _ _ h
              simp only [List.length_cons, List.length_append, hel] at hih hprog ⊢
              have hmul : r'.queries.length * cs.val + cs.val ≤ (qs'.length + 1) * cs.val := by
                have := Nat.mul_le_mul_right cs.val (show r'.queries.length + 1 ≤ qs'.length + 1 by omega)
                rwa [Nat.add_mul, Nat.one_mul] at this
              refine ⟨by omega, by omega, by omega⟩
          · cases h
          · cases h
        · cases h
        · cases h

theorem computeNextLayer_counts (qs : List LayerQuery) (sibs : List Felt) (cs e : Felt) (r : NextLayer)
    (h : computeNextLayer qs sibs cs e = .ok r) :
    r.nextQueries.length ≤ qs.length ∧ r.verifyIndices.length ≤ qs.length ∧
    r.verifyYValues.length ≤ qs.length * cs.val := by
  have := nextLayerLoop_counts cs e _ qs sibs [] [] [] r h
  simpa using this

/-! ### `fri.rs` -/

theorem gatherFirstLayer_length (qs evals xs : List Felt) (r : List LayerQuery)
    (h : gatherFirstLayer qs evals xs = .ok r) : r.length = qs.length := by
  induction qs generalizing evals xs r with
  | nil => simp [gatherFirstLayer] at h; subst h; rfl
  | cons q qs ih =>
    cases xs with
    | nil => simp [gatherFirstLayer] at h
    | cons x xs' =>
      cases evals with
      | nil => simp [gatherFirstLayer] at h
      | cons y evals' =>
        simp only [gatherFirstLayer] at h
        split at h
        · cases h
        · split at h
          · next r' hr' => injection h with h; subst h; simp [ih _ _ _ hr']
          · next o hno => rw [h] at hno; exact absurd rfl (hno _)

/-- the number of queries never grows from one FRI layer to the next -/
theorem verifyLayers_length (H : Hashes) (n : ℕ) (cs : List Table.Commitment) (ws : List LayerWitness)
    (es steps : List Felt) (qs r : List LayerQuery)
    (h : verifyLayers H n cs ws es steps qs = .ok r) : r.length ≤ qs.length := by
  induction n generalizing cs ws es steps qs with
  | zero => simp [verifyLayers] at h; subst h; exact Nat.le_refl _
  | succ n ih =>
    cases ws with
    | nil => simp [verifyLayers] at h
    | cons w ws' =>
      cases cs with
      | nil => simp [verifyLayers] at h
      | cons c cs' =>
        cases steps with
        | nil => simp [verifyLayers] at h
        | cons st steps' =>
          cases es with
          | nil => simp [verifyLayers] at h
          | cons e es' =>
            simp only [verifyLayers] at h
            split at h
            · next nl hnl =>
              split at h
              · have h1 := ih _ _ _ _ _ h
                have h2 := (computeNextLayer_counts _ _ _ _ _ hnl).1
                omega
              · cases h
              · cases h
            · cases h
            · cases h

end Swiftness.Proofs.Cost
