def hello := "world"
