/- Model of `crates/air/src/diluted.rs`. -/
import Swiftness.Model.Felt

namespace Swiftness.Diluted

structure St where
  x : Felt
  diffX : Felt
  p : Felt
  q : Felt

def stepSt (mult z : Felt) (s : St) : St :=
  let x := s.x + s.diffX
  let diffX := s.diffX * mult
  let xp := x * s.p
  let y := s.p + z * xp
  { x := x, diffX := diffX, q := s.q * y + x * xp + s.q, p := s.p * y }

def iter (mult z : Felt) : Nat → St → St
  | 0, s => s
  | n + 1, s => iter mult z n (stepSt mult z s)

/-- `get_diluted_product`: the loop runs until the `Felt` counter equals `n_bits - 1`,
    i.e. `(n_bits - 1).val` times (`n_bits = 0` would need `P - 1` iterations). -/
def getDilutedProduct (nBits spacing z alpha : Felt) : Felt :=
  let mult := Felt.pow 2 spacing.val
  let s := iter mult z (nBits - 1).val { x := 1, diffX := mult - 2, p := z + 1, q := 1 }
  s.p + s.q * alpha

end Swiftness.Diluted
