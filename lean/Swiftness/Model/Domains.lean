/-
  Model of `crates/air/src/domains.rs` (`StarkDomains::new`).
-/
import Swiftness.Model.Felt
import Swiftness.Model.Outcome
import Swiftness.Generated.Consts

namespace Swiftness

structure StarkDomains where
  logEvalDomainSize : Felt
  evalDomainSize : Felt
  evalGenerator : Felt
  logTraceDomainSize : Felt
  traceDomainSize : Felt
  traceGenerator : Felt
  deriving DecidableEq, Repr

namespace StarkDomains

def FIELD_GENERATOR : Felt := Felt.ofNat Gen.Domains.FIELD_GENERATOR
def STARK_PRIME_MINUS_ONE : Felt := Felt.ofNat Gen.Domains.STARK_PRIME_MINUS_ONE

/-- `StarkDomains::new`.  `NonZeroFelt::try_from(x).unwrap()` panics when `x = 0`;
    `field_div` is multiplication by the inverse; `pow_felt` uses the exponent's representative. -/
def new (logTrace logNCosets : Felt) : Outcome StarkDomains :=
  let logEval := logTrace + logNCosets
  let evalSize := Felt.pow 2 logEval.val
  let traceSize := Felt.pow 2 logTrace.val
  if evalSize = 0 then .panic "domains.rs:new:unwrap:0"
  else if traceSize = 0 then .panic "domains.rs:new:unwrap:1"
  else
    .ok {
      logEvalDomainSize := logEval
      evalDomainSize := evalSize
      evalGenerator := Felt.pow FIELD_GENERATOR (STARK_PRIME_MINUS_ONE * Felt.inv evalSize).val
      logTraceDomainSize := logTrace
      traceDomainSize := traceSize
      traceGenerator := Felt.pow FIELD_GENERATOR (STARK_PRIME_MINUS_ONE * Felt.inv traceSize).val }

end StarkDomains
end Swiftness
