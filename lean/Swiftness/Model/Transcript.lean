/- Model of `crates/transcript/src/transcript.rs`. -/
import Swiftness.Model.Hashes

namespace Swiftness

structure Transcript where
  digest : Felt
  counter : Felt
  deriving DecidableEq, Repr

namespace Transcript

def new (digest : Felt) : Transcript := ⟨digest, 0⟩

/-- `random_felt_to_prover` -/
def randomFelt (H : Hashes) (t : Transcript) : Felt × Transcript :=
  (H.poseidon2 t.digest t.counter, { t with counter := t.counter + 1 })

/-- `random_felts_to_prover(len)`: `len.val` single squeezes (`while len > 0 { push(random_felt_to_prover()); len -= 1 }`) -/
def randomFeltsAux (H : Hashes) : Nat → Transcript → List Felt × Transcript
  | 0, t => ([], t)
  | n + 1, t =>
    let (c, t') := randomFelt H t
    let (cs, t'') := randomFeltsAux H n t'
    (c :: cs, t'')

def randomFelts (H : Hashes) (t : Transcript) (len : Felt) : List Felt × Transcript := randomFeltsAux H len.val t

/-- `read_felt_from_prover` -/
def readFelt (H : Hashes) (t : Transcript) (v : Felt) : Transcript :=
  ⟨H.poseidonMany [t.digest + 1, v], 0⟩

/-- `read_felt_vector_from_prover` -/
def readFeltVector (H : Hashes) (t : Transcript) (vs : List Felt) : Transcript :=
  ⟨H.poseidonMany ((t.digest + 1) :: vs), 0⟩

/-- `read_uint64_from_prover` (`n < 2^64`) -/
def readU64 (H : Hashes) (t : Transcript) (n : Nat) : Transcript := readFelt H t (Felt.ofNat n)

/-- the operations of the public API, for histories -/
inductive Op where
  | absorbFelt (v : Felt)
  | absorbVec (vs : List Felt)
  | absorbU64 (n : Nat)
  | squeeze
  deriving DecidableEq, Repr

/-- one step: new state and the challenge produced, if any -/
def step (H : Hashes) (t : Transcript) : Op → Transcript × Option Felt
  | .absorbFelt v => (readFelt H t v, none)
  | .absorbVec vs => (readFeltVector H t vs, none)
  | .absorbU64 n => (readU64 H t n, none)
  | .squeeze => let (c, t') := randomFelt H t; (t', some c)

/-- run a history; returns the final state and the challenges in order -/
def run (H : Hashes) : Transcript → List Op → Transcript × List Felt
  | t, [] => (t, [])
  | t, op :: ops =>
    let (t', c) := step H t op
    let (t'', cs) := run H t' ops
    (t'', match c with | some x => x :: cs | none => cs)

end Transcript
end Swiftness
