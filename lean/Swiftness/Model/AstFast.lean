/-
  A kernel-friendly evaluator for the translated programs of `Model/Ast.lean` (property C16,
  "no coefficient position is identically zero").  Core Lean only.

  `Model/Ast.lean` keeps the local slots in a function store `Nat → Felt` (a chain of closures: one
  read costs O(number of writes)) and the inputs in arrays.  Here

    * field elements are their representatives (`Nat`, arithmetic `… % P` on GMP-accelerated `Nat`
      primitives), forced to a literal after every operation (`force`),
    * the store and the input vectors are binary tries keyed by the bits of the index; the trie is
      updated in continuation-passing style (`setK`) so that, under the kernel's call-by-name
      reduction, every trie that is passed on is a fully evaluated constructor tree (a lazily
      updated trie degenerates into chains of suspended projections),
    * field inverses may be supplied as HINTS (a list consumed in evaluation order): a hint `h` for
      the divisor `y` is used only after checking `y * h % P = 1 ∧ h < P`; without hints the inverse
      is computed (`invN`, Fermat),
    * the run is a structurally recursive loop `nzGo` that threads the trie, the hints and a counter.

  `nzCount inp hints p = some k` implies that the coefficient-free shadow run of `p` on `inp` (the one
  that defines `executedTerms` in `Proofs/AstChain.lean`) executes exactly `k` accumulate statements
  and every one of them has a NON-ZERO term.  This is proved in `Proofs/AstFast.lean` for all
  programs, inputs and hint lists; nothing here is trusted.
-/
import Swiftness.Model.Ast

namespace Swiftness.Ast.Fast

/-- evaluate `n` to a literal before continuing (the kernel substitutes arguments unevaluated;
    matching on `n` forces it).  `force n k = k n`. -/
def force {α : Sort u} (n : Nat) (k : Nat → α) : α :=
  match n with
  | 0 => k 0
  | Nat.succ m => k (Nat.succ m)

/-- binary trie: key `0` is the root, odd keys `2j+1` live in the left subtree under key `j`, even
    keys `2j+2` in the right subtree under key `j`; absent = `0` -/
inductive Trie where
  | leaf : Trie
  | node (v : Nat) (l r : Trie) : Trie
  deriving Inhabited

namespace Trie

def get : Trie → Nat → Nat
  | leaf, _ => 0
  | node v l r, k =>
    cond (Nat.beq k 0) v
      (cond (Nat.beq (k % 2) 1) (l.get (k / 2)) (r.get (k / 2 - 1)))

/-- specification of the update; `fuel > k` suffices (the key at least halves at each level) -/
def setAux : Nat → Trie → Nat → Nat → Trie
  | 0, t, _, _ => t
  | fuel + 1, leaf, k, x =>
    cond (Nat.beq k 0) (node x leaf leaf)
      (cond (Nat.beq (k % 2) 1)
        (node 0 (setAux fuel leaf (k / 2) x) leaf)
        (node 0 leaf (setAux fuel leaf (k / 2 - 1) x)))
  | fuel + 1, node v l r, k, x =>
    cond (Nat.beq k 0) (node x l r)
      (cond (Nat.beq (k % 2) 1)
        (node v (setAux fuel l (k / 2) x) r)
        (node v l (setAux fuel r (k / 2 - 1) x)))

def set (t : Trie) (k x : Nat) : Trie := setAux (k + 1) t k x

/-- the update in continuation-passing style: `setK fuel t k x c = c (setAux fuel t k x)`, and the
    continuation receives a constructor term whose subtrees are those of `t` or freshly built -/
def setK {α : Sort u} : Nat → Trie → Nat → Nat → (Trie → α) → α
  | 0, t, _, _, c => c t
  | fuel + 1, leaf, k, x, c =>
    cond (Nat.beq k 0) (c (node x leaf leaf))
      (cond (Nat.beq (k % 2) 1)
        (setK fuel leaf (k / 2) x fun l => c (node 0 l leaf))
        (setK fuel leaf (k / 2 - 1) x fun r => c (node 0 leaf r)))
  | fuel + 1, node v l r, k, x, c =>
    cond (Nat.beq k 0) (c (node x l r))
      (cond (Nat.beq (k % 2) 1)
        (setK fuel l (k / 2) x fun l' => c (node v l' r))
        (setK fuel r (k / 2 - 1) x fun r' => c (node v l r')))

/-- `xs[0], xs[1], …` stored at keys `i, i+1, …` -/
def ofListAux : List Nat → Nat → Trie → Trie
  | [], _, t => t
  | x :: xs, i, t => ofListAux xs (i + 1) (t.set i x)

def ofList (xs : List Nat) : Trie := ofListAux xs 0 leaf

def ofListK {α : Sort u} : List Nat → Nat → Trie → (Trie → α) → α
  | [], _, t, c => c t
  | x :: xs, i, t, c =>
    force x fun x' => force (i + 1) fun i' => setK i' t i x' fun t' => ofListK xs i' t' c

end Trie

/-! ### field arithmetic on representatives -/

def addP (a b : Nat) : Nat := (a + b) % P
def subP (a b : Nat) : Nat := ((P - b) + a) % P
def mulP (a b : Nat) : Nat := (a * b) % P
def negP (a : Nat) : Nat := (P - a) % P

/-- mirrors `Felt.powAux` -/
def powN : Nat → Nat → Nat → Nat
  | 0, _, _ => 1 % P
  | fuel + 1, a, e =>
    cond (Nat.beq e 0) (1 % P)
      (force (mulP a a) fun a2 =>
        force (e / 2) fun e2 =>
          force (powN fuel a2 e2) fun r =>
            cond (Nat.beq (e % 2) 1) (mulP a r) r)

def invN (a : Nat) : Nat := powN 256 a (P - 2)

/-! ### inputs as tries -/

structure FInputs where
  mask : Trie
  maskN : Nat
  col : Trie
  colN : Nat
  oodsv : Trie
  oodsvN : Nat
  gv : Trie
  gvN : Nat
  dp : Trie
  dpN : Nat
  point : Nat
  tgen : Nat
  oodsPoint : Nat

def feltVals (a : Array Felt) : List Nat := a.toList.map (·.val)

/-- `c` receives the inputs with every vector converted to a (fully evaluated) trie -/
def withInputs {α : Sort u} (inp : Inputs) (c : FInputs → α) : α :=
  Trie.ofListK (feltVals inp.mask) 0 .leaf fun mask =>
  Trie.ofListK (feltVals inp.col) 0 .leaf fun col =>
  Trie.ofListK (feltVals inp.oodsv) 0 .leaf fun oodsv =>
  Trie.ofListK (feltVals inp.gv) 0 .leaf fun gv =>
  Trie.ofListK inp.dp.toList 0 .leaf fun dp =>
  force (feltVals inp.mask).length fun maskN =>
  force (feltVals inp.col).length fun colN =>
  force (feltVals inp.oodsv).length fun oodsvN =>
  force (feltVals inp.gv).length fun gvN =>
  force inp.dp.toList.length fun dpN =>
  force inp.point.val fun point =>
  force inp.tgen.val fun tgen =>
  force inp.oodsPoint.val fun oodsPoint =>
  c { mask, maskN, col, colN, oodsv, oodsvN, gv, gvN, dp, dpN, point, tgen, oodsPoint }

/-- specification of `withInputs` -/
def FInputs.ofInputs (inp : Inputs) : FInputs where
  mask := Trie.ofList (feltVals inp.mask)
  maskN := (feltVals inp.mask).length
  col := Trie.ofList (feltVals inp.col)
  colN := (feltVals inp.col).length
  oodsv := Trie.ofList (feltVals inp.oodsv)
  oodsvN := (feltVals inp.oodsv).length
  gv := Trie.ofList (feltVals inp.gv)
  gvN := (feltVals inp.gv).length
  dp := Trie.ofList inp.dp.toList
  dpN := inp.dp.toList.length
  point := inp.point.val
  tgen := inp.tgen.val
  oodsPoint := inp.oodsPoint.val

/-- value and remaining hints -/
abbrev Res := Option (Nat × List Nat)

def ret (n : Nat) (hs : List Nat) : Res := force n fun v => some (v, hs)

/-- `a[i]?` on a vector of length `n` stored in `t` -/
def idxN (t : Trie) (n i : Nat) (hs : List Nat) : Res :=
  cond (Nat.blt i n) (ret (t.get i) hs) none

def ixN (fi : FInputs) : Ix → Option Nat
  | .lit n => some n
  | .dp i => cond (Nat.blt i fi.dpN) (force (fi.dp.get i) some) none
  | .add a b => match ixN fi a, ixN fi b with
    | some x, some y => force (x + y) some
    | _, _ => none

/-- `x / y` in the field: with a hint `h` (checked: `y * h = 1`, `h < P`) or by Fermat -/
def fdivN (x y : Nat) : List Nat → Res
  | [] => cond (Nat.beq y 0) none (ret (mulP x (invN y)) [])
  | h :: hs => cond (Nat.beq (mulP y h) 1 && Nat.blt h P) (ret (mulP x h) hs) none

/-- `Expr.eval` on representatives, against the EMPTY coefficient vector (`.coeff _` panics);
    `none` = panic (or a rejected hint) -/
def evalN (fi : FInputs) (t : Trie) : Expr → List Nat → Res
  | .const n, hs => ret (n % P) hs
  | .var s, hs => ret (t.get s) hs
  | .gv i, hs => idxN fi.gv fi.gvN i hs
  | .dp i, hs => match idxN fi.dp fi.dpN i hs with
    | some (v, hs) => ret (v % P) hs
    | none => none
  | .mask i, hs => idxN fi.mask fi.maskN i hs
  | .oodsv i, hs => idxN fi.oodsv fi.oodsvN i hs
  | .coeff _, _ => none
  | .col ix, hs => match ixN fi ix with
    | some i => idxN fi.col fi.colN i hs
    | none => none
  | .point, hs => some (fi.point, hs)
  | .tgen, hs => some (fi.tgen, hs)
  | .oodsPoint, hs => some (fi.oodsPoint, hs)
  | .add a b, hs => match evalN fi t a hs with
    | some (x, hs) => match evalN fi t b hs with
      | some (y, hs) => ret (addP x y) hs
      | none => none
    | none => none
  | .sub a b, hs => match evalN fi t a hs with
    | some (x, hs) => match evalN fi t b hs with
      | some (y, hs) => ret (subP x y) hs
      | none => none
    | none => none
  | .mul a b, hs => match evalN fi t a hs with
    | some (x, hs) => match evalN fi t b hs with
      | some (y, hs) => ret (mulP x y) hs
      | none => none
    | none => none
  | .neg a, hs => match evalN fi t a hs with
    | some (x, hs) => ret (negP x) hs
    | none => none
  | .fdiv a b, hs => match evalN fi t a hs with
    | some (x, hs) => match evalN fi t b hs with
      | some (y, hs) => fdivN x y hs
      | none => none
    | none => none
  | .floorDiv a b, hs => match evalN fi t a hs with
    | some (x, hs) => match evalN fi t b hs with
      | some (y, hs) => ret ((x / y) % P) hs
      | none => none
    | none => none
  | .powFelt a b, hs => match evalN fi t a hs with
    | some (x, hs) => match evalN fi t b hs with
      | some (y, hs) => ret (powN 256 x y) hs
      | none => none
    | none => none

def guardsN (t : Trie) : List Nat → Bool
  | [] => true
  | g :: gs => cond (Nat.beq (t.get g) 0) false (guardsN t gs)

/-- the shadow run: returns the final store and the number of executed accumulate statements, or
    `none` if some evaluation panics or some executed accumulate statement has a zero term -/
def nzGo (fi : FInputs) : Prog → Trie → List Nat → Nat → Option (Trie × List Nat × Nat)
  | [], t, hs, k => some (t, hs, k)
  | g :: rest, t, hs, k =>
    cond (guardsN t g.guards)
      (match g.stmt with
        | .set s e => match evalN fi t e hs with
          | some (v, hs) => Trie.setK (s + 1) t s v fun t' => nzGo fi rest t' hs k
          | none => none
        | .acc dst _ _ e => match evalN fi t e hs with
          | some (v, hs) =>
            cond (Nat.beq v 0) none
              (force (k + 1) fun k' => Trie.setK (dst + 1) t dst 0 fun t' => nzGo fi rest t' hs k')
          | none => none)
      (nzGo fi rest t hs k)

/-- `some k`: the shadow run of `p` on `inp` finishes, executes `k` accumulate statements, and each
    of their terms is non-zero (`hints`: inverses of the `field_div` divisors in evaluation order;
    may be empty) -/
def nzCount (inp : Inputs) (hints : List Nat) (p : Prog) : Option Nat :=
  withInputs inp fun fi =>
    match nzGo fi p Trie.leaf hints 0 with
    | some r => some r.2.2
    | none => none

end Swiftness.Ast.Fast
