/-
  A kernel-friendly evaluator for the translated programs of `Model/Ast.lean` (property C16,
  "no coefficient position is identically zero").  Core Lean only.

  `Model/Ast.lean` keeps the local slots in a function store `Nat → Felt` (a chain of closures: one
  read costs O(number of writes)) and the inputs in arrays; evaluated by the kernel
  (`decide +kernel`) that is hopeless for programs of 10^4 statements.  Everything in this file is
  written for the kernel's reduction engine (call-by-name with a cache of weak head normal forms):

    * definitions are direct applications of recursors (hence `noncomputable`: they are never
      compiled, only reduced) and of the GMP-accelerated `Nat` primitives — no `match`, no
      structural-recursion compilation, no type-class indirection: each costs kernel steps;
    * field elements are their representatives (`Nat`, arithmetic `… % P`), forced to a literal after
      every operation (`force`);
    * an input vector is ONE natural number, entry `i` in bits `256·i … 256·i+255` (`rawGet`); the
      store is a radix-4 tree of depth 4 whose 256 leaves are such packed PAGES (slot `s` lives in
      page `s % 256` at position `s / 256`), updated in continuation-passing style so that every
      store that is passed on is a fully evaluated constructor tree;
    * field inverses may be supplied as HINTS (a list consumed in evaluation order): a hint `h` for
      the divisor `y` is used only after checking `y * h % P = 1 ∧ h < P`; without hints the inverse
      is computed (`invN`, Fermat);
    * the evaluator (`evalK`) and the run (`nzGo`) are in continuation-passing style: failure is
      `none`, success calls the continuation.

  `nzCount inp hints p = some k` implies that the coefficient-free shadow run of `p` on `inp` (the one
  that defines `executedTerms` in `Proofs/AstChain.lean`) executes exactly `k` accumulate statements
  and every one of them has a NON-ZERO term.  This is proved in `Proofs/AstFast.lean` for all
  programs, inputs and hint lists; nothing here is trusted.
-/
import Swiftness.Model.Ast

namespace Swiftness.Ast.Fast

/-- `if b then t else f` -/
noncomputable def sel {α : Type} (b : Bool) (t f : α) : α := @Bool.rec (fun _ => α) f t b

/-- evaluate `n` to a literal before continuing (the kernel substitutes arguments unevaluated;
    eliminating `n` forces it).  `force n k = k n`. -/
noncomputable def force {α : Type} (n : Nat) (k : Nat → α) : α :=
  @Nat.rec (fun _ => α) (k 0) (fun m _ => k (Nat.succ m)) n

/-! ### packed vectors -/

/-- `2^256`: entries are `256` bits wide (`P < 2^256`) -/
def B : Nat := 0x10000000000000000000000000000000000000000000000000000000000000000

/-- entry `i` of the packed vector `S` -/
noncomputable def rawGet (S i : Nat) : Nat :=
  Nat.mod (Nat.shiftRight S (Nat.mul 256 i)) B

/-- overwrite entry `i` (current content `rawGet S i`) with `v < B` -/
noncomputable def rawSet (S i v : Nat) : Nat :=
  Nat.xor S (Nat.shiftLeft (Nat.xor (rawGet S i) v) (Nat.mul 256 i))

/-- `xs[0], xs[1], …` stored in entries `i, i+1, …` of `S`; `none` if some `x ≥ 2^256` -/
noncomputable def packAux {β : Type} (xs : List Nat) : Nat → Nat → (Nat → Option β) → Option β :=
  @List.rec Nat (fun _ => Nat → Nat → (Nat → Option β) → Option β)
    (fun _ S c => c S)
    (fun x _ ih i S c =>
      sel (Nat.blt x B)
        (force (rawSet S i x) fun S' => force (Nat.succ i) fun i' => ih i' S' c)
        none)
    xs

noncomputable def listLen (xs : List Nat) : Nat → Nat :=
  @List.rec Nat (fun _ => Nat → Nat) (fun n => n) (fun _ _ ih n => ih (Nat.succ n)) xs

/-! ### the store: 256 pages in a radix-4 tree of depth 4

  A PAGE keeps its entry `j` in packed entry `j + 1`; packed entry `0` is a version stamp that is
  bumped by every write and never read.  (The kernel caches reductions in a hash table keyed by
  terms, and the hash of a `Nat` literal is its low 64 bits: without the stamp all versions of a
  page — hence of the store — collide.) -/

noncomputable def pageGet (pg j : Nat) : Nat := rawGet pg (Nat.succ j)

noncomputable def pageSet (pg j v : Nat) : Nat :=
  rawSet (rawSet pg (Nat.succ j) v) 0 (Nat.mod (Nat.succ (rawGet pg 0)) B)

inductive Tree where
  | leaf : Tree
  | page (pg : Nat) : Tree
  | node (a b c d : Tree) : Tree
  deriving Inhabited

/-- `j`-th of four -/
noncomputable def sel4 {α : Type} (j : Nat) (a b c d : α) : α :=
  sel (Nat.ble j 1) (sel (Nat.beq j 0) a b) (sel (Nat.beq j 2) c d)

/-- page number `k` (base-4 digits, least significant first) in a tree of depth `d`; absent = `0` -/
noncomputable def Tree.get (d : Nat) : Tree → Nat → Nat :=
  @Nat.rec (fun _ => Tree → Nat → Nat)
    (fun t _ => @Tree.rec (fun _ => Nat) 0 (fun pg => pg) (fun _ _ _ _ _ _ _ _ => 0) t)
    (fun _ ih t k =>
      @Tree.rec (fun _ => Nat) 0 (fun _ => 0)
        (fun a b c e _ _ _ _ => ih (sel4 (Nat.mod k 4) a b c e) (Nat.div k 4)) t)
    d

/-- the four subtrees of a node; anything else counts as empty -/
noncomputable def Tree.kids {α : Type} (t : Tree) (c : Tree → Tree → Tree → Tree → α) : α :=
  @Tree.rec (fun _ => α) (c .leaf .leaf .leaf .leaf) (fun _ => c .leaf .leaf .leaf .leaf)
    (fun a b c' e _ _ _ _ => c a b c' e) t

/-- the page held by a depth-0 tree; anything else counts as empty -/
noncomputable def Tree.pg (t : Tree) : Nat :=
  @Tree.rec (fun _ => Nat) 0 (fun pg => pg) (fun _ _ _ _ _ _ _ _ => 0) t

/-- replace page number `k` by `f (old page)`, continuation-passing -/
noncomputable def Tree.upd {β : Type} (d : Nat) : Tree → Nat → (Nat → Nat) → (Tree → β) → β :=
  @Nat.rec (fun _ => Tree → Nat → (Nat → Nat) → (Tree → β) → β)
    (fun t _ f c => force (f t.pg) fun pg' => c (.page pg'))
    (fun _ ih t k f c =>
      t.kids fun a b c' e =>
        sel (Nat.ble (Nat.mod k 4) 1)
          (sel (Nat.beq (Nat.mod k 4) 0)
            (ih a (Nat.div k 4) f fun x => c (.node x b c' e))
            (ih b (Nat.div k 4) f fun x => c (.node a x c' e)))
          (sel (Nat.beq (Nat.mod k 4) 2)
            (ih c' (Nat.div k 4) f fun x => c (.node a b x e))
            (ih e (Nat.div k 4) f fun x => c (.node a b c' x))))
    d

/-- local slot `s` -/
noncomputable def getS (S : Tree) (s : Nat) : Nat :=
  pageGet (Tree.get 4 S (Nat.mod s 256)) (Nat.div s 256)

noncomputable def setS {β : Type} (S : Tree) (s v : Nat) (c : Tree → β) : β :=
  Tree.upd 4 S (Nat.mod s 256) (fun pg => pageSet pg (Nat.div s 256) v) c

/-! ### field arithmetic on representatives -/

noncomputable def addP (a b : Nat) : Nat := Nat.mod (Nat.add a b) P
noncomputable def subP (a b : Nat) : Nat := Nat.mod (Nat.add (Nat.sub P b) a) P
noncomputable def mulP (a b : Nat) : Nat := Nat.mod (Nat.mul a b) P
noncomputable def negP (a : Nat) : Nat := Nat.mod (Nat.sub P a) P

/-- mirrors `Felt.powAux` -/
noncomputable def powN (fuel : Nat) : Nat → Nat → Nat :=
  @Nat.rec (fun _ => Nat → Nat → Nat)
    (fun _ _ => Nat.mod 1 P)
    (fun _ ih a e =>
      sel (Nat.beq e 0) (Nat.mod 1 P)
        (force (mulP a a) fun a2 =>
          force (Nat.div e 2) fun e2 =>
            force (ih a2 e2) fun r =>
              sel (Nat.beq (Nat.mod e 2) 1) (mulP a r) r))
    fuel

noncomputable def invN (a : Nat) : Nat := powN 256 a (Nat.sub P 2)

/-! ### inputs as packed vectors -/

structure FInputs where
  mask : Nat
  maskN : Nat
  col : Nat
  colN : Nat
  oodsv : Nat
  oodsvN : Nat
  gv : Nat
  gvN : Nat
  dp : Nat
  dpN : Nat
  point : Nat
  tgen : Nat
  oodsPoint : Nat

def feltVals (a : Array Felt) : List Nat := a.toList.map (·.val)

/-- `c` receives the inputs with every vector packed (and evaluated); `none` if a dynamic parameter
    does not fit 256 bits -/
noncomputable def withInputs {β : Type} (inp : Inputs) (c : FInputs → Option β) : Option β :=
  packAux (feltVals inp.mask) 0 0 fun mask =>
  packAux (feltVals inp.col) 0 0 fun col =>
  packAux (feltVals inp.oodsv) 0 0 fun oodsv =>
  packAux (feltVals inp.gv) 0 0 fun gv =>
  packAux inp.dp.toList 0 0 fun dp =>
  force (listLen (feltVals inp.mask) 0) fun maskN =>
  force (listLen (feltVals inp.col) 0) fun colN =>
  force (listLen (feltVals inp.oodsv) 0) fun oodsvN =>
  force (listLen (feltVals inp.gv) 0) fun gvN =>
  force (listLen inp.dp.toList 0) fun dpN =>
  force inp.point.val fun point =>
  force inp.tgen.val fun tgen =>
  force inp.oodsPoint.val fun oodsPoint =>
  c { mask, maskN, col, colN, oodsv, oodsvN, gv, gvN, dp, dpN, point, tgen, oodsPoint }

/-! ### expressions -/

/-- continuation of an evaluation: value, remaining hints -/
abbrev K (β : Type) := Nat → List Nat → Option β

/-- `a[i]?` on a vector of length `n` packed in `S` -/
noncomputable def idxK {β : Type} (S n i : Nat) (hs : List Nat) (c : K β) : Option β :=
  sel (Nat.blt i n) (force (rawGet S i) fun v => c v hs) none

noncomputable def ixK {β : Type} (fi : FInputs) (ix : Ix) : (Nat → Option β) → Option β :=
  @Ix.rec (fun _ => (Nat → Option β) → Option β)
    (fun n c => c n)
    (fun i c => sel (Nat.blt i fi.dpN) (force (rawGet fi.dp i) c) none)
    (fun _ _ iha ihb c => iha fun x => ihb fun y => force (Nat.add x y) c)
    ix

/-- `x / y` in the field: with a hint `h` (checked: `y * h = 1`, `h < P`) or by Fermat -/
noncomputable def fdivK {β : Type} (x y : Nat) (hs : List Nat) (c : K β) : Option β :=
  @List.rec Nat (fun _ => Option β)
    (sel (Nat.beq y 0) none (force (mulP x (invN y)) fun v => c v []))
    (fun h hs' _ =>
      sel (Nat.beq (mulP y h) 1)
        (sel (Nat.blt h P) (force (mulP x h) fun v => c v hs') none)
        none)
    hs

/-- binary node: evaluate both operands (left first), combine, force -/
noncomputable def bin {β : Type} (op : Nat → Nat → Nat)
    (iha ihb : List Nat → K β → Option β) (hs : List Nat) (c : K β) : Option β :=
  iha hs fun x hs1 => ihb hs1 fun y hs2 => force (op x y) fun v => c v hs2

/-- `Expr.eval` on representatives, against the EMPTY coefficient vector (`.coeff _` panics), in
    continuation-passing style; `none` = panic (or a rejected hint) -/
noncomputable def evalK {β : Type} (fi : FInputs) (S : Tree) (e : Expr) :
    List Nat → K β → Option β :=
  @Expr.rec (fun _ => List Nat → K β → Option β)
    (fun n hs c => force (Nat.mod n P) fun v => c v hs)                          -- const
    (fun s hs c => force (getS S s) fun v => c v hs)                              -- var
    (fun i hs c => idxK fi.gv fi.gvN i hs c)                                      -- gv
    (fun i hs c => idxK fi.dp fi.dpN i hs fun v hs' => force (Nat.mod v P) fun w => c w hs')  -- dp
    (fun i hs c => idxK fi.mask fi.maskN i hs c)                                  -- mask
    (fun i hs c => idxK fi.oodsv fi.oodsvN i hs c)                                -- oodsv
    (fun _ _ _ => none)                                                           -- coeff
    (fun ix hs c => ixK fi ix fun i => idxK fi.col fi.colN i hs c)                -- col
    (fun hs c => c fi.point hs)                                                   -- point
    (fun hs c => c fi.tgen hs)                                                    -- tgen
    (fun hs c => c fi.oodsPoint hs)                                               -- oodsPoint
    (fun _ _ iha ihb => bin addP iha ihb)                                         -- add
    (fun _ _ iha ihb => bin subP iha ihb)                                         -- sub
    (fun _ _ iha ihb => bin mulP iha ihb)                                         -- mul
    (fun _ iha hs c => iha hs fun x hs1 => force (negP x) fun v => c v hs1)       -- neg
    (fun _ _ iha ihb hs c => iha hs fun x hs1 => ihb hs1 fun y hs2 => fdivK x y hs2 c)  -- fdiv
    (fun _ _ iha ihb => bin (fun x y => Nat.mod (Nat.div x y) P) iha ihb)         -- floorDiv
    (fun _ _ iha ihb => bin (fun x y => powN 256 x y) iha ihb)                    -- powFelt
    e

/-! ### programs -/

noncomputable def guardsN (S : Tree) (gs : List Nat) : Bool :=
  @List.rec Nat (fun _ => Bool) true
    (fun g _ ih => sel (Nat.beq (getS S g) 0) false ih) gs

/-- continuation of a run: store, remaining hints, number of executed accumulate statements -/
abbrev KS (β : Type) := Tree → List Nat → Nat → Option β

noncomputable def stmtK {β : Type} (fi : FInputs) (st : Stmt) (S : Tree) (hs : List Nat) (k : Nat)
    (c : KS β) : Option β :=
  @Stmt.rec (fun _ => Option β)
    (fun s e => evalK fi S e hs fun v hs' => setS S s v fun S' => c S' hs' k)
    (fun dst _ _ e => evalK fi S e hs fun v hs' =>
      sel (Nat.beq v 0) none
        (force (Nat.succ k) fun k' => setS S dst 0 fun S' => c S' hs' k'))
    st

/-- the shadow run; `none` if some evaluation panics or some executed accumulate statement has a
    zero term -/
noncomputable def nzGo {β : Type} (fi : FInputs) (p : Prog) :
    Tree → List Nat → Nat → KS β → Option β :=
  @List.rec GStmt (fun _ => Tree → List Nat → Nat → KS β → Option β)
    (fun S hs k c => c S hs k)
    (fun g _ ih S hs k c =>
      sel (guardsN S g.guards)
        (stmtK fi g.stmt S hs k fun S' hs' k' => ih S' hs' k' c)
        (ih S hs k c))
    p

/-- `some k`: the shadow run of `p` on `inp` finishes, executes `k` accumulate statements, and each
    of their terms is non-zero (`hints`: inverses of the `field_div` divisors in evaluation order;
    may be empty) -/
noncomputable def nzCount (inp : Inputs) (hints : List Nat) (p : Prog) : Option Nat :=
  withInputs inp fun fi => nzGo fi p .leaf hints 0 fun _ _ k => some k

end Swiftness.Ast.Fast
