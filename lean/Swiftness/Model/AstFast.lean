/-
  A kernel-friendly evaluator for the translated programs of `Model/Ast.lean` (property C16,
  "no coefficient position is identically zero").  Core Lean only.

  `Model/Ast.lean` keeps the local slots in a function store `Nat → Felt` (a chain of closures: one
  read costs O(number of writes)) and the inputs in arrays.  Here

    * field elements are their representatives (`Nat`, arithmetic `… % P` on GMP-accelerated `Nat`
      primitives), forced to a literal after every operation (`force`),
    * the store and the input vectors are binary tries keyed by the bits of the index,
    * the run is a structurally recursive loop `nzGo` that threads the trie and a counter.

  `nzCount inp p = some k` iff the coefficient-free shadow run of `p` on `inp` (the one that defines
  `executedTerms` in `Proofs/AstChain.lean`) finishes without panic, every executed accumulate
  statement has a NON-ZERO term, and `k` accumulate statements were executed.  The equivalence with
  `executedTerms` is proved in `Proofs/AstFast.lean`; nothing here is trusted.
-/
import Swiftness.Model.Ast

namespace Swiftness.Ast.Fast

/-- evaluate `n` to a literal before continuing (the kernel substitutes arguments unevaluated;
    matching on `n` forces it).  `force n k = k n`. -/
def force {α : Type} (n : Nat) (k : Nat → α) : α :=
  match n with
  | 0 => k 0
  | Nat.succ m => k (Nat.succ m)

/-- binary trie: key `0` is the root, odd keys `2j+1` live in the left subtree under key `j`, even
    keys `2j+2` in the right subtree under key `j`; absent = `0` -/
inductive Trie where
  | leaf : Trie
  | node (v : Nat) (l r : Trie) : Trie
  deriving Inhabited

namespace Trie

def val : Trie → Nat
  | leaf => 0
  | node v _ _ => v

def left : Trie → Trie
  | leaf => leaf
  | node _ l _ => l

def right : Trie → Trie
  | leaf => leaf
  | node _ _ r => r

def get : Trie → Nat → Nat
  | leaf, _ => 0
  | node v l r, k =>
    cond (Nat.beq k 0) v
      (cond (Nat.beq (k % 2) 1) (l.get (k / 2)) (r.get (k / 2 - 1)))

/-- `fuel > k` suffices (the key at least halves at each level) -/
def setAux : Nat → Trie → Nat → Nat → Trie
  | 0, t, _, _ => t
  | fuel + 1, t, k, x =>
    cond (Nat.beq k 0) (node x t.left t.right)
      (cond (Nat.beq (k % 2) 1)
        (node t.val (setAux fuel t.left (k / 2) x) t.right)
        (node t.val t.left (setAux fuel t.right (k / 2 - 1) x)))

def set (t : Trie) (k x : Nat) : Trie := setAux (k + 1) t k x

/-- `xs[0], xs[1], …` stored at keys `i, i+1, …` -/
def ofListAux : List Nat → Nat → Trie → Trie
  | [], _, t => t
  | x :: xs, i, t => ofListAux xs (i + 1) (t.set i x)

def ofList (xs : List Nat) : Trie := ofListAux xs 0 leaf

end Trie

/-! ### field arithmetic on representatives -/

def addP (a b : Nat) : Nat := (a + b) % P
def subP (a b : Nat) : Nat := ((P - b) + a) % P
def mulP (a b : Nat) : Nat := (a * b) % P
def negP (a : Nat) : Nat := (P - a) % P

/-- mirrors `Felt.powAux` -/
def powN : Nat → Nat → Nat → Nat
  | 0, _, _ => 1 % P
  | fuel + 1, a, e =>
    cond (Nat.beq e 0) (1 % P)
      (force (mulP a a) fun a2 =>
        force (e / 2) fun e2 =>
          force (powN fuel a2 e2) fun r =>
            cond (Nat.beq (e % 2) 1) (mulP a r) r)

def invN (a : Nat) : Nat := powN 256 a (P - 2)

/-! ### inputs as tries -/

structure FInputs where
  mask : Trie
  maskN : Nat
  col : Trie
  colN : Nat
  oodsv : Trie
  oodsvN : Nat
  gv : Trie
  gvN : Nat
  dp : Trie
  dpN : Nat
  point : Nat
  tgen : Nat
  oodsPoint : Nat

def feltVals (a : Array Felt) : List Nat := a.toList.map (·.val)

def FInputs.ofInputs (inp : Inputs) : FInputs where
  mask := Trie.ofList (feltVals inp.mask)
  maskN := (feltVals inp.mask).length
  col := Trie.ofList (feltVals inp.col)
  colN := (feltVals inp.col).length
  oodsv := Trie.ofList (feltVals inp.oodsv)
  oodsvN := (feltVals inp.oodsv).length
  gv := Trie.ofList (feltVals inp.gv)
  gvN := (feltVals inp.gv).length
  dp := Trie.ofList inp.dp.toList
  dpN := inp.dp.toList.length
  point := inp.point.val
  tgen := inp.tgen.val
  oodsPoint := inp.oodsPoint.val

/-- `a[i]?` on a vector of length `n` stored in `t` -/
def idxN (t : Trie) (n i : Nat) : Option Nat :=
  cond (Nat.blt i n) (force (t.get i) some) none

def ixN (fi : FInputs) : Ix → Option Nat
  | .lit n => some n
  | .dp i => idxN fi.dp fi.dpN i
  | .add a b => match ixN fi a, ixN fi b with
    | some x, some y => force (x + y) some
    | _, _ => none

/-- `Expr.eval` on representatives, against the EMPTY coefficient vector (`.coeff _` panics);
    `none` = panic -/
def evalN (fi : FInputs) (t : Trie) : Expr → Option Nat
  | .const n => force (n % P) some
  | .var s => force (t.get s) some
  | .gv i => idxN fi.gv fi.gvN i
  | .dp i => match idxN fi.dp fi.dpN i with
    | some v => force (v % P) some
    | none => none
  | .mask i => idxN fi.mask fi.maskN i
  | .oodsv i => idxN fi.oodsv fi.oodsvN i
  | .coeff _ => none
  | .col ix => match ixN fi ix with
    | some i => idxN fi.col fi.colN i
    | none => none
  | .point => some fi.point
  | .tgen => some fi.tgen
  | .oodsPoint => some fi.oodsPoint
  | .add a b => match evalN fi t a, evalN fi t b with
    | some x, some y => force (addP x y) some
    | _, _ => none
  | .sub a b => match evalN fi t a, evalN fi t b with
    | some x, some y => force (subP x y) some
    | _, _ => none
  | .mul a b => match evalN fi t a, evalN fi t b with
    | some x, some y => force (mulP x y) some
    | _, _ => none
  | .neg a => match evalN fi t a with
    | some x => force (negP x) some
    | none => none
  | .fdiv a b => match evalN fi t a, evalN fi t b with
    | some x, some y => cond (Nat.beq y 0) none (force (mulP x (invN y)) some)
    | _, _ => none
  | .floorDiv a b => match evalN fi t a, evalN fi t b with
    | some x, some y => force ((x / y) % P) some
    | _, _ => none
  | .powFelt a b => match evalN fi t a, evalN fi t b with
    | some x, some y => force (powN 256 x y) some
    | _, _ => none

def guardsN (t : Trie) : List Nat → Bool
  | [] => true
  | g :: gs => cond (Nat.beq (t.get g) 0) false (guardsN t gs)

/-- the shadow run: returns the final store and the number of executed accumulate statements, or
    `none` if some evaluation panics or some executed accumulate statement has a zero term -/
def nzGo (fi : FInputs) : Prog → Trie → Nat → Option (Trie × Nat)
  | [], t, k => some (t, k)
  | g :: rest, t, k =>
    cond (guardsN t g.guards)
      (match g.stmt with
        | .set s e => match evalN fi t e with
          | some v => nzGo fi rest (t.set s v) k
          | none => none
        | .acc dst _ _ e => match evalN fi t e with
          | some v => cond (Nat.beq v 0) none (nzGo fi rest (t.set dst 0) (Nat.succ k))
          | none => none)
      (nzGo fi rest t k)

/-- `some k`: the shadow run of `p` on `inp` finishes, executes `k` accumulate statements, and each
    of their terms is non-zero -/
def nzCount (inp : Inputs) (p : Prog) : Option Nat :=
  match nzGo (FInputs.ofInputs inp) p Trie.leaf 0 with
  | some r => some r.2
  | none => none

end Swiftness.Ast.Fast
