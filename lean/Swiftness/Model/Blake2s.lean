import Swiftness.Model.Felt

/-
  Executable model of unkeyed BLAKE2s with a 32-byte digest (RFC 7693).
  Rust counterpart: `blake2::Blake2s256` (`blake2 0.10.6`).
-/
namespace Swiftness

namespace Blake2s

/-- 32-bit right rotation (`n` taken mod 32). -/
@[inline] def rotr32 (v : UInt32) (n : Nat) : UInt32 :=
  let k := n % 32
  if k = 0 then v
  else (v >>> UInt32.ofNat k) ||| (v <<< UInt32.ofNat (32 - k))

def iv : Array UInt32 := #[
  0x6A09E667, 0xBB67AE85, 0x3C6EF372, 0xA54FF53A,
  0x510E527F, 0x9B05688C, 0x1F83D9AB, 0x5BE0CD19]

/-- message schedule; BLAKE2s uses the first 10 rows. -/
def sigma : List (Array Nat) := [
  #[ 0,  1,  2,  3,  4,  5,  6,  7,  8,  9, 10, 11, 12, 13, 14, 15],
  #[14, 10,  4,  8,  9, 15, 13,  6,  1, 12,  0,  2, 11,  7,  5,  3],
  #[11,  8, 12,  0,  5,  2, 15, 13, 10, 14,  3,  6,  7,  1,  9,  4],
  #[ 7,  9,  3,  1, 13, 12, 11, 14,  2,  6,  5, 10,  4,  0, 15,  8],
  #[ 9,  0,  5,  7,  2,  4, 10, 15, 14,  1, 11, 12,  6,  8,  3, 13],
  #[ 2, 12,  6, 10,  0, 11,  8,  3,  4, 13,  7,  5, 15, 14,  1,  9],
  #[12,  5,  1, 15, 14, 13,  4, 10,  0,  7,  6,  3,  9,  2,  8, 11],
  #[13, 11,  7, 14, 12,  1,  3,  9,  5,  0, 15,  4,  8,  6,  2, 10],
  #[ 6, 15, 14,  9, 11,  3,  0,  8, 12,  2, 13,  7,  1,  4, 10,  5],
  #[10,  2,  8,  4,  7,  6,  1,  5, 15, 11,  9, 14,  3, 12, 13,  0]]

@[inline] def word (a : Array UInt32) (i : Nat) : UInt32 := a.getD i 0

/-- The `G` mixing function on working-vector indices `a b c d` with message words `x y`. -/
def g (v : Array UInt32) (a b c d : Nat) (x y : UInt32) : Array UInt32 :=
  let va := word v a + word v b + x
  let vd := rotr32 (word v d ^^^ va) 16
  let vc := word v c + vd
  let vb := rotr32 (word v b ^^^ vc) 12
  let va := va + vb + y
  let vd := rotr32 (vd ^^^ va) 8
  let vc := vc + vd
  let vb := rotr32 (vb ^^^ vc) 7
  (((v.setIfInBounds a va).setIfInBounds b vb).setIfInBounds c vc).setIfInBounds d vd

/-- one round with schedule row `s` -/
def round (m : Array UInt32) (v : Array UInt32) (s : Array Nat) : Array UInt32 :=
  let mw (i : Nat) : UInt32 := word m (s.getD i 0)
  let v := g v 0 4  8 12 (mw 0) (mw 1)
  let v := g v 1 5  9 13 (mw 2) (mw 3)
  let v := g v 2 6 10 14 (mw 4) (mw 5)
  let v := g v 3 7 11 15 (mw 6) (mw 7)
  let v := g v 0 5 10 15 (mw 8) (mw 9)
  let v := g v 1 6 11 12 (mw 10) (mw 11)
  let v := g v 2 7  8 13 (mw 12) (mw 13)
  let v := g v 3 4  9 14 (mw 14) (mw 15)
  v

/-- little-endian 4 bytes → word (missing bytes read as 0) -/
def wordOfBytesLE (bs : List UInt8) : UInt32 :=
  (bs.take 4).foldr (fun b acc => (acc <<< 8) ||| b.toUInt32) 0

def wordToBytesLE (w : UInt32) : List UInt8 :=
  (List.range 4).map fun i => (w >>> UInt32.ofNat (8 * i)).toUInt8

def wordsOfBytes : Nat → List UInt8 → List UInt32
  | 0, _ => []
  | n + 1, bs => wordOfBytesLE bs :: wordsOfBytes n (bs.drop 4)

/-- Compression function `F`. `block` is (up to) 64 bytes, implicitly zero-padded;
    `t` is the byte counter (< 2^64), `last` the finalisation flag. -/
def compress (h : Array UInt32) (block : List UInt8) (t : Nat) (last : Bool) : Array UInt32 :=
  let m := (wordsOfBytes 16 block).toArray
  let v : Array UInt32 := h ++ iv
  let v := v.setIfInBounds 12 (word v 12 ^^^ UInt32.ofNat (t % 2 ^ 32))
  let v := v.setIfInBounds 13 (word v 13 ^^^ UInt32.ofNat (t / 2 ^ 32 % 2 ^ 32))
  let v := if last then v.setIfInBounds 14 (word v 14 ^^^ 0xFFFFFFFF) else v
  let v := sigma.foldl (round m) v
  Array.ofFn (n := 8) fun i => word h i.val ^^^ word v i.val ^^^ word v (i.val + 8)

/-- initial chaining value: `IV` with parameter block `0x0101_0020`
    (digest length 32, key length 0, fanout 1, depth 1) XORed into word 0 -/
def h0 : Array UInt32 := iv.setIfInBounds 0 (word iv 0 ^^^ 0x01010020)

/-- Process the message. `fuel` bounds the number of blocks; `t` = bytes already compressed.
    The last block is the final ≤ 64 bytes (the whole, possibly empty, remainder): a message
    whose length is a non-zero multiple of 64 does NOT get an extra empty block. -/
def loop : Nat → Array UInt32 → Nat → List UInt8 → Array UInt32
  | 0, h, _, _ => h
  | fuel + 1, h, t, bs =>
    if bs.length ≤ 64 then compress h bs (t + bs.length) true
    else loop fuel (compress h (bs.take 64) (t + 64) false) (t + 64) (bs.drop 64)

end Blake2s

/-- Unkeyed BLAKE2s-256 (`blake2::Blake2s256`): 32-byte digest. -/
def blake2s256 (bs : List UInt8) : List UInt8 :=
  let h := Blake2s.loop (bs.length / 64 + 1) Blake2s.h0 0 bs
  ((List.range 8).map fun i => Blake2s.wordToBytesLE (Blake2s.word h i)).flatten

end Swiftness
