/-
  A syntactic checker for the translated `check_asserts` list (`Model/DynAsserts.lean`): accepts a list of
  guarded assertions when every divisor of a `floor_div` that can be reached is KNOWN NON-ZERO at that
  point, so that evaluating the list can never hit the `DynAsserts.floor_div` panic site.
  (Soundness: `Proofs/DynAssertsSound.lean`; the generated list is accepted: `Proofs/DynAssertsGen.lean`.)

  Knowledge is a list of pairs `(guard, e)`: "if an assertion with this guard is being run, then `e`
  evaluates (without panic) to a non-zero value".  It comes from EARLIER assertions of kind `pow2` that
  passed: after `pow2 e` the value of `e` is a non-zero power of two; if moreover `e = fdiv a b` then the
  value of `a` is at least the value of `b`, which is at least 1, so `a` is non-zero as well.
  Knowledge from an unguarded assertion is usable everywhere later, knowledge from an assertion guarded by
  `some j` only by later assertions with the same guard.

  A divisor is accepted when it is
    (i)   a literal not divisible by `P`,
    (ii)  syntactically equal to a usable known-non-zero expression,
    (iii) `mul (lit c) (dp i)` or `mul (dp i) (lit c)` with `0 < c < 2^64` and `dp i` usable known
          non-zero (dynamic parameters are `usize` values `< 2^64`: the product does not wrap mod `P`).
  Core Lean only.
-/
import Swiftness.Model.DynAsserts

namespace Swiftness.DynAsserts

abbrev Knowledge := List (Option Nat × AExpr)

/-- knowledge recorded under guard `g'` may be used by an assertion with guard `g` -/
def usable (g' g : Option Nat) : Bool := g' == none || g' == g

/-- `e` is (syntactically) a usable known-non-zero expression -/
def known (K : Knowledge) (g : Option Nat) (e : AExpr) : Bool :=
  K.any fun k => usable k.1 g && k.2 == e

/-- the divisor `b` is known non-zero (rules (i)–(iii)) -/
def nzOK (K : Knowledge) (g : Option Nat) (b : AExpr) : Bool :=
  match b with
  | .lit c => c % P != 0
  | .mul (.lit c) (.dp i) => known K g b || (0 < c && c < 2 ^ 64 && known K g (.dp i))
  | .mul (.dp i) (.lit c) => known K g b || (0 < c && c < 2 ^ 64 && known K g (.dp i))
  | _ => known K g b

/-- every `fdiv` divisor occurring in `e` (at any depth) is known non-zero -/
def divsOK (K : Knowledge) (g : Option Nat) : AExpr → Bool
  | .tlen => true
  | .dp _ => true
  | .lit _ => true
  | .add a b => divsOK K g a && divsOK K g b
  | .sub a b => divsOK K g a && divsOK K g b
  | .mul a b => divsOK K g a && divsOK K g b
  | .fdiv a b => divsOK K g a && divsOK K g b && nzOK K g b

/-- what a passed assertion teaches -/
def learn (K : Knowledge) (a : Assert) : Knowledge :=
  match a.kind with
  | .pow2 =>
    match a.e with
    | .fdiv x _ => (a.guard, x) :: (a.guard, a.e) :: K
    | _ => (a.guard, a.e) :: K
  | _ => K

/-- streaming checker: the knowledge after the list, or `none` when some divisor is not justified -/
def guardsFrom (K : Knowledge) : List Assert → Option Knowledge
  | [] => some K
  | a :: rest => if divsOK K a.guard a.e then guardsFrom (learn K a) rest else none

/-- the list can be evaluated without ever dividing by zero -/
def guardsOK (l : List Assert) : Bool := (guardsFrom [] l).isSome

end Swiftness.DynAsserts
