/- Model of `crates/commitment/src/vector/{decommit,config}.rs`. -/
import Swiftness.Model.Hashes
import Swiftness.Model.Outcome

namespace Swiftness.Vector

structure Config where
  height : Felt
  nFriendly : Felt
  deriving DecidableEq, Repr

structure Commitment where
  config : Config
  root : Felt
  deriving DecidableEq, Repr

structure Query where
  index : Felt
  value : Felt
  deriving DecidableEq, Repr

structure QD where
  index : Felt
  value : Felt
  depth : Felt
  deriving DecidableEq, Repr

/-- `Config::validate` -/
def Config.validate (c : Config) (expHeight expFriendly : Felt) : Outcome Unit :=
  if c.height ≠ expHeight then .err "MisMatch"
  else if c.nFriendly ≠ expFriendly then .err "MisMatch"
  else .ok ()

/-- `hash_friendly_unfriendly` -/
def hashFU (H : Hashes) (x y : Felt) (friendly : Bool) : Felt :=
  if friendly then H.poseidon2 x y else H.masked (x.toBytesBE ++ y.toBytesBE)

/-- `compute_root_from_queries`.  The Rust keeps a `Vec` and a `start` cursor and pushes parents at
    the end; nothing before `start` is read again, so the model keeps only the remaining queue.
    `fuel` ≥ `queue.length + auths.length + 1` is never exhausted (lemma in `Proofs/Vector`). -/
def computeRoot (H : Hashes) (nFriendly : Felt) : Nat → List QD → List Felt → Outcome Felt
  | 0, _, _ => .err "fuel"
  | fuel + 1, queue, auths =>
    match queue with
    | [] => .err "IndexInvalid"
    | cur :: rest =>
      if cur.index = 1 then .ok cur.value
      else
        let parent := Felt.ofNat (cur.index.val / 2)
        let bit := cur.index.val % 2
        let friendly := decide (nFriendly.val ≥ cur.depth.val)
        -- (a thunk: the compiled code must not evaluate the recursive call of the unused branch)
        let withAuth : Unit → Outcome Felt := fun _ =>
          match auths with
          | [] => .err "IndexInvalid"
          | a :: auths' =>
            let h := if bit = 0 then hashFU H cur.value a friendly else hashFU H a cur.value friendly
            computeRoot H nFriendly fuel (rest ++ [⟨parent, h, cur.depth - 1⟩]) auths'
        if bit = 0 then
          match rest with
          | next :: rest' =>
            if cur.index + 1 = next.index then
              computeRoot H nFriendly fuel
                (rest' ++ [⟨parent, hashFU H cur.value next.value friendly, cur.depth - 1⟩]) auths
            else withAuth ()
          | [] => withAuth ()
        else withAuth ()

/-- `vector_commitment_decommit` -/
def decommit (H : Hashes) (c : Commitment) (queries : List Query) (auths : List Felt) : Outcome Unit :=
  let shift := Felt.pow 2 c.config.height.val
  let shifted := queries.map fun q => (⟨q.index + shift, q.value, c.config.height⟩ : QD)
  match computeRoot H c.config.nFriendly (shifted.length + auths.length + 1) shifted auths with
  | .ok r => if c.root ≠ r then .err "MisMatch" else .ok ()
  | .err e => .err e
  | .panic s => .panic s

end Swiftness.Vector
