/- Model of `crates/commitment/src/table/decommit.rs`. -/
import Swiftness.Model.Vector
import Swiftness.Generated.Consts

namespace Swiftness.Table

def MONTGOMERY_R : Felt := Felt.ofNat Gen.TableDecommit.MONTGOMERY_R

structure Commitment where
  nColumns : Felt
  vector : Vector.Commitment
  deriving DecidableEq, Repr

/-- hash of one row (`generate_vector_queries` body) -/
def rowHash (H : Hashes) (nColumns : Nat) (friendly : Bool) (row : List Felt) : Felt :=
  if nColumns = 1 then row.headD 0
  else if friendly then H.poseidonMany row
  else H.masked (row.flatMap Felt.toBytesBE)

/-- `generate_vector_queries`: rows are consecutive `nColumns`-chunks of `values` -/
def vectorQueries (H : Hashes) (nColumns : Nat) (friendly : Bool) :
    List Felt → List Felt → List Vector.Query
  | [], _ => []
  | q :: qs, values =>
    ⟨q, rowHash H nColumns friendly (values.take nColumns)⟩ ::
      vectorQueries H nColumns friendly qs (values.drop nColumns)

/-- `table_decommit` -/
def decommit (H : Hashes) (c : Commitment) (queries values auths : List Felt) : Outcome Unit :=
  let bottomDepth := c.vector.config.height + 1
  let friendly := decide (c.vector.config.nFriendly.val ≥ bottomDepth.val)
  if c.nColumns.val ≥ 2 ^ 32 then .err "TryFromBigInt"
  else if c.nColumns.val * queries.length ≠ values.length then .err "DecommitmentLength"
  else
    let mont := values.map (· * MONTGOMERY_R)
    Vector.decommit H c.vector (vectorQueries H c.nColumns.val friendly queries mont) auths

end Swiftness.Table
