/-
  An INDEPENDENT loader for Stone prover proof files (property C19).

  Real implementation: `/repo/proof_parser/src/*` (regex based) followed by the CLI conversion
  `/repo/cli/src/transform.rs`.  This file is written from the file FORMAT, not from the regexes; the
  driver op `loadfile` prints its result in the same 37-token format as the harness op `parsefile`
  (real parser + conversion), so the two can be compared file by file.

  Pipeline:   String --Json.parse--> Json --decode--> RawFile --convert--> Stark.Proof
  `RawFile` is "the values recorded in the file"; all theorems (Props/C19) are about `convert`.

  Core Lean + `Lean.Data.Json` only (links into the `drv` executable).  Everything here is a total
  structural function (no `partial`, no `panic!`, no `get!`); the only `partial` code involved is
  Lean's own JSON parser behind `Lean.Json.parse`.

  Deliberate choices where the FORMAT and the real parser differ (all are *stricter* here; see the
  report of C19 for the list of observations about the real parser):
  * every `P->V[a:b]: …` line (a prover message, i.e. bytes of the proof) must parse and must belong
    to a known path/kind class, otherwise the load fails.  (The real parser silently skips every
    line its regexes do not match.)
  * the three trace commitments and the proof-of-work nonce must occur exactly once.  (The real
    parser takes the first and ignores the others.)
  * `STARK/FRI/Commitment/Layer k` lines must come with k = 1,2,3,… in this order, and
    `STARK/FRI/Decommitment/Layer k` needs 1 ≤ k < n_layers.  (The real parser takes the commitments
    in stream order whatever k is, and ignores decommitment layers ≥ n_layers.)
  * authentication nodes of the three trace tables are taken in STREAM order (`Data` and `Hash` lines
    interleaved as they come).  The real parser concatenates all `Data` lines and then all `Hash`
    lines; the two agree when no `Hash` line precedes a `Data` line (lemma `data_hash_order_coincide`),
    which holds in every shipped file.
  * dynamic parameters: the sorted keys, with Stone's `__` replaced by `_`, must be exactly the
    verifier's struct field names in struct order.  (The real code pairs the values of the sorted keys
    with the struct fields by position, whatever the names are, and PANICS — `assert_eq!` in
    `DynamicParams::from(Vec<usize>)` — when their number is not 340.)
  * hex values must be `0x` followed by at least one hex digit.  (The real `from_str_hex` makes `0x`
    optional and — through `BigUint::parse_bytes` — also accepts `_` separators and a leading `+`.)
  * field elements: values ≥ P are reduced mod P, exactly as the real code does
    (`Felt::from(BigUint)` in transform.rs) — i.e. THE REAL CODE SILENTLY REDUCES values ≥ P, and so
    does this loader (`Felt.ofNat`).
  * continuous page headers: the CLI conversion DROPS them (`continuous_page_headers: vec![]` in
    transform.rs) — mirrored here: only page-0 entries of `public_memory` reach the verifier.  (The real
    parser still computes them, and rejects files whose pages are not consecutive / whose number of
    `V->P … Interaction element` lines is not 3, 6 or 8; this loader never looks at `V->P` lines.)
-/
import Lean.Data.Json
import Swiftness.Model.Stark
import Swiftness.Generated.DynamicParams

namespace Swiftness.Loader
open Swiftness

/-! ### small total helpers -/

/-- `mapM` for `Except`, by structural recursion (so that it is easy to reason about). -/
def mapE {ε α β} (f : α → Except ε β) : List α → Except ε (List β)
  | [] => .ok []
  | a :: l =>
    match f a with
    | .error e => .error e
    | .ok b =>
      match mapE f l with
      | .error e => .error e
      | .ok bs => .ok (b :: bs)

def stripPrefix? : List Char → List Char → Option (List Char)
  | [], s => some s
  | _ :: _, [] => none
  | p :: ps, c :: cs => if p = c then stripPrefix? ps cs else none

/-- split on the two-character separator `a b` (`acc` = current piece, reversed) -/
def split2 (a b : Char) : List Char → List Char → List (List Char)
  | [], acc => [acc.reverse]
  | [c], acc => [(c :: acc).reverse]
  | c :: d :: rest, acc =>
    if c = a ∧ d = b then acc.reverse :: split2 a b rest []
    else split2 a b (d :: rest) (c :: acc)

/-- split on the character `a` -/
def split1 (a : Char) : List Char → List Char → List (List Char)
  | [], acc => [acc.reverse]
  | c :: rest, acc =>
    if c = a then acc.reverse :: split1 a rest [] else split1 a rest (c :: acc)

def dropSpaces : List Char → List Char
  | ' ' :: cs => dropSpaces cs
  | cs => cs

def trimSpaces (cs : List Char) : List Char := (dropSpaces (dropSpaces cs).reverse).reverse

def hexDigits? : List Char → Nat → Option Nat
  | [], acc => some acc
  | c :: cs, acc =>
    match Felt.hexVal c with
    | some d => hexDigits? cs (acc * 16 + d)
    | none => none

/-- `0x` followed by at least one hex digit -/
def hexValue? : List Char → Option Nat
  | '0' :: 'x' :: d :: ds => hexDigits? (d :: ds) 0
  | _ => none

def decDigits? : List Char → Nat → Option Nat
  | [], acc => some acc
  | c :: cs, acc =>
    if '0' ≤ c ∧ c ≤ '9' then decDigits? cs (acc * 10 + (c.toNat - 48)) else none

/-- a non-empty string of decimal digits -/
def decNat? : List Char → Option Nat
  | [] => none
  | c :: cs => decDigits? (c :: cs) 0

/-- canonical decimal: no leading zero (except `0` itself) -/
def decCanon? : List Char → Option Nat
  | ['0'] => some 0
  | '0' :: _ => none
  | cs => decNat? cs

/-- `n = 2^k` ↦ `k` -/
def log2Exact? (n : Nat) : Option Nat :=
  if n ≠ 0 ∧ 2 ^ n.log2 = n then some n.log2 else none

def U32 : Nat := 2 ^ 32

/-! ### annotation lines -/

inductive Kind | hash | fieldElement | fieldElements | data | number
  deriving DecidableEq, Repr

/-- the path of a prover message, as far as the verifier is concerned -/
inductive Slot
  /-- `STARK/Original/Commit on Trace` (0), `STARK/Interaction/Commit on Trace` (1),
      `STARK/Out Of Domain Sampling/Commit on Trace` (2) -/
  | traceCommit (j : Nat)
  /-- `STARK/Out Of Domain Sampling/OODS values` -/
  | oods
  /-- `STARK/FRI/Commitment/Layer k`, `k ≥ 1` -/
  | friCommit (k : Nat)
  /-- `STARK/FRI/Commitment/Last Layer` -/
  | friLast
  /-- `STARK/FRI/Proof of Work` -/
  | pow
  /-- `STARK/FRI/Decommitment/Layer 0/Virtual Oracle/Trace j`, `j = 0,1,2` -/
  | traceDecommit (j : Nat)
  /-- `STARK/FRI/Decommitment/Layer k`, `k ≥ 1` (exactly this path) -/
  | friDecommit (k : Nat)
  deriving DecidableEq, Repr

/-- one prover message: where it belongs, its kind, the numbers it carries -/
structure Item where
  slot : Slot
  kind : Kind
  values : List Nat
  deriving DecidableEq, Repr

def parseKind (cs : List Char) : Option Kind :=
  if cs = "Hash".toList then some .hash
  else if cs = "Field Element".toList then some .fieldElement
  else if cs = "Field Elements".toList then some .fieldElements
  else if cs = "Data".toList then some .data
  else if cs = "Number".toList then some .number
  else none

def layerIndex? (rest : List Char) : Option Nat :=
  match decCanon? rest with
  | some k => if k ≥ 1 then some k else none
  | none => none

/-- the path after `/cpu air/` -/
def parsePath (p : List Char) : Option Slot :=
  if p = "STARK/Original/Commit on Trace".toList then some (.traceCommit 0)
  else if p = "STARK/Interaction/Commit on Trace".toList then some (.traceCommit 1)
  else if p = "STARK/Out Of Domain Sampling/Commit on Trace".toList then some (.traceCommit 2)
  else if p = "STARK/Out Of Domain Sampling/OODS values".toList then some .oods
  else if p = "STARK/FRI/Commitment/Last Layer".toList then some .friLast
  else if p = "STARK/FRI/Proof of Work".toList then some .pow
  else if p = "STARK/FRI/Decommitment/Layer 0/Virtual Oracle/Trace 0".toList then some (.traceDecommit 0)
  else if p = "STARK/FRI/Decommitment/Layer 0/Virtual Oracle/Trace 1".toList then some (.traceDecommit 1)
  else if p = "STARK/FRI/Decommitment/Layer 0/Virtual Oracle/Trace 2".toList then some (.traceDecommit 2)
  else
    match stripPrefix? "STARK/FRI/Commitment/Layer ".toList p with
    | some rest => (layerIndex? rest).map .friCommit
    | none =>
      match stripPrefix? "STARK/FRI/Decommitment/Layer ".toList p with
      | some rest => (layerIndex? rest).map .friDecommit
      | none => none

/-- which kinds a path may carry -/
def kindAllowed : Slot → Kind → Bool
  | .traceCommit _, .hash => true
  | .oods, .fieldElements => true
  | .friCommit _, .hash => true
  | .friLast, .fieldElements => true
  | .pow, .data => true
  | .traceDecommit _, .fieldElement => true
  | .traceDecommit _, .data => true
  | .traceDecommit _, .hash => true
  | .friDecommit _, .fieldElement => true
  | .friDecommit _, .hash => true
  | _, _ => false

def parsePayload (k : Kind) (cs : List Char) : Option (List Nat) :=
  match k with
  | .fieldElements => (split1 ',' cs []).mapM fun piece => hexValue? (trimSpaces piece)
  | .number => (decNat? cs).map fun n => [n]
  | _ => (hexValue? cs).map fun n => [n]

/-- `a:b]` -/
def isRange (cs : List Char) : Bool :=
  match split1 ':' cs [] with
  | [a, b] =>
    match b.reverse with
    | ']' :: br => (decNat? a).isSome && (decNat? br.reverse).isSome
    | _ => false
  | _ => false

/-- `Kind(payload)` ↦ (`Kind`, `payload`): the name is everything before the FIRST `(`, and the last
    character must be `)` -/
def splitKindPayload (cs : List Char) : Option (List Char × List Char) :=
  match cs.reverse with
  | ')' :: r =>
    let body := r.reverse
    let name := body.takeWhile (· ≠ '(')
    match body.dropWhile (· ≠ '(') with
    | '(' :: payload => some (name, payload)
    | _ => none
  | _ => none

/-- One annotation line.
    * not starting with `P->V[`  (title, statistics, verifier messages `V->P: …`): `ok none`;
    * `P->V[a:b]: /cpu air/<path>: <label>: <Kind>(<payload>)` of a known class with a well-formed payload:
      `ok (some item)`;
    * any other line starting with `P->V[`: error. -/
def parseLine (s : String) : Except String (Option Item) :=
  match stripPrefix? "P->V[".toList s.toList with
  | none => .ok none
  | some rest =>
    match split2 ':' ' ' rest [] with
    | rng :: path :: lbl :: more =>
      if ¬ isRange rng then .error s!"malformed prover message (range): {s.take 80}" else
      match stripPrefix? "/cpu air/".toList path with
      | none => .error s!"malformed prover message (path): {s.take 80}"
      | some p =>
        match parsePath p with
        | none => .error s!"unknown prover message path: {s.take 120}"
        | some slot =>
          match splitKindPayload ((lbl :: more).getLast?.getD []) with
          | none => .error s!"malformed prover message (kind): {s.take 120}"
          | some (kn, payload) =>
            match parseKind kn with
            | none => .error s!"unknown prover message kind: {s.take 120}"
            | some kind =>
              if ¬ kindAllowed slot kind then .error s!"unexpected kind for this path: {s.take 120}" else
              match parsePayload kind payload with
              | none => .error s!"unparsable payload: {s.take 120}"
              | some vs => .ok (some ⟨slot, kind, vs⟩)
    | _ => .error s!"malformed prover message: {s.take 80}"

/-- `a:b]` ↦ `(a, b)` -/
def rangeOf? (cs : List Char) : Option (Nat × Nat) :=
  match split1 ':' cs [] with
  | [a, b] =>
    match b.reverse with
    | ']' :: br =>
      match decNat? a, decNat? br.reverse with
      | some x, some y => some (x, y)
      | _, _ => none
    | _ => none
  | _ => none

/-- the byte range `[a:b]` a prover message line carries -/
def lineRange? (s : String) : Option (Nat × Nat) :=
  match stripPrefix? "P->V[".toList s.toList with
  | none => none
  | some rest =>
    match split2 ':' ' ' rest [] with
    | rng :: _ => rangeOf? rng
    | [] => none

/-- The prover messages TILE the proof: the first one starts at byte `next` (0 for a whole file), each one
    starts where the previous one ended, and every value accounts for 32 bytes.  A removed, duplicated or
    reordered message line breaks this.  Returns the number of bytes covered. -/
def tiles : List String → Nat → Except String Nat
  | [], next => .ok next
  | s :: rest, next =>
    match parseLine s with
    | .error e => .error e
    | .ok none => tiles rest next
    | .ok (some it) =>
      match lineRange? s with
      | some (a, b) =>
        if a = next ∧ a + 32 * it.values.length = b then tiles rest b
        else .error s!"prover messages do not tile the proof at byte {next}: {s.take 80}"
      | none => .error s!"malformed prover message (range): {s.take 80}"

/-- all prover messages, in stream order -/
def parseAnnotations (lines : List String) : Except String (List Item) :=
  match mapE parseLine lines with
  | .error e => .error e
  | .ok rs => .ok (rs.filterMap id)

/-! ### extraction (everything is a `filter` of the stream, hence in stream order) -/

def isTraceCommit (j : Nat) (i : Item) : Bool := i.slot = .traceCommit j
def isOods (i : Item) : Bool := i.slot = .oods
def isFriCommit (i : Item) : Bool := match i.slot with | .friCommit _ => true | _ => false
def isFriLast (i : Item) : Bool := i.slot = .friLast
def isPow (i : Item) : Bool := i.slot = .pow
def isTraceValue (j : Nat) (i : Item) : Bool := i.slot = .traceDecommit j && i.kind = .fieldElement
def isTraceAuth (j : Nat) (i : Item) : Bool :=
  i.slot = .traceDecommit j && (i.kind = .data || i.kind = .hash)
def isTraceAuthData (j : Nat) (i : Item) : Bool := i.slot = .traceDecommit j && i.kind = .data
def isTraceAuthHash (j : Nat) (i : Item) : Bool := i.slot = .traceDecommit j && i.kind = .hash
def isFriLeaf (k : Nat) (i : Item) : Bool := i.slot = .friDecommit k && i.kind = .fieldElement
def isFriAuth (k : Nat) (i : Item) : Bool := i.slot = .friDecommit k && i.kind = .hash
def isFriDecommit (i : Item) : Bool := match i.slot with | .friDecommit _ => true | _ => false

/-- the numbers carried by the messages of a class, in stream order -/
def collect (p : Item → Bool) (items : List Item) : List Nat := (items.filter p).flatMap (·.values)

def felts (l : List Nat) : List Felt := l.map Felt.ofNat

/-- the class must consist of exactly one message carrying exactly one number -/
def single (what : String) (p : Item → Bool) (items : List Item) : Except String Nat :=
  match items.filter p with
  | [i] =>
    match i.values with
    | [v] => .ok v
    | _ => .error s!"{what}: one value expected"
  | [] => .error s!"{what}: missing"
  | _ => .error s!"{what}: more than one"

def slotIndex : Slot → Nat
  | .friCommit k => k
  | .friDecommit k => k
  | .traceCommit j => j
  | .traceDecommit j => j
  | _ => 0

/-- what the real parser does for the trace authentications: all `Data` lines, then all `Hash` lines -/
def authsDataThenHash (j : Nat) (items : List Item) : List Nat :=
  collect (isTraceAuthData j) items ++ collect (isTraceAuthHash j) items

def unsentOf (items : List Item) : Except String Stark.UnsentCommitment := do
  let o ← single "original trace commitment" (isTraceCommit 0) items
  let i ← single "interaction trace commitment" (isTraceCommit 1) items
  let c ← single "composition commitment" (isTraceCommit 2) items
  let nonce ← single "proof of work nonce" isPow items
  let layers := items.filter isFriCommit
  -- layer commitments must be Layer 1, Layer 2, … in this order
  if layers.map (slotIndex ·.slot) ≠ (List.range layers.length).map (· + 1) then
    .error "FRI layer commitments are not Layer 1, 2, … in order"
  else if nonce ≥ 2 ^ 64 then .error "proof of work nonce does not fit in 64 bits"
  else
    pure { tracesOriginal := Felt.ofNat o, tracesInteraction := Felt.ofNat i, composition := Felt.ofNat c
           oodsValues := felts (collect isOods items)
           friInnerLayers := felts (collect isFriCommit items)
           friLastLayerCoefficients := felts (collect isFriLast items)
           powNonce := nonce }

def friLayerWitness (items : List Item) (k : Nat) : Fri.LayerWitness :=
  ⟨felts (collect (isFriLeaf k) items), felts (collect (isFriAuth k) items)⟩

def witnessOf (nLayers : Nat) (items : List Item) : Except String Stark.Witness :=
  -- a decommitment of a layer the configuration does not have would be silently lost
  if (items.filter isFriDecommit).any (fun i => slotIndex i.slot ≥ nLayers) then
    .error "FRI decommitment of a layer beyond n_layers"
  else
    .ok { tracesOriginalValues := felts (collect (isTraceValue 0) items)
          tracesInteractionValues := felts (collect (isTraceValue 1) items)
          tracesOriginalAuths := felts (collect (isTraceAuth 0) items)
          tracesInteractionAuths := felts (collect (isTraceAuth 1) items)
          compositionValues := felts (collect (isTraceValue 2) items)
          compositionAuths := felts (collect (isTraceAuth 2) items)
          friLayers := (List.range (nLayers - 1)).map fun i => friLayerWitness items (i + 1) }

/-! ### the file -/

structure RawSegment where
  name : String
  beginAddr : Nat
  stopPtr : Nat
  deriving DecidableEq, Repr

structure RawMem where
  address : Nat
  page : Nat
  value : String
  deriving DecidableEq, Repr

/-- the values recorded in the file (numbers are arbitrary naturals here; the range checks are
    part of `convert`) -/
structure RawFile where
  friStepList : List Nat
  lastLayerDegreeBound : Nat
  nQueries : Nat
  powBits : Nat
  logNCosets : Nat
  /-- `n_verifier_friendly_commitment_layers`, 0 when absent -/
  nFriendly : Nat
  layout : String
  /-- `dynamic_params`: `none` when absent or `null` -/
  dynamicParams : Option (List (String × Nat))
  memorySegments : List RawSegment
  nSteps : Nat
  rcMin : Nat
  rcMax : Nat
  publicMemory : List RawMem
  annotations : List String
  /-- number of bytes of `proof_hex` (`none` when the member is absent) -/
  proofBytes : Option Nat := none
  deriving DecidableEq, Repr

/-! ### layouts, segments, dynamic parameters -/

structure LayoutConsts where
  cpuComponentStep : Nat
  numColumnsFirst : Nat
  numColumnsSecond : Nat
  constraintDegree : Nat
  deriving DecidableEq, Repr

/-- the height of the cpu component (`COMPONENT_HEIGHT` in json_parser.rs,
    `CPU_COMPONENT_HEIGHT` of the layouts) -/
def COMPONENT_HEIGHT : Nat := 16

/-- the VERIFIER's constants of the static layouts (translated from the verifier crates) -/
def staticConsts (layout : String) : Option LayoutConsts :=
  if layout = "dex" then
    some ⟨Gen.Layout.dex.CPU_COMPONENT_STEP, Gen.Layout.dex.NUM_COLUMNS_FIRST,
      Gen.Layout.dex.NUM_COLUMNS_SECOND, Gen.Layout.dex.CONSTRAINT_DEGREE⟩
  else if layout = "recursive" then
    some ⟨Gen.Layout.recursive.CPU_COMPONENT_STEP, Gen.Layout.recursive.NUM_COLUMNS_FIRST,
      Gen.Layout.recursive.NUM_COLUMNS_SECOND, Gen.Layout.recursive.CONSTRAINT_DEGREE⟩
  else if layout = "recursive_with_poseidon" then
    some ⟨Gen.Layout.recursive_with_poseidon.CPU_COMPONENT_STEP, Gen.Layout.recursive_with_poseidon.NUM_COLUMNS_FIRST,
      Gen.Layout.recursive_with_poseidon.NUM_COLUMNS_SECOND, Gen.Layout.recursive_with_poseidon.CONSTRAINT_DEGREE⟩
  else if layout = "small" then
    some ⟨Gen.Layout.small.CPU_COMPONENT_STEP, Gen.Layout.small.NUM_COLUMNS_FIRST,
      Gen.Layout.small.NUM_COLUMNS_SECOND, Gen.Layout.small.CONSTRAINT_DEGREE⟩
  else if layout = "starknet" then
    some ⟨Gen.Layout.starknet.CPU_COMPONENT_STEP, Gen.Layout.starknet.NUM_COLUMNS_FIRST,
      Gen.Layout.starknet.NUM_COLUMNS_SECOND, Gen.Layout.starknet.CONSTRAINT_DEGREE⟩
  else if layout = "starknet_with_keccak" then
    some ⟨Gen.Layout.starknet_with_keccak.CPU_COMPONENT_STEP, Gen.Layout.starknet_with_keccak.NUM_COLUMNS_FIRST,
      Gen.Layout.starknet_with_keccak.NUM_COLUMNS_SECOND, Gen.Layout.starknet_with_keccak.CONSTRAINT_DEGREE⟩
  else none

/-- the ASCII bytes of the layout name as a big-endian integer -/
def layoutCode (layout : String) : Nat := layout.toList.foldl (fun acc c => acc * 256 + c.toNat) 0

/-- Key order of Rust's `BTreeMap<String, _>`: byte-wise lexicographic on the UTF-8 encoding, which coincides
    with the lexicographic order on code points.  Keys are handled as `List Char` (structural, cheap to
    evaluate — also for the kernel). -/
def leChars : List Char → List Char → Bool
  | [], _ => true
  | _ :: _, [] => false
  | a :: as, b :: bs =>
    if a.toNat < b.toNat then true else if b.toNat < a.toNat then false else leChars as bs

def insertKey (x : List Char × Nat) : List (List Char × Nat) → List (List Char × Nat)
  | [] => [x]
  | y :: ys => if leChars x.1 y.1 then x :: y :: ys else y :: insertKey x ys

/-- insertion sort by key (ascending, stable) -/
def sortKeys : List (List Char × Nat) → List (List Char × Nat)
  | [] => []
  | x :: xs => insertKey x (sortKeys xs)

/-- Stone writes `add_mod__a0_suboffset`, the verifier's struct field is `add_mod_a0_suboffset` -/
def renameChars : List Char → List Char
  | '_' :: '_' :: cs => '_' :: renameChars cs
  | c :: cs => c :: renameChars cs
  | [] => []

/-- the verifier's field name of a Stone key -/
def fieldName (key : List Char) : String := String.ofList (renameChars key)

def lookupKey (k : String) : List (String × Nat) → Option Nat
  | [] => none
  | (k', v) :: l => if k' = k then some v else lookupKey k l

/-- Dynamic parameters for the verifier: the values ordered by key; the renamed sorted keys must be
    exactly the verifier's field names in struct order. -/
def dynamicParamsOf (dp : List (String × Nat)) : Except String (List Nat) :=
  let sorted := sortKeys (dp.map fun kv => (kv.1.toList, kv.2))
  if sorted.map (fun kv => fieldName kv.1) ≠ Gen.DynamicParams.fields then
    .error "dynamic_params: keys are not the verifier's dynamic parameter fields"
  else if sorted.any (fun kv => kv.2 ≥ U32) then .error "dynamic_params: value does not fit u32"
  else .ok (sorted.map (·.2))

/-- Layout constants and the verifier's `dynamic_params`.  A `dynamic_params` object that is empty counts
    as absent (as the CLI conversion does); the `dynamic` layout needs one, the others must not have one. -/
def layoutOf (r : RawFile) : Except String (LayoutConsts × Option (List Nat)) :=
  let dp := r.dynamicParams.getD []
  if r.layout = "dynamic" then
    if dp.isEmpty then .error "layout dynamic without dynamic_params" else
    match dynamicParamsOf dp with
    | .error e => .error e
    | .ok vals =>
      match lookupKey "cpu_component_step" dp, lookupKey "num_columns_first" dp,
            lookupKey "num_columns_second" dp with
      | some s, some n1, some n2 => .ok (⟨s, n1, n2, Gen.Layout.dynamic.CONSTRAINT_DEGREE⟩, some vals)
      | _, _, _ => .error "dynamic_params: cpu_component_step / num_columns_first / num_columns_second missing"
  else
    match staticConsts r.layout with
    | none => .error s!"unsupported layout {r.layout}"
    | some c => if dp.isEmpty then .ok (c, none) else .error "dynamic_params given for a static layout"

/-- the fixed order of the memory segments in the verifier's public input -/
def builtinOrder : List String :=
  ["program", "execution", "output", "pedersen", "range_check", "ecdsa", "bitwise", "ec_op", "keccak",
   "poseidon", "range_check96", "add_mod", "mul_mod"]

/-- The segments permuted into builtin order (segments of the same name keep their order — they cannot
    occur in a JSON object anyway); an unknown name is an error. -/
def sortSegments (segs : List RawSegment) : Except String (List RawSegment) :=
  if segs.all (fun s => builtinOrder.contains s.name) then
    .ok (builtinOrder.flatMap fun b => segs.filter (·.name = b))
  else .error "memory_segments: unknown segment name"

/-! ### configuration -/

/-- inner layer tables: `h` = log size before the layer's step -/
def innerLayersFrom (nf : Nat) : Nat → List Nat → Except String (List Fri.TableConfig)
  | _, [] => .ok []
  | h, s :: rest =>
    if s > h then .error "Invalid fri step list"
    else if s ≥ 32 then .error "Invalid fri step"
    else
      match innerLayersFrom nf (h - s) rest with
      | .error e => .error e
      | .ok ls => .ok (⟨Felt.ofNat (2 ^ s), ⟨Felt.ofNat (h - s), Felt.ofNat nf⟩⟩ :: ls)

def configOf (r : RawFile) (c : LayoutConsts) : Except String StarkConfig :=
  if r.friStepList.any (· ≥ U32) ∨ r.lastLayerDegreeBound ≥ U32 ∨ r.nQueries ≥ U32 ∨ r.powBits ≥ U32
      ∨ r.logNCosets ≥ U32 ∨ r.nFriendly ≥ U32 ∨ r.nSteps ≥ U32 then .error "a number does not fit u32"
  else if r.powBits > 255 then .error "proof_of_work_bits does not fit in 8 bits"
  else if COMPONENT_HEIGHT * c.cpuComponentStep * r.nSteps ≥ U32 then .error "Invalid number of steps"
  else
    match log2Exact? (COMPONENT_HEIGHT * c.cpuComponentStep * r.nSteps) with
    | none => .error "trace length is not a power of two"
    | some logTrace =>
      let logEval := logTrace + r.logNCosets
      if logEval ≥ U32 then .error "log_n_cosets too large" else
      match log2Exact? r.lastLayerDegreeBound with
      | none => .error "Invalid last layer degree bound"
      | some logLast =>
        match r.friStepList with
        | [] => .error "Empty fri_step_list"
        | s0 :: rest =>
          if s0 > logEval then .error "Invalid fri step list" else
          match innerLayersFrom r.nFriendly (logEval - s0) rest with
          | .error e => .error e
          | .ok inner =>
            let table (n : Nat) : Fri.TableConfig := ⟨Felt.ofNat n, ⟨Felt.ofNat logEval, Felt.ofNat r.nFriendly⟩⟩
            .ok { traces := ⟨table c.numColumnsFirst, table c.numColumnsSecond⟩
                  composition := table c.constraintDegree
                  fri := { logInputSize := Felt.ofNat logEval
                           nLayers := Felt.ofNat r.friStepList.length
                           innerLayers := inner
                           friStepSizes := r.friStepList.map Felt.ofNat
                           logLastLayerDegreeBound := Felt.ofNat logLast }
                  powBits := r.powBits
                  logTraceDomainSize := Felt.ofNat logTrace
                  nQueries := Felt.ofNat r.nQueries
                  logNCosets := Felt.ofNat r.logNCosets
                  nFriendly := Felt.ofNat r.nFriendly }

/-! ### public input -/

def memCell (m : RawMem) : Except String (Nat × AddrValue) :=
  if m.address ≥ U32 ∨ m.page ≥ U32 then .error "public_memory: number does not fit u32" else
  match hexValue? m.value.toList with
  | none => .error "Invalid memory value"
  | some v => .ok (m.page, ⟨Felt.ofNat m.address, Felt.ofNat v⟩)

def publicInputOf (r : RawFile) (dyn : Option (List Nat)) : Except String PublicInput :=
  if r.rcMin ≥ U32 ∨ r.rcMax ≥ U32 ∨ r.nSteps ≥ U32 then .error "a number does not fit u32" else
  match log2Exact? r.nSteps with
  | none => .error "Invalid number of steps"
  | some logNSteps =>
    if r.memorySegments.any (fun s => s.beginAddr ≥ U32 ∨ s.stopPtr ≥ U32) then
      .error "memory_segments: number does not fit u32"
    else
    match sortSegments r.memorySegments with
    | .error e => .error e
    | .ok segs =>
      match mapE memCell r.publicMemory with
      | .error e => .error e
      | .ok cells =>
        match cells with
        | [] => .error "Invalid public memory"
        | (_, first) :: _ =>
          .ok { logNSteps := Felt.ofNat logNSteps
                rangeCheckMin := Felt.ofNat r.rcMin
                rangeCheckMax := Felt.ofNat r.rcMax
                layout := Felt.ofNat (layoutCode r.layout)
                dynamicParams := dyn
                segments := segs.map fun s => ⟨Felt.ofNat s.beginAddr, Felt.ofNat s.stopPtr⟩
                paddingAddr := first.address
                paddingValue := first.value
                mainPage := (cells.filter (·.1 = 0)).map (·.2)
                -- the CLI conversion drops the continuous page headers
                continuousPageHeaders := [] }

/-! ### the conversion -/

/-- the prover messages cover the whole proof: when the file carries `proof_hex`, the tiling ends at its last byte
    (a file whose last message lines are missing is truncated) -/
def coversProof (proofBytes : Option Nat) (covered : Nat) : Except String Unit :=
  match proofBytes with
  | none => .ok ()
  | some n => if covered = n then .ok () else .error "the prover messages do not cover proof_hex"

/-- one commitment per inner FRI layer: `fri_step_list` has `n` entries, so layers `1 … n-1` are committed -/
def friCommitCount (nLayers : Nat) (items : List Item) : Except String Unit :=
  if (items.filter isFriCommit).length + 1 = nLayers then .ok ()
  else .error "the number of FRI layer commitments is not the number of inner layers"

def convert (r : RawFile) : Except String Stark.Proof := do
  let (consts, dyn) ← layoutOf r
  let cfg ← configOf r consts
  let pi ← publicInputOf r dyn
  let covered ← tiles r.annotations 0
  let _ ← coversProof r.proofBytes covered
  let items ← parseAnnotations r.annotations
  let _ ← friCommitCount r.friStepList.length items
  let u ← unsentOf items
  let w ← witnessOf r.friStepList.length items
  pure ⟨cfg, pi, u, w⟩

/-! ### JSON -/

open Lean (Json)

def field (j : Json) (k : String) : Except String Json :=
  match j.getObjVal? k with
  | .ok v => .ok v
  | .error _ => .error s!"missing field {k}"

def asNat (what : String) (j : Json) : Except String Nat :=
  match j.getNat? with
  | .ok n => .ok n
  | .error _ => .error s!"{what}: natural number expected"

def natField (j : Json) (k : String) : Except String Nat := do asNat k (← field j k)

def entries (what : String) (j : Json) : Except String (List (String × Json)) :=
  match j with
  | .obj kvs => .ok kvs.toList
  | _ => .error s!"{what}: object expected"

def elems (what : String) (j : Json) : Except String (List Json) :=
  match j with
  | .arr a => .ok a.toList
  | _ => .error s!"{what}: array expected"

def asStr (what : String) (j : Json) : Except String String :=
  match j with
  | .str s => .ok s
  | _ => .error s!"{what}: string expected"

/-- an optional member: absent or `null` ↦ `none` -/
def optField (j : Json) (k : String) : Option Json :=
  match j.getObjVal? k with
  | .ok .null => none
  | .ok v => some v
  | .error _ => none

def decode (j : Json) : Except String RawFile := do
  let pp ← field j "proof_parameters"
  let stark ← field pp "stark"
  let fri ← field stark "fri"
  let steps ← mapE (asNat "fri_step_list") (← elems "fri_step_list" (← field fri "fri_step_list"))
  let nFriendly ← match pp.getObjVal? "n_verifier_friendly_commitment_layers" with
    | .ok v => asNat "n_verifier_friendly_commitment_layers" v
    | .error _ => pure 0
  let pi ← field j "public_input"
  let dyn ← match optField pi "dynamic_params" with
    | none => pure none
    | some d => do
      let kvs ← entries "dynamic_params" d
      let l ← mapE (fun (kv : String × Json) => do pure (kv.1, ← asNat kv.1 kv.2)) kvs
      pure (some l)
  let segs ← mapE (fun (kv : String × Json) => do
      pure (⟨kv.1, ← natField kv.2 "begin_addr", ← natField kv.2 "stop_ptr"⟩ : RawSegment))
    (← entries "memory_segments" (← field pi "memory_segments"))
  let mem ← mapE (fun m => do
      pure (⟨← natField m "address", ← natField m "page", ← asStr "value" (← field m "value")⟩ : RawMem))
    (← elems "public_memory" (← field pi "public_memory"))
  let ann ← mapE (asStr "annotation") (← elems "annotations" (← field j "annotations"))
  let proofBytes ← match optField j "proof_hex" with
    | none => pure none
    | some h => do
      let hex ← asStr "proof_hex" h
      pure (some (((stripPrefix? "0x".toList hex.toList).getD hex.toList).length / 2))
  pure { friStepList := steps
         lastLayerDegreeBound := ← natField fri "last_layer_degree_bound"
         nQueries := ← natField fri "n_queries"
         powBits := ← natField fri "proof_of_work_bits"
         logNCosets := ← natField stark "log_n_cosets"
         nFriendly := nFriendly
         layout := ← asStr "layout" (← field pi "layout")
         dynamicParams := dyn
         memorySegments := segs
         nSteps := ← natField pi "n_steps"
         rcMin := ← natField pi "rc_min"
         rcMax := ← natField pi "rc_max"
         publicMemory := mem
         annotations := ann
         proofBytes := proofBytes }

def loadJson (j : Json) : Except String Stark.Proof := decode j >>= convert

/-- the loader: text of a Stone proof file ↦ the verifier's proof, or an error -/
def loadProof (s : String) : Except String Stark.Proof :=
  match Json.parse s with
  | .error e => .error s!"json: {e}"
  | .ok j => loadJson j

end Swiftness.Loader
