/- Model of `crates/fri/src/{formula,group,layer,first_layer,last_layer,config,fri}.rs`. -/
import Swiftness.Model.Table
import Swiftness.Model.Transcript

namespace Swiftness.Fri

def OMEGA_4 : Felt := Felt.ofNat Gen.FriFormula.OMEGA_4
def OMEGA_8 : Felt := Felt.ofNat Gen.FriFormula.OMEGA_8
def OMEGA_16 : Felt := Felt.ofNat Gen.FriFormula.OMEGA_16
def FIELD_GENERATOR_INVERSE : Felt := Felt.ofNat Gen.FriFirstLayer.FIELD_GENERATOR_INVERSE
/-- `get_fri_group()` -/
def friGroup : List Felt := Gen.friGroup.map Felt.ofNat

/-! ### formula.rs -/

def formula2 (fx fmx evalPoint xInv : Felt) : Felt :=
  fx + fmx + evalPoint * xInv * (fx - fmx)

def formula4 (v : List Felt) (e x : Felt) : Outcome Felt :=
  match v with
  | [v0, v1, v2, v3] =>
    .ok (formula2 (formula2 v0 v1 e x) (formula2 v2 v3 e (x * OMEGA_4)) (e * e) (x * x))
  | _ => .err "InvalidValuesLength"

def formula8 (v : List Felt) (e x : Felt) : Outcome Felt :=
  if v.length ≠ 8 then .err "InvalidValuesLength" else
  match formula4 (v.take 4) e x, formula4 (v.drop 4) e (x * OMEGA_8) with
  | .ok g0, .ok g1 =>
    let e2 := e * e; let e4 := e2 * e2
    let x2 := x * x; let x4 := x2 * x2
    .ok (formula2 g0 g1 e4 x4)
  | .ok _, o => o
  | o, _ => o

def formula16 (v : List Felt) (e x : Felt) : Outcome Felt :=
  if v.length ≠ 16 then .err "InvalidValuesLength" else
  match formula8 (v.take 8) e x, formula8 (v.drop 8) e (x * OMEGA_16) with
  | .ok g0, .ok g1 =>
    let e2 := e * e; let e4 := e2 * e2; let e8 := e4 * e4
    let x2 := x * x; let x4 := x2 * x2; let x8 := x4 * x4
    .ok (formula2 g0 g1 e8 x8)
  | .ok _, o => o
  | o, _ => o

/-- `fri_formula`: `coset_size` must fit `u64` (`?`), sizes other than 2,4,8,16 hit `panic!`. -/
def friFormula (values : List Felt) (evalPoint xInv cosetSize : Felt) : Outcome Felt :=
  if cosetSize.val ≥ 2 ^ 64 then .err "TryFromBigInt"
  else if cosetSize.val = 2 then
    match values with
    | [a, b] => .ok (formula2 a b evalPoint xInv)
    | _ => .err "InvalidValuesLength"
  else if cosetSize.val = 4 then formula4 values evalPoint xInv
  else if cosetSize.val = 8 then formula8 values evalPoint xInv
  else if cosetSize.val = 16 then formula16 values evalPoint xInv
  else .panic "formula.rs:fri_formula:panic"

/-! ### layer.rs -/

structure LayerQuery where
  index : Felt
  yValue : Felt
  xInvValue : Felt
  deriving DecidableEq, Repr

structure CosetResult where
  elements : List Felt
  xInv : Felt
  queries : List LayerQuery
  siblings : List Felt

/-- `compute_coset_elements` loop: `n` iterations left, current offset `i`. -/
def cosetLoop (start : Felt) : Nat → Nat → List LayerQuery → List Felt → Felt → List Felt → Outcome CosetResult
  | 0, _, qs, sibs, xInv, acc => .ok ⟨acc.reverse, xInv, qs, sibs⟩
  | n + 1, i, qs, sibs, xInv, acc =>
    match qs with
    | q :: qs' =>
      if q.index = start + Felt.ofNat i then
        match friGroup[i]? with
        | some g => cosetLoop start n (i + 1) qs' sibs (q.xInvValue * g) (q.yValue :: acc)
        | none => .panic "layer.rs:compute_coset_elements:unwrap"
      else
        match sibs with
        | s :: sibs' => cosetLoop start n (i + 1) qs sibs' xInv (s :: acc)
        | [] => .err "SiblingWitnessTooShort"
    | [] =>
      match sibs with
      | s :: sibs' => cosetLoop start n (i + 1) qs sibs' xInv (s :: acc)
      | [] => .err "SiblingWitnessTooShort"

/-- `compute_coset_elements` -/
def cosetElements (queries : List LayerQuery) (sibs : List Felt) (cosetSize start : Felt) :
    Outcome CosetResult :=
  if cosetSize.val ≥ 2 ^ 64 then .panic "layer.rs:compute_coset_elements:unwrap_usize"
  else cosetLoop start cosetSize.val 0 queries sibs 0 []

structure NextLayer where
  nextQueries : List LayerQuery
  verifyIndices : List Felt
  verifyYValues : List Felt
  siblingsLeft : List Felt

/-- `compute_next_layer` while-loop; `fuel ≥ queries.length + 1` is never exhausted because every
    iteration consumes at least one query. -/
def nextLayerLoop (cosetSize evalPoint : Felt) :
    Nat → List LayerQuery → List Felt → List LayerQuery → List Felt → List Felt → Outcome NextLayer
  | 0, _, _, _, _, _ => .err "fuel"
  | fuel + 1, qs, sibs, nq, vi, vy =>
    match qs with
    | [] => .ok ⟨nq.reverse, vi.reverse, vy, sibs⟩
    | q :: _ =>
      if cosetSize = 0 then .panic "layer.rs:compute_next_layer:div0"
      else
        let cosetIndex := Felt.ofNat (q.index.val / cosetSize.val)
        match cosetElements qs sibs cosetSize (cosetIndex * cosetSize) with
        | .ok r =>
          match friFormula r.elements evalPoint r.xInv cosetSize with
          | .ok y =>
            nextLayerLoop cosetSize evalPoint fuel r.queries r.siblings
              (⟨cosetIndex, y, Felt.pow r.xInv cosetSize.val⟩ :: nq) (cosetIndex :: vi) (vy ++ r.elements)
          | .err e => .err e
          | .panic s => .panic s
        | .err e => .err e
        | .panic s => .panic s

/-- `compute_next_layer` -/
def computeNextLayer (queries : List LayerQuery) (sibs : List Felt) (cosetSize evalPoint : Felt) :
    Outcome NextLayer :=
  nextLayerLoop cosetSize evalPoint (queries.length + 1) queries sibs [] [] []

/-! ### first_layer.rs, last_layer.rs -/

/-- `gather_first_layer_queries` -/
def gatherFirstLayer : List Felt → List Felt → List Felt → Outcome (List LayerQuery)
  | [], _, _ => .ok []
  | q :: qs, evals, xs =>
    match xs with
    | [] => .panic "first_layer.rs:gather_first_layer_queries:unwrap_x"
    | x :: xs' =>
      let shifted := x * FIELD_GENERATOR_INVERSE
      match evals with
      | [] => .panic "first_layer.rs:gather_first_layer_queries:unwrap_eval"
      | y :: evals' =>
        if shifted = 0 then .panic "first_layer.rs:gather_first_layer_queries:div0"
        else
          match gatherFirstLayer qs evals' xs' with
          | .ok r => .ok (⟨q, y, Felt.inv shifted⟩ :: r)
          | o => o

/-- `horner_eval` -/
def hornerEval (coefs : List Felt) (point : Felt) : Felt :=
  coefs.foldr (fun c r => r * point + c) 0

/-- `verify_last_layer` -/
def verifyLastLayer : List LayerQuery → List Felt → Outcome Unit
  | [], _ => .ok ()
  | q :: qs, coefs =>
    if q.xInvValue = 0 then .panic "last_layer.rs:verify_last_layer:div0"
    else if hornerEval coefs (Felt.inv q.xInvValue) ≠ q.yValue then .err "QueryMismatch"
    else verifyLastLayer qs coefs

/-! ### config.rs -/

structure TableConfig where
  nColumns : Felt
  vector : Vector.Config
  deriving DecidableEq, Repr

structure Config where
  logInputSize : Felt
  nLayers : Felt
  innerLayers : List TableConfig
  friStepSizes : List Felt
  logLastLayerDegreeBound : Felt
  deriving DecidableEq, Repr

def MAX_LAST_LAYER_LOG_DEGREE_BOUND : Nat := Gen.FriConfig.MAX_LAST_LAYER_LOG_DEGREE_BOUND
def MAX_FRI_LAYERS : Nat := Gen.FriConfig.MAX_FRI_LAYERS
def MIN_FRI_LAYERS : Nat := Gen.FriConfig.MIN_FRI_LAYERS
def MAX_FRI_STEP : Nat := Gen.FriConfig.MAX_FRI_STEP
def MIN_FRI_STEP : Nat := Gen.FriConfig.MIN_FRI_STEP

/-- loop body of `Config::validate` for `i = 1 .. n_layers-1`; state: `(log_input_size, sum)` -/
def validateLoop (nFriendly : Felt) : List Felt → List TableConfig → Felt → Felt → Outcome (Felt × Felt)
  | [], _, lis, sum => .ok (lis, sum)
  | _ :: _, [], _, _ => .panic "fri/config.rs:validate:index"
  | step :: steps, tc :: tcs, lis, sum =>
    let lis := lis - step
    let sum := sum + step
    if step.val < MIN_FRI_STEP ∨ step.val > MAX_FRI_STEP then .err "OutOfBounds"
    else
      let expected := Felt.pow 2 step.val
      if tc.nColumns ≠ expected then .err "InvalidColumnCount"
      else
        match tc.vector.validate lis nFriendly with
        | .ok () => validateLoop nFriendly steps tcs lis sum
        | .err e => .err e
        | .panic s => .panic s

/-- `fri::Config::validate` → `log_expected_input_degree` -/
def Config.validate (c : Config) (logNCosets nFriendly : Felt) : Outcome Felt :=
  if c.nLayers.val < MIN_FRI_LAYERS ∨ c.nLayers.val > MAX_FRI_LAYERS then .err "OutOfBounds"
  else if c.logLastLayerDegreeBound.val > MAX_LAST_LAYER_LOG_DEGREE_BOUND then .err "OutOfBounds"
  else
    match c.friStepSizes with
    | [] => .err "FirstFriStepInvalid"
    | s0 :: _ =>
      if s0 ≠ 0 then .err "FirstFriStepInvalid"
      else
        let n := c.nLayers.val
        if c.friStepSizes.length < n ∨ c.innerLayers.length < n - 1 then .err "InvalidLayersLength"
        else
          match validateLoop nFriendly ((c.friStepSizes.drop 1).take (n - 1)) (c.innerLayers.take (n - 1))
              c.logInputSize 0 with
          | .ok (_, sum) =>
            let deg := sum + c.logLastLayerDegreeBound
            if deg + logNCosets ≠ c.logInputSize then .err "LogInputSizeMismatch" else .ok deg
          | .err e => .err e
          | .panic s => .panic s

/-! ### fri.rs -/

structure Commitment where
  config : Config
  innerLayers : List Table.Commitment
  evalPoints : List Felt
  lastLayerCoefficients : List Felt

structure LayerWitness where
  leaves : List Felt
  auths : List Felt
  deriving DecidableEq, Repr

/-- `fri_commit_rounds` for `len` rounds -/
def commitRounds (H : Hashes) : Nat → Transcript → List TableConfig → List Felt →
    Outcome (Transcript × List Table.Commitment × List Felt)
  | 0, t, _, _ => .ok (t, [], [])
  | n + 1, t, cfgs, roots =>
    match roots with
    | [] => .panic "fri.rs:fri_commit_rounds:unwrap_commitment"
    | r :: roots' =>
      match cfgs with
      | [] => .panic "fri.rs:fri_commit_rounds:unwrap_config"
      | c :: cfgs' =>
        let t1 := t.readFelt H r
        let (e, t2) := t1.randomFelt H
        match commitRounds H n t2 cfgs' roots' with
        | .ok (t3, cs, es) => .ok (t3, ⟨c.nColumns, ⟨c.vector, r⟩⟩ :: cs, e :: es)
        | .err x => .err x
        | .panic s => .panic s

/-- `fri_commit` -/
def commit (H : Hashes) (t : Transcript) (innerRoots lastCoefs : List Felt) (cfg : Config) :
    Outcome (Transcript × Commitment) :=
  if ¬ (cfg.nLayers.val > 0) then .panic "fri.rs:fri_commit:assert_layers"
  else if (cfg.nLayers - 1).val ≥ 2 ^ 64 then .panic "fri.rs:fri_commit_rounds:unwrap_len"
  else
    match commitRounds H (cfg.nLayers - 1).val t cfg.innerLayers innerRoots with
    | .ok (t1, cs, es) =>
      let t2 := t1.readFeltVector H lastCoefs
      if Felt.pow 2 cfg.logLastLayerDegreeBound.val ≠ Felt.ofNat lastCoefs.length then
        .panic "fri.rs:fri_commit:assert_last_layer"
      else .ok (t2, ⟨cfg, cs, es, lastCoefs⟩)
    | .err x => .err x
    | .panic s => .panic s

/-- `fri_verify_layers` for `len` layers -/
def verifyLayers (H : Hashes) : Nat → List Table.Commitment → List LayerWitness → List Felt → List Felt →
    List LayerQuery → Outcome (List LayerQuery)
  | 0, _, _, _, _, qs => .ok qs
  | n + 1, cs, ws, es, steps, qs =>
    match ws with
    | [] => .err "LayerWitnessMissing"
    | w :: ws' =>
      match cs with
      | [] => .panic "fri.rs:fri_verify_layers:unwrap_commitment"
      | c :: cs' =>
        match steps with
        | [] => .panic "fri.rs:fri_verify_layers:unwrap_step"
        | st :: steps' =>
          match es with
          | [] => .panic "fri.rs:fri_verify_layers:unwrap_eval_point"
          | e :: es' =>
            let cosetSize := Felt.pow 2 st.val
            match computeNextLayer qs w.leaves cosetSize e with
            | .ok nl =>
              match Table.decommit H c nl.verifyIndices nl.verifyYValues w.auths with
              | .ok () => verifyLayers H n cs' ws' es' steps' nl.nextQueries
              | .err x => .err x
              | .panic s => .panic s
            | .err _ => .err "LayerComputationError"
            | .panic s => .panic s

/-- `fri_verify` -/
def verify (H : Hashes) (queries : List Felt) (c : Commitment) (values points : List Felt)
    (witness : List LayerWitness) : Outcome Unit :=
  if queries.length ≠ values.length then .err "InvalidLength"
  else
    match gatherFirstLayer queries values points with
    | .ok fq =>
      if c.config.friStepSizes.length < 1 then .panic "fri.rs:fri_verify:slice"
      else if (c.config.nLayers - 1).val ≥ 2 ^ 64 then .panic "fri.rs:fri_verify_layers:unwrap_len"
      else
        match verifyLayers H (c.config.nLayers - 1).val c.innerLayers witness c.evalPoints
            (c.config.friStepSizes.drop 1) fq with
        | .ok last =>
          if Felt.ofNat c.lastLayerCoefficients.length ≠ Felt.pow 2 c.config.logLastLayerDegreeBound.val then
            .err "InvalidValue"
          else
            match verifyLastLayer last c.lastLayerCoefficients with
            | .ok () => .ok ()
            | .err _ => .err "LastLayerVerificationError"
            | .panic s => .panic s
        | .err x => .err x
        | .panic s => .panic s
    | .err x => .err x
    | .panic s => .panic s

end Swiftness.Fri
