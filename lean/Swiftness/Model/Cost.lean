/-
  Size of a proof value and a coarse step count of `StarkProof::verify` (property C17).  Core Lean only.

  `verifyCost` is the sum, over the phases of `Stark.verify`, of the iteration counts of the model's
  loops (one unit per loop iteration, hash call or list element touched; `Cost.F` units per
  `Felt.pow` / `Felt.inv`, whose square-and-multiply loop has the fixed fuel 256).  Loop counts that
  the model takes from a NUMERIC field of the proof are written as that field's value
  (`nQueries.val`, `(nLayers - 1).val`, `(2^step).val`); all other loops run over a list contained in
  the proof and are counted by that list's length.  `Props/C17.lean` shows that after configuration
  validation every value-driven factor is bounded by a constant, so that the total is at most
  `A + B * size`.
-/
import Swiftness.Model.Stark

namespace Swiftness

/-! ### number of field elements (and machine integers) in a proof value -/

def Fri.LayerWitness.size (w : Fri.LayerWitness) : Nat := w.leaves.length + w.auths.length

def PublicInput.size (pi : PublicInput) : Nat :=
  6 + (match pi.dynamicParams with | some d => d.length | none => 0) + 2 * pi.segments.length
    + 2 * pi.mainPage.length + 4 * pi.continuousPageHeaders.length

def Fri.Config.size (c : Fri.Config) : Nat := 3 + 3 * c.innerLayers.length + c.friStepSizes.length

def StarkConfig.size (c : StarkConfig) : Nat := 9 + c.fri.size + 5

namespace Stark

def UnsentCommitment.size (u : UnsentCommitment) : Nat :=
  4 + u.oodsValues.length + u.friInnerLayers.length + u.friLastLayerCoefficients.length

def Witness.size (w : Witness) : Nat :=
  w.tracesOriginalValues.length + w.tracesInteractionValues.length + w.tracesOriginalAuths.length
    + w.tracesInteractionAuths.length + w.compositionValues.length + w.compositionAuths.length
    + (w.friLayers.map Fri.LayerWitness.size).sum

/-- total number of field elements / integers in the proof value -/
def Proof.size (p : Proof) : Nat :=
  p.config.size + p.publicInput.size + p.unsent.size + p.witness.size

end Stark

/-! ### step counts -/

/-- cost of the layout callbacks (opaque in `LayoutOps`): `eval_composition_polynomial` takes at most
    `compA + compB * |public input|` steps (public-memory product, periodic columns, the translated
    program), `eval_oods_polynomial` at most `oods`, and public-input validation + hashing +
    verification at most `piA + piB * |public input|`.  For a static layout these are the lengths of the
    translated programs and of the periodic-column coefficient lists. -/
structure LayoutCost where
  compA : Nat
  compB : Nat
  oods : Nat
  piA : Nat
  piB : Nat

namespace Cost

/-- one `Felt.pow` / `Felt.inv`: `Felt.powAux` is called with fuel 256 -/
def F : Nat := 256

/-- `table_decommit` for `nq` queries: Montgomery map and row hashing touch every value once;
    `compute_root_from_queries` makes at most `nq + auths.length + 1` steps (its fuel) -/
def tableDecommit (nq : Nat) (values auths : List Felt) : Nat := values.length + (nq + auths.length + 1)

/-- one FRI layer for `nq` queries and coset size `cs`: at most `nq + 1` iterations of the
    `compute_next_layer` loop (its fuel), each with `cs` iterations of `compute_coset_elements`, at most
    16 steps of `fri_formula` and one `pow`; then the layer's table decommitment of at most `nq` rows of
    `cs` values -/
def layer (nq cs : Nat) (w : Fri.LayerWitness) : Nat :=
  (nq + 1) * (cs + 16 + F) + nq * cs + (nq + w.auths.length + 1)

/-- the coset size `2^step` that `fri_verify_layers` computes for a step (value-driven) -/
def cosetSize (st : Felt) : Nat := (Felt.pow 2 st.val).val

/-- the number of `fri_commit_rounds` / `fri_verify_layers` iterations, `n_layers - 1` (value-driven) -/
def rounds (c : Fri.Config) : Nat := (c.nLayers - 1).val

/-- `fri_verify_layers`: one `layer` per (step, witness) pair, for at most `n` layers -/
def layers (nq : Nat) : List Felt → List Fri.LayerWitness → Nat
  | st :: steps, w :: ws => layer nq (cosetSize st) w + layers nq steps ws
  | _, _ => 0

end Cost

open Cost in
/-- coarse step count of `Stark.verify L H stone6 p sec` (independent of `H`, `stone6`, `sec`) -/
def verifyCost (L : LayoutOps) (K : LayoutCost) (p : Stark.Proof) : Nat :=
  -- value-driven loop counts
  let q := p.config.nQueries.val                 -- `generate_queries` samples; at most `q` queries
  let n := rounds p.config.fri                   -- `fri_commit_rounds`, `fri_verify_layers`
  let m := L.maskSize + L.constraintDegree
  -- `StarkConfig::validate`: the FRI loop runs over `take (n_layers - 1)`
  let cfg := 16 + p.config.fri.nLayers.val
  -- `StarkDomains::new`: four exponentiations
  let dom := 4 * F
  -- public input: hash, `validate_public_input`, `verify_public_input`
  let pub := p.publicInput.size + K.piA + K.piB * p.publicInput.size
  -- `stark_commit`
  let com := L.nInteractionElements + L.nConstraints + p.unsent.oodsValues.length
    + (K.compA + K.compB * p.publicInput.size) + m + F + n + p.unsent.friLastLayerCoefficients.length + F
  -- `generate_queries`: `q` samples, insertion sort, dedup
  let qry := q + q * q + q
  -- `traces_decommit`, `table_decommit` of the composition trace
  let dec := tableDecommit q p.witness.tracesOriginalValues p.witness.tracesOriginalAuths
    + tableDecommit q p.witness.tracesInteractionValues p.witness.tracesInteractionAuths
    + tableDecommit q p.witness.compositionValues p.witness.compositionAuths
  -- `queries_to_points`: per query a 64-bit reversal and one exponentiation
  let pts := q * (64 + F)
  -- `eval_oods_boundary_poly_at_points`: one layout call per query
  let ood := q * K.oods
  -- `fri_verify`: first layer (one inversion per query), inner layers, last layer (Horner + inversion)
  let fri := q * F + layers q ((p.config.fri.friStepSizes.drop 1).take n) p.witness.friLayers
    + q * (F + p.unsent.friLastLayerCoefficients.length)
  cfg + dom + pub + com + qry + dec + pts + ood + fri

end Swiftness
