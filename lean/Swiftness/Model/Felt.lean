/-
  The Stark field as core `Fin P` (no Mathlib: this file links into the `drv` executable).
  Rust counterpart: `starknet_types_core::felt::Felt` (lambdaworks Montgomery field element);
  semantics pinned by the correspondence harness (`hx felt_*` ops).
-/
namespace Swiftness

/-- `2^251 + 17·2^192 + 1` -/
def P : Nat := 0x800000000000011000000000000000000000000000000000000000000000001

instance : NeZero P := ⟨by decide⟩

abbrev Felt := Fin P

namespace Felt

@[inline] def ofNat (n : Nat) : Felt := Fin.ofNat P n

/-- square-and-multiply; `fuel` bounds the bit length of `e`. -/
def powAux : Nat → Felt → Nat → Felt
  | 0, _, _ => 1
  | fuel + 1, a, e =>
    if e = 0 then 1
    else
      let r := powAux fuel (a * a) (e / 2)
      if e % 2 = 1 then a * r else r

/-- `a^e` for `e < 2^256` (all callers pass `e < P`). Rust: `pow`, `pow_felt`. -/
def pow (a : Felt) (e : Nat) : Felt := powAux 256 a e

/-- Fermat inverse; `inv 0 = 0` (callers guard: the Rust panics/errs on a zero divisor). -/
def inv (a : Felt) : Felt := pow a (P - 2)

/-- 32-byte big-endian encoding (`Felt::to_bytes_be`). -/
def natToBytesBE : Nat → Nat → List UInt8
  | 0, _ => []
  | len + 1, n => natToBytesBE len (n / 256) ++ [UInt8.ofNat (n % 256)]

def toBytesBE (a : Felt) : List UInt8 := natToBytesBE 32 a.val

def natOfBytesBE (bs : List UInt8) : Nat := bs.foldl (fun acc b => acc * 256 + b.toNat) 0

/-- `Felt::from_bytes_be_slice`: big-endian integer reduced mod `P`. -/
def fromBytesBE (bs : List UInt8) : Felt := ofNat (natOfBytesBE bs)

/-! hex I/O for the line protocol: minimal lowercase hex without `0x` -/
def hexDigit (n : Nat) : Char :=
  if n < 10 then Char.ofNat (48 + n) else Char.ofNat (87 + n)

def natToHexAux : Nat → Nat → List Char → List Char
  | 0, _, acc => acc
  | fuel + 1, n, acc =>
    if n < 16 then hexDigit n :: acc else natToHexAux fuel (n / 16) (hexDigit (n % 16) :: acc)

def natToHex (n : Nat) : String := String.ofList (natToHexAux 80 n [])

def toHex (a : Felt) : String := natToHex a.val

def hexVal (c : Char) : Option Nat :=
  if '0' ≤ c ∧ c ≤ '9' then some (c.toNat - 48)
  else if 'a' ≤ c ∧ c ≤ 'f' then some (c.toNat - 87)
  else if 'A' ≤ c ∧ c ≤ 'F' then some (c.toNat - 55)
  else none

def natOfHex? (s : String) : Option Nat :=
  if s.isEmpty then none else
  s.toList.foldl (fun acc c => match acc, hexVal c with
    | some a, some d => some (a * 16 + d)
    | _, _ => none) (some 0)

end Felt

end Swiftness
