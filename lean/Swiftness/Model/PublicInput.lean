/- Model of `crates/air/src/{types,public_memory}.rs`. -/
import Swiftness.Model.Hashes
import Swiftness.Model.Outcome

namespace Swiftness

structure SegmentInfo where
  beginAddr : Felt
  stopPtr : Felt
  deriving DecidableEq, Repr

structure AddrValue where
  address : Felt
  value : Felt
  deriving DecidableEq, Repr

structure ContinuousPageHeader where
  startAddress : Felt
  size : Felt
  hash : Felt
  prod : Felt
  deriving DecidableEq, Repr

/-- `PublicInput`.  `dynamicParams` is the `Vec<usize>` image of `DynamicParams` in field order
    (the order is the translator's business, see `Generated/DynamicParams`). -/
structure PublicInput where
  logNSteps : Felt
  rangeCheckMin : Felt
  rangeCheckMax : Felt
  layout : Felt
  dynamicParams : Option (List Nat)
  segments : List SegmentInfo
  paddingAddr : Felt
  paddingValue : Felt
  mainPage : List AddrValue
  continuousPageHeaders : List ContinuousPageHeader
  deriving DecidableEq, Repr

namespace PublicInput

/-- `Page::get_product` -/
def pageProduct (z alpha : Felt) (page : List AddrValue) : Felt :=
  page.foldl (fun r c => r * (z - (c.address + alpha * c.value))) 1

/-- `get_continuous_pages_product` -/
def continuousPagesProduct (hs : List ContinuousPageHeader) : Felt × Felt :=
  hs.foldl (fun (r : Felt × Felt) h => (r.1 * h.prod, r.2 + h.size)) (1, 0)

/-- `get_public_memory_product` -/
def publicMemoryProduct (pi : PublicInput) (z alpha : Felt) : Felt × Felt :=
  let (cp, cl) := continuousPagesProduct pi.continuousPageHeaders
  (pageProduct z alpha pi.mainPage * cp, Felt.ofNat pi.mainPage.length + cl)

/-- `get_public_memory_product_ratio` (`Option<Felt>`): `None` (modelled as `err`) when the public
    memory does not fit the column or a denominator is zero. -/
def publicMemoryProductRatio (pi : PublicInput) (z alpha size : Felt) : Outcome Felt :=
  let (prod, total) := publicMemoryProduct pi z alpha
  let numerator := Felt.pow z size.val
  let padded := z - (pi.paddingAddr + alpha * pi.paddingValue)
  if ¬ (total.val ≤ size.val) then .err "None:total_length"
  else
    let denomPad := Felt.pow padded (size - total).val
    if prod = 0 then .err "None:pages_product"
    else if denomPad = 0 then .err "None:denominator_pad"
    else .ok (numerator * Felt.inv prod * Felt.inv denomPad)

/-- Pedersen chain over the main page: `h := H(H(h, addr), value)` per cell, then `H(h, 2·len)`. -/
def mainPageHash (H : Hashes) (page : List AddrValue) : Felt :=
  H.pedersen (page.foldl (fun h c => H.pedersen (H.pedersen h c.address) c.value) 0)
    (2 * Felt.ofNat page.length)

/-- the list hashed by `get_hash` -/
def hashData (H : Hashes) (stone6 : Bool) (nFriendly : Felt) (pi : PublicInput) : List Felt :=
  (if stone6 then [nFriendly] else []) ++
  [pi.logNSteps, pi.rangeCheckMin, pi.rangeCheckMax, pi.layout] ++
  (match pi.dynamicParams with | some d => d.map Felt.ofNat | none => []) ++
  pi.segments.flatMap (fun s => [s.beginAddr, s.stopPtr]) ++
  [pi.paddingAddr, pi.paddingValue, Felt.ofNat (pi.continuousPageHeaders.length + 1),
   Felt.ofNat pi.mainPage.length, mainPageHash H pi.mainPage] ++
  pi.continuousPageHeaders.flatMap (fun h => [h.startAddress, h.size, h.hash])

/-- `PublicInput::get_hash` -/
def getHash (H : Hashes) (stone6 : Bool) (nFriendly : Felt) (pi : PublicInput) : Felt :=
  H.poseidonMany (hashData H stone6 nFriendly pi)

end PublicInput
end Swiftness
