import Swiftness.Model.Felt

/-
  Executable model of the StarkWare Pedersen hash on the Stark curve
      y² = x³ + α·x + β   over the Stark field,  α = 1.
  Rust counterpart: `starknet_crypto::pedersen_hash` (`starknet-crypto 0.7.1`), constants from
  `starknet-curve 0.5.0` (`curve_params.rs`).

      pedersen_hash(x, y) = [ SHIFT_POINT + x_low·P0 + x_high·P1 + y_low·P2 + y_high·P3 ].x
  with  low = low 248 bits,  high = bits 248..251 (4 bits).

  The Rust crate adds precomputed multiples from 4-bit-window lookup tables; this model does a
  plain MSB-first double-and-add in Jacobian coordinates `(X, Y, Z)` ↔ `(X/Z², Y/Z³)` with
  `Z = 0` for the point at infinity, and a single field inversion at the end.  Both compute the
  same group element (checked on vectors in `HashTests`).
-/
namespace Swiftness

namespace Pedersen

/-- curve coefficient α -/
def alpha : Felt := 1

/-- curve coefficient β -/
def beta : Felt :=
  Felt.ofNat 0x6f21413efbe40de150e596d72f7a8c5609ad26c15c915c1f4cdfcb99cee9e89

/-- affine point (never infinity) -/
structure Affine where
  x : Felt
  y : Felt
  deriving DecidableEq, Repr

/-- Jacobian point; `z = 0` encodes the point at infinity -/
structure Jac where
  x : Felt
  y : Felt
  z : Felt
  deriving Repr

def shiftPoint : Affine :=
  ⟨Felt.ofNat 0x49ee3eba8c1600700ee1b87eb599f16716b0b1022947733551fde4050ca6804,
   Felt.ofNat 0x3ca0cfe4b3bc6ddf346d49d06ea0ed34e621062c0e056c1d0405d266e10268a⟩

def p0 : Affine :=
  ⟨Felt.ofNat 0x234287dcbaffe7f969c748655fca9e58fa8120b6d56eb0c1080d17957ebe47b,
   Felt.ofNat 0x3b056f100f96fb21e889527d41f4e39940135dd7a6c94cc6ed0268ee89e5615⟩

def p1 : Affine :=
  ⟨Felt.ofNat 0x4fa56f376c83db33f9dab2656558f3399099ec1de5e3018b7a6932dba8aa378,
   Felt.ofNat 0x3fa0984c931c9e38113e0c0e47e4401562761f92a7a23b45168f4e80ff5b54d⟩

def p2 : Affine :=
  ⟨Felt.ofNat 0x4ba4cc166be8dec764910f75b45f74b40c690c74709e90f3aa372f0bd2d6997,
   Felt.ofNat 0x40301cf5c1751f4b971e46c4ede85fcac5c59a5ce5ae7c48151f27b24b219c⟩

def p3 : Affine :=
  ⟨Felt.ofNat 0x54302dcb0e6cc1c6e44cca8f61a63bb2ca65048d53fb325d36ff12c49a58202,
   Felt.ofNat 0x1b77b3e37d13504b348046268d8ae25ce98ad783c25561a879dcc77e99c2426⟩

/-- curve membership of an affine point -/
def Affine.onCurve (p : Affine) : Bool :=
  p.y * p.y == p.x * p.x * p.x + alpha * p.x + beta

def Jac.infinity : Jac := ⟨1, 1, 0⟩

@[inline] def Jac.isInfinity (p : Jac) : Bool := p.z == 0

@[inline] def Jac.ofAffine (p : Affine) : Jac := ⟨p.x, p.y, 1⟩

/-- Jacobian doubling for general `α`:
    `S = 4XY²`, `M = 3X² + αZ⁴`, `X' = M² − 2S`, `Y' = M(S − X') − 8Y⁴`, `Z' = 2YZ`.
    Infinity (`Z = 0`) and 2-torsion (`Y = 0`) both map to `Z' = 0`. -/
def Jac.double (p : Jac) : Jac :=
  let yy := p.y * p.y
  let s := 4 * (p.x * yy)
  let zz := p.z * p.z
  let m := 3 * (p.x * p.x) + alpha * (zz * zz)
  let x' := m * m - (s + s)
  let y' := m * (s - x') - 8 * (yy * yy)
  let z' := (p.y + p.y) * p.z
  ⟨x', y', z'⟩

/-- Complete Jacobian addition:
    `U1 = X1·Z2²`, `U2 = X2·Z1²`, `S1 = Y1·Z2³`, `S2 = Y2·Z1³`, `H = U2 − U1`, `R = S2 − S1`,
    `X3 = R² − H³ − 2·U1·H²`, `Y3 = R(U1·H² − X3) − S1·H³`, `Z3 = H·Z1·Z2`;
    with the exceptional cases (either operand infinity, `P = Q`, `P = −Q`) handled explicitly. -/
def Jac.add (p q : Jac) : Jac :=
  if p.isInfinity then q
  else if q.isInfinity then p
  else
    let z1z1 := p.z * p.z
    let z2z2 := q.z * q.z
    let u1 := p.x * z2z2
    let u2 := q.x * z1z1
    let s1 := p.y * (q.z * z2z2)
    let s2 := q.y * (p.z * z1z1)
    let h := u2 - u1
    let r := s2 - s1
    if h == 0 then
      if r == 0 then p.double else Jac.infinity
    else
      let hh := h * h
      let hhh := h * hh
      let v := u1 * hh
      let x3 := r * r - hhh - (v + v)
      let y3 := r * (v - x3) - s1 * hhh
      let z3 := h * (p.z * q.z)
      ⟨x3, y3, z3⟩

/-- Mixed addition `p + q` with `q` affine (`Z2 = 1`); same result as `p.add (ofAffine q)`
    with fewer multiplications. -/
def Jac.addAffine (p : Jac) (q : Affine) : Jac :=
  if p.isInfinity then Jac.ofAffine q
  else
    let z1z1 := p.z * p.z
    let u2 := q.x * z1z1
    let s2 := q.y * (p.z * z1z1)
    let h := u2 - p.x
    let r := s2 - p.y
    if h == 0 then
      if r == 0 then p.double else Jac.infinity
    else
      let hh := h * h
      let hhh := h * hh
      let v := p.x * hh
      let x3 := r * r - hhh - (v + v)
      let y3 := r * (v - x3) - p.y * hhh
      let z3 := h * p.z
      ⟨x3, y3, z3⟩

/-- MSB-first double-and-add over the low `nbits` bits of `k`:
    `mulAux nbits k q acc = 2^nbits · acc + (k mod 2^nbits) · q`. -/
def mulAux : Nat → Nat → Affine → Jac → Jac
  | 0, _, _, acc => acc
  | i + 1, k, q, acc =>
    let acc := acc.double
    let acc := if k.testBit i then acc.addAffine q else acc
    mulAux i k q acc

/-- scalar multiplication `k·q` for `k < 2^nbits`; `0·q` is the point at infinity -/
def scalarMul (nbits : Nat) (k : Nat) (q : Affine) : Jac := mulAux nbits k q Jac.infinity

/-- Jacobian → affine with one inversion; `none` for the point at infinity -/
def Jac.toAffine? (p : Jac) : Option Affine :=
  if p.isInfinity then none
  else
    let zi := Felt.inv p.z
    let zi2 := zi * zi
    some ⟨p.x * zi2, p.y * (zi2 * zi)⟩

/-- The curve point whose x-coordinate is the Pedersen hash. -/
def hashPoint (x y : Felt) : Jac :=
  let lowMod := 2 ^ 248
  let acc := Jac.ofAffine shiftPoint
  let acc := acc.add (scalarMul 248 (x.val % lowMod) p0)
  let acc := acc.add (scalarMul 4 (x.val / lowMod) p1)
  let acc := acc.add (scalarMul 248 (y.val % lowMod) p2)
  let acc := acc.add (scalarMul 4 (y.val / lowMod) p3)
  acc

end Pedersen

/-- `starknet_crypto::pedersen_hash(&x, &y)`.
    If the accumulated point were the point at infinity the Rust would panic
    (`to_affine().unwrap()`); the model returns `0` in that (cryptographically unreachable)
    case. -/
def pedersenHash (x y : Felt) : Felt :=
  match (Pedersen.hashPoint x y).toAffine? with
  | some p => p.x
  | none => 0

end Swiftness
