/-
  The hash functions the verifier is parameterised by.  Theorems quantify over an arbitrary
  `Hashes`; the driver instantiates it with the executable models below, which are tied to the real
  crates by the correspondence check only (no theorem depends on them).
-/
import Swiftness.Model.Felt
import Swiftness.Model.Keccak
import Swiftness.Model.Blake2s
import Swiftness.Model.Poseidon
import Swiftness.Model.Pedersen

namespace Swiftness

structure Hashes where
  /-- `starknet_crypto::poseidon_hash` -/
  poseidon2 : Felt → Felt → Felt
  /-- `starknet_crypto::poseidon_hash_many` -/
  poseidonMany : List Felt → Felt
  /-- `starknet_crypto::pedersen_hash` -/
  pedersen : Felt → Felt → Felt
  /-- Keccak-256 or Blake2s-256 (cargo feature), 32-byte output -/
  h256 : List UInt8 → List UInt8
  /-- number of low-order digest bytes kept by the masked commitment hash: 20 (`_160_lsb`) or 31 (`_248_lsb`) -/
  maskBytes : Nat

namespace Hashes
def k160 : Hashes := ⟨poseidonHash, poseidonHashMany, pedersenHash, keccak256, 20⟩
def k248 : Hashes := ⟨poseidonHash, poseidonHashMany, pedersenHash, keccak256, 31⟩
def b160 : Hashes := ⟨poseidonHash, poseidonHashMany, pedersenHash, blake2s256, 20⟩
def b248 : Hashes := ⟨poseidonHash, poseidonHashMany, pedersenHash, blake2s256, 31⟩

def ofName? : String → Option Hashes
  | "k160" => some k160 | "k248" => some k248 | "b160" => some b160 | "b248" => some b248
  | _ => none

/-- masked commitment hash of a byte string: the low `maskBytes` bytes of the 32-byte digest,
    read big-endian (`Felt::from_bytes_be_slice(&digest[32 - maskBytes ..])`). -/
def masked (H : Hashes) (data : List UInt8) : Felt :=
  Felt.fromBytesBE ((H.h256 data).drop (32 - H.maskBytes))
end Hashes

end Swiftness
