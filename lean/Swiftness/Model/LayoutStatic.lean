/-
  Model of the six STATIC layouts' `LayoutTrait` implementations (`crates/air/src/layout/<L>/mod.rs`):
  `validate_public_input`, `verify_public_input`, `eval_composition_polynomial` (assembly of the
  global values around the translated inner evaluator), `eval_oods_polynomial`.

  One generic definition, instantiated by DATA that the translator reads out of the Rust on every
  run (`LayoutData`: constants, the builtin table of `validate_public_input`, the field lists of
  `GlobalValues` / `InteractionElements`, the two translated programs, the periodic-column
  coefficient lists).  The assembly of each global value is by field NAME (rules below); it is tied
  to the real code by the correspondence check on all six layouts.
-/
import Swiftness.Model.Stark
import Swiftness.Model.Ast
import Swiftness.Model.Diluted

namespace Swiftness

structure LayoutData where
  name : String
  consts : List (String × Nat)
  /-- (segment index, row ratio, memory cells per instance), source order -/
  builtins : List (Nat × Nat × Nat)
  gvFields : List String
  interactionFields : List String
  composition : Ast.Prog × Nat
  oods : Ast.Prog × Nat
  /-- periodic column name (`eval_<name>`) ↦ Horner coefficients, highest degree first -/
  periodic : List (String × List Nat)

namespace LayoutData

def const? (D : LayoutData) (n : String) : Option Nat := (D.consts.find? (·.1 == n)).map (·.2)
def constD (D : LayoutData) (n : String) : Nat := (D.const? n).getD 0

def U128_MAX : Nat := 2 ^ 128 - 1
def MAX_LOG_N_STEPS (D : LayoutData) : Nat := D.constD "PM_MAX_LOG_N_STEPS"
def MAX_RANGE_CHECK (D : LayoutData) : Nat := D.constD "PM_MAX_RANGE_CHECK"
def MAX_ADDRESS (D : LayoutData) : Nat := D.constD "PM_MAX_ADDRESS"
def INITIAL_PC (D : LayoutData) : Nat := D.constD "PM_INITIAL_PC"

def seg? (pi : PublicInput) (i : Nat) : Option SegmentInfo := pi.segments[i]?

/-- one builtin's `uses <= copies` check -/
def builtinOK (pi : PublicInput) (traceLength : Felt) : Nat × Nat × Nat → Outcome Unit
  | (segIdx, ratio, cells) =>
    match seg? pi segIdx with
    | none => .err "SegmentMissing"
    | some s =>
      let copies := traceLength * Felt.inv (Felt.ofNat ratio)
      let diff := s.stopPtr - s.beginAddr
      let uses := if cells = 1 then diff else diff * Felt.inv (Felt.ofNat cells)
      -- `copies <= u128::MAX`: a row ratio that does not divide the trace length gives a huge field quotient
      if ¬ (copies.val ≤ U128_MAX) then .err "UsesInvalid"
      else if uses.val ≤ copies.val then .ok () else .err "UsesInvalid"

def builtinsOK (pi : PublicInput) (traceLength : Felt) : List (Nat × Nat × Nat) → Outcome Unit
  | [] => .ok ()
  | b :: bs =>
    match builtinOK pi traceLength b with
    | .ok () => builtinsOK pi traceLength bs
    | o => o

/-- `validate_public_input` -/
def validatePublicInput (D : LayoutData) (pi : PublicInput) (d : StarkDomains) : Outcome Unit :=
  if ¬ (pi.logNSteps.val < D.MAX_LOG_N_STEPS) then .err "MaxSteps" else
  let nSteps := Felt.pow 2 pi.logNSteps.val
  let traceLength := d.traceDomainSize
  if nSteps * Felt.ofNat (D.constD "CPU_COMPONENT_HEIGHT") * Felt.ofNat (D.constD "CPU_COMPONENT_STEP") ≠ traceLength then
    .err "TraceLengthInvalid" else
  if pi.segments.length ≠ D.constD "SEG_N_SEGMENTS" then .err "InvalidSegments" else
  if ¬ (pi.rangeCheckMin.val < pi.rangeCheckMax.val) then .err "RangeCheckInvalid" else
  if ¬ (pi.rangeCheckMax.val ≤ D.MAX_RANGE_CHECK) then .err "RangeCheckInvalid" else
  if pi.layout ≠ Felt.ofNat (D.constD "LAYOUT_CODE") then .err "LayoutCodeInvalid" else
  match seg? pi (D.constD "SEG_OUTPUT") with
  | none => .err "SegmentMissing"
  | some out =>
    if ¬ ((out.stopPtr - out.beginAddr).val ≤ U128_MAX) then .err "UsesInvalid"
    else builtinsOK pi traceLength D.builtins

/-- Pedersen chain `H(…H(H(0, v₀), v₁)…, n)` -/
def hashChain (H : Hashes) (vals : List Felt) : Felt :=
  H.pedersen (vals.foldl (fun acc v => H.pedersen acc v) 0) (Felt.ofNat vals.length)

/-- cells `i = 0 … n-1` of `cells` are at addresses `start + i` -/
def addressesFrom (start : Felt) : List AddrValue → Nat → Bool
  | [], _ => true
  | c :: cs, i => c.address == start + Felt.ofNat i && addressesFrom start cs (i + 1)

/-- `verify_public_input` -/
def verifyPublicInput (D : LayoutData) (H : Hashes) (pi : PublicInput) : Outcome (Felt × Felt) :=
  match seg? pi (D.constD "SEG_PROGRAM"), seg? pi (D.constD "SEG_EXECUTION"), seg? pi (D.constD "SEG_OUTPUT") with
  | some prog, some exec, some out =>
    let initialPc := prog.beginAddr
    let finalPc := prog.stopPtr
    let initialAp := exec.beginAddr
    let finalAp := exec.stopPtr
    if ¬ (initialAp.val < D.MAX_ADDRESS) then .err "MaxSteps" else
    if ¬ (finalAp.val < D.MAX_ADDRESS) then .err "MaxSteps" else
    if ¬ pi.continuousPageHeaders.isEmpty then .err "MaxSteps" else
    if initialPc ≠ Felt.ofNat D.INITIAL_PC then .err "MaxSteps" else
    if finalPc ≠ Felt.ofNat D.INITIAL_PC + 4 then .err "MaxSteps" else
    let programEndPc := initialAp - 2
    let programLen := (programEndPc - initialPc).val
    let outputLen := (out.stopPtr - out.beginAddr).val
    if programLen ≥ 2 ^ 64 then .err "TryFromBigInt" else
    if outputLen ≥ 2 ^ 64 then .err "TryFromBigInt" else
    if ¬ (programLen + outputLen < 2 ^ 64 ∧ programLen + outputLen ≤ pi.mainPage.length) then .err "MainPageInvalid" else
    let programCells := pi.mainPage.take programLen
    let outputCells := pi.mainPage.drop (pi.mainPage.length - outputLen)
    if ¬ (addressesFrom initialPc programCells 0 && addressesFrom out.beginAddr outputCells 0) then .err "MainPageInvalid" else
    .ok (hashChain H (programCells.map (·.value)), hashChain H (outputCells.map (·.value)))
  | _, _, _ => .err "SegmentMissing"

/-- `eval_<name>(point)`: Horner chain -/
def evalPeriodic (D : LayoutData) (name : String) (point : Felt) : Option Felt :=
  (D.periodic.find? (·.1 == name)).map fun (_, cs) => cs.foldl (fun r c => r * point + Felt.ofNat c) 0

/-- `n_steps / divisor` (field division), required to be `< u128::MAX` -/
def copies (nSteps : Felt) (divisor : Nat) : Option Felt :=
  let c := nSteps * Felt.inv (Felt.ofNat divisor)
  if c.val < U128_MAX then some c else none

structure CompCtx where
  pi : PublicInput
  interaction : List Felt
  point : Felt
  traceDomainSize : Felt
  memoryRatio : Felt
  dilutedProd : Felt

def interaction? (D : LayoutData) (c : CompCtx) (n : String) : Option Felt :=
  match D.interactionFields.idxOf? n with
  | some i => c.interaction[i]?
  | none => none

def periodicAt (D : LayoutData) (c : CompCtx) (fn : String) (divisor : Nat) (mult : Nat) : Option Felt := do
  let nSteps := Felt.pow 2 c.pi.logNSteps.val
  let n ← copies nSteps divisor
  evalPeriodic D fn (Felt.pow c.point (Felt.ofNat mult * n).val)

/-- value of the global-values field `n` (rules by field name) -/
def gvValue (D : LayoutData) (c : CompCtx) (n : String) : Option Felt :=
  let segBegin (s : String) : Option Felt := (D.const? s).bind fun i => (seg? c.pi i).map (·.beginAddr)
  let segStop (s : String) : Option Felt := (D.const? s).bind fun i => (seg? c.pi i).map (·.stopPtr)
  let k (s : String) : Option Felt := (D.const? s).map Felt.ofNat
  let pedDiv := D.constD "PEDERSEN_BUILTIN_RATIO" * D.constD "PEDERSEN_BUILTIN_REPETITIONS"
  let ecdsaDiv := D.constD "ECDSA_BUILTIN_RATIO" * D.constD "ECDSA_BUILTIN_REPETITIONS"
  let keccakDiv := D.constD "DILUTED_N_BITS" * D.constD "KECCAK_RATIO"
  let posDiv := D.constD "POSEIDON_RATIO"
  match n with
  | "trace_length" => some c.traceDomainSize
  | "initial_pc" => segBegin "SEG_PROGRAM"
  | "final_pc" => segStop "SEG_PROGRAM"
  | "initial_ap" => segBegin "SEG_EXECUTION"
  | "final_ap" => segStop "SEG_EXECUTION"
  | "initial_pedersen_addr" => segBegin "SEG_PEDERSEN"
  | "initial_range_check_addr" => segBegin "SEG_RANGE_CHECK"
  | "initial_ecdsa_addr" => segBegin "SEG_ECDSA"
  | "initial_bitwise_addr" => segBegin "SEG_BITWISE"
  | "initial_ec_op_addr" => segBegin "SEG_EC_OP"
  | "initial_keccak_addr" => segBegin "SEG_KECCAK"
  | "initial_poseidon_addr" => segBegin "SEG_POSEIDON"
  | "range_check_min" => some c.pi.rangeCheckMin
  | "range_check_max" => some c.pi.rangeCheckMax
  | "offset_size" => some (Felt.ofNat 65536)
  | "half_offset_size" => some (Felt.ofNat 32768)
  | "pedersen_shift_point.x" => k "SHIFT_POINT_X"
  | "pedersen_shift_point.y" => k "SHIFT_POINT_Y"
  | "ecdsa_sig_config.alpha" => k "STARK_CURVE_ALPHA"
  | "ecdsa_sig_config.beta" => k "STARK_CURVE_BETA"
  | "ecdsa_sig_config.shift_point.x" => k "SHIFT_POINT_X"
  | "ecdsa_sig_config.shift_point.y" => k "SHIFT_POINT_Y"
  | "ec_op_curve_config.alpha" => k "STARK_CURVE_ALPHA"
  | "ec_op_curve_config.beta" => k "STARK_CURVE_BETA"
  | "pedersen_points_x" => periodicAt D c "eval_pedersen_x" pedDiv 1
  | "pedersen_points_y" => periodicAt D c "eval_pedersen_y" pedDiv 1
  | "ecdsa_generator_points_x" => periodicAt D c "eval_ecdsa_x" ecdsaDiv 1
  | "ecdsa_generator_points_y" => periodicAt D c "eval_ecdsa_y" ecdsaDiv 1
  | "keccak_keccak_keccak_round_key0" => periodicAt D c "eval_keccak_round_key0" keccakDiv 2048
  | "keccak_keccak_keccak_round_key1" => periodicAt D c "eval_keccak_round_key1" keccakDiv 2048
  | "keccak_keccak_keccak_round_key3" => periodicAt D c "eval_keccak_round_key3" keccakDiv 2048
  | "keccak_keccak_keccak_round_key7" => periodicAt D c "eval_keccak_round_key7" keccakDiv 2048
  | "keccak_keccak_keccak_round_key15" => periodicAt D c "eval_keccak_round_key15" keccakDiv 2048
  | "keccak_keccak_keccak_round_key31" => periodicAt D c "eval_keccak_round_key31" keccakDiv 2048
  | "keccak_keccak_keccak_round_key63" => periodicAt D c "eval_keccak_round_key63" keccakDiv 2048
  | "poseidon_poseidon_full_round_key0" => periodicAt D c "eval_poseidon_poseidon_full_round_key0" posDiv 1
  | "poseidon_poseidon_full_round_key1" => periodicAt D c "eval_poseidon_poseidon_full_round_key1" posDiv 1
  | "poseidon_poseidon_full_round_key2" => periodicAt D c "eval_poseidon_poseidon_full_round_key2" posDiv 1
  | "poseidon_poseidon_partial_round_key0" => periodicAt D c "eval_poseidon_poseidon_partial_round_key0" posDiv 1
  | "poseidon_poseidon_partial_round_key1" => periodicAt D c "eval_poseidon_poseidon_partial_round_key1" posDiv 1
  | "memory_multi_column_perm_perm_public_memory_prod" => some c.memoryRatio
  | "range_check16_perm_public_memory_prod" => some 1
  | "diluted_check_first_elm" => some 0
  | "diluted_check_permutation_public_memory_prod" => some 1
  | "diluted_check_final_cum_val" => some c.dilutedProd
  | other => interaction? D c other

/-- `eval_composition_polynomial` -/
def evalComposition (D : LayoutData) (interaction : List Felt) (pi : PublicInput) (mask coeffs : List Felt)
    (point traceDomainSize traceGenerator : Felt) : Outcome Felt :=
  if interaction.length ≠ D.interactionFields.length then .panic "layout:interaction_elements" else
  let ie (n : String) : Felt := ((D.interactionFields.idxOf? n).bind (interaction[·]?)).getD 0
  let z := ie "memory_multi_column_perm_perm_interaction_elm"
  let alpha := ie "memory_multi_column_perm_hash_interaction_elm0"
  let colSize := traceDomainSize * Felt.inv (Felt.ofNat (D.constD "PUBLIC_MEMORY_STEP"))
  if ¬ (colSize.val < U128_MAX) then .err "ValueOutOfRange" else
  match pi.publicMemoryProductRatio z alpha colSize with
  | .err _ => .err "ValueOutOfRange"
  | .panic s => .panic s
  | .ok ratio =>
    let diluted :=
      if D.interactionFields.contains "diluted_check_interaction_z" then
        Diluted.getDilutedProduct (Felt.ofNat (D.constD "DILUTED_N_BITS")) (Felt.ofNat (D.constD "DILUTED_SPACING"))
          (ie "diluted_check_interaction_z") (ie "diluted_check_interaction_alpha")
      else 0
    let ctx : CompCtx := ⟨pi, interaction, point, traceDomainSize, ratio, diluted⟩
    match D.gvFields.mapM (gvValue D ctx) with
    | none => .err "CompositionPolyEvalError"
    | some gv =>
      Ast.evalProg { mask := mask.toArray, coeff := coeffs.toArray, gv := gv.toArray, point := point, tgen := traceGenerator }
        D.composition.1 D.composition.2

/-- `eval_oods_polynomial` -/
def evalOods (D : LayoutData) (_pi : PublicInput) (cols oods coeffs : List Felt) (point oodsPoint traceGenerator : Felt) :
    Outcome Felt :=
  Ast.evalProg { col := cols.toArray, oodsv := oods.toArray, coeff := coeffs.toArray, point := point,
                 oodsPoint := oodsPoint, tgen := traceGenerator } D.oods.1 D.oods.2

/-- the `LayoutOps` of a static layout -/
def ops (D : LayoutData) (H : Hashes) : LayoutOps where
  nInteractionElements := D.interactionFields.length
  nConstraints := D.constD "N_CONSTRAINTS"
  maskSize := D.constD "MASK_SIZE"
  constraintDegree := D.constD "CONSTRAINT_DEGREE"
  numColumnsFirst := fun _ => some (D.constD "NUM_COLUMNS_FIRST")
  numColumnsSecond := fun _ => some (D.constD "NUM_COLUMNS_SECOND")
  evalComposition := evalComposition D
  evalOods := evalOods D
  validatePublicInput := validatePublicInput D
  verifyPublicInput := verifyPublicInput D H

end LayoutData
end Swiftness
