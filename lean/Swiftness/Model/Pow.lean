/- Model of `crates/pow/src/{pow,config}.rs`. -/
import Swiftness.Model.Transcript
import Swiftness.Model.Outcome
import Swiftness.Generated.Consts

namespace Swiftness.Pow

def MAGIC : Nat := Gen.Pow.MAGIC
def MIN_BITS : Nat := Gen.PowConfig.MIN_PROOF_OF_WORK_BITS
def MAX_BITS : Nat := Gen.PowConfig.MAX_PROOF_OF_WORK_BITS

/-- 8-byte big-endian (`u64::to_be_bytes`) -/
def be64 (n : Nat) : List UInt8 := Felt.natToBytesBE 8 n

/-- the 41-byte first preimage `MAGIC ‖ digest ‖ n_bits` -/
def initData (digest : List UInt8) (nBits : Nat) : List UInt8 :=
  be64 MAGIC ++ digest ++ [UInt8.ofNat nBits]

/-- the final 32-byte hash `H(H(init) ‖ nonce)` -/
def finalHash (H : Hashes) (digest : List UInt8) (nBits nonce : Nat) : List UInt8 :=
  H.h256 (H.h256 (initData digest nBits) ++ be64 nonce)

/-- `verify_pow(digest: [u8;32], n_bits: u8, nonce: u64)`; `128 - n_bits` is checked `u8` arithmetic. -/
def verifyPow (H : Hashes) (digest : List UInt8) (nBits nonce : Nat) : Outcome Unit :=
  let final := finalHash H digest nBits nonce
  if nBits > 128 then .panic "pow.rs:verify_pow:sub_overflow"
  else if (Felt.fromBytesBE (final.take 16)).val < (Felt.pow 2 (128 - nBits)).val then .ok ()
  else .err "ProofOfWorkFail"

/-- `Config::validate` (`n_bits : u8`) -/
def configValidate (nBits : Nat) : Outcome Unit :=
  if nBits < MIN_BITS ∨ nBits > MAX_BITS then .err "OutOfBounds" else .ok ()

/-- `UnsentCommitment::commit`: check, then absorb the nonce. -/
def commit (H : Hashes) (t : Transcript) (nBits nonce : Nat) : Outcome Transcript :=
  match verifyPow H t.digest.toBytesBE nBits nonce with
  | .ok () => .ok (t.readU64 H nonce)
  | .err e => .err e
  | .panic s => .panic s

end Swiftness.Pow
