/-
  Reflective syntactic checker for translated programs (property C16): `checkLinear p A res = true`
  implies the program's result is a linear function of the coefficient vector (`Proofs/AstLinear`).
  `A` is a bitmask of the accumulator slots (every slot the Rust binds to `total_sum` / the result);
  it is emitted by the translator and *checked* here, not trusted.
-/
import Swiftness.Model.Ast

namespace Swiftness.Ast

/-- no `constraint_coefficients[..]` leaf -/
def Expr.coeffFree : Expr → Bool
  | .coeff _ => false
  | .add a b | .sub a b | .mul a b | .fdiv a b | .floorDiv a b | .powFelt a b => a.coeffFree && b.coeffFree
  | .neg a => a.coeffFree
  | _ => true

/-- reads no slot of the bitmask `A` -/
def Expr.avoids (A : Nat) : Expr → Bool
  | .var s => !A.testBit s
  | .add a b | .sub a b | .mul a b | .fdiv a b | .floorDiv a b | .powFelt a b => a.avoids A && b.avoids A
  | .neg a => a.avoids A
  | _ => true

def GStmt.linearOK (A : Nat) (g : GStmt) : Bool :=
  g.guards.all (fun s => !A.testBit s) &&
  match g.stmt with
  | .acc dst src _ e => A.testBit dst && A.testBit src && e.coeffFree && e.avoids A
  | .set s e =>
    if A.testBit s then
      match e with
      | .var a => A.testBit a
      | .const n => n == 0
      | _ => false
    else e.coeffFree && e.avoids A

/-- the syntactic linearity check -/
def checkLinear (p : Prog) (A : Nat) (res : Nat) : Bool :=
  A.testBit res && p.all (GStmt.linearOK A)

/-- coefficient indices used by the `acc` statements, in program order -/
def accIndices : Prog → List Nat
  | [] => []
  | ⟨_, .acc _ _ i _⟩ :: rest => i :: accIndices rest
  | _ :: rest => accIndices rest

/-- `l` is exactly `0, 1, …, n-1` in this order -/
def isRange (l : List Nat) (n : Nat) : Bool := l == List.range n

/-- insertion sort (small lists; used only under `decide`) -/
def insertNat (x : Nat) : List Nat → List Nat
  | [] => [x]
  | y :: ys => if x ≤ y then x :: y :: ys else y :: insertNat x ys
def sortNat : List Nat → List Nat
  | [] => []
  | x :: xs => insertNat x (sortNat xs)

/-- every coefficient position `0 … n-1` is used by exactly one `acc` statement -/
def checkCoverage (p : Prog) (n : Nat) : Bool := isRange (sortNat (accIndices p)) n

/-- the guards (component switches) under which coefficient `i` is accumulated -/
def accGuards : Prog → List (Nat × List Nat)
  | [] => []
  | ⟨g, .acc _ _ i _⟩ :: rest => (i, g) :: accGuards rest
  | _ :: rest => accGuards rest

end Swiftness.Ast
