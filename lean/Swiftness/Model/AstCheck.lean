/-
  Reflective syntactic checker for translated programs (property C16): `checkLinear p A res = true`
  implies the program's result is a linear function of the coefficient vector (`Proofs/AstLinear`).
  `A` is a bitmask of the accumulator slots (every slot the Rust binds to `total_sum` / the result);
  it is emitted by the translator and *checked* here, not trusted.
-/
import Swiftness.Model.Ast

namespace Swiftness.Ast

/-- no `constraint_coefficients[..]` leaf -/
def Expr.coeffFree : Expr → Bool
  | .coeff _ => false
  | .add a b | .sub a b | .mul a b | .fdiv a b | .floorDiv a b | .powFelt a b => a.coeffFree && b.coeffFree
  | .neg a => a.coeffFree
  | _ => true

/-- reads no slot of the bitmask `A` -/
def Expr.avoids (A : Nat) : Expr → Bool
  | .var s => !A.testBit s
  | .add a b | .sub a b | .mul a b | .fdiv a b | .floorDiv a b | .powFelt a b => a.avoids A && b.avoids A
  | .neg a => a.avoids A
  | _ => true

def GStmt.linearOK (A : Nat) (g : GStmt) : Bool :=
  g.guards.all (fun s => !A.testBit s) &&
  match g.stmt with
  | .acc dst src _ e => A.testBit dst && A.testBit src && e.coeffFree && e.avoids A
  | .set s e =>
    if A.testBit s then
      match e with
      | .var a => A.testBit a
      | .const n => n == 0
      | _ => false
    else e.coeffFree && e.avoids A

/-- the syntactic linearity check -/
def checkLinear (p : Prog) (A : Nat) (res : Nat) : Bool :=
  A.testBit res && p.all (GStmt.linearOK A)

/-- coefficient indices used by the `acc` statements, in program order -/
def accIndices : Prog → List Nat
  | [] => []
  | ⟨_, .acc _ _ i _⟩ :: rest => i :: accIndices rest
  | _ :: rest => accIndices rest

/-- `l` is exactly `0, 1, …, n-1` in this order -/
def isRange (l : List Nat) (n : Nat) : Bool := l == List.range n

/-- insertion sort (small lists; used only under `decide`) -/
def insertNat (x : Nat) : List Nat → List Nat
  | [] => [x]
  | y :: ys => if x ≤ y then x :: y :: ys else y :: insertNat x ys
def sortNat : List Nat → List Nat
  | [] => []
  | x :: xs => insertNat x (sortNat xs)

/-- every coefficient position `0 … n-1` is used by exactly one `acc` statement -/
def checkCoverage (p : Prog) (n : Nat) : Bool := isRange (sortNat (accIndices p)) n

/-- the guards (component switches) under which coefficient `i` is accumulated -/
def accGuards : Prog → List (Nat × List Nat)
  | [] => []
  | ⟨g, .acc _ _ i _⟩ :: rest => (i, g) :: accGuards rest
  | _ :: rest => accGuards rest

/-! ### accumulator threading (C16: "no term is dropped")

  `checkLinear` + `checkCoverage` do not exclude that an accumulate statement adds to a STALE
  total (its contribution is then lost).  `checkChain` checks that the running total is threaded
  linearly through all accumulate statements, following the two shapes the translator emits:

    unconditional   `acc d cur i e`                                   (`cur := d`)
    conditional     `set d (var cur)`                                  -- else-value: copy of the total
                    `[g] acc d1 cur i e; [g] acc d2 d1 …; [g] acc d dn …`   (`cur := d`)
-/

inductive ChainState where
  /-- no running total yet -/
  | init
  /-- running total in slot `cur` -/
  | top (cur : Nat)
  /-- `d` has just been made a copy of the running total `cur` (else-value of a conditional) -/
  | els (cur d : Nat)
  /-- inside the block guarded by `g`: else-value in `d`, the block's running total in `k` -/
  | blk (g d k : Nat)
  deriving Repr, DecidableEq, Inhabited

/-- one statement (`gs` = its guards).  Assignments to non-accumulator slots are transparent, except
    that a block's guard must not be reassigned inside the block. -/
def chainStep (A : Nat) (σ : ChainState) (gs : List Nat) : Stmt → Option ChainState
  | .set x e =>
    if A.testBit x then
      match σ, gs, e with
      | .init, [], .const n => if n = 0 then some (.top x) else none
      | .top cur, [], .var s => if s = cur then some (.els cur x) else none
      | .blk _ d k, [], .var s => if k = d ∧ s = d then some (.els d x) else none
      | _, _, _ => none
    else
      match σ with
      | .blk g _ _ => if x = g then none else some σ
      | _ => some σ
  | .acc dst src _ _ =>
    match σ, gs with
    | .top cur, [] => if src = cur then some (.top dst) else none
    | .els cur d, [g] => if src = cur then some (.blk g d dst) else none
    | .blk g d k, [g'] => if g' = g ∧ src = k then some (.blk g d dst) else none
    | .blk _ d k, [] => if k = d ∧ src = d then some (.top dst) else none
    | _, _ => none

/-- streaming form -/
def chainFrom (A : Nat) : Prog → ChainState → Option ChainState
  | [], σ => some σ
  | g :: rest, σ =>
    match chainStep A σ g.guards g.stmt with
    | some σ' => chainFrom A rest σ'
    | none => none

def chainEnd (res : Nat) : ChainState → Bool
  | .top cur => cur == res
  | .blk _ d k => k == d && d == res
  | _ => false

/-- the accumulator is threaded linearly from `set _ (const 0)` to the result slot -/
def checkChain (p : Prog) (A : Nat) (res : Nat) : Bool :=
  match chainFrom A p .init with
  | some σ => chainEnd res σ
  | none => false

/-! ### guards are component switches (C16, dynamic layout)

  `flagsFrom` checks that every guard slot used by a statement has been loaded BEFORE, by an
  unconditional `g := felt!(dynamic_params.<field j>)`, and that no loaded flag slot is ever
  written again; it returns the list of `(slot, j)`.  -/

/-- the slot a statement writes -/
def Stmt.dst : Stmt → Nat
  | .set x _ => x
  | .acc d _ _ _ => d

structure FlagState where
  /-- bitmask of the slots in `loads` -/
  mask : Nat
  /-- `(slot, dynamic-parameter index)` of the unconditional parameter loads so far, latest first -/
  loads : List (Nat × Nat)
  deriving Repr, DecidableEq, Inhabited

def flagStep (σ : FlagState) (gs : List Nat) (s : Stmt) : Option FlagState :=
  if gs.all (fun g => σ.mask.testBit g) && !σ.mask.testBit s.dst then
    match gs, s with
    | [], .set x (.dp j) => some ⟨σ.mask ||| (1 <<< x), (x, j) :: σ.loads⟩
    | _, _ => some σ
  else none

def flagsFrom : Prog → FlagState → Option FlagState
  | [], σ => some σ
  | g :: rest, σ =>
    match flagStep σ g.guards g.stmt with
    | some σ' => flagsFrom rest σ'
    | none => none

/-- `(slot, dynamic-parameter index)` of every parameter load, if the flag discipline holds -/
def flagMap (p : Prog) : Option (List (Nat × Nat)) :=
  (flagsFrom p ⟨0, []⟩).map (·.loads)

/-! ### no stale reads (C16, dynamic layout)

  A statement executed under the guard `g` must not read a (non-accumulator) slot whose most
  recent assignment in program order is conditional on a DIFFERENT switch (or, for an unguarded
  reader, on any switch): that assignment may have been skipped and the slot would still hold an
  older (default) value.  `checkScope` is a single left-to-right pass enforcing the slightly
  stronger rule "the slot has been written, and EVERY earlier write of it is unguarded or under the
  reader's own guard" (in the generated programs no slot is ever written under two different
  guards, so nothing is lost, and no per-slot history has to be overwritten — which is what makes
  the pass cheap in the kernel).  State: bitmask `wr` of the slots written so far, bitmask `gd` of
  the slots with at least one guarded write, and per guard `g` the bitmask of the slots written
  under `g`.  Reads of accumulator slots are governed by `checkChain` and skipped here; guard lists
  of length ≥ 2 are rejected. -/

/-- the local slots an expression reads -/
def Expr.vars : Expr → List Nat
  | .var s => [s]
  | .add a b | .sub a b | .mul a b | .fdiv a b | .floorDiv a b | .powFelt a b => a.vars ++ b.vars
  | .neg a => a.vars
  | _ => []

/-- `f` holds for every slot the expression reads (`= e.vars.all f`, without building the list) -/
def Expr.allVars (f : Nat → Bool) : Expr → Bool
  | .var s => f s
  | .add a b | .sub a b | .mul a b | .fdiv a b | .floorDiv a b | .powFelt a b =>
    a.allVars f && b.allVars f
  | .neg a => a.allVars f
  | _ => true

/-- the slots a statement reads, not counting the accumulator source of `acc` -/
def Stmt.reads : Stmt → List Nat
  | .set _ e => e.vars
  | .acc _ _ _ e => e.vars

def Stmt.allReads (f : Nat → Bool) : Stmt → Bool
  | .set _ e => e.allVars f
  | .acc _ _ _ e => e.allVars f

structure ScopeState where
  /-- slots written so far -/
  wr : Nat
  /-- slots with at least one guarded write -/
  gd : Nat
  /-- guard slot ↦ bitmask of the slots written under that guard -/
  byGuard : List (Nat × Nat)
  deriving Repr, DecidableEq, Inhabited

def guardMask : List (Nat × Nat) → Nat → Nat
  | [], _ => 0
  | (k, m) :: rest, g => if k = g then m else guardMask rest g

def guardMaskSet : List (Nat × Nat) → Nat → Nat → List (Nat × Nat)
  | [], g, x => [(g, 1 <<< x)]
  | (k, m) :: rest, g, x =>
    if k = g then (k, m ||| (1 <<< x)) :: rest else (k, m) :: guardMaskSet rest g x

/-- one statement.  Accumulator slots (`A`) count as always readable (the initial `wr` is `A`) and
    writes to them are not recorded. -/
def scopeStep (A : Nat) (σ : ScopeState) (gs : List Nat) (s : Stmt) : Option ScopeState :=
  match gs with
  | [] =>
    if s.allReads (fun v => σ.wr.testBit v && !σ.gd.testBit v) then
      if A.testBit s.dst then some σ
      else some ⟨σ.wr ||| (1 <<< s.dst), σ.gd, σ.byGuard⟩
    else none
  | [g] =>
    if s.allReads (fun v =>
        σ.wr.testBit v && (!σ.gd.testBit v || (guardMask σ.byGuard g).testBit v)) then
      if A.testBit s.dst then some σ
      else if !σ.gd.testBit s.dst || (guardMask σ.byGuard g).testBit s.dst then
        some ⟨σ.wr ||| (1 <<< s.dst), σ.gd ||| (1 <<< s.dst), guardMaskSet σ.byGuard g s.dst⟩
      else none
    else none
  | _ => none

def scopeFrom (A : Nat) : Prog → ScopeState → Option ScopeState
  | [], σ => some σ
  | g :: rest, σ =>
    match scopeStep A σ g.guards g.stmt with
    | some σ' => scopeFrom A rest σ'
    | none => none

/-- every read of a non-accumulator slot sees only writes that are at least as unconditional as
    the reading statement -/
def checkScope (p : Prog) (A : Nat) : Bool := (scopeFrom A p ⟨A, 0, []⟩).isSome

/-- `scopeFrom` with the state unpacked into arguments (same function, `Proofs/AstScope.lean`;
    cheaper to evaluate in the kernel) -/
def scopeGo (A : Nat) : Prog → Nat → Nat → List (Nat × Nat) → Option ScopeState
  | [], wr, gd, bg => some ⟨wr, gd, bg⟩
  | g :: rest, wr, gd, bg =>
    match g.guards with
    | [] =>
      if g.stmt.allReads (fun v => wr.testBit v && !gd.testBit v) then
        if A.testBit g.stmt.dst then scopeGo A rest wr gd bg
        else scopeGo A rest (wr ||| (1 <<< g.stmt.dst)) gd bg
      else none
    | [k] =>
      if g.stmt.allReads (fun v =>
          wr.testBit v && (!gd.testBit v || (guardMask bg k).testBit v)) then
        if A.testBit g.stmt.dst then scopeGo A rest wr gd bg
        else if !gd.testBit g.stmt.dst || (guardMask bg k).testBit g.stmt.dst then
          scopeGo A rest (wr ||| (1 <<< g.stmt.dst)) (gd ||| (1 <<< g.stmt.dst))
            (guardMaskSet bg k g.stmt.dst)
        else none
      else none
    | _ => none

end Swiftness.Ast
