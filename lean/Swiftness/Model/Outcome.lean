/-
  Outcome of a modelled Rust function: `Ok`, `Err` (every `?` / `ensure!`), or a panic
  (`unwrap`, `assert!`, indexing, checked-arithmetic overflow) tagged with its site.
  The correspondence check compares the class only (`ok v` / `err` / `panic`), never the variant.
-/
namespace Swiftness

inductive Outcome (α : Type) where
  | ok (a : α)
  | err (e : String)
  | panic (site : String)
  deriving Repr, DecidableEq

namespace Outcome

@[inline] def bind {α β} (x : Outcome α) (f : α → Outcome β) : Outcome β :=
  match x with
  | ok a => f a
  | err e => err e
  | panic s => panic s

instance : Monad Outcome where
  pure := ok
  bind := bind

def isOk {α} : Outcome α → Bool
  | ok _ => true
  | _ => false

def isPanic {α} : Outcome α → Bool
  | panic _ => true
  | _ => false

def ensure (c : Bool) (e : String) : Outcome Unit := if c then ok () else err e

/-- class string for the line protocol -/
def cls {α} (show_ : α → String) : Outcome α → String
  | ok a => "ok " ++ show_ a
  | err _ => "err"
  | panic s => "panic " ++ s

end Outcome
end Swiftness
