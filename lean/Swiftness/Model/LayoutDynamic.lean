/-
  Model of the DYNAMIC layout's `LayoutTrait` implementation (`crates/air/src/layout/dynamic/mod.rs`):
  `get_num_columns_*`, `validate_public_input` (builtin usage checks with prover-declared row ratios, the
  three unit-budget inequalities, then the translated `check_asserts`), `verify_public_input` (the same code
  as the static layouts), `eval_composition_polynomial` (global values around the translated inner
  evaluator; periodic columns only for the builtins the dynamic parameters switch on), `eval_oods_polynomial`.

  Hand-written against the Rust, tied to it by the correspondence check (validate_pi / eval_comp / verify on
  the dynamic layout); the assertion list, the two programs, constants, field lists and the dynamic-parameter
  order are TRANSLATED data (`DynData`).
-/
import Swiftness.Model.LayoutStatic
import Swiftness.Model.DynAsserts

namespace Swiftness

structure DynData where
  base : LayoutData
  /-- `impl From<DynamicParams> for Vec<usize>` order -/
  dpFields : List String
  usizeMax : Nat
  asserts : List DynAsserts.Assert

namespace DynData
open LayoutData

def dpIdx (D : DynData) (n : String) : Nat := (D.dpFields.idxOf? n).getD D.dpFields.length
/-- `dynamic_params.<n>` (a `usize`) -/
def dpv (D : DynData) (dp : Array Nat) (n : String) : Nat := dp.getD (D.dpIdx n) 0
/-- `felt!(dynamic_params.<n>)` -/
def dpf (D : DynData) (dp : Array Nat) (n : String) : Felt := Felt.ofNat (D.dpv dp n)

/-- (builtin switch, row-ratio parameter, segment constant, memory cells per instance), source order of
    `validate_public_input` -/
def builtinTable : List (String × String × String × Nat) := [
  ("uses_pedersen_builtin", "pedersen_builtin_row_ratio", "SEG_PEDERSEN", 3),
  ("uses_range_check_builtin", "range_check_builtin_row_ratio", "SEG_RANGE_CHECK", 1),
  ("uses_ecdsa_builtin", "ecdsa_builtin_row_ratio", "SEG_ECDSA", 2),
  ("uses_bitwise_builtin", "bitwise_row_ratio", "SEG_BITWISE", 5),
  ("uses_ec_op_builtin", "ec_op_builtin_row_ratio", "SEG_EC_OP", 7),
  ("uses_keccak_builtin", "keccak_row_ratio", "SEG_KECCAK", 16),
  ("uses_poseidon_builtin", "poseidon_row_ratio", "SEG_POSEIDON", 6),
  ("uses_range_check96_builtin", "range_check96_builtin_row_ratio", "SEG_RANGE_CHECK96", 1),
  ("uses_add_mod_builtin", "add_mod_row_ratio", "SEG_ADD_MOD", 7),
  ("uses_mul_mod_builtin", "mul_mod_row_ratio", "SEG_MUL_MOD", 7)]

/-- `trace_length.field_div(&felt_try_nonzero!(felt!(ratio))?)` -/
def fieldDivTry (t : Felt) (ratio : Felt) : Outcome Felt :=
  if ratio = 0 then .err "FeltIsZero" else .ok (t * Felt.inv ratio)

/-- `X_copies`: 0 when the builtin is switched off -/
def copiesOf (D : DynData) (dp : Array Nat) (t : Felt) (uses ratio : String) : Outcome Felt :=
  if D.dpv dp uses = 0 then .ok 0 else fieldDivTry t (D.dpf dp ratio)

/-- one builtin: computes `copies`, checks `uses <= copies`, returns `copies` -/
def builtinCopies (D : DynData) (pi : PublicInput) (dp : Array Nat) (t : Felt) :
    String × String × String × Nat → Outcome Felt
  | (uses, ratio, seg, cells) =>
    match copiesOf D dp t uses ratio with
    | .ok copies =>
      match seg? pi (D.base.constD seg) with
      | none => .err "SegmentMissing"
      | some s =>
        let diff := s.stopPtr - s.beginAddr
        let used := if cells = 1 then diff else diff * Felt.inv (Felt.ofNat cells)
        if used.val ≤ copies.val then .ok copies else .err "UsesInvalid"
    | .err e => .err e
    | .panic s => .panic s

def allCopies (D : DynData) (pi : PublicInput) (dp : Array Nat) (t : Felt) :
    List (String × String × String × Nat) → Outcome (List Felt)
  | [] => .ok []
  | b :: bs =>
    match builtinCopies D pi dp t b with
    | .ok c =>
      match allCopies D pi dp t bs with
      | .ok cs => .ok (c :: cs)
      | o => o
    | .err e => .err e
    | .panic s => .panic s

def dot (ks : List Nat) (cs : List Felt) : Felt :=
  (ks.zip cs).foldl (fun s (kc : Nat × Felt) => s + Felt.ofNat kc.1 * kc.2) 0

/-- `validate_public_input` -/
def validatePublicInput (D : DynData) (pi : PublicInput) (d : StarkDomains) : Outcome Unit :=
  match pi.dynamicParams with
  | none => .err "DynamicParamsMissing"
  | some dpl =>
    let dp := dpl.toArray
    if ¬ (pi.logNSteps.val < D.base.MAX_LOG_N_STEPS) then .err "MaxSteps" else
    let nSteps := Felt.pow 2 pi.logNSteps.val
    let t := d.traceDomainSize
    if nSteps * Felt.ofNat (D.base.constD "CPU_COMPONENT_HEIGHT") * D.dpf dp "cpu_component_step" ≠ t then
      .err "TraceLengthInvalid" else
    if pi.segments.length ≠ D.base.constD "SEG_N_SEGMENTS" then .err "InvalidSegments" else
    if ¬ (pi.rangeCheckMin.val < pi.rangeCheckMax.val) then .err "RangeCheckInvalid" else
    if ¬ (pi.rangeCheckMax.val ≤ D.base.MAX_RANGE_CHECK) then .err "RangeCheckInvalid" else
    if pi.layout ≠ Felt.ofNat (D.base.constD "LAYOUT_CODE") then .err "LayoutCodeInvalid" else
    match seg? pi (D.base.constD "SEG_OUTPUT") with
    | none => .err "SegmentMissing"
    | some out =>
      if ¬ ((out.stopPtr - out.beginAddr).val ≤ U128_MAX) then .err "UsesInvalid" else
      match allCopies D pi dp t builtinTable with
      | .err e => .err e
      | .panic s => .panic s
      | .ok cs =>
        -- cs = [pedersen, range_check, ecdsa, bitwise, ec_op, keccak, poseidon, range_check96, add_mod, mul_mod]
        match fieldDivTry t (D.dpf dp "memory_units_row_ratio") with
        | .err e => .err e
        | .panic s => .panic s
        | .ok memoryUnits =>
          -- `safe_div(memory_units, PUBLIC_MEMORY_FRACTION.into())?` : floor division, divisor a non-zero constant
          let pmf := D.base.constD "PUBLIC_MEMORY_FRACTION"
          if Felt.ofNat pmf = 0 then .err "FeltIsZero" else
          let memSum := Felt.ofNat 4 * nSteps + Felt.ofNat (memoryUnits.val / (Felt.ofNat pmf).val) + dot [3, 1, 2, 5, 7, 16, 6, 1, 7, 7] cs
          if ¬ (memSum.val ≤ memoryUnits.val) then .err "CopiesInvalid" else
          match fieldDivTry t (D.dpf dp "range_check_units_row_ratio") with
          | .err e => .err e
          | .panic s => .panic s
          | .ok rcUnits =>
            let c (i : Nat) : Felt := cs.getD i 0
            let rcSum := Felt.ofNat 3 * nSteps + Felt.ofNat 8 * c 1 + Felt.ofNat 6 * c 7 + Felt.ofNat 66 * c 9
            if ¬ (rcSum.val ≤ rcUnits.val) then .err "CopiesInvalid" else
            match fieldDivTry t (D.dpf dp "diluted_units_row_ratio") with
            | .err e => .err e
            | .panic s => .panic s
            | .ok dilutedUnits =>
              let dSum := Felt.ofNat 68 * c 3 + Felt.ofNat 16384 * c 5
              if ¬ (dSum.val ≤ dilutedUnits.val) then .err "CopiesInvalid" else
              DynAsserts.check D.usizeMax dp t D.asserts

/-- `trace_domain_size.field_div(&felt_try_nonzero!(divisor)?)` then `ensure!(· < u128::MAX)` -/
def copiesLt (t : Felt) (divisor : Felt) : Outcome Felt :=
  if divisor = 0 then .err "FeltIsZero" else
  let c := t * Felt.inv divisor
  if c.val < U128_MAX then .ok c else .err "ValueOutOfRange"

/-- periodic column values of one builtin: zeros when switched off, else `eval_<f>(point^(mult * copies))` -/
def periodicGroup (D : DynData) (dp : Array Nat) (t point : Felt) (uses ratio : String) (rep mult : Nat)
    (fns : List String) : Outcome (List Felt) :=
  if D.dpv dp uses = 0 then .ok (fns.map fun _ => 0) else
  match copiesLt t (D.dpf dp ratio * Felt.ofNat rep) with
  | .err e => .err e
  | .panic s => .panic s
  | .ok n =>
    let p := Felt.pow point (Felt.ofNat mult * n).val
    match fns.mapM (fun f => D.base.evalPeriodic f p) with
    | some vs => .ok vs
    | none => .err "CompositionPolyEvalError"

/- `KECCAK_PERMUTATIONS_PER_INSTANCE` is declared `= DILUTED_N_BITS` in the Rust (not a literal, so the constant extractor does not list
   it): the model falls back to `DILUTED_N_BITS` (found by the correspondence check on instances with the keccak builtin on). -/
def keccakFns : List String := ["eval_keccak_round_key0", "eval_keccak_round_key1", "eval_keccak_round_key3", "eval_keccak_round_key7",
  "eval_keccak_round_key15", "eval_keccak_round_key31", "eval_keccak_round_key63"]
def poseidonFns : List String := ["eval_poseidon_poseidon_full_round_key0", "eval_poseidon_poseidon_full_round_key1",
  "eval_poseidon_poseidon_full_round_key2", "eval_poseidon_poseidon_partial_round_key0", "eval_poseidon_poseidon_partial_round_key1"]

structure DynCtx where
  pi : PublicInput
  interaction : List Felt
  traceDomainSize : Felt
  memoryRatio : Felt
  dilutedProd : Felt
  pedersen : List Felt
  ecdsa : List Felt
  keccak : List Felt
  poseidon : List Felt

/-- value of the global-values field `n` -/
def gvValue (D : DynData) (c : DynCtx) (n : String) : Option Felt :=
  let segBegin (s : String) : Option Felt := (D.base.const? s).bind fun i => (seg? c.pi i).map (·.beginAddr)
  let segStop (s : String) : Option Felt := (D.base.const? s).bind fun i => (seg? c.pi i).map (·.stopPtr)
  let k (s : String) : Option Felt := (D.base.const? s).map Felt.ofNat
  let keccakAt (f : String) : Option Felt := (keccakFns.idxOf? f).bind (c.keccak[·]?)
  let poseidonAt (f : String) : Option Felt := (poseidonFns.idxOf? f).bind (c.poseidon[·]?)
  match n with
  | "trace_length" => some c.traceDomainSize
  | "initial_pc" => segBegin "SEG_PROGRAM"
  | "final_pc" => segStop "SEG_PROGRAM"
  | "initial_ap" => segBegin "SEG_EXECUTION"
  | "final_ap" => segStop "SEG_EXECUTION"
  | "initial_pedersen_addr" => segBegin "SEG_PEDERSEN"
  | "initial_range_check_addr" => segBegin "SEG_RANGE_CHECK"
  | "initial_ecdsa_addr" => segBegin "SEG_ECDSA"
  | "initial_bitwise_addr" => segBegin "SEG_BITWISE"
  | "initial_ec_op_addr" => segBegin "SEG_EC_OP"
  | "initial_keccak_addr" => segBegin "SEG_KECCAK"
  | "initial_poseidon_addr" => segBegin "SEG_POSEIDON"
  | "initial_range_check96_addr" => segBegin "SEG_RANGE_CHECK96"
  | "add_mod_initial_mod_addr" => segBegin "SEG_ADD_MOD"
  | "mul_mod_initial_mod_addr" => segBegin "SEG_MUL_MOD"
  | "range_check_min" => some c.pi.rangeCheckMin
  | "range_check_max" => some c.pi.rangeCheckMax
  | "offset_size" => some (Felt.ofNat 65536)
  | "half_offset_size" => some (Felt.ofNat 32768)
  | "pedersen_shift_point.x" => k "SHIFT_POINT_X"
  | "pedersen_shift_point.y" => k "SHIFT_POINT_Y"
  | "ecdsa_sig_config.alpha" => k "STARK_CURVE_ALPHA"
  | "ecdsa_sig_config.beta" => k "STARK_CURVE_BETA"
  | "ecdsa_sig_config.shift_point.x" => k "SHIFT_POINT_X"
  | "ecdsa_sig_config.shift_point.y" => k "SHIFT_POINT_Y"
  | "ec_op_curve_config.alpha" => k "STARK_CURVE_ALPHA"
  | "ec_op_curve_config.beta" => k "STARK_CURVE_BETA"
  | "pedersen_points_x" => c.pedersen[0]?
  | "pedersen_points_y" => c.pedersen[1]?
  | "ecdsa_generator_points_x" => c.ecdsa[0]?
  | "ecdsa_generator_points_y" => c.ecdsa[1]?
  | "keccak_keccak_keccak_round_key0" => keccakAt "eval_keccak_round_key0"
  | "keccak_keccak_keccak_round_key1" => keccakAt "eval_keccak_round_key1"
  | "keccak_keccak_keccak_round_key3" => keccakAt "eval_keccak_round_key3"
  | "keccak_keccak_keccak_round_key7" => keccakAt "eval_keccak_round_key7"
  | "keccak_keccak_keccak_round_key15" => keccakAt "eval_keccak_round_key15"
  | "keccak_keccak_keccak_round_key31" => keccakAt "eval_keccak_round_key31"
  | "keccak_keccak_keccak_round_key63" => keccakAt "eval_keccak_round_key63"
  | "poseidon_poseidon_full_round_key0" => poseidonAt "eval_poseidon_poseidon_full_round_key0"
  | "poseidon_poseidon_full_round_key1" => poseidonAt "eval_poseidon_poseidon_full_round_key1"
  | "poseidon_poseidon_full_round_key2" => poseidonAt "eval_poseidon_poseidon_full_round_key2"
  | "poseidon_poseidon_partial_round_key0" => poseidonAt "eval_poseidon_poseidon_partial_round_key0"
  | "poseidon_poseidon_partial_round_key1" => poseidonAt "eval_poseidon_poseidon_partial_round_key1"
  | "memory_multi_column_perm_perm_public_memory_prod" => some c.memoryRatio
  | "range_check16_perm_public_memory_prod" => some 1
  | "diluted_check_first_elm" => some 0
  | "diluted_check_permutation_public_memory_prod" => some 1
  | "diluted_check_final_cum_val" => some c.dilutedProd
  | other => (D.base.interactionFields.idxOf? other).bind (c.interaction[·]?)

/-- `eval_composition_polynomial` -/
def evalComposition (D : DynData) (interaction : List Felt) (pi : PublicInput) (mask coeffs : List Felt)
    (point traceDomainSize traceGenerator : Felt) : Outcome Felt :=
  if interaction.length ≠ D.base.interactionFields.length then .panic "layout:interaction_elements" else
  match pi.dynamicParams with
  | none => .err "DynamicParamsMissing"
  | some dpl =>
    let dp := dpl.toArray
    let ie (n : String) : Felt := ((D.base.interactionFields.idxOf? n).bind (interaction[·]?)).getD 0
    let z := ie "memory_multi_column_perm_perm_interaction_elm"
    let alpha := ie "memory_multi_column_perm_hash_interaction_elm0"
    match copiesLt traceDomainSize (D.dpf dp "memory_units_row_ratio" * Felt.ofNat (D.base.constD "PUBLIC_MEMORY_FRACTION")) with
    | .err e => .err e
    | .panic s => .panic s
    | .ok colSize =>
      match pi.publicMemoryProductRatio z alpha colSize with
      | .err _ => .err "ValueOutOfRange"
      | .panic s => .panic s
      | .ok ratio =>
        let diluted := Diluted.getDilutedProduct (Felt.ofNat (D.base.constD "DILUTED_N_BITS")) (Felt.ofNat (D.base.constD "DILUTED_SPACING"))
          (ie "diluted_check_interaction_z") (ie "diluted_check_interaction_alpha")
        match periodicGroup D dp traceDomainSize point "uses_pedersen_builtin" "pedersen_builtin_row_ratio"
                (D.base.constD "PEDERSEN_BUILTIN_REPETITIONS") 1 ["eval_pedersen_x", "eval_pedersen_y"] with
        | .err e => .err e
        | .panic s => .panic s
        | .ok ped =>
        match periodicGroup D dp traceDomainSize point "uses_ecdsa_builtin" "ecdsa_builtin_row_ratio"
                (D.base.constD "ECDSA_BUILTIN_REPETITIONS") 1 ["eval_ecdsa_x", "eval_ecdsa_y"] with
        | .err e => .err e
        | .panic s => .panic s
        | .ok ecdsa =>
        match periodicGroup D dp traceDomainSize point "uses_keccak_builtin" "keccak_row_ratio"
                ((D.base.const? "KECCAK_PERMUTATIONS_PER_INSTANCE").getD (D.base.constD "DILUTED_N_BITS")) 2048 keccakFns with
        | .err e => .err e
        | .panic s => .panic s
        | .ok kec =>
        match periodicGroup D dp traceDomainSize point "uses_poseidon_builtin" "poseidon_row_ratio" 1 1 poseidonFns with
        | .err e => .err e
        | .panic s => .panic s
        | .ok pos =>
          let ctx : DynCtx := ⟨pi, interaction, traceDomainSize, ratio, diluted, ped, ecdsa, kec, pos⟩
          match D.base.gvFields.mapM (gvValue D ctx) with
          | none => .err "CompositionPolyEvalError"
          | some gv =>
            Ast.evalProg { mask := mask.toArray, coeff := coeffs.toArray, gv := gv.toArray, dp := dp, point := point, tgen := traceGenerator }
              D.base.composition.1 D.base.composition.2

/-- `eval_oods_polynomial` -/
def evalOods (D : DynData) (pi : PublicInput) (cols oods coeffs : List Felt) (point oodsPoint traceGenerator : Felt) :
    Outcome Felt :=
  match pi.dynamicParams with
  | none => .err "DynamicParamsMissing"
  | some dpl =>
    Ast.evalProg { col := cols.toArray, oodsv := oods.toArray, coeff := coeffs.toArray, dp := dpl.toArray, point := point,
                   oodsPoint := oodsPoint, tgen := traceGenerator } D.base.oods.1 D.base.oods.2

/-- the `LayoutOps` of the dynamic layout -/
def ops (D : DynData) (H : Hashes) : LayoutOps where
  nInteractionElements := D.base.interactionFields.length
  nConstraints := D.base.constD "N_CONSTRAINTS"
  maskSize := D.base.constD "MASK_SIZE"
  constraintDegree := D.base.constD "CONSTRAINT_DEGREE"
  numColumnsFirst := fun pi => pi.dynamicParams.map fun dp => D.dpv dp.toArray "num_columns_first"
  numColumnsSecond := fun pi => pi.dynamicParams.map fun dp => D.dpv dp.toArray "num_columns_second"
  evalComposition := evalComposition D
  evalOods := evalOods D
  validatePublicInput := validatePublicInput D
  verifyPublicInput := D.base.verifyPublicInput H

end DynData
end Swiftness
