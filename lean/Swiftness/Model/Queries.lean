/- Model of `crates/stark/src/queries.rs`. -/
import Swiftness.Model.Transcript
import Swiftness.Model.Outcome
import Swiftness.Model.Domains

namespace Swiftness.Queries

def DIVISOR : Nat := Gen.Queries.DIVISOR
def MAX_DOMAIN_SIZE : Nat := Gen.Queries.MAX_DOMAIN_SIZE
def FIELD_GENERATOR : Felt := Felt.ofNat Gen.Queries.FIELD_GENERATOR

/-- draw `n` samples: `(random mod 2^128) mod bound` on representatives -/
def sample (H : Hashes) (bound : Nat) : Nat → Transcript → List Felt × Transcript
  | 0, t => ([], t)
  | n + 1, t =>
    let (r, t') := t.randomFelt H
    let s := Felt.ofNat ((r.val % DIVISOR) % bound)
    let (rest, t'') := sample H bound n t'
    (s :: rest, t'')

/-- insertion into an ascending list (by representative) -/
def insertSorted (x : Felt) : List Felt → List Felt
  | [] => [x]
  | y :: ys => if x.val ≤ y.val then x :: y :: ys else y :: insertSorted x ys

/-- `sort()` (result = the ascending rearrangement; stability is irrelevant for field elements) -/
def sort : List Felt → List Felt
  | [] => []
  | x :: xs => insertSorted x (sort xs)

/-- `Vec::dedup`: drop consecutive repeats -/
def dedup : List Felt → List Felt
  | [] => []
  | [x] => [x]
  | x :: y :: t => if x = y then dedup (y :: t) else x :: dedup (y :: t)

/-- `generate_queries`.  `n_samples ≥ 2^128` panics (`try_into::<u128>().unwrap()`), a zero bound
    panics inside the first sample (`NonZeroFelt::try_from(..).unwrap()`). -/
def generateQueries (H : Hashes) (t : Transcript) (nSamples bound : Felt) :
    Outcome (List Felt × Transcript) :=
  if nSamples.val ≥ 2 ^ 128 then .panic "queries.rs:generate_queries:unwrap:0"
  else if nSamples.val > 0 ∧ bound = 0 then .panic "queries.rs:generate_queries:unwrap:1"
  else
    let (s, t') := sample H bound.val nSamples.val t
    .ok (dedup (sort s), t')

/-- `u64::reverse_bits` -/
def reverseBits64Aux : Nat → Nat → Nat → Nat
  | 0, _, acc => acc
  | k + 1, n, acc => reverseBits64Aux k (n / 2) (acc * 2 + n % 2)

def reverseBits64 (n : Nat) : Nat := reverseBits64Aux 64 n 0

def pointsLoop (shift : Felt) (evalGen : Felt) : List Felt → Outcome (List Felt)
  | [] => .ok []
  | q :: qs =>
    let idx := (q * shift).val
    if idx ≥ 2 ^ 64 then .panic "queries.rs:queries_to_points:unwrap"
    else
      match pointsLoop shift evalGen qs with
      | .ok ps => .ok (FIELD_GENERATOR * Felt.pow evalGen (reverseBits64 idx) :: ps)
      | .err e => .err e
      | .panic s => .panic s

/-- `queries_to_points` -/
def queriesToPoints (queries : List Felt) (d : StarkDomains) : Outcome (List Felt) :=
  if d.logEvalDomainSize.val > MAX_DOMAIN_SIZE then .panic "queries.rs:queries_to_points:assert"
  else
    let shift := Felt.pow 2 (Felt.ofNat MAX_DOMAIN_SIZE - d.logEvalDomainSize).val
    pointsLoop shift d.evalGenerator queries

end Swiftness.Queries
