import Swiftness.Model.Felt

/-
  Executable model of original Keccak-256 (multi-rate padding `0x01 … 0x80`, NOT SHA3-256's
  `0x06 … 0x80`).  Rust counterpart: `sha3::Keccak256` (`sha3 0.10.8`, `keccak 0.1.5`).

  State: 25 little-endian 64-bit lanes, lane `(x, y)` stored at index `x + 5*y`.
  Rate 136 bytes (17 lanes), capacity 512 bits, 24 rounds of Keccak-f[1600].
-/
namespace Swiftness

namespace Keccak

/-- 64-bit left rotation (`n` is taken mod 64). -/
@[inline] def rotl64 (v : UInt64) (n : Nat) : UInt64 :=
  let k := n % 64
  if k = 0 then v
  else (v <<< UInt64.ofNat k) ||| (v >>> UInt64.ofNat (64 - k))

/-- ι round constants. -/
def roundConstants : List UInt64 := [
  0x0000000000000001, 0x0000000000008082, 0x800000000000808A, 0x8000000080008000,
  0x000000000000808B, 0x0000000080000001, 0x8000000080008081, 0x8000000000008009,
  0x000000000000008A, 0x0000000000000088, 0x0000000080008009, 0x000000008000000A,
  0x000000008000808B, 0x800000000000008B, 0x8000000000008089, 0x8000000000008003,
  0x8000000000008002, 0x8000000000000080, 0x000000000000800A, 0x800000008000000A,
  0x8000000080008081, 0x8000000000008080, 0x0000000080000001, 0x8000000080008008]

/-- ρ rotation offsets, indexed by `x + 5*y`. -/
def rhoOffsets : Array Nat := #[
   0,  1, 62, 28, 27,
  36, 44,  6, 55, 20,
   3, 10, 43, 25, 39,
  41, 45, 15, 21,  8,
  18,  2, 61, 56, 14]

/-- lane read with default 0 (all call sites are in range) -/
@[inline] def lane (a : Array UInt64) (i : Nat) : UInt64 := a.getD i 0

/-- One round of Keccak-f[1600]: θ, ρ, π, χ, ι. -/
def round (a : Array UInt64) (rc : UInt64) : Array UInt64 :=
  -- θ
  let c : Array UInt64 := Array.ofFn (n := 5) fun x =>
    lane a x.val ^^^ lane a (x.val + 5) ^^^ lane a (x.val + 10) ^^^ lane a (x.val + 15)
      ^^^ lane a (x.val + 20)
  let d : Array UInt64 := Array.ofFn (n := 5) fun x =>
    lane c ((x.val + 4) % 5) ^^^ rotl64 (lane c ((x.val + 1) % 5)) 1
  let t : Array UInt64 := Array.ofFn (n := 25) fun i => lane a i.val ^^^ lane d (i.val % 5)
  -- ρ and π:  B[y, 2x+3y] = rot(A[x,y], r[x,y]).  For the target lane (X, Y) the source is
  -- x = (X + 3Y) mod 5, y = X.
  let b : Array UInt64 := Array.ofFn (n := 25) fun j =>
    let bx := j.val % 5
    let by' := j.val / 5
    let x := (bx + 3 * by') % 5
    let y := bx
    let src := x + 5 * y
    rotl64 (lane t src) (rhoOffsets.getD src 0)
  -- χ
  let e : Array UInt64 := Array.ofFn (n := 25) fun i =>
    let x := i.val % 5
    let y := i.val / 5
    lane b i.val ^^^ ((~~~ lane b ((x + 1) % 5 + 5 * y)) &&& lane b ((x + 2) % 5 + 5 * y))
  -- ι
  e.setIfInBounds 0 (lane e 0 ^^^ rc)

/-- Keccak-f[1600] (24 rounds). -/
def keccakF (a : Array UInt64) : Array UInt64 := roundConstants.foldl round a

/-- little-endian 8 bytes → lane (missing bytes read as 0) -/
def laneOfBytesLE (bs : List UInt8) : UInt64 :=
  (bs.take 8).foldr (fun b acc => (acc <<< 8) ||| b.toUInt64) 0

/-- lane → 8 little-endian bytes -/
def laneToBytesLE (v : UInt64) : List UInt8 :=
  (List.range 8).map fun i => (v >>> UInt64.ofNat (8 * i)).toUInt8

/-- split a byte list into 8-byte lanes; `fuel` = number of lanes to produce -/
def lanesOfBytes : Nat → List UInt8 → List UInt64
  | 0, _ => []
  | n + 1, bs => laneOfBytesLE bs :: lanesOfBytes n (bs.drop 8)

/-- rate in bytes for Keccak-256 -/
def rate : Nat := 136

/-- XOR one `rate`-byte block into the first 17 lanes and permute. -/
def absorbBlock (a : Array UInt64) (block : List UInt8) : Array UInt64 :=
  let ls := (lanesOfBytes 17 block).toArray
  let a' : Array UInt64 := Array.ofFn (n := 25) fun i =>
    if i.val < 17 then lane a i.val ^^^ lane ls i.val else lane a i.val
  keccakF a'

/-- Keccak `pad10*1` with domain byte `0x01`: always appends between 1 and `rate` bytes. -/
def pad (len : Nat) : List UInt8 :=
  let q := rate - len % rate   -- 1 ≤ q ≤ rate
  if q = 1 then [0x81]
  else (0x01 : UInt8) :: (List.replicate (q - 2) (0 : UInt8) ++ [0x80])

/-- absorb `n` consecutive `rate`-byte blocks -/
def absorb : Nat → Array UInt64 → List UInt8 → Array UInt64
  | 0, a, _ => a
  | n + 1, a, bs => absorb n (absorbBlock a (bs.take rate)) (bs.drop rate)

end Keccak

/-- Original Keccak-256 (`sha3::Keccak256`): 32-byte digest. -/
def keccak256 (bs : List UInt8) : List UInt8 :=
  let padded := bs ++ Keccak.pad bs.length
  let nblocks := padded.length / Keccak.rate
  let st := Keccak.absorb nblocks (Array.replicate 25 (0 : UInt64)) padded
  ((List.range 4).map fun i => Keccak.laneToBytesLE (Keccak.lane st i)).flatten

end Swiftness
