/- Model of `crates/stark/src/config.rs`, `crates/air/src/trace/config.rs`. -/
import Swiftness.Model.Fri
import Swiftness.Model.Pow

namespace Swiftness

namespace TraceConfig
def MAX_N_COLUMNS : Nat := Gen.TraceConfig.MAX_N_COLUMNS

structure Config where
  original : Fri.TableConfig
  interaction : Fri.TableConfig
  deriving DecidableEq, Repr

/-- `trace::config::Config::validate`; note `a.and(b)`: both sub-validations are evaluated, the first error wins. -/
def Config.validate (c : Config) (logEval nFriendly nColsOriginal nColsInteraction : Felt) : Outcome Unit :=
  if c.original.nColumns.val < 1 ∨ c.original.nColumns.val > MAX_N_COLUMNS then .err "OutOfBounds"
  else if c.interaction.nColumns.val < 1 ∨ c.interaction.nColumns.val > MAX_N_COLUMNS then .err "OutOfBounds"
  else if c.original.nColumns ≠ nColsOriginal then .err "ColumnsNumInvalid"
  else if c.interaction.nColumns ≠ nColsInteraction then .err "ColumnsNumInvalid"
  else
    match c.original.vector.validate logEval nFriendly with
    | .ok () => c.interaction.vector.validate logEval nFriendly
    | o => o
end TraceConfig

structure StarkConfig where
  traces : TraceConfig.Config
  composition : Fri.TableConfig
  fri : Fri.Config
  powBits : Nat            -- `proof_of_work.n_bits : u8`
  logTraceDomainSize : Felt
  nQueries : Felt
  logNCosets : Felt
  nFriendly : Felt
  deriving DecidableEq, Repr

namespace StarkConfig

def MAX_LOG_BLOWUP_FACTOR : Nat := Gen.StarkConfig.MAX_LOG_BLOWUP_FACTOR
def MAX_N_QUERIES : Nat := Gen.StarkConfig.MAX_N_QUERIES

/-- `security_bits()` (field arithmetic) -/
def securityBits (c : StarkConfig) : Felt := c.nQueries * c.logNCosets + Felt.ofNat c.powBits

/-- `StarkConfig::validate` -/
def validate (c : StarkConfig) (securityBits nColsFirst nColsSecond : Felt) : Outcome Unit :=
  match Pow.configValidate c.powBits with
  | .err e => .err e
  | .panic s => .panic s
  | .ok () =>
    if ¬ (c.logNCosets.val ≥ 1 ∧ c.logNCosets.val ≤ MAX_LOG_BLOWUP_FACTOR) then .err "OutOfBounds"
    else if ¬ (c.nQueries.val ≥ 1 ∧ c.nQueries.val ≤ MAX_N_QUERIES) then .err "OutOfBounds"
    else if ¬ (securityBits.val ≤ c.securityBits.val) then .err "InsufficientSecurity"
    else
      let logEval := c.logTraceDomainSize + c.logNCosets
      match c.traces.validate logEval c.nFriendly nColsFirst nColsSecond with
      | .err e => .err e
      | .panic s => .panic s
      | .ok () =>
        match c.composition.vector.validate logEval c.nFriendly with
        | .err e => .err e
        | .panic s => .panic s
        | .ok () =>
          match c.fri.validate c.logNCosets c.nFriendly with
          | .err e => .err e
          | .panic s => .panic s
          | .ok deg => if deg ≠ c.logTraceDomainSize then .err "DegreeBoundMismatch" else .ok ()

end StarkConfig
end Swiftness
