/-
  Executable honest prover for vector / table commitments (core Lean only; used by the test driver
  to generate honest instances).  Builds every layer once: `2^h - 1` node hashes in total.

  `buildAuth H nf h leaves Q = (Merkle.root …, Merkle.authPath … Q)` for
  `leaf i = leaves.getD i 0` (checked by evaluation in the driver's self-test, not proved).
-/
import Swiftness.Spec.Merkle
import Swiftness.Spec.TableSpec

namespace Swiftness.Prover

open Swiftness

/-- the layer above `layer`: node `i` is the hash of nodes `2i`, `2i+1` -/
def hashLayer (H : Hashes) (friendly : Bool) (layer : Array Felt) : Array Felt := Id.run do
  let n := layer.size / 2
  let mut out : Array Felt := Array.mkEmpty n
  for i in [0:n] do
    out := out.push (Vector.hashFU H (layer.getD (2 * i) 0) (layer.getD (2 * i + 1) 0) friendly)
  return out

/-- root and authentication path (bottom layer up, left to right) for the strictly increasing
    leaf numbers `Q` (all `< 2^h`) of the tree of height `h` over `leaves` (padded with `0` to
    `2^h` entries). -/
def buildAuth (H : Hashes) (nf : Felt) (h : Nat) (leaves : Array Felt) (Q : List Nat) :
    Felt × List Felt := Id.run do
  let mut layer : Array Felt := Array.ofFn (n := 2 ^ h) fun i => leaves.getD i.val 0
  let mut idx : List Nat := Q.map (· + 2 ^ h)
  let mut auth : Array Felt := #[]
  for k in [0:h] do
    -- `layer` holds the nodes `k` levels above the leaves: heap indices `2^(h-k) …`
    let base := 2 ^ (h - k)
    for s in Merkle.siblings idx do
      auth := auth.push (layer.getD (s - base) 0)
    idx := Merkle.parents idx
    layer := hashLayer H (decide (nf.val ≥ h - k)) layer
  return (layer.getD 0 0, auth.toList)

/-- list front end -/
def buildAuthL (H : Hashes) (nf : Felt) (h : Nat) (leaves : List Felt) (Q : List Nat) :
    Felt × List Felt :=
  buildAuth H nf h leaves.toArray Q

/-- leaves of the vector commitment under a table whose plain rows are `rows` (each of the same
    length `n`): Montgomery form, then `TableSpec.rowLeaf` -/
def tableLeaves (H : Hashes) (nf : Felt) (h : Nat) (rows : Array (List Felt)) : Array Felt :=
  rows.map fun row =>
    TableSpec.rowLeaf H (TableSpec.bottomFriendly nf h) (row.map (· * Table.MONTGOMERY_R))

/-- root, decommitment values and authentication path for the rows `Q` of a table -/
def buildTableAuth (H : Hashes) (nf : Felt) (h : Nat) (rows : Array (List Felt)) (Q : List Nat) :
    Felt × List Felt × List Felt :=
  let (root, auth) := buildAuth H nf h (tableLeaves H nf h rows) Q
  (root, Q.flatMap (fun r => rows.getD r []), auth)

end Swiftness.Prover
