/-
  Honest FRI prover (executable, core Lean only).  Built from the SPEC vocabulary of C06
  (`FoldSpec.split`, `bitrev`, `expectedSiblings`, `cosetValues`) and the spec Merkle builder:
  for a coefficient list below the degree bound it produces the layer commitments, coset leaves,
  authentication paths and last-layer coefficients that an honest prover would send, running the
  Fiat–Shamir transcript alongside.  Used (a) by the test driver to generate instances the REAL
  `fri_commit`/`fri_verify` must accept, (b) as the object of the completeness statements.
-/
import Swiftness.Model.Fri
import Swiftness.Spec.FoldSpec
import Swiftness.Prover.MerkleProver

namespace Swiftness.Prover
open Swiftness FoldSpec

/-- the folded polynomial: `n • Σ_j b^j • P_j` with `n = 2^step`, as a coefficient list -/
def foldPoly (step : Nat) (b : Felt) (cs : List Felt) : List Felt :=
  let n := 2 ^ step
  let parts := (List.range n).map fun j => split step cs j
  let len := parts.foldl (fun m p => max m p.length) 0
  (List.range len).map fun m =>
    Felt.ofNat n * (List.range n).foldl (fun acc j => acc + Felt.pow b j * ((parts.getD j []).getD m 0)) 0

/-- point of the layer domain of log-size `L` (shift `1`) at bit-reversed index `idx` -/
def layerPoint (L : Nat) (idx : Nat) : Felt :=
  Felt.pow (Felt.pow 3 ((P - 1) / 2 ^ L)) (bitrev L idx)

/-- distinct coset indices of a sorted query list -/
def cosetIdx (n : Nat) : List Nat → List Nat
  | [] => []
  | q :: qs =>
    let rest := cosetIdx n qs
    match rest with
    | c :: _ => if c = q / n then rest else q / n :: rest
    | [] => [q / n]

structure FriLayerOut where
  root : Felt
  leaves : List Felt
  auths : List Felt

structure FriInstance where
  roots : List Felt
  lastCoefs : List Felt
  evalPoints : List Felt
  /-- FRI input values at the queries, and the field points `3·ω^bitrev(q)` -/
  values : List Felt
  points : List Felt
  layers : List FriLayerOut
  transcript : Transcript

/-- commit phase + decommitment for the inner layers.  `L` = log-size of the current layer's domain,
    `steps` = remaining step sizes (after the leading 0), `Q` = current sorted distinct query indices. -/
def friLayers (H : Hashes) (nf : Felt) : List Nat → Nat → List Felt → List Nat → Transcript →
    List Felt × List Felt × List FriLayerOut × List Felt × Transcript
  | [], _, cs, _, t => ([], [], [], cs, t)
  | step :: steps, L, cs, Q, t =>
    let n := 2 ^ step
    let yv : Nat → Felt := fun idx => evalL cs (layerPoint L idx)
    let nRows := 2 ^ (L - step)
    let rows : Array (List Felt) := Array.ofFn (n := nRows) fun r => (List.range n).map fun i => yv (r.val * n + i)
    let cidx := cosetIdx n Q
    let (root, _, auth) := buildTableAuth H nf (L - step) rows cidx
    let t1 := t.readFelt H root
    let (b, t2) := t1.randomFelt H
    let leaves := expectedSiblings n yv cidx Q
    let (roots, es, outs, last, t3) := friLayers H nf steps (L - step) (foldPoly step b cs) cidx t2
    (root :: roots, b :: es, ⟨root, leaves, auth⟩ :: outs, last, t3)

/-- the whole honest instance for polynomial `cs`, config `(steps after the leading 0, lastBound, logNCosets)` -/
def friProve (H : Hashes) (nf : Felt) (steps : List Nat) (lastBound logNCosets : Nat) (cs : List Felt)
    (Q : List Nat) (t : Transcript) : FriInstance :=
  let L := steps.foldl (· + ·) 0 + lastBound + logNCosets
  let values := Q.map fun q => evalL cs (layerPoint L q)
  let points := Q.map fun q => 3 * layerPoint L q
  let (roots, es, outs, last, t1) := friLayers H nf steps L cs Q t
  let lastCoefs := (List.range (2 ^ lastBound)).map fun i => last.getD i 0
  ⟨roots, lastCoefs, es, values, points, outs, t1.readFeltVector H lastCoefs⟩

/-- the matching `Fri.Config` -/
def friConfig (nf : Felt) (steps : List Nat) (lastBound logNCosets : Nat) : Fri.Config :=
  let L := steps.foldl (· + ·) 0 + lastBound + logNCosets
  let heights := (steps.foldl (fun (acc : List Nat × Nat) s => (acc.1 ++ [acc.2 - s], acc.2 - s)) ([], L)).1
  { logInputSize := Felt.ofNat L
    nLayers := Felt.ofNat (steps.length + 1)
    innerLayers := (steps.zip heights).map fun (s, h) => ⟨Felt.ofNat (2 ^ s), ⟨Felt.ofNat h, nf⟩⟩
    friStepSizes := 0 :: steps.map Felt.ofNat
    logLastLayerDegreeBound := Felt.ofNat lastBound }

end Swiftness.Prover
