/-
  C07 — FRI verification.

  "FRI verification fails if any queried input value, any coset sibling leaf, any inner-layer
  authentication node or commitment, any evaluation point or any last-layer coefficient differs from
  the honest one, if the last layer does not have exactly 2^bound coefficients, or (except with
  probability that decays exponentially in the number of queries) if the committed input function has
  degree at or above the bound."

  All theorems hold for an ARBITRARY `H : Hashes`.  Model: `Swiftness/Model/Fri.lean`
  (`Fri.verify`, `verifyLayers`, `computeNextLayer`, `verifyLastLayer`), `Model/Table.lean`.
  "Fails" for committed data is in collision-extraction form, as in C04/C05: acceptance of anything but
  the committed data yields an explicit `Merkle.Collision H`, `ManyCollision H` or `MaskedCollision H`.

  WHAT IS PROVED
   1. `verify_accept_shape`, `verify_accept_len`, `last_layer_len_exact`: acceptance forces
      `queries.length = values.length` and a last layer of exactly `2^bound` coefficients.
   2. `verify_accept_layers` (and the converse, `verify_ok_iff_trace`): acceptance ⇔ there is a trace
      `q 0, …, q m`, `nl 0, …, nl (m-1)` in which every per-layer check passes (`AcceptTrace`).
   3. `next_layer_structure`, `next_layer_indices`: for ARBITRARY witness data a successful
      `compute_next_layer` places every query value and every consumed sibling leaf at a definite
      position of the value list sent to the table decommitment, every next-layer query is the fold of
      one row of that list; for sorted query indices the coset indices are non-empty, strictly
      increasing and are the next layer's query indices.
      `fri_layer_sound`: if commitment `i` is the commitment of a table `cell`, acceptance of layer `i`
      means: all rows folded are the committed rows, every queried value and every consumed sibling
      leaf is the committed cell, every next-layer value is the fold of a committed row, the consumed
      authentication nodes are the committed path — or a collision.  `fri_verify_sound`: the same for
      all layers of an accepting `Fri.verify` at once, the side conditions being derived from sorted
      distinct query indices `< 2^64`.  Rejection forms: `fri_rejects_wrong_cell`,
      `fri_rejects_wrong_query_value`, `fri_rejects_wrong_auth`, `fri_rejects_wrong_commitment`.
   4. `eval_point_sensitive` (+ `eval_point_sensitive_coset` for coset sizes 2, 4, 8, 16).
   5. `last_layer_coeff_sensitive` (from C06), `last_layer_binding`, `last_layer_unique`.
   6. `fold_degree` (one folding step keeps the degree at or above the bound for all but `2^k - 1`
      challenges).  The probabilistic soundness statement itself is NOT proved — see the
      `UNPROVED` block at the end.
   7. NO QUERY IS SKIPPED (`Proofs/FriNoSkip*.lean`): `computeNextLayer_covers` — a successful
      `compute_next_layer`, for a sibling witness of ANY length, produces for every input query `q` a
      next-layer query of index `q.index / cosetSize`, and hands that coset index to the table
      decommitment; `computeNextLayer_row_of_query` — `q`'s own value sits at offset
      `q.index % cosetSize` of the row of that coset, the row that is decommitted and folded into that
      next-layer query; `verifyLayers_covers` — through all layers the image `q.index / ∏ cosetSizes`
      of every query is the index of a last-layer query; `verify_checks_every_query` — acceptance of
      `Fri.verify` implies the last-layer polynomial check was applied to the image of every query
      index.  Only hypothesis: indices do not wrap in the field (`+ cosetSize ≤ P`, `+ 16 ≤ P`), shown
      necessary by `covers_needs_nowrap`.  `computeNextLayerSkipping` (a loop bounded by
      `(queries + siblings) / cosetSize`, NOT the model) violates the conclusion on a concrete input.
-/
import Swiftness.Spec.TableSpec
import Swiftness.Spec.FoldSpec
import Swiftness.Proofs.FriSoundVerify
import Swiftness.Proofs.FriSoundChain
import Swiftness.Proofs.FriSoundLast
import Swiftness.Proofs.FriSoundExample
import Swiftness.Proofs.FriNoSkipVerify
import Swiftness.Props.C06

namespace Swiftness.C07

open Swiftness Fri Swiftness.Merkle Swiftness.TableSpec
open Swiftness.Proofs.FriSound (AcceptTrace LayerOk LayerBound RowOf Rows)

/-! ## 1. shape -/

/-- Acceptance implies the length checks (as the verifier states them: the last-layer length is
    compared in the field) and the two conversions that would otherwise panic. -/
theorem verify_accept_shape (H : Hashes) (queries : List Felt) (c : Commitment)
    (values points : List Felt) (w : List LayerWitness)
    (hok : Fri.verify H queries c values points w = .ok ()) :
    queries.length = values.length ∧
      Felt.ofNat c.lastLayerCoefficients.length = Felt.pow 2 c.config.logLastLayerDegreeBound.val ∧
      1 ≤ c.config.friStepSizes.length ∧ (c.config.nLayers - 1).val < 2 ^ 64 :=
  Proofs.FriSound.verify_accept_shape H queries c values points w hok

/-- … as natural numbers, as soon as nothing wraps in the field (`bound ≤ 251`, length `< P`; config
    validation enforces `bound ≤ 15`, and a `Vec` length is `< 2^64`). -/
theorem verify_accept_len (H : Hashes) (queries : List Felt) (c : Commitment)
    (values points : List Felt) (w : List LayerWitness)
    (hb : c.config.logLastLayerDegreeBound.val ≤ 251) (hlen : c.lastLayerCoefficients.length < P)
    (hok : Fri.verify H queries c values points w = .ok ()) :
    c.lastLayerCoefficients.length = 2 ^ c.config.logLastLayerDegreeBound.val :=
  Proofs.FriSound.verify_accept_len H queries c values points w hb hlen hok

/-- A last layer of any other length is not accepted. -/
theorem last_layer_len_exact (H : Hashes) (queries : List Felt) (c : Commitment)
    (values points : List Felt) (w : List LayerWitness)
    (hb : c.config.logLastLayerDegreeBound.val ≤ 15) (hlen : c.lastLayerCoefficients.length < 2 ^ 64)
    (hbad : c.lastLayerCoefficients.length ≠ 2 ^ c.config.logLastLayerDegreeBound.val) :
    Fri.verify H queries c values points w ≠ .ok () := fun hok =>
  hbad (verify_accept_len H queries c values points w (by omega)
    (Nat.lt_trans hlen (Nat.lt_trans (by omega) Proofs.FriSound.two_pow_65_lt_P)) hok)

/-- `fri_commit` makes the same check (an `assert!` there). -/
theorem commit_accept_len (H : Hashes) (t : Transcript) (roots coefs : List Felt) (cfg : Config)
    (t' : Transcript) (c : Commitment) (hok : Fri.commit H t roots coefs cfg = .ok (t', c)) :
    c.config = cfg ∧ c.lastLayerCoefficients = coefs ∧
      Felt.ofNat coefs.length = Felt.pow 2 cfg.logLastLayerDegreeBound.val :=
  Proofs.FriSound.commit_accept_len H t roots coefs cfg t' c hok

/-! ## 2. acceptance implies every per-layer check

  `AcceptTrace H queries c values points w q nl` (`Proofs/FriSoundDefs.lean`):
  * `first`: `gatherFirstLayer queries values points = .ok (q 0)`;
  * `layer`: for `i < m = (n_layers - 1).val`, `LayerOk H c w i (q i) (nl i)`, i.e. with
             `ci = c.innerLayers[i]`, `wi = w[i]`, `ei = c.evalPoints[i]`, `st = friStepSizes[i+1]`:
             `computeNextLayer (q i) wi.leaves (Felt.pow 2 st.val) ei = .ok (nl i)` and
             `Table.decommit H ci (nl i).verifyIndices (nl i).verifyYValues wi.auths = .ok ()`;
  * `next`:  `q (i+1) = (nl i).nextQueries`;
  * `last`:  `verifyLastLayer (q m) c.lastLayerCoefficients = .ok ()`. -/

theorem verify_accept_layers (H : Hashes) (queries : List Felt) (c : Commitment)
    (values points : List Felt) (w : List LayerWitness)
    (hok : Fri.verify H queries c values points w = .ok ()) :
    ∃ q nl, AcceptTrace H queries c values points w q nl :=
  ((Proofs.FriSound.verify_ok_iff_trace H queries c values points w).mp hok).2.2.2.2

/-- … and these checks (with the shape facts of 1.) are all there is. -/
theorem verify_ok_iff_trace (H : Hashes) (queries : List Felt) (c : Commitment)
    (values points : List Felt) (w : List LayerWitness) :
    Fri.verify H queries c values points w = .ok () ↔
      queries.length = values.length ∧ 1 ≤ c.config.friStepSizes.length ∧
      (c.config.nLayers - 1).val < 2 ^ 64 ∧
      Felt.ofNat c.lastLayerCoefficients.length = Felt.pow 2 c.config.logLastLayerDegreeBound.val ∧
      ∃ q nl, AcceptTrace H queries c values points w q nl :=
  Proofs.FriSound.verify_ok_iff_trace H queries c values points w

/-- the per-layer checks written out -/
theorem layerOk_iff (H : Hashes) (c : Commitment) (w : List LayerWitness) (i : Nat)
    (qi : List LayerQuery) (nl : NextLayer) :
    LayerOk H c w i qi nl ↔
      ∃ ci wi ei sti, c.innerLayers[i]? = some ci ∧ w[i]? = some wi ∧ c.evalPoints[i]? = some ei ∧
        c.config.friStepSizes[i + 1]? = some sti ∧
        computeNextLayer qi wi.leaves (Felt.pow 2 sti.val) ei = .ok nl ∧
        Table.decommit H ci nl.verifyIndices nl.verifyYValues wi.auths = .ok () := Iff.rfl

/-- the first-layer queries: index = the query, value = the presented input value, x-inverse =
    `(point · g⁻¹)⁻¹` -/
theorem first_layer_queries (queries values points : List Felt) (fq : List LayerQuery)
    (h : gatherFirstLayer queries values points = .ok fq) :
    fq.map (·.index) = queries ∧ fq.map (·.yValue) = values.take queries.length ∧
      ∀ (j : Nat) (q : LayerQuery), fq[j]? = some q → ∃ x, points[j]? = some x ∧
        x * FIELD_GENERATOR_INVERSE ≠ 0 ∧ q.xInvValue = Felt.inv (x * FIELD_GENERATOR_INVERSE) :=
  Proofs.FriSound.gatherFirstLayer_spec queries values points fq h

/-! ## 3. one layer -/

/-- **Structure of a successful fold step, for arbitrary inputs.**  `vy = nl.verifyYValues` is a
    sequence of rows of `n = cosetSize.val` values, one per entry of `vi = nl.verifyIndices`, and
    * every query `q` of the layer sits in some row `j` at offset `p`, where `q.index = vi[j]·n + p`
      in the field, with its value `q.yValue`;
    * every consumed sibling leaf (`leaves = used ++ nl.siblingsLeft`) sits at some position;
    * the `j`-th next-layer query has index `vi[j]`, value `fri_formula(row j)` and x-inverse
      `x_inv^n`. -/
theorem next_layer_structure (qs : List LayerQuery) (leaves : List Felt) (cosetSize e : Felt)
    (nl : NextLayer) (h : computeNextLayer qs leaves cosetSize e = .ok nl) :
    nl.nextQueries.length = nl.verifyIndices.length ∧
    nl.verifyYValues.length = cosetSize.val * nl.verifyIndices.length ∧
    (∀ q ∈ qs, ∃ j p ci, p < cosetSize.val ∧ nl.verifyIndices[j]? = some ci ∧
      q.index = ci * cosetSize + Felt.ofNat p ∧
      nl.verifyYValues[j * cosetSize.val + p]? = some q.yValue) ∧
    (∃ used, leaves = used ++ nl.siblingsLeft ∧ ∀ s ∈ used, ∃ j p, j < nl.verifyIndices.length ∧
      p < cosetSize.val ∧ nl.verifyYValues[j * cosetSize.val + p]? = some s) ∧
    (∀ (j : Nat) (nq : LayerQuery), nl.nextQueries[j]? = some nq → ∃ xinv,
      nl.verifyIndices[j]? = some nq.index ∧
      friFormula ((nl.verifyYValues.drop (j * cosetSize.val)).take cosetSize.val) e xinv cosetSize
        = .ok nq.yValue ∧
      nq.xInvValue = Felt.pow xinv cosetSize.val) := by
  obtain ⟨used, hu, hR⟩ := Proofs.FriSound.computeNextLayer_rows qs leaves cosetSize e nl h
  exact ⟨hR.lengths.1, hR.lengths.2, hR.query_pos, ⟨used, hu, hR.sib_pos⟩, hR.fold⟩

/-- **The side conditions of the table decommitment hold for sorted queries** (arbitrary witness):
    coset indices non-empty, strictly increasing, each `q.index / n` for a query `q`; they are the
    next queries' indices, which are again strictly increasing and `< 2^64`. -/
theorem next_layer_indices (qs : List LayerQuery) (leaves : List Felt) (cosetSize e : Felt)
    (nl : NextLayer) (h : computeNextLayer qs leaves cosetSize e = .ok nl)
    (hsorted : (qs.map (·.index.val)).Pairwise (· < ·)) (hb : ∀ q ∈ qs, q.index.val < 2 ^ 64) :
    (qs ≠ [] → nl.verifyIndices ≠ []) ∧
    (nl.verifyIndices.map (·.val)).Pairwise (· < ·) ∧
    (∀ c ∈ nl.verifyIndices, ∃ q ∈ qs, c.val = q.index.val / cosetSize.val) ∧
    nl.nextQueries.map (·.index) = nl.verifyIndices ∧
    (nl.nextQueries.map (·.index.val)).Pairwise (· < ·) ∧
    (∀ q' ∈ nl.nextQueries, ∃ q ∈ qs, q'.index.val = q.index.val / cosetSize.val) ∧
    (∀ q' ∈ nl.nextQueries, q'.index.val < 2 ^ 64) :=
  Proofs.FriSound.computeNextLayer_indices qs leaves cosetSize e nl h hsorted hb

/-- **One FRI layer is sound** (`table_sound` of C05 + `decommit_sound` of C04 applied to the layer).
    Hypotheses: the fold step succeeded (`hnl`), its coset indices are non-empty, strictly increasing
    and `< 2^h` (cf. `next_layer_indices`), and the table decommitment against the commitment of the
    table `cell` (`nc` columns, height `h ≤ 250`) was accepted.  Then, unless there is an explicit
    collision, `LayerBound nc cell qs leaves cosetSize e nl` holds:
    * `ncols`:   `nc.val = cosetSize.val`;
    * `rows`:    `nl.verifyYValues = rowValues cell nc.val (nl.verifyIndices.map (·.val))` — every coset
                 row the verifier folded (queried values AND sibling leaves) is the committed row;
    * `queries`: every query `q` has `q.index = ci·cosetSize + p` with `ci` a coset index, `p < n`
                 and `q.yValue = cell ci.val p`;
    * `leaves`:  every consumed sibling leaf is a cell `cell ci.val p` of a folded row;
    * `fold`:    every next-layer query `nq` has `nq.yValue = fri_formula(committed row nq.index)`;
    and the authentication nodes start with the committed authentication path. -/
theorem fri_layer_sound (H : Hashes) (nf : Felt) (h : Nat) (hh : h ≤ 250) (nc : Felt)
    (cell : Nat → Nat → Felt) (qs : List LayerQuery) (leaves auths : List Felt)
    (cosetSize e : Felt) (nl : NextLayer)
    (hnl : computeNextLayer qs leaves cosetSize e = .ok nl)
    (hne : nl.verifyIndices ≠ [])
    (hsorted : (nl.verifyIndices.map (·.val)).Pairwise (· < ·))
    (hrange : ∀ i ∈ nl.verifyIndices, i.val < 2 ^ h)
    (hdec : Table.decommit H ⟨nc, ⟨⟨Felt.ofNat h, nf⟩, tableRoot H nf h nc.val cell⟩⟩
      nl.verifyIndices nl.verifyYValues auths = .ok ()) :
    (LayerBound nc cell qs leaves cosetSize e nl ∧
      ∃ extra, auths = authPath H nf h (tableLeaf H nf h nc.val cell)
        (nl.verifyIndices.map (·.val)) ++ extra) ∨
      Collision H ∨ ManyCollision H ∨ MaskedCollision H :=
  Proofs.FriSound.fri_layer_sound hh nc cell qs leaves auths cosetSize e nl hnl hne hsorted hrange hdec

/-- the fields of `LayerBound`, written out -/
theorem layerBound_iff (nc : Felt) (cell : Nat → Nat → Felt) (qs : List LayerQuery)
    (leaves : List Felt) (cosetSize e : Felt) (nl : NextLayer) :
    LayerBound nc cell qs leaves cosetSize e nl ↔
      nc.val = cosetSize.val ∧
      nl.verifyYValues = rowValues cell nc.val (nl.verifyIndices.map (·.val)) ∧
      (∀ q ∈ qs, ∃ ci p, ci ∈ nl.verifyIndices ∧ p < cosetSize.val ∧
        q.index = ci * cosetSize + Felt.ofNat p ∧ q.yValue = cell ci.val p) ∧
      (∃ used, leaves = used ++ nl.siblingsLeft ∧
        ∀ s ∈ used, ∃ ci p, ci ∈ nl.verifyIndices ∧ p < cosetSize.val ∧ s = cell ci.val p) ∧
      (∀ nq ∈ nl.nextQueries, nq.index ∈ nl.verifyIndices ∧ ∃ xinv,
        friFormula ((List.range cosetSize.val).map (cell nq.index.val)) e xinv cosetSize
          = .ok nq.yValue ∧
        nq.xInvValue = Felt.pow xinv cosetSize.val) :=
  ⟨fun h => ⟨h.ncols, h.rows, h.queries, h.leaves, h.fold⟩,
   fun ⟨h1, h2, h3, h4, h5⟩ => ⟨h1, h2, h3, h4, h5⟩⟩

/-- Rejection, cell by cell: if the value the verifier placed in row `j`, column `p` (a queried value
    or a sibling leaf, cf. `next_layer_structure`) is not the committed cell, the layer is rejected —
    or explicit collision. -/
theorem fri_rejects_wrong_cell (H : Hashes) (nf : Felt) (h : Nat) (hh : h ≤ 250) (nc : Felt)
    (cell : Nat → Nat → Felt) (qs : List LayerQuery) (leaves auths : List Felt)
    (cosetSize e : Felt) (nl : NextLayer)
    (hnl : computeNextLayer qs leaves cosetSize e = .ok nl)
    (hne : nl.verifyIndices ≠ [])
    (hsorted : (nl.verifyIndices.map (·.val)).Pairwise (· < ·))
    (hrange : ∀ i ∈ nl.verifyIndices, i.val < 2 ^ h)
    (hbad : ∃ (j p : Nat) (ci v : Felt), nl.verifyIndices[j]? = some ci ∧ p < nc.val ∧
      nl.verifyYValues[j * nc.val + p]? = some v ∧ v ≠ cell ci.val p) :
    Table.decommit H ⟨nc, ⟨⟨Felt.ofNat h, nf⟩, tableRoot H nf h nc.val cell⟩⟩
        nl.verifyIndices nl.verifyYValues auths ≠ .ok () ∨
      Collision H ∨ ManyCollision H ∨ MaskedCollision H := by
  by_cases hdec : Table.decommit H ⟨nc, ⟨⟨Felt.ofNat h, nf⟩, tableRoot H nf h nc.val cell⟩⟩
      nl.verifyIndices nl.verifyYValues auths = .ok ()
  · rcases fri_layer_sound H nf h hh nc cell qs leaves auths cosetSize e nl hnl hne hsorted hrange
      hdec with ⟨hb, _⟩ | hc
    · exfalso
      obtain ⟨j, p, ci, v, h1, h2, h3, h4⟩ := hbad
      have hjl : j < (nl.verifyIndices.map (·.val)).length := by
        rw [List.length_map]; exact (List.getElem?_eq_some_iff.mp h1).1
      have := Proofs.Table.rowValues_getElem? cell nc.val (nl.verifyIndices.map (·.val)) j p hjl h2
      rw [← hb.rows, h3] at this
      have hci : (nl.verifyIndices.map (·.val))[j] = ci.val := by
        have h5 : (nl.verifyIndices.map (·.val))[j]? = some ci.val := by
          rw [List.getElem?_map, h1]; rfl
        exact (List.getElem?_eq_some_iff.mp h5).2
      rw [hci] at this
      exact h4 (Option.some.inj this)
    · exact Or.inr hc
  · exact Or.inl hdec

/-- Rejection of a wrong queried value: a query whose value is not the committed cell at any position
    `(ci, p)` with `q.index = ci·cosetSize + p`. -/
theorem fri_rejects_wrong_query_value (H : Hashes) (nf : Felt) (h : Nat) (hh : h ≤ 250) (nc : Felt)
    (cell : Nat → Nat → Felt) (qs : List LayerQuery) (leaves auths : List Felt)
    (cosetSize e : Felt) (nl : NextLayer)
    (hnl : computeNextLayer qs leaves cosetSize e = .ok nl)
    (hne : nl.verifyIndices ≠ [])
    (hsorted : (nl.verifyIndices.map (·.val)).Pairwise (· < ·))
    (hrange : ∀ i ∈ nl.verifyIndices, i.val < 2 ^ h)
    (hbad : ∃ q ∈ qs, ∀ ci p, ci ∈ nl.verifyIndices → p < cosetSize.val →
      q.index = ci * cosetSize + Felt.ofNat p → q.yValue ≠ cell ci.val p) :
    Table.decommit H ⟨nc, ⟨⟨Felt.ofNat h, nf⟩, tableRoot H nf h nc.val cell⟩⟩
        nl.verifyIndices nl.verifyYValues auths ≠ .ok () ∨
      Collision H ∨ ManyCollision H ∨ MaskedCollision H := by
  by_cases hdec : Table.decommit H ⟨nc, ⟨⟨Felt.ofNat h, nf⟩, tableRoot H nf h nc.val cell⟩⟩
      nl.verifyIndices nl.verifyYValues auths = .ok ()
  · rcases fri_layer_sound H nf h hh nc cell qs leaves auths cosetSize e nl hnl hne hsorted hrange
      hdec with ⟨hb, _⟩ | hc
    · exfalso
      obtain ⟨q, hq, hq'⟩ := hbad
      obtain ⟨ci, p, h1, h2, h3, h4⟩ := hb.queries q hq
      exact hq' ci p h1 h2 h3 h4
    · exact Or.inr hc
  · exact Or.inl hdec

/-- Rejection of a wrong authentication node: the presented nodes do not start with the committed
    authentication path of the folded cosets. -/
theorem fri_rejects_wrong_auth (H : Hashes) (nf : Felt) (h : Nat) (hh : h ≤ 250) (nc : Felt)
    (cell : Nat → Nat → Felt) (qs : List LayerQuery) (leaves auths : List Felt)
    (cosetSize e : Felt) (nl : NextLayer)
    (hnl : computeNextLayer qs leaves cosetSize e = .ok nl)
    (hne : nl.verifyIndices ≠ [])
    (hsorted : (nl.verifyIndices.map (·.val)).Pairwise (· < ·))
    (hrange : ∀ i ∈ nl.verifyIndices, i.val < 2 ^ h)
    (hbad : ¬ authPath H nf h (tableLeaf H nf h nc.val cell) (nl.verifyIndices.map (·.val))
      <+: auths) :
    Table.decommit H ⟨nc, ⟨⟨Felt.ofNat h, nf⟩, tableRoot H nf h nc.val cell⟩⟩
        nl.verifyIndices nl.verifyYValues auths ≠ .ok () ∨
      Collision H ∨ ManyCollision H ∨ MaskedCollision H := by
  by_cases hdec : Table.decommit H ⟨nc, ⟨⟨Felt.ofNat h, nf⟩, tableRoot H nf h nc.val cell⟩⟩
      nl.verifyIndices nl.verifyYValues auths = .ok ()
  · rcases fri_layer_sound H nf h hh nc cell qs leaves auths cosetSize e nl hnl hne hsorted hrange
      hdec with ⟨_, extra, he⟩ | hc
    · exact absurd ⟨extra, he.symm⟩ hbad
    · exact Or.inr hc
  · exact Or.inl hdec

/-- Rejection of a wrong commitment: the honest rows and authentication path of the table `cell`
    against any root other than its commitment are rejected (no collision clause). -/
theorem fri_rejects_wrong_commitment (H : Hashes) (nf : Felt) (h : Nat) (hh : h ≤ 250) (n : Nat)
    (hn : n < 2 ^ 32) (r : Felt) (cell : Nat → Nat → Felt) (Q : List Nat) (extra : List Felt)
    (hne : Q ≠ []) (hsorted : Q.Pairwise (· < ·)) (hrange : ∀ i ∈ Q, i < 2 ^ h)
    (hroot : r ≠ tableRoot H nf h n cell) :
    Table.decommit H ⟨Felt.ofNat n, ⟨⟨Felt.ofNat h, nf⟩, r⟩⟩ (Q.map Felt.ofNat)
      (rowValues cell n Q) (authPath H nf h (tableLeaf H nf h n cell) Q ++ extra) ≠ .ok () := by
  rw [Proofs.FriSound.table_rejects_wrong_root hh n hn r cell Q extra hne hsorted hrange hroot]
  simp

/-! ### all layers of an accepting run -/

/-- sortedness, the `u64` bound and non-emptiness propagate through all layers -/
theorem trace_sorted (H : Hashes) (queries : List Felt) (c : Commitment) (values points : List Felt)
    (w : List LayerWitness) (q : Nat → List LayerQuery) (nl : Nat → NextLayer)
    (ht : AcceptTrace H queries c values points w q nl) (hne : queries ≠ [])
    (hs : (queries.map (·.val)).Pairwise (· < ·)) (hb : ∀ x ∈ queries, x.val < 2 ^ 64) :
    (∀ i, i ≤ (c.config.nLayers - 1).val →
      ((q i).map (·.index.val)).Pairwise (· < ·) ∧ (∀ x ∈ q i, x.index.val < 2 ^ 64) ∧ q i ≠ []) ∧
    (∀ i, i < (c.config.nLayers - 1).val →
      (nl i).verifyIndices ≠ [] ∧ ((nl i).verifyIndices.map (·.val)).Pairwise (· < ·) ∧
      ∀ st, c.config.friStepSizes[i + 1]? = some st → ∀ x ∈ (nl i).verifyIndices,
        ∃ y ∈ q i, x.val = y.index.val / (Felt.pow 2 st.val).val) :=
  ⟨fun i hi => by
      obtain ⟨h1, h2, h3⟩ := Proofs.FriSound.trace_sorted ht hs hb i hi
      exact ⟨h1, h2, h3 hne⟩,
   Proofs.FriSound.trace_verifyIndices ht hne hs hb⟩

/-- range of the indices in every layer, for any bound function `B` that starts above the queries
    and shrinks at most by the coset size per layer (e.g. `B i = 2^(log_input_size - Σ_{j≤i} step_j)`) -/
theorem trace_range (H : Hashes) (queries : List Felt) (c : Commitment) (values points : List Felt)
    (w : List LayerWitness) (q : Nat → List LayerQuery) (nl : Nat → NextLayer)
    (ht : AcceptTrace H queries c values points w q nl) (hne : queries ≠ [])
    (hs : (queries.map (·.val)).Pairwise (· < ·)) (hb : ∀ x ∈ queries, x.val < 2 ^ 64)
    (B : Nat → Nat) (hB0 : ∀ x ∈ queries, x.val < B 0)
    (hB : ∀ i, i < (c.config.nLayers - 1).val → ∀ st, c.config.friStepSizes[i + 1]? = some st →
      B i ≤ B (i + 1) * (Felt.pow 2 st.val).val) :
    (∀ i, i ≤ (c.config.nLayers - 1).val → ∀ x ∈ q i, x.index.val < B i) ∧
    ∀ i, i < (c.config.nLayers - 1).val → ∀ x ∈ (nl i).verifyIndices, x.val < B (i + 1) :=
  Proofs.FriSound.trace_range ht hne hs hb B hB0 hB

/-- **FRI verification is sound layer by layer.**  An accepting run on non-empty, strictly increasing
    query indices `< 2^64` has a trace in which every inner layer `i` whose commitment is the
    commitment of a table `cell` (height `h ≤ 250`, coset indices `< 2^h`, cf. `trace_range`) is bound
    to that table — `LayerBound`: the queried values (for `i = 0`: the input values), the consumed
    sibling leaves and the folded rows are the committed ones, the next layer's values are their folds
    with evaluation point `c.evalPoints[i]`; the consumed authentication nodes are the committed
    path — or there is an explicit collision. -/
theorem fri_verify_sound (H : Hashes) (queries : List Felt) (c : Commitment)
    (values points : List Felt) (w : List LayerWitness)
    (hok : Fri.verify H queries c values points w = .ok ())
    (hne : queries ≠ []) (hs : (queries.map (·.val)).Pairwise (· < ·))
    (hb : ∀ x ∈ queries, x.val < 2 ^ 64) :
    ∃ q nl, AcceptTrace H queries c values points w q nl ∧
      ∀ i, i < (c.config.nLayers - 1).val →
        ∀ (nf : Felt) (h : Nat) (nc : Felt) (cell : Nat → Nat → Felt),
        c.innerLayers[i]? = some ⟨nc, ⟨⟨Felt.ofNat h, nf⟩, tableRoot H nf h nc.val cell⟩⟩ →
        h ≤ 250 → (∀ x ∈ (nl i).verifyIndices, x.val < 2 ^ h) →
        ∃ wi e st, w[i]? = some wi ∧ c.evalPoints[i]? = some e ∧
          c.config.friStepSizes[i + 1]? = some st ∧
          ((LayerBound nc cell (q i) wi.leaves (Felt.pow 2 st.val) e (nl i) ∧
              ∃ extra, wi.auths = authPath H nf h (tableLeaf H nf h nc.val cell)
                ((nl i).verifyIndices.map (·.val)) ++ extra) ∨
            Collision H ∨ ManyCollision H ∨ MaskedCollision H) :=
  Proofs.FriSound.fri_verify_sound queries c values points w hok hne hs hb

/-- … with the range condition derived as well, from any bound function `B` as in `trace_range` with
    `B (i+1) ≤ 2^h_i` (for the honest configuration: `B i = 2^(log_input_size − Σ_{j ≤ i} step_j)`,
    `h_i = log_input_size − Σ_{j ≤ i+1} step_j`). -/
theorem fri_verify_sound_ranged (H : Hashes) (queries : List Felt) (c : Commitment)
    (values points : List Felt) (w : List LayerWitness)
    (hok : Fri.verify H queries c values points w = .ok ())
    (hne : queries ≠ []) (hs : (queries.map (·.val)).Pairwise (· < ·))
    (hb : ∀ x ∈ queries, x.val < 2 ^ 64)
    (B : Nat → Nat) (hB0 : ∀ x ∈ queries, x.val < B 0)
    (hB : ∀ i, i < (c.config.nLayers - 1).val → ∀ st, c.config.friStepSizes[i + 1]? = some st →
      B i ≤ B (i + 1) * (Felt.pow 2 st.val).val) :
    ∃ q nl, AcceptTrace H queries c values points w q nl ∧
      ∀ i, i < (c.config.nLayers - 1).val →
        ∀ (nf : Felt) (h : Nat) (nc : Felt) (cell : Nat → Nat → Felt),
        c.innerLayers[i]? = some ⟨nc, ⟨⟨Felt.ofNat h, nf⟩, tableRoot H nf h nc.val cell⟩⟩ →
        h ≤ 250 → B (i + 1) ≤ 2 ^ h →
        ∃ wi e st, w[i]? = some wi ∧ c.evalPoints[i]? = some e ∧
          c.config.friStepSizes[i + 1]? = some st ∧
          ((LayerBound nc cell (q i) wi.leaves (Felt.pow 2 st.val) e (nl i) ∧
              ∃ extra, wi.auths = authPath H nf h (tableLeaf H nf h nc.val cell)
                ((nl i).verifyIndices.map (·.val)) ++ extra) ∨
            Collision H ∨ ManyCollision H ∨ MaskedCollision H) :=
  Proofs.FriSound.fri_verify_sound_ranged queries c values points w hok hne hs hb B hB0 hB

/-! ### non-vacuity for 1.–3. (model numerals) -/

open Swiftness.Proofs.FriSound (exCommitment) in
/-- `exCommitment` (`Proofs/FriSoundExample.lean`): a one-layer configuration (no inner layers), last
    layer = the constant polynomial `5`.  It is accepted on the query `0` with value `5` at the point
    `3`, so the hypotheses of `verify_accept_shape`, `verify_accept_len`, `verify_accept_layers` are
    satisfiable; -/
example (H : Hashes) : Fri.verify H [0] exCommitment [5] [3] [] = .ok () := by
  have h1 : gatherFirstLayer [0] [5] [3] = .ok [⟨0, 5, 1⟩] := by decide +kernel
  have h2 : verifyLastLayer [⟨0, 5, 1⟩] [5] = .ok () := by decide +kernel
  have h3 : (exCommitment.config.nLayers - 1).val = 0 := by decide +kernel
  have h4 : Felt.ofNat exCommitment.lastLayerCoefficients.length
      = Felt.pow 2 exCommitment.config.logLastLayerDegreeBound.val := by decide +kernel
  rw [verify_ok_iff_trace]
  refine ⟨rfl, by decide, by rw [h3]; decide, h4, fun _ => [⟨0, 5, 1⟩], fun _ => ⟨[], [], [], []⟩,
    h1, ?_, ?_, h2⟩
  · intro i hi; rw [h3] at hi; exact absurd hi (Nat.not_lt_zero _)
  · intro i hi; rw [h3] at hi; exact absurd hi (Nat.not_lt_zero _)

open Swiftness.Proofs.FriSound (exCommitment) in
/-- … and with two coefficients instead of `2^0 = 1` it is rejected by `last_layer_len_exact`. -/
example (H : Hashes) :
    Fri.verify H [0] { exCommitment with lastLayerCoefficients := [5, 0] } [5] [3] [] ≠ .ok () :=
  last_layer_len_exact H _ _ _ _ _ (by decide +kernel) (by decide) (by decide +kernel)

/-! From here on numerals are Mathlib's (field arithmetic). -/
attribute [-instance] Fin.instOfNat
open FoldSpec

/-- The hypotheses of `fri_layer_sound` (and of its rejection forms) are satisfiable: the canonical
    size-8 domain, coset size 2, queries `2, 5` (cosets `1, 2`), any polynomial `cs`, any challenge;
    the table has `2^2` rows of 2 columns, `cell c i = P(pt (2c + i))`; the honest witness. -/
example (H : Hashes) (nf : Felt) (cs : List Felt) (b : Felt) :
    let pt : ℕ → Felt := fun idx => ((3 : Felt) ^ ((P - 1) / 2 ^ (1 + 2))) ^ bitrev (1 + 2) idx
    let cell : ℕ → ℕ → Felt := fun c i => evalL cs (pt (c * 2 ^ 1 + i))
    ∃ (qs : List LayerQuery) (leaves auths : List Felt) (nl : NextLayer),
      computeNextLayer qs leaves ((2 ^ 1 : ℕ) : Felt) b = .ok nl ∧
      nl.verifyIndices ≠ [] ∧ (nl.verifyIndices.map (·.val)).Pairwise (· < ·) ∧
      (∀ i ∈ nl.verifyIndices, i.val < 2 ^ 2) ∧
      Table.decommit H ⟨Felt.ofNat 2, ⟨⟨Felt.ofNat 2, nf⟩,
          tableRoot H nf 2 (Felt.ofNat 2).val cell⟩⟩
        nl.verifyIndices nl.verifyYValues auths = .ok () := by
  intro pt cell
  have h3 : (3 : Felt) ≠ 0 := by decide +kernel
  have hval : (Felt.ofNat 2).val = 2 := by decide +kernel
  have hstep := C06.next_layer_step 1 (le_refl _) (by norm_num) cs b pt
    (fun idx => pow_ne_zero _ (pow_ne_zero _ h3))
    (by
      intro c i hi
      have := C06.domain_layout 1 2 (by norm_num) (by norm_num) 1 c i hi
      simpa [pt] using this)
    [2, 5] [1, 2] (by simp) (by simp) (by simp) (by intro c; simp; omega) []
  have hdec := Proofs.Table.table_complete (H := H) (nf := nf) (h := 2) (by omega) 2 (by omega) cell
    [1, 2] [] (by simp) (by decide) (by decide)
  refine ⟨_, _, authPath H nf 2 (tableLeaf H nf 2 2 cell) [1, 2] ++ [], _, hstep, ?_, ?_, ?_, ?_⟩
  · simp
  · show ([Felt.ofNat 1, Felt.ofNat 2].map (·.val)).Pairwise (· < ·)
    decide +kernel
  · show ∀ i ∈ [Felt.ofNat 1, Felt.ofNat 2], i.val < 2 ^ 2
    intro i hi
    simp only [List.mem_cons, List.not_mem_nil, or_false] at hi
    rcases hi with rfl | rfl <;> decide +kernel
  · rw [hval]
    exact hdec

/-- **An accepted run with an inner layer**, for every `H`, `nf`, `c0`, `c1`, `b`: input `c0 + c1·X` on
    the size-8 domain, queries `2, 5`, one fold of step 1 committed as a 4×2 table, last layer the
    constant `2·(c0 + b·c1)` (`Proofs/FriSoundExample.lean`) — so the hypotheses of
    `verify_accept_layers` and of `fri_verify_sound` (non-empty, sorted, `< 2^64`) are satisfiable
    with a non-trivial trace, and `innerLayers[0]` has the form required there with `h = 2`. -/
example (H : Hashes) (nf c0 c1 b : Felt) :
    Fri.verify H [((2 : ℕ) : Felt), ((5 : ℕ) : Felt)] (Proofs.FriSound.exCom H nf c0 c1 b)
        [evalL [c0, c1] (Proofs.FriSound.exPt 2), evalL [c0, c1] (Proofs.FriSound.exPt 5)]
        [3 * Proofs.FriSound.exPt 2, 3 * Proofs.FriSound.exPt 5]
        (Proofs.FriSound.exWitness H nf c0 c1) = .ok () ∧
      [((2 : ℕ) : Felt), ((5 : ℕ) : Felt)] ≠ [] ∧
      ([((2 : ℕ) : Felt), ((5 : ℕ) : Felt)].map (·.val)).Pairwise (· < ·) ∧
      (∀ x ∈ [((2 : ℕ) : Felt), ((5 : ℕ) : Felt)], x.val < 2 ^ 64) ∧
      (Proofs.FriSound.exCom H nf c0 c1 b).innerLayers[0]? =
        some ⟨Felt.ofNat 2, ⟨⟨Felt.ofNat 2, nf⟩,
          tableRoot H nf 2 (Felt.ofNat 2).val (Proofs.FriSound.exCell c0 c1)⟩⟩ := by
  have hval : (Felt.ofNat 2).val = 2 := by decide +kernel
  refine ⟨Proofs.FriSound.example_accepted H nf c0 c1 b, by simp, ?_, ?_, ?_⟩
  · show ([Felt.ofNat 2, Felt.ofNat 5].map (·.val)).Pairwise (· < ·)
    decide +kernel
  · show ∀ x ∈ [Felt.ofNat 2, Felt.ofNat 5], x.val < 2 ^ 64
    intro x hx
    simp only [List.mem_cons, List.not_mem_nil, or_false] at hx
    rcases hx with rfl | rfl <;> decide +kernel
  · rw [hval]; rfl

/-! ## 4. evaluation point -/

/-- Changing the evaluation point changes the fold of a pair — unless `x_inv = 0` or the two values
    are equal (the odd part vanishes); these are the only exceptions. -/
theorem eval_point_sensitive (fx fmx e e' xinv : Felt) :
    Fri.formula2 fx fmx e xinv = Fri.formula2 fx fmx e' xinv ↔ (e = e' ∨ xinv = 0 ∨ fx = fmx) :=
  Proofs.FriSound.eval_point_sensitive fx fmx e e' xinv

/-- Coset sizes `2^k`, `k = 1 … 4`: by C06 `fold_identity` the fold of the values of `P` on the coset
    of `x` is `2^k · Σ_{j<2^k} e^j · P_j(x^(2^k))`, a polynomial of degree `< 2^k` in the evaluation
    point `e`.  Hence at most `2^k - 1` evaluation points can yield one and the same folded value —
    unless `P_j(x^(2^k)) = 0` for all `1 ≤ j < 2^k` (the fold does not depend on `e`). -/
theorem eval_point_sensitive_coset (k : ℕ) (hk1 : 1 ≤ k) (hk4 : k ≤ 4) (cs : List Felt) (x : Felt)
    (hx : x ≠ 0) (S : Finset Felt) (v : Felt)
    (hS : ∀ e ∈ S,
      Fri.friFormula (List.ofFn (fun j : Fin (2 ^ k) => evalL cs (x * friGroup.getD j.val 0)))
        e x⁻¹ ((2 ^ k : ℕ) : Felt) = .ok v)
    (hcard : 2 ^ k ≤ S.card) :
    ∀ j, 1 ≤ j → j < 2 ^ k → evalL (split k cs j) (x ^ 2 ^ k) = 0 :=
  Proofs.FriSound.eval_point_sensitive_coset k hk1 hk4 cs x hx S v hS hcard

/-! ## 5. last layer -/

/-- (C06) one coefficient changed: the two lists evaluate differently at every non-zero point, so
    with at least one query at most one of them is accepted. -/
theorem last_layer_coeff_sensitive (cs cs' : List Felt) (j : ℕ) (δ : Felt)
    (hlen : cs'.length = cs.length) (hj : j < cs.length) (hsame : ∀ i, i ≠ j → cs'[i]? = cs[i]?)
    (hdiff : cs'[j]? = some (cs[j] + δ)) (hδ : δ ≠ 0) :
    (∀ y : Felt, evalL cs' y = evalL cs y + δ * y ^ j) ∧
    (∀ y : Felt, y ≠ 0 → evalL cs' y ≠ evalL cs y) ∧
    ∀ qs : List LayerQuery, qs ≠ [] → (∀ q ∈ qs, q.xInvValue ≠ 0) →
      ¬ (Fri.verifyLastLayer qs cs = .ok () ∧ Fri.verifyLastLayer qs cs' = .ok ()) :=
  C06.last_layer_coeff_sensitive cs cs' j δ hlen hj hsame hdiff hδ

/-- acceptance of the last layer: no x-inverse is zero and the polynomial takes the query values -/
theorem last_layer_accept (qs : List LayerQuery) (cs : List Felt)
    (h : Fri.verifyLastLayer qs cs = .ok ()) :
    ∀ q ∈ qs, q.xInvValue ≠ 0 ∧ evalL cs (q.xInvValue)⁻¹ = q.yValue :=
  Proofs.FriSound.verifyLastLayer_ok_imp qs cs h

/-- the bridge to Mathlib polynomials used below -/
theorem evalL_eq_polynomial_eval (cs : List Felt) (x : Felt) :
    evalL cs x = (Proofs.FriSound.ofCoeffs cs).eval x ∧
    (∀ i, (Proofs.FriSound.ofCoeffs cs).coeff i = cs.getD i 0) ∧
    (cs ≠ [] → (Proofs.FriSound.ofCoeffs cs).natDegree < cs.length) :=
  ⟨(Proofs.FriSound.eval_ofCoeffs cs x).symm, Proofs.FriSound.coeff_ofCoeffs cs,
   Proofs.FriSound.natDegree_ofCoeffs_lt cs⟩

/-- **The last layer is binding.**  Two coefficient lists of the same length, both accepted on the
    same queries: their difference polynomial vanishes at every query point, and if the lists differ
    the queries contain fewer distinct points than the common length (`2^bound`). -/
theorem last_layer_binding (cs cs' : List Felt) (qs : List LayerQuery)
    (hlen : cs.length = cs'.length)
    (h1 : Fri.verifyLastLayer qs cs = .ok ()) (h2 : Fri.verifyLastLayer qs cs' = .ok ()) :
    (∀ q ∈ qs, evalL (List.zipWith (· - ·) cs cs') (q.xInvValue)⁻¹ = 0) ∧
    (cs ≠ cs' → (qs.map (·.xInvValue)).toFinset.card < cs.length) :=
  Proofs.FriSound.last_layer_binding cs cs' qs hlen h1 h2

/-- … so with at least `2^bound` distinct query points the accepted coefficient list is unique. -/
theorem last_layer_unique (cs cs' : List Felt) (qs : List LayerQuery)
    (hlen : cs.length = cs'.length)
    (hmany : cs.length ≤ (qs.map (·.xInvValue)).toFinset.card)
    (h1 : Fri.verifyLastLayer qs cs = .ok ()) (h2 : Fri.verifyLastLayer qs cs' = .ok ()) :
    cs = cs' := by
  by_contra hne
  have := (last_layer_binding cs cs' qs hlen h1 h2).2 hne
  omega

/-! ## 6. degree -/

/-- `foldCoeff k cs b m = 2^k · Σ_{j<2^k} b^j · cs[j + 2^k·m]` is the `m`-th coefficient of the folded
    polynomial: the list of the first `M` of them (`2^k·M ≥ |cs|`) evaluates to
    `2^k · Σ_j b^j · P_j(y)`, the right-hand side of C06 `fold_identity`. -/
theorem foldCoeff_spec (k : ℕ) (cs : List Felt) (b : Felt) (M : ℕ) (hM : cs.length ≤ 2 ^ k * M)
    (y : Felt) :
    evalL ((List.range M).map (Proofs.FriSound.foldCoeff k cs b)) y
      = ((2 ^ k : ℕ) : Felt) * ∑ j ∈ Finset.range (2 ^ k), b ^ j * evalL (split k cs j) y :=
  Proofs.FriSound.foldCoeff_spec k cs b M hM y

theorem foldCoeff_def (k : ℕ) (cs : List Felt) (b : Felt) (m : ℕ) :
    Proofs.FriSound.foldCoeff k cs b m
      = ((2 ^ k : ℕ) : Felt) * ∑ j ∈ Finset.range (2 ^ k), b ^ j * cs.getD (j + 2 ^ k * m) 0 := rfl

/-- **One folding step preserves "degree ≥ bound" for all but `2^k - 1` challenges.**  If `cs` has a
    non-zero coefficient at a position `i ≥ 2^k·d` (degree at or above the bound `2^k·d`), then the
    challenges `b` for which the folded polynomial has all coefficients at positions `≥ d` zero
    (degree below the bound `d`) number at most `2^k - 1`. -/
theorem fold_degree (k d : ℕ) (cs : List Felt) (i : ℕ) (hi : 2 ^ k * d ≤ i)
    (hci : cs.getD i 0 ≠ 0) (S : Finset Felt)
    (hS : ∀ b ∈ S, ∀ m, d ≤ m → Proofs.FriSound.foldCoeff k cs b m = 0) : S.card ≤ 2 ^ k - 1 :=
  Proofs.FriSound.fold_degree Proofs.FriSound.two_felt_ne_zero k d cs i hi hci S hS

/-- non-vacuity: `cs = [0, 0, 0, 1]` (`X^3`), `k = 1`, `d = 1`: position `3 ≥ 2`; the fold is
    `2·(0 + b·X)`, whose coefficient at position `1` vanishes only for `b = 0`. -/
example : ([0, 0, 0, 1] : List Felt).getD 3 0 ≠ 0 ∧ 2 ^ 1 * 1 ≤ 3 ∧
    Proofs.FriSound.foldCoeff 1 ([0, 0, 0, 1] : List Felt) 5 1 = 10 := by
  refine ⟨by decide +kernel, by decide, by decide +kernel⟩

/-! ## 7. no query is skipped

  Items 1.–6. speak about the rows and values the verifier DOES handle.  Here: every query given to a
  successful fold step / layer chain / `Fri.verify` is handled, whatever the LENGTH of the prover's
  sibling witness (a loop bounded by the witness length would silently drop trailing queries, see
  `computeNextLayerSkipping` below).  Only hypothesis: the indices do not wrap in the field
  (`q.index + cosetSize ≤ P`, resp. `+ 16`; real indices are `< 2^64`) — it is needed, see
  `covers_needs_nowrap`.  Nothing is assumed about the coset size, the order of the queries or the
  witness. -/

/-- **No query is skipped by a fold step.**  If `compute_next_layer` succeeds then for every input
    query `q` the coset index `q.index / cosetSize` is the index of a next-layer query and is one of the
    indices handed to the table decommitment. -/
theorem computeNextLayer_covers (qs : List LayerQuery) (sibs : List Felt) (cs e : Felt)
    (r : NextLayer) (h : computeNextLayer qs sibs cs e = .ok r)
    (hb : ∀ q ∈ qs, q.index.val + cs.val ≤ P) :
    ∀ q ∈ qs, (∃ q' ∈ r.nextQueries, q'.index.val = q.index.val / cs.val) ∧
      Felt.ofNat (q.index.val / cs.val) ∈ r.verifyIndices :=
  Proofs.FriNoSkip.computeNextLayer_covers qs sibs cs e r h hb

/-- … in particular for indices `< 2^64` (no hypothesis on the coset size). -/
theorem computeNextLayer_covers_of_lt (qs : List LayerQuery) (sibs : List Felt) (cs e : Felt)
    (r : NextLayer) (h : computeNextLayer qs sibs cs e = .ok r)
    (hb : ∀ q ∈ qs, q.index.val < 2 ^ 64) :
    ∀ q ∈ qs, (∃ q' ∈ r.nextQueries, q'.index.val = q.index.val / cs.val) ∧
      Felt.ofNat (q.index.val / cs.val) ∈ r.verifyIndices :=
  Proofs.FriNoSkip.computeNextLayer_covers_of_lt qs sibs cs e r h hb

/-- **The queried value itself is Merkle-checked and folded.**  For every input query `q` there is a
    row number `j`: the `j`-th coset index handed to the table decommitment is `q.index / cosetSize`,
    `q.yValue` sits at offset `q.index % cosetSize` of the `j`-th row of the values handed to the table
    decommitment, and the `j`-th next-layer query has that index and is `fri_formula` of that row. -/
theorem computeNextLayer_row_of_query (qs : List LayerQuery) (sibs : List Felt) (cs e : Felt)
    (r : NextLayer) (h : computeNextLayer qs sibs cs e = .ok r)
    (hb : ∀ q ∈ qs, q.index.val + cs.val ≤ P) :
    ∀ q ∈ qs, ∃ j q', r.verifyIndices[j]? = some (Felt.ofNat (q.index.val / cs.val)) ∧
      r.verifyYValues[j * cs.val + q.index.val % cs.val]? = some q.yValue ∧
      r.nextQueries[j]? = some q' ∧ q'.index.val = q.index.val / cs.val ∧
      ∃ xinv, friFormula ((r.verifyYValues.drop (j * cs.val)).take cs.val) e xinv cs = .ok q'.yValue ∧
        q'.xInvValue = Felt.pow xinv cs.val :=
  Proofs.FriNoSkip.computeNextLayer_row_of_query qs sibs cs e r h hb

/-- The no-wrap hypothesis cannot be dropped: coset size 2, queries of index `P-1` and `0`, no sibling
    leaf — accepted, but the query `0` is consumed as the sibling "`(P-1)+1`" of the first one and its
    own coset `0` is not among the coset indices. -/
theorem covers_needs_nowrap :
    ∃ r, computeNextLayer [⟨Felt.ofNat (P - 1), Felt.ofNat 5, Felt.ofNat 1⟩,
        ⟨Felt.ofNat 0, Felt.ofNat 7, Felt.ofNat 1⟩] [] (Felt.ofNat 2) (Felt.ofNat 3) = .ok r ∧
      Felt.ofNat ((Felt.ofNat 0 : Felt).val / (Felt.ofNat 2 : Felt).val) ∉ r.verifyIndices :=
  Proofs.FriNoSkip.covers_needs_nowrap

/-- `Proofs.FriNoSkip.cosetProd n steps` is the product of the first `n` coset sizes
    `(Felt.pow 2 step.val).val`; for steps that do not wrap it is `2^(sum of the steps)`. -/
theorem cosetProd_eq_pow (n : ℕ) (steps : List Felt) (h : ∀ st ∈ steps.take n, st.val ≤ 251) :
    Proofs.FriNoSkip.cosetProd n steps = 2 ^ ((steps.take n).map (·.val)).sum :=
  Proofs.FriNoSkip.cosetProd_eq_pow n steps h

/-- **No query is skipped through the layers.**  If `fri_verify_layers` succeeds, every query entering
    the first of the `n` layers has its image (index divided by the product of the `n` coset sizes)
    among the indices of the resulting last-layer queries. -/
theorem verifyLayers_covers (H : Hashes) (n : ℕ) (cs : List Table.Commitment)
    (ws : List LayerWitness) (es steps : List Felt) (qs last : List LayerQuery)
    (h : verifyLayers H n cs ws es steps qs = .ok last) (hb : ∀ q ∈ qs, q.index.val + 16 ≤ P) :
    ∀ q ∈ qs, ∃ q' ∈ last, q'.index.val = q.index.val / Proofs.FriNoSkip.cosetProd n steps :=
  Proofs.FriNoSkip.verifyLayers_covers H n cs ws es steps qs last h hb

/-- **Every query reaches the last-layer check.**  If `Fri.verify` accepts, then with `fq` the
    first-layer queries and `last` the last-layer queries of the run, for every query index `qi` its
    image is the index of a query `q' ∈ last` to which the last-layer check was applied:
    `q'.xInvValue ≠ 0` and `P_last(1/q'.xInvValue) = q'.yValue` (the facts `last_layer_accept` /
    `last_layer_binding` are about). -/
theorem verify_checks_every_query (H : Hashes) (queries : List Felt) (c : Commitment)
    (values points : List Felt) (w : List LayerWitness)
    (hok : Fri.verify H queries c values points w = .ok ())
    (hb : ∀ qi ∈ queries, qi.val + 16 ≤ P) :
    ∃ fq last, gatherFirstLayer queries values points = .ok fq ∧
      verifyLayers H (c.config.nLayers - 1).val c.innerLayers w c.evalPoints
        (c.config.friStepSizes.drop 1) fq = .ok last ∧
      verifyLastLayer last c.lastLayerCoefficients = .ok () ∧
      ∀ qi ∈ queries, ∃ q' ∈ last,
        q'.index.val = qi.val / Proofs.FriNoSkip.cosetProd (c.config.nLayers - 1).val
          (c.config.friStepSizes.drop 1) ∧
        q'.xInvValue ≠ 0 ∧ evalL c.lastLayerCoefficients (q'.xInvValue)⁻¹ = q'.yValue :=
  Proofs.FriNoSkip.verify_checks_every_query H queries c values points w hok hb

/-- non-vacuity: step 1 (coset size 2), queries `2` and `5` (cosets `1` and `2`), sibling leaves `9`
    (index 3) and `11` (index 4): accepted, the hypothesis of `computeNextLayer_covers` holds and the
    next layer has exactly the two images `1 = 2/2` and `2 = 5/2`. -/
example :
    (∀ q ∈ [(⟨Felt.ofNat 2, Felt.ofNat 5, Felt.ofNat 1⟩ : LayerQuery),
        ⟨Felt.ofNat 5, Felt.ofNat 7, Felt.ofNat 1⟩], q.index.val + (Felt.ofNat 2 : Felt).val ≤ P) ∧
    ∃ r, computeNextLayer [⟨Felt.ofNat 2, Felt.ofNat 5, Felt.ofNat 1⟩,
        ⟨Felt.ofNat 5, Felt.ofNat 7, Felt.ofNat 1⟩] [Felt.ofNat 9, Felt.ofNat 11]
        (Felt.ofNat 2) (Felt.ofNat 3) = .ok r ∧
      r.nextQueries.map (·.index.val) = [1, 2] ∧ r.verifyIndices = [Felt.ofNat 1, Felt.ofNat 2] ∧
      r.verifyYValues = [Felt.ofNat 5, Felt.ofNat 9, Felt.ofNat 11, Felt.ofNat 7] := by
  refine ⟨by decide +kernel, ?_⟩
  have h : (match computeNextLayer [⟨Felt.ofNat 2, Felt.ofNat 5, Felt.ofNat 1⟩,
        ⟨Felt.ofNat 5, Felt.ofNat 7, Felt.ofNat 1⟩] [Felt.ofNat 9, Felt.ofNat 11]
        (Felt.ofNat 2) (Felt.ofNat 3) with
      | .ok r => decide (r.nextQueries.map (·.index.val) = [1, 2] ∧
          r.verifyIndices = [Felt.ofNat 1, Felt.ofNat 2] ∧
          r.verifyYValues = [Felt.ofNat 5, Felt.ofNat 9, Felt.ofNat 11, Felt.ofNat 7])
      | _ => false) = true := by decide +kernel
  split at h
  · next r hr => exact ⟨r, hr, of_decide_eq_true h⟩
  · cases h

/-- NEGATIVE example (not the model): `compute_next_layer` with the while-loop bounded by
    `(queries.len() + sibling_witness.len()) / coset_size` iterations, as a seeded defect did — when
    the bound is reached the queries still pending are silently dropped. -/
def nextLayerLoopSkipping (cs e : Felt) : ℕ → List LayerQuery → List Felt → List LayerQuery →
    List Felt → List Felt → Outcome NextLayer
  | 0, _, sibs, nq, vi, vy => .ok ⟨nq.reverse, vi.reverse, vy, sibs⟩
  | k + 1, [], sibs, nq, vi, vy => nextLayerLoopSkipping cs e k [] sibs nq vi vy
  | k + 1, q :: qs, sibs, nq, vi, vy =>
    let ci := Felt.ofNat (q.index.val / cs.val)
    match cosetElements (q :: qs) sibs cs (ci * cs) with
    | .ok r =>
      match friFormula r.elements e r.xInv cs with
      | .ok y => nextLayerLoopSkipping cs e k r.queries r.siblings
          (⟨ci, y, Felt.pow r.xInv cs.val⟩ :: nq) (ci :: vi) (vy ++ r.elements)
      | .err x => .err x
      | .panic s => .panic s
    | .err x => .err x
    | .panic s => .panic s

def computeNextLayerSkipping (qs : List LayerQuery) (sibs : List Felt) (cs e : Felt) :
    Outcome NextLayer :=
  nextLayerLoopSkipping cs e ((qs.length + sibs.length) / cs.val) qs sibs [] [] []

/-- The conclusion of `computeNextLayer_covers` FAILS for that loop: coset size 2, queries `0, 1`
    (coset `0`, complete) and `4` (coset `2`, needs the sibling leaf of index 5), EMPTY sibling
    witness.  The bounded loop runs `(3 + 0) / 2 = 1` iteration and accepts with the single coset `0`:
    the query `4` is dropped, its coset `2` is absent.  The real `compute_next_layer` rejects this
    input, as `computeNextLayer_covers` demands. -/
example :
    (∀ q ∈ [(⟨Felt.ofNat 0, Felt.ofNat 5, Felt.ofNat 1⟩ : LayerQuery),
        ⟨Felt.ofNat 1, Felt.ofNat 6, Felt.ofNat 1⟩, ⟨Felt.ofNat 4, Felt.ofNat 7, Felt.ofNat 1⟩],
        q.index.val + (Felt.ofNat 2 : Felt).val ≤ P) ∧
    (∃ r, computeNextLayerSkipping [⟨Felt.ofNat 0, Felt.ofNat 5, Felt.ofNat 1⟩,
        ⟨Felt.ofNat 1, Felt.ofNat 6, Felt.ofNat 1⟩, ⟨Felt.ofNat 4, Felt.ofNat 7, Felt.ofNat 1⟩] []
        (Felt.ofNat 2) (Felt.ofNat 3) = .ok r ∧
      r.verifyIndices = [Felt.ofNat 0] ∧ r.nextQueries.map (·.index.val) = [0] ∧
      Felt.ofNat ((Felt.ofNat 4 : Felt).val / (Felt.ofNat 2 : Felt).val) ∉ r.verifyIndices) ∧
    computeNextLayer [⟨Felt.ofNat 0, Felt.ofNat 5, Felt.ofNat 1⟩,
        ⟨Felt.ofNat 1, Felt.ofNat 6, Felt.ofNat 1⟩, ⟨Felt.ofNat 4, Felt.ofNat 7, Felt.ofNat 1⟩] []
        (Felt.ofNat 2) (Felt.ofNat 3) = .err "SiblingWitnessTooShort" := by
  refine ⟨by decide +kernel, ?_, ?_⟩
  · have h : (match computeNextLayerSkipping [⟨Felt.ofNat 0, Felt.ofNat 5, Felt.ofNat 1⟩,
          ⟨Felt.ofNat 1, Felt.ofNat 6, Felt.ofNat 1⟩, ⟨Felt.ofNat 4, Felt.ofNat 7, Felt.ofNat 1⟩] []
          (Felt.ofNat 2) (Felt.ofNat 3) with
        | .ok r => decide (r.verifyIndices = [Felt.ofNat 0] ∧ r.nextQueries.map (·.index.val) = [0] ∧
            Felt.ofNat ((Felt.ofNat 4 : Felt).val / (Felt.ofNat 2 : Felt).val) ∉ r.verifyIndices)
        | _ => false) = true := by decide +kernel
    split at h
    · next r hr => exact ⟨r, hr, of_decide_eq_true h⟩
    · cases h
  · have h : (match computeNextLayer [⟨Felt.ofNat 0, Felt.ofNat 5, Felt.ofNat 1⟩,
          ⟨Felt.ofNat 1, Felt.ofNat 6, Felt.ofNat 1⟩, ⟨Felt.ofNat 4, Felt.ofNat 7, Felt.ofNat 1⟩] []
          (Felt.ofNat 2) (Felt.ofNat 3) with
        | .err x => decide (x = "SiblingWitnessTooShort")
        | _ => false) = true := by decide +kernel
    split at h
    · next x hx => rw [hx, of_decide_eq_true h]
    · cases h

/- UNPROVED (the probabilistic part of C07; NOT provable in this development)

   Statement.  Let the verifier's evaluation points `e_0, …, e_{m-1}` and query indices be drawn
   as in the protocol (here: outputs of the transcript hash, modelled as a random oracle), and let
   the function committed as layer 0 be at distance `≥ δ` from every polynomial of degree
   `< 2^(Σ steps + bound)`.  Then
       Pr[ Fri.verify … = .ok () ]  ≤  (m · (2^maxstep − 1) + ε_prox) / |F|  +  (1 − δ')^{n_queries}.

   What is proved towards it:
   * `fold_degree`: for an input that IS a polynomial of too high degree, each folding step keeps the
     degree at or above the bound except for `≤ 2^k − 1` of the `|F|` challenges;
   * `fri_verify_sound` + `LayerBound.fold`: every next-layer value is the fold of a committed row;
   * `last_layer_binding`: the last layer is a polynomial of degree `< 2^bound` determined by
     `2^bound` distinct query points.

   What is missing:
   (a) the proximity version of `fold_degree` (a function FAR from low degree folds to a function far
       from low degree, for most challenges — the FRI "distance preservation" lemma; `fold_degree`
       covers only exact polynomials);
   (b) the counting argument turning "far from low degree" into a per-query rejection probability
       (consistency of committed layers along a random query path);
   (c) any probability space: the transcript hash is an arbitrary function `H : Hashes` here, so "for
       most challenges" cannot be turned into "except with probability …" (random-oracle step).
   None of (a)–(c) is claimed.
-/

end Swiftness.C07
