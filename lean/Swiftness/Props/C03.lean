/-
  C03 (the provable part) — the verdict belongs to one layout, and the returned pair is the pair
  of Pedersen hash chains of the program cells and of the output cells of the public memory.

  "… a verifier built for another layout … rejects it …  The returned pair equals the Pedersen hash
  chain of the program cells and of the output cells of the proof's public memory, and the verdict
  is a function of the proof value."

  Theorems are for `L := LayoutData.ops D H` with ARBITRARY layout data `D` (the six static layouts
  are instances: their `LayoutData` is read out of the Rust sources by the translator on every
  run and fed to the same generic code, `Model/LayoutStatic.lean`) and arbitrary hashes `H`.
  What is NOT covered: the dynamic layout's `validate_public_input` / `verify_public_input`
  (no `LayoutData` model; `layout_codes_distinct` does include its code), and the statement that
  two DIFFERENT proofs of the same statement exist or not (outside the scope of a verifier model).
  Helper lemmas: `Proofs/PipelineLayout.lean`, `Proofs/PipelineTrailing.lean`.
-/
import Swiftness.Proofs.PipelineLayout
import Swiftness.Proofs.PipelineTrailing
import Swiftness.Proofs.PipelineExample
import Swiftness.Generated.Consts

namespace Swiftness.C03

open Swiftness Swiftness.LayoutData

variable {D : LayoutData} {H : Hashes} {stone6 : Bool} {p : Stark.Proof} {sec : Felt}

/-! ## 1. the layout code -/

/-- An accepted proof carries the layout code and the segment count of the layout the verifier was
    built for. -/
theorem accept_layout_code {r : Felt × Felt}
    (hok : Stark.verify (D.ops H) H stone6 p sec = .ok r) :
    p.publicInput.layout = Felt.ofNat (D.constD "LAYOUT_CODE") ∧
    p.publicInput.segments.length = D.constD "SEG_N_SEGMENTS" := by
  obtain ⟨⟨d, _, hv⟩, _⟩ := Proofs.Pipeline.static_accept_elim hok
  obtain ⟨_, _, h3, _, _, h6, _⟩ := Proofs.Pipeline.validatePublicInput_ok_elim hv
  exact ⟨h6, h3⟩

/-- … together with everything else `validate_public_input` checks, for the domains of the
    proof's own configuration: step-count bound, trace length = steps × CPU component size (in the
    field), range-check bounds, the output segment's size, and every builtin's `uses ≤ copies`. -/
theorem accept_public_input_valid {r : Felt × Felt}
    (hok : Stark.verify (D.ops H) H stone6 p sec = .ok r) :
    ∃ d, StarkDomains.new p.config.logTraceDomainSize p.config.logNCosets = .ok d ∧
    p.publicInput.logNSteps.val < D.MAX_LOG_N_STEPS ∧
    Felt.pow 2 p.publicInput.logNSteps.val * Felt.ofNat (D.constD "CPU_COMPONENT_HEIGHT") *
      Felt.ofNat (D.constD "CPU_COMPONENT_STEP") = d.traceDomainSize ∧
    p.publicInput.segments.length = D.constD "SEG_N_SEGMENTS" ∧
    p.publicInput.rangeCheckMin.val < p.publicInput.rangeCheckMax.val ∧
    p.publicInput.rangeCheckMax.val ≤ D.MAX_RANGE_CHECK ∧
    p.publicInput.layout = Felt.ofNat (D.constD "LAYOUT_CODE") ∧
    ∃ out, seg? p.publicInput (D.constD "SEG_OUTPUT") = some out ∧
      (out.stopPtr - out.beginAddr).val ≤ U128_MAX ∧
      builtinsOK p.publicInput d.traceDomainSize D.builtins = .ok () := by
  obtain ⟨⟨d, hd, hv⟩, _⟩ := Proofs.Pipeline.static_accept_elim hok
  exact ⟨d, hd, Proofs.Pipeline.validatePublicInput_ok_elim hv⟩

/-- No proof is accepted by the verifiers of two layouts with different layout codes (whatever the
    hash functions, Stone version and security level each of them uses). -/
theorem no_double_accept {D₁ D₂ : LayoutData} {H₁ H₂ : Hashes} {s₁ s₂ : Bool} {sec₁ sec₂ : Felt}
    {r₁ r₂ : Felt × Felt}
    (hne : Felt.ofNat (D₁.constD "LAYOUT_CODE") ≠ Felt.ofNat (D₂.constD "LAYOUT_CODE"))
    (h₁ : Stark.verify (D₁.ops H₁) H₁ s₁ p sec₁ = .ok r₁) :
    Stark.verify (D₂.ops H₂) H₂ s₂ p sec₂ ≠ .ok r₂ := fun h₂ =>
  hne ((accept_layout_code h₁).1.symm.trans (accept_layout_code h₂).1)

/-- rejection form: a verifier built for a layout with another code does not accept -/
theorem other_layout_rejects {D' : LayoutData} {r : Felt × Felt}
    (hok : Stark.verify (D.ops H) H stone6 p sec = .ok r)
    (hne : Felt.ofNat (D.constD "LAYOUT_CODE") ≠ Felt.ofNat (D'.constD "LAYOUT_CODE")) :
    ∀ r', Stark.verify (D'.ops H) H stone6 p sec ≠ .ok r' := fun _ =>
  no_double_accept hne hok

open Swiftness.Gen.Layout in
/-- The seven layout codes translated from the Rust sources are pairwise distinct field elements
    (and are below the field prime, so they are distinct as numbers too). -/
theorem layout_codes_distinct :
    ([dex.LAYOUT_CODE, dynamic.LAYOUT_CODE, recursive.LAYOUT_CODE,
      recursive_with_poseidon.LAYOUT_CODE, small.LAYOUT_CODE, starknet.LAYOUT_CODE,
      starknet_with_keccak.LAYOUT_CODE].map Felt.ofNat).Pairwise (· ≠ ·) ∧
    ∀ c ∈ [dex.LAYOUT_CODE, dynamic.LAYOUT_CODE, recursive.LAYOUT_CODE,
      recursive_with_poseidon.LAYOUT_CODE, small.LAYOUT_CODE, starknet.LAYOUT_CODE,
      starknet_with_keccak.LAYOUT_CODE], c < P := by
  decide +kernel

/-! ## 2. the returned pair -/

/-- An accepted proof returns `(program hash, output hash)` where, with
    `programLen = initial_ap - 2 - initial_pc` and `outputLen = output_stop - output_begin`
    (field differences read as natural numbers):
    * there are no continuous pages, `initial_pc = INITIAL_PC`, `final_pc = INITIAL_PC + 4`,
      `initial_ap, final_ap < MAX_ADDRESS`;
    * `programLen + outputLen ≤ |main page|` (and `< 2^64`);
    * main-page cell `i < programLen` is at address `INITIAL_PC + i`, and cell
      `|main page| - outputLen + i` (`i < outputLen`) is at address `output_begin + i`;
    * the first component is the Pedersen chain `H(…H(H(0, v₀), v₁)…, n)` of the first `programLen`
      main-page values, the second the chain of the last `outputLen`.
    (`Proofs.Pipeline.PublicMemoryOK` is the record of exactly these facts.) -/
theorem returned_pair_spec {a b : Felt}
    (hok : Stark.verify (D.ops H) H stone6 p sec = .ok (a, b)) :
    ∃ prog exec out,
      seg? p.publicInput (D.constD "SEG_PROGRAM") = some prog ∧
      seg? p.publicInput (D.constD "SEG_EXECUTION") = some exec ∧
      seg? p.publicInput (D.constD "SEG_OUTPUT") = some out ∧
      (exec.beginAddr.val < D.MAX_ADDRESS ∧ exec.stopPtr.val < D.MAX_ADDRESS) ∧
      p.publicInput.continuousPageHeaders = [] ∧
      (prog.beginAddr = Felt.ofNat D.INITIAL_PC ∧
        prog.stopPtr = Felt.ofNat D.INITIAL_PC + Felt.ofNat 4) ∧
      (let programLen := (exec.beginAddr - Felt.ofNat 2 - prog.beginAddr).val
       let outputLen := (out.stopPtr - out.beginAddr).val
       let page := p.publicInput.mainPage
       programLen + outputLen ≤ page.length ∧ programLen + outputLen < 2 ^ 64 ∧
       (∀ i, i < programLen → ∃ cell, page[i]? = some cell ∧
          cell.address = Felt.ofNat D.INITIAL_PC + Felt.ofNat i) ∧
       (∀ i, i < outputLen → ∃ cell, page[page.length - outputLen + i]? = some cell ∧
          cell.address = out.beginAddr + Felt.ofNat i) ∧
       a = hashChain H ((page.take programLen).map (·.value)) ∧
       b = hashChain H ((page.drop (page.length - outputLen)).map (·.value))) := by
  obtain ⟨_, hv⟩ := Proofs.Pipeline.static_accept_elim hok
  obtain ⟨prog, exec, out, M⟩ := Proofs.Pipeline.verifyPublicInput_ok_elim hv
  exact ⟨prog, exec, out, M.segProgram, M.segExecution, M.segOutput, ⟨M.initialAp, M.finalAp⟩,
    M.noContinuousPages, ⟨M.initialPc, M.finalPc⟩, M.fits, M.fits64, M.programAddr, M.outputAddr,
    M.programHash, M.outputHash⟩

/-- the Pedersen chain written out for short lists -/
example (v₀ v₁ : Felt) :
    hashChain H [v₀, v₁] = H.pedersen (H.pedersen (H.pedersen 0 v₀) v₁) (Felt.ofNat 2) := rfl

/-- The returned pair does not depend on anything but the public input: two accepted proofs (under
    any configuration, commitments, witnesses, security levels, Stone versions) with the same
    public input return the same pair. -/
theorem returned_pair_function_of_public_input {p' : Stark.Proof} {s' : Bool} {sec' : Felt}
    {r r' : Felt × Felt}
    (hok : Stark.verify (D.ops H) H stone6 p sec = .ok r)
    (hok' : Stark.verify (D.ops H) H s' p' sec' = .ok r')
    (hpi : p.publicInput = p'.publicInput) : r = r' := by
  have h := (Proofs.Pipeline.static_accept_elim hok).2
  have h' := (Proofs.Pipeline.static_accept_elim hok').2
  rw [hpi, h'] at h
  injection h with h
  exact h.symm

/-! ## 3. the verdict is a function of the proof value -/

/-- (trivial: the model is a function) equal inputs give equal verdicts; in particular the
    verdict depends on nothing outside `(layout, hash functions, Stone version, proof, security
    bits)` — no state, no randomness. -/
theorem verify_pure (L : LayoutOps) (H : Hashes) (s s' : Bool) (p p' : Stark.Proof)
    (sec sec' : Felt) (hs : s = s') (hp : p = p') (hsec : sec = sec') :
    Stark.verify L H s p sec = Stark.verify L H s' p' sec' := by rw [hs, hp, hsec]

/-- Authentication data is read from the front and never checked for exhaustion: appending
    arbitrary elements to the three table authentication lists and to the authentication list of
    every FRI layer witness (`padLayers w ef` appends `ef[i]` to layer `i`'s), and appending
    further FRI layer witnesses, does not change an accepted verdict.  (So the accepted proof
    values are not unique — harmless, but worth knowing; for ANY layout.) -/
theorem verify_ignores_trailing {L : LayoutOps} {r : Felt × Felt}
    (hok : Stark.verify L H stone6 p sec = .ok r) (e1 e2 e3 : List Felt)
    (ef : List (List Felt)) (more : List Fri.LayerWitness) :
    Stark.verify L H stone6
      { p with witness :=
        { p.witness with
          tracesOriginalAuths := p.witness.tracesOriginalAuths ++ e1
          tracesInteractionAuths := p.witness.tracesInteractionAuths ++ e2
          compositionAuths := p.witness.compositionAuths ++ e3
          friLayers := Proofs.Pipeline.padLayers p.witness.friLayers ef ++ more } } sec = .ok r :=
  Proofs.Pipeline.verify_padProof hok e1 e2 e3 ef more

/-! ## 4. non-vacuity

  `Proofs/PipelineExample.lean`: toy layout DATA (`toyD`: two interaction elements, two global
  values, one-statement AST programs, no builtins) run through the real static-layout code, with a
  public memory of two program cells and one output cell. -/

open Swiftness.Proofs.Pipeline.Toy in
/-- the model accepts the toy proof under `toyD.ops`, and the returned pair is the pair of chains
    of the program values `[100, 200]` and the output values `[42]` -/
example :
    Stark.verify (toyD.ops toyH) toyH false toyPD (Felt.ofNat 31) =
      .ok (hashChain toyH [Felt.ofNat 100, Felt.ofNat 200], hashChain toyH [Felt.ofNat 42]) := by
  rw [toyD_result.1, toyD_result.2]; exact toyD_accepts

open Swiftness.Proofs.Pipeline.Toy in
/-- the same proof with another layout code in its public input is rejected … -/
example :
    Stark.verify (toyD.ops toyH) toyH false
      { toyPD with publicInput := { toyPID with layout := Felt.ofNat 78 } }
      (Felt.ofNat 31) = .err "LayoutCodeInvalid" := toyD_rejects_layout_code

open Swiftness.Proofs.Pipeline.Toy in
/-- … and so it is by a verifier for layout data that differs only in the code (instance of
    `other_layout_rejects`; its hypotheses are satisfiable) -/
example : ∀ r', Stark.verify (({ toyD with consts := ("LAYOUT_CODE", 78) :: toyD.consts } :
    LayoutData).ops toyH) toyH false toyPD (Felt.ofNat 31) ≠ .ok r' :=
  other_layout_rejects toyD_accepts (by decide +kernel)

open Swiftness.Proofs.Pipeline.Toy in
/-- a program cell at a wrong address is rejected -/
example :
    (Stark.verify (toyD.ops toyH) toyH false
      { toyPD with publicInput := { toyPID with
          mainPage := [⟨Felt.ofNat 1, Felt.ofNat 100⟩, ⟨Felt.ofNat 3, Felt.ofNat 200⟩,
            ⟨Felt.ofNat 10, Felt.ofNat 42⟩] } }
      (Felt.ofNat 31)).isOk = false := toyD_rejects_address

open Swiftness.Proofs.Pipeline.Toy in
/-- trailing authentication data: still accepted, same result -/
example :
    Stark.verify toyL toyH false
      { toyP with witness :=
        { toyP.witness with
          tracesOriginalAuths := toyP.witness.tracesOriginalAuths ++ [Felt.ofNat 1, Felt.ofNat 2]
          tracesInteractionAuths := toyP.witness.tracesInteractionAuths ++ []
          compositionAuths := toyP.witness.compositionAuths ++ [Felt.ofNat 3]
          friLayers := Proofs.Pipeline.padLayers toyP.witness.friLayers [[Felt.ofNat 4]] ++
            [⟨[], []⟩] } }
      (Felt.ofNat 31) = .ok (Felt.ofNat 1, Felt.ofNat 77) :=
  verify_ignores_trailing toy_accepts _ _ _ _ _

end Swiftness.C03
