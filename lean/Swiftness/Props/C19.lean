/-
  C19 — loading a Stone proof file.

  "Parsing a Stone proof file and converting it for the verifier yields a proof whose configuration, public
  input, commitments, out-of-domain values, FRI data, nonce, decommitted values and authentication nodes are
  exactly the values recorded in the file, in stream order, with segments in builtin order and dynamic
  parameters in field order.  Values that do not fit the verifier's types (difficulty above 255, nonce above
  64 bits) and malformed files produce an error, never a silently truncated or partially filled proof, and
  never a crash."

  SUBJECT.  The real implementation is regex-based Rust (`/repo/proof_parser/src`, then
  `/repo/cli/src/transform.rs`).  The theorems below are about an INDEPENDENT loader written in Lean from the
  file format, `Swiftness.Loader.loadProof` (`Swiftness/Model/Loader.lean`):

        text --Lean.Json.parse--> Json --decode--> RawFile --convert--> Stark.Proof

  `RawFile` = the values recorded in the file.  The link to the Rust is a differential test: the driver op
  `loadfile` (`Driver/LoadFile.lean`) prints `loadProof`'s result in the format of the harness op `parsefile`
  (real parser + real conversion).  On all 25 shipped files (`/repo/examples/proofs/*/*proof.json`) the two
  outputs are byte-identical.  On edited files they differ exactly where the real parser is lenient (see the
  header of `Model/Loader.lean`): it skips what its regexes do not match, it panics on a `dynamic_params` object
  whose size is not 340, and it re-orders `Hash`-before-`Data` authentication lines.

  WHAT IS PROVED (all about `convert`, i.e. from the recorded values on; `decode` is plain field access)
   1. `extract_stream_order`  every part of the commitment and the witness is a `filter` (by path/kind class) of
      the list of prover messages `annotations.filterMap item?`, flattened — stream order, nothing dropped;
      the only skipped lines are those not starting with `P->V[`; an unparsable line makes the load fail
      (`unparsable_line_fails`, `prover_line_never_skipped`, `item_of_line`).
   2. `data_hash_order_coincide`  stream order = the real parser's Data-then-Hash order when no `Hash` line
      precedes a `Data` line of the same table.
   3. `segments_sorted_by_builtin`, `unknown_segment_fails`.
   4. `dynamic_param_order` (the 340 Stone keys, sorted, renamed = the verifier's struct fields) and
      `dynamic_params_field_order` (for every loaded file).
   5. `narrowing_checked`.
   6. `config_derivation`, `layout_constants_static`, `layout_constants_dynamic`.
   7. `public_input_recorded`.
   8. `load_total`, `load_all_or_nothing`.
   9. the tiling of the prover messages (`prover_messages_tile`), for arbitrary line lists: `tiles_total_bytes`,
      `tiles_concat`, `removed_message_fails`, `swapped_messages_fail`, `shifted_range_fails`
      (`duplicated_message_fails`, `tiles_step`, `tiles_skip` in section 1).
  10. the two readings of a message line agree: `parseLine_values_ne_nil` (a message carries at least one value),
      `lineRange?_of_parseLine` (it has a range: the "malformed prover message (range)" branch of `tiles` is dead,
      `tiles_message_line`), hence `removed_message_fails'`, `swapped_messages_fail'`, `duplicated_message_fails'`
      without the `values ≠ []` hypotheses.
   Non-vacuity: `example_loads` (kernel-checked, from the recorded values), `#guard`s on the JSON text in
   `Proofs/LoaderExample.lean` (Lean's JSON parser is `partial`, so the text level is checked by evaluation).
-/
import Swiftness.Proofs.LoaderExample
import Swiftness.Proofs.LoaderTiles
import Swiftness.Proofs.LoaderLines

namespace Swiftness.C19

open Swiftness Swiftness.Loader

/-! ## 1. stream order, nothing dropped -/

/-- Every field of the unsent commitment and of the witness is obtained from the stream of prover messages
    `items = annotations.filterMap item?` (order preserved) by keeping the messages of one path/kind class
    (`List.filter`) and concatenating the numbers they carry; no line of the file was unparsable; the FRI
    witness has one entry per layer `1 … n_layers − 1`, and no FRI decommitment message lies outside them. -/
theorem extract_stream_order {r : RawFile} {p : Stark.Proof} (h : convert r = .ok p) :
    let items := r.annotations.filterMap item?
    (∀ l ∈ r.annotations, ∃ x, parseLine l = .ok x) ∧
    UnsentSpec items p.unsent ∧
    WitnessSpec r.friStepList.length items p.witness := by
  obtain ⟨_, _, items, _, _, _, h4, h5, h6⟩ := convert_ok h
  obtain ⟨hall, rfl⟩ := parseAnnotations_ok h4
  exact ⟨hall, unsentOf_ok h5, witnessOf_ok h6⟩

/-- the fields, spelled out (`collect cls items = (items.filter cls).flatMap (·.values)`) -/
theorem extract_stream_order_fields {r : RawFile} {p : Stark.Proof} (h : convert r = .ok p) :
    let items := r.annotations.filterMap item?
    let get (cls : Item → Bool) : List Felt := ((items.filter cls).flatMap (·.values)).map Felt.ofNat
    p.unsent.oodsValues = get isOods ∧
    p.unsent.friInnerLayers = get isFriCommit ∧
    p.unsent.friLastLayerCoefficients = get isFriLast ∧
    p.witness.tracesOriginalValues = get (isTraceValue 0) ∧
    p.witness.tracesInteractionValues = get (isTraceValue 1) ∧
    p.witness.compositionValues = get (isTraceValue 2) ∧
    p.witness.tracesOriginalAuths = get (isTraceAuth 0) ∧
    p.witness.tracesInteractionAuths = get (isTraceAuth 1) ∧
    p.witness.compositionAuths = get (isTraceAuth 2) ∧
    p.witness.friLayers = (List.range (r.friStepList.length - 1)).map fun i =>
      (⟨get (isFriLeaf (i + 1)), get (isFriAuth (i + 1))⟩ : Fri.LayerWitness) := by
  obtain ⟨_, hu, hw⟩ := extract_stream_order h
  exact ⟨hu.oods, hu.fri_layers, hu.fri_last, hw.original_values, hw.interaction_values,
    hw.composition_values, hw.original_auths, hw.interaction_auths, hw.composition_auths, hw.fri⟩

/-- a line is skipped only if it is not a prover message -/
theorem prover_line_never_skipped (s : String) :
    parseLine s = .ok none ↔ stripPrefix? "P->V[".toList s.toList = none :=
  parseLine_none_iff s

/-- an item is the parsed path, kind and payload of its line -/
theorem item_of_line {s : String} {it : Item} (h : parseLine s = .ok (some it)) :
    ∃ rest rng path lbl more p kn payload,
      stripPrefix? "P->V[".toList s.toList = some rest ∧
      split2 ':' ' ' rest [] = rng :: path :: lbl :: more ∧ isRange rng = true ∧
      stripPrefix? "/cpu air/".toList path = some p ∧
      splitKindPayload ((lbl :: more).getLast?.getD []) = some (kn, payload) ∧
      parsePath p = some it.slot ∧ parseKind kn = some it.kind ∧ kindAllowed it.slot it.kind = true ∧
      parsePayload it.kind payload = some it.values :=
  parseLine_some h

/-- one unparsable prover message (unknown path, wrong kind, unparsable payload, …) makes the whole load fail -/
theorem unparsable_line_fails {r : RawFile} {l e : String} (hl : l ∈ r.annotations)
    (he : parseLine l = .error e) : ∃ e', convert r = .error e' := by
  obtain ⟨e', h⟩ := parseAnnotations_error hl he
  exact convert_error_of_annotations h

/-- A converted file's prover messages TILE the proof (`Loader.tiles`): the first `P->V[a:b]` range starts at byte 0,
    every range starts where the previous one ended and spans 32 bytes per value it carries; and when the file carries
    `proof_hex`, the last range ends at its last byte (a file whose trailing message lines are missing is truncated).  (This is the check the
    real parser gained with the fix "reject annotation streams that are malformed, out of order or not fully
    consumed"; removal, duplication or reordering of a message line breaks the tiling.) -/
theorem prover_messages_tile {r : RawFile} {p : Stark.Proof} (h : convert r = .ok p) :
    ∃ n, tiles r.annotations 0 = .ok n ∧ ∀ m, r.proofBytes = some m → n = m :=
  convert_tiles h

/-- a converted file carries exactly one commitment per inner FRI layer (`fri_step_list` has one entry per layer
    including the first): a removed or extra `Layer k: Commitment` line is an error -/
theorem fri_commitments_count {r : RawFile} {p : Stark.Proof} (h : convert r = .ok p) :
    ((r.annotations.filterMap item?).filter isFriCommit).length + 1 = r.friStepList.length :=
  convert_fri_commit_count h

/-- one step of the tiling: a message line is accepted only at the byte where the previous one ended, and moves
    the cursor to its own end, which is `32 ·` (number of its values) further -/
theorem tiles_step (s : String) (rest : List String) (next n : Nat) (it : Item)
    (hl : parseLine s = .ok (some it)) (h : tiles (s :: rest) next = .ok n) :
    ∃ b, lineRange? s = some (next, b) ∧ b = next + 32 * it.values.length ∧ tiles rest b = .ok n := by
  unfold tiles at h
  rw [hl] at h
  dsimp only at h
  cases hr : lineRange? s with
  | none => rw [hr] at h; cases h
  | some ab =>
    obtain ⟨a, b⟩ := ab
    rw [hr] at h
    dsimp only at h
    by_cases hc : a = next ∧ a + 32 * it.values.length = b
    · rw [if_pos hc] at h
      obtain ⟨rfl, rfl⟩ := hc
      exact ⟨_, rfl, rfl, h⟩
    · rw [if_neg hc] at h; cases h

/-- a non-message line (title, verifier message, statistics) does not move the cursor -/
theorem tiles_skip (s : String) (rest : List String) (next : Nat) (hl : parseLine s = .ok none) :
    tiles (s :: rest) next = tiles rest next := by
  conv => lhs; unfold tiles
  rw [hl]

/-- a DUPLICATED message line (one carrying at least one value) never tiles: the copy would have to start where the
    original ended, but it carries the original's range -/
theorem duplicated_message_fails (s : String) (rest : List String) (next : Nat) (it : Item)
    (hl : parseLine s = .ok (some it)) (hv : it.values ≠ []) : ∃ e, tiles (s :: s :: rest) next = .error e := by
  rcases ok_or_error (tiles (s :: s :: rest) next) with ⟨n, hn⟩ | he
  · obtain ⟨b, hr, hb, h2⟩ := tiles_step s (s :: rest) next n it hl hn
    obtain ⟨b', hr', _, _⟩ := tiles_step s rest b n it hl h2
    rw [hr] at hr'
    have hlen : 0 < it.values.length := List.length_pos_iff.mpr hv
    have : next = b := by injection hr' with h1; injection h1
    omega
  · exact he

/-! ## 2. Data / Hash order -/

/-- The real parser builds the authentication nodes of a trace table as (all `Data` lines) ++ (all `Hash`
    lines); this loader takes them in stream order.  The two coincide when no `Hash` line of the table
    precedes a `Data` line of the table — which holds in all 25 shipped files. -/
theorem data_hash_order_coincide (j : Nat) (items : List Item)
    (h : (items.filter (isTraceAuth j)).Pairwise (fun a b => ¬ (a.kind = .hash ∧ b.kind = .data))) :
    collect (isTraceAuth j) items = authsDataThenHash j items :=
  collect_auth_eq_dataThenHash j items h

/-! ## 3. segments -/

/-- the output segments are exactly the file's entries, permuted into builtin order -/
theorem segments_sorted_by_builtin {r : RawFile} {p : Stark.Proof} (h : convert r = .ok p) :
    ∃ sorted : List RawSegment,
      p.publicInput.segments = sorted.map (fun s => ⟨Felt.ofNat s.beginAddr, Felt.ofNat s.stopPtr⟩) ∧
      sorted.Perm r.memorySegments ∧
      sorted = builtinOrder.flatMap (fun b => r.memorySegments.filter (·.name = b)) ∧
      sorted.Pairwise (fun a b => builtinIndex a ≤ builtinIndex b) ∧
      (∀ s ∈ r.memorySegments, s.name ∈ builtinOrder ∧ s.beginAddr < 2 ^ 32 ∧ s.stopPtr < 2 ^ 32) := by
  obtain ⟨_, dyn, _, _, _, h3, _⟩ := convert_ok h
  have hp := publicInputOf_ok h3
  obtain ⟨sorted, hs, hseg⟩ := hp.segments
  obtain ⟨hmem, hexp, hperm, hsorted⟩ := sortSegments_ok hs
  exact ⟨sorted, hseg, hperm, hexp, hsorted, fun s hs' => ⟨hmem s hs', hp.u32.2.2 s hs'⟩⟩

theorem unknown_segment_fails {r : RawFile} {s : RawSegment} (hs : s ∈ r.memorySegments)
    (hn : s.name ∉ builtinOrder) : ∃ e, convert r = .error e := by
  rcases ok_or_error (convert r) with ⟨p, hp⟩ | he
  · obtain ⟨_, _, _, _, _, hmem⟩ := segments_sorted_by_builtin hp
    exact absurd (hmem s hs).1 hn
  · exact he

/-! ## 4. dynamic parameters -/

/-- The 340 keys of the shipped dynamic-layout proof, sorted as Rust's `BTreeMap<String, u32>` iterates them
    and with Stone's `__` replaced by `_`, are the verifier's `DynamicParams` fields in struct order
    (`Gen.DynamicParams.fields`, generated from `/repo/crates/air/src/dynamic.rs`). -/
theorem dynamic_param_order : sortedFieldNames stoneDynamicKeys = Gen.DynamicParams.fields :=
  dynamic_param_order_keys

/-- For EVERY loaded file of the dynamic layout: the verifier's `dynamic_params` vector is, position by
    position, the value of the Stone key whose (renamed) name is the struct field at that position. -/
theorem dynamic_params_field_order {r : RawFile} {p : Stark.Proof} (hl : r.layout = "dynamic")
    (h : convert r = .ok p) :
    ∃ dp vals sorted, r.dynamicParams = some dp ∧ p.publicInput.dynamicParams = some vals ∧
      List.Perm sorted (dp.map fun kv => (kv.1.toList, kv.2)) ∧
      sorted.Pairwise (fun a b => leChars a.1 b.1 = true) ∧
      List.zip Gen.DynamicParams.fields vals = sorted.map (fun kv => (fieldName kv.1, kv.2)) ∧
      vals.length = Gen.DynamicParams.fields.length ∧ (∀ v ∈ vals, v < 2 ^ 32) := by
  obtain ⟨c, dyn, _, h1, _, h3, _⟩ := convert_ok h
  obtain ⟨dp, vals, hdp, hvals, rfl, _⟩ := layoutOf_dynamic hl h1
  obtain ⟨sorted, hperm, hsorted, hfields, hv, hlt, hzip⟩ := dynamicParamsOf_ok hvals
  refine ⟨dp, vals, sorted, hdp, (publicInputOf_ok h3).dynamic, hperm, hsorted, hzip, ?_, hlt⟩
  rw [hv, ← hfields, List.length_map, List.length_map]

/-- static layouts carry no dynamic parameters -/
theorem dynamic_params_static {r : RawFile} {p : Stark.Proof} (hl : r.layout ≠ "dynamic")
    (h : convert r = .ok p) : p.publicInput.dynamicParams = none := by
  obtain ⟨c, dyn, _, h1, _, h3, _⟩ := convert_ok h
  obtain ⟨_, rfl, _⟩ := layoutOf_static hl h1
  exact (publicInputOf_ok h3).dynamic

/-! ## 5. checked narrowing -/

/-- The difficulty and the nonce are the file's numbers (no reduction, no truncation) and they fit the
    verifier's `u8` / `u64`. -/
theorem narrowing_checked {r : RawFile} {p : Stark.Proof} (h : convert r = .ok p) :
    p.config.powBits = r.powBits ∧ r.powBits ≤ 255 ∧
    p.unsent.powNonce < 2 ^ 64 ∧
    ∃ it, (r.annotations.filterMap item?).filter isPow = [it] ∧ it.values = [p.unsent.powNonce] := by
  obtain ⟨c, _, _, _, h2, _⟩ := convert_ok h
  have hc := configOf_ok h2
  obtain ⟨_, hu, _⟩ := extract_stream_order h
  exact ⟨hc.pow_eq, hc.pow_le, hu.nonce_lt, hu.nonce⟩

theorem pow_bits_above_255_fails {r : RawFile} (h : r.powBits > 255) : ∃ e, convert r = .error e := by
  rcases ok_or_error (convert r) with ⟨p, hp⟩ | he
  · have := (narrowing_checked hp).2.1; omega
  · exact he

/-! ## 6. configuration -/

/-- Heights, columns and layer counts as functions of the step list, `n_steps`, `log_n_cosets` and the layout
    constants `c` (see `ConfigSpec`): `log_trace = log2 (16·step·n_steps)`, the three commitments have height
    `log_trace + log_n_cosets`, inner layer `i ≥ 1` has `2^step_i` columns and height
    `log_eval − (step_0 + … + step_i)`, `n_layers` = length of the step list, last bound = `log2`. -/
theorem config_derivation {r : RawFile} {p : Stark.Proof} (h : convert r = .ok p) :
    ∃ c dyn, layoutOf r = .ok (c, dyn) ∧ ConfigSpec r c p.config := by
  obtain ⟨c, dyn, _, h1, h2, _⟩ := convert_ok h
  exact ⟨c, dyn, h1, configOf_ok h2⟩

/-- static layouts: the constants are the VERIFIER's (`Swiftness.Gen.Layout.<L>.*`) -/
theorem layout_constants_static {r : RawFile} {c : LayoutConsts} {d : Option (List Nat)}
    (hl : r.layout ≠ "dynamic") (h : layoutOf r = .ok (c, d)) : staticConsts r.layout = some c :=
  (layoutOf_static hl h).1

example : staticConsts "recursive" = some
    ⟨Gen.Layout.recursive.CPU_COMPONENT_STEP, Gen.Layout.recursive.NUM_COLUMNS_FIRST,
     Gen.Layout.recursive.NUM_COLUMNS_SECOND, Gen.Layout.recursive.CONSTRAINT_DEGREE⟩ := by decide

/-- dynamic layout: the constants are the file's `dynamic_params` -/
theorem layout_constants_dynamic {r : RawFile} {c : LayoutConsts} {d : Option (List Nat)}
    (hl : r.layout = "dynamic") (h : layoutOf r = .ok (c, d)) :
    ∃ dp, r.dynamicParams = some dp ∧
      lookupKey "cpu_component_step" dp = some c.cpuComponentStep ∧
      lookupKey "num_columns_first" dp = some c.numColumnsFirst ∧
      lookupKey "num_columns_second" dp = some c.numColumnsSecond ∧
      c.constraintDegree = Gen.Layout.dynamic.CONSTRAINT_DEGREE := by
  obtain ⟨dp, _, hdp, _, _, h1, h2, h3, h4⟩ := layoutOf_dynamic hl h
  exact ⟨dp, hdp, h1, h2, h3, h4⟩

/-- the layout code is the verifier's: ASCII bytes of the name, big-endian -/
example : layoutCode "dynamic" = Gen.Layout.dynamic.LAYOUT_CODE := by decide +kernel
example : layoutCode "recursive" = Gen.Layout.recursive.LAYOUT_CODE := by decide +kernel

/-! ## 7. public input -/

/-- `log_n_steps`, range-check bounds, layout code, padding = first public-memory entry, main page = the
    page-0 entries in file order; continuous page headers are dropped (as the CLI conversion does). -/
theorem public_input_recorded {r : RawFile} {p : Stark.Proof} (h : convert r = .ok p) :
    ∃ dyn, PublicInputSpec r dyn p.publicInput := by
  obtain ⟨_, dyn, _, _, _, h3, _⟩ := convert_ok h
  exact ⟨dyn, publicInputOf_ok h3⟩

/-- every memory cell is the file's entry, the value reduced mod P -/
theorem public_memory_cells {r : RawFile} {p : Stark.Proof} (h : convert r = .ok p) :
    ∃ cells : List (Nat × AddrValue), cells.length = r.publicMemory.length ∧
      p.publicInput.mainPage = (cells.filter (·.1 = 0)).map (·.2) ∧
      cells = r.publicMemory.filterMap (fun m => (memCell m).toOption) ∧
      ∀ m ∈ r.publicMemory, ∃ c, memCell m = .ok c := by
  obtain ⟨dyn, hp⟩ := public_input_recorded h
  obtain ⟨cells, hc, _, hm⟩ := hp.memory
  exact ⟨cells, mapE_ok_length hc, hm, mapE_ok_eq hc, mapE_ok_mem hc⟩

/-! ## 8. totality, all-or-nothing -/

/-- `loadProof` is a total function: on every text it returns a proof or an error message.  (It is built from
    structurally recursive functions only — no `partial def`, `panic!`, `get!` in `Model/Loader.lean`; the one
    `partial` component is Lean's own `Json.parse`, which returns an `Except`.) -/
theorem load_total (s : String) : (∃ p, loadProof s = .ok p) ∨ (∃ e, loadProof s = .error e) :=
  ok_or_error _

/-- A loaded proof is assembled from the successful results of ALL stages (layout, configuration, public
    input, annotations, commitment, witness); there is no partially filled proof. -/
theorem load_all_or_nothing {j : Lean.Json} {p : Stark.Proof} (h : loadJson j = .ok p) :
    ∃ r c dyn items, decode j = .ok r ∧ layoutOf r = .ok (c, dyn) ∧ configOf r c = .ok p.config ∧
      publicInputOf r dyn = .ok p.publicInput ∧ parseAnnotations r.annotations = .ok items ∧
      unsentOf items = .ok p.unsent ∧ witnessOf r.friStepList.length items = .ok p.witness := by
  obtain ⟨r, hr, hc⟩ := bind_eq_ok h
  obtain ⟨c, dyn, items, h1, h2, h3, h4, h5, h6⟩ := convert_ok hc
  exact ⟨r, c, dyn, items, hr, h1, h2, h3, h4, h5, h6⟩

/-! ## non-vacuity -/

/-- kernel-checked: the recorded values of the small example file load to the hand-written proof -/
theorem example_loads : convert exampleRaw = .ok exampleProof := example_convert

example : (narrowing_checked example_loads).1 = (rfl : exampleProof.config.powBits = 5) := rfl

/-- the hypotheses of the theorems above are satisfiable, their conclusions say something -/
example : exampleProof.witness.tracesInteractionAuths = [0x62, 0x63] ∧
    collect (isTraceAuth 1) exampleItems = authsDataThenHash 1 exampleItems :=
  ⟨rfl, data_hash_order_coincide 1 exampleItems (by decide)⟩

/-! ## 9. the tiling of the prover messages, for arbitrary line lists -/

/-- THE BYTES COVERED.  An accepted line list moves the cursor forward by exactly 32 bytes per value carried by its
    prover messages (`l.filterMap item?` = the messages, in stream order; non-message lines contribute nothing).  For
    a converted file (`cursor 0`) the result is therefore the byte length of the proof the annotations describe. -/
theorem tiles_total_bytes {l : List String} {a n : Nat} (h : tiles l a = .ok n) :
    a ≤ n ∧ n = a + 32 * ((l.filterMap item?).map (·.values.length)).sum :=
  ⟨tiles_ge h, tiles_bytes h⟩

/-- the tiling check of a concatenation: `l1` from the cursor `a`, then `l2` from the cursor `l1` leaves; an error
    in `l1` is the error of the whole -/
theorem tiles_concat (l1 l2 : List String) (a : Nat) :
    tiles (l1 ++ l2) a = (tiles l1 a).bind (fun b => tiles l2 b) :=
  tiles_append l1 l2 a

/-- A REMOVED MESSAGE LINE is detected.  If a stream tiles and one of its message lines `s` (carrying at least one
    value) is removed, the remaining stream does not tile any more — provided some message line (with or without
    values) comes after `s`: that line starts where `s` ended, not where `s` started.  When `s` is the LAST message
    line its removal is NOT visible to the tiling (the remaining lines tile a proof that is shorter by
    `32 · it.values.length` bytes, `tiles_total_bytes`); nothing is claimed for that case. -/
theorem removed_message_fails {l1 l2 : List String} {s : String} {a n : Nat} {it : Item}
    (h : tiles (l1 ++ s :: l2) a = .ok n) (hl : parseLine s = .ok (some it)) (hv : it.values ≠ [])
    (hm : ∃ t it', t ∈ l2 ∧ parseLine t = .ok (some it')) :
    ∃ e, tiles (l1 ++ l2) a = .error e :=
  Loader.removed_message_fails h hl hv hm

/-- TWO ADJACENT MESSAGE LINES SWAPPED are detected: if `… s t …` tiles then `… t s …` does not (`s` carries at
    least one value, `t` is any message line): `t` starts where `s` ended, which is not where `s` started. -/
theorem swapped_messages_fail {l1 l2 : List String} {s t : String} {a n : Nat} {is it : Item}
    (h : tiles (l1 ++ s :: t :: l2) a = .ok n) (hs : parseLine s = .ok (some is)) (hv : is.values ≠ [])
    (ht : parseLine t = .ok (some it)) :
    ∃ e, tiles (l1 ++ t :: s :: l2) a = .error e :=
  Loader.swapped_messages_fail h hs hv ht

/-- A SHIFTED RANGE is detected.  Acceptance pins the range of every message line: it is `[b : b + 32·k]` with `b`
    the cursor the preceding lines leave and `k` the number of its values (`tiles_step`).  Hence a message line `s'`
    carrying as many values as `s` but a different range cannot take the place of `s`. -/
theorem shifted_range_fails {l1 l2 : List String} {s s' : String} {a n : Nat} {it it' : Item}
    (h : tiles (l1 ++ s :: l2) a = .ok n) (hl : parseLine s = .ok (some it))
    (hl' : parseLine s' = .ok (some it')) (hk : it'.values.length = it.values.length)
    (hr : lineRange? s' ≠ lineRange? s) :
    ∃ e, tiles (l1 ++ s' :: l2) a = .error e :=
  Loader.shifted_range_fails h hl hl' hk hr

/-! non-vacuity of section 9: three message lines (the three trace commitments of the example file) -/

/-- `P->V[0:32]`, `P->V[32:64]`, `P->V[64:96]` -/
def threeLines : List String :=
  ["P->V[0:32]: /cpu air/STARK/Original/Commit on Trace: Commitment: Hash(0x11)",
   "P->V[32:64]: /cpu air/STARK/Interaction/Commit on Trace: Commitment: Hash(0x12)",
   "P->V[64:96]: /cpu air/STARK/Out Of Domain Sampling/Commit on Trace: Commitment: Hash(0x13)"]

theorem threeLines_tile : tiles threeLines 0 = .ok 96 := by decide +kernel

/-- they tile 96 = 0 + 32·3 bytes; without the middle line, with the first two swapped, or with the middle line's
    range shifted to `[40:72]`, they do not tile -/
example :
    (0 ≤ 96 ∧ 96 = 0 + 32 * ((threeLines.filterMap item?).map (·.values.length)).sum) ∧
    (∃ e, tiles ["P->V[0:32]: /cpu air/STARK/Original/Commit on Trace: Commitment: Hash(0x11)",
                 "P->V[64:96]: /cpu air/STARK/Out Of Domain Sampling/Commit on Trace: Commitment: Hash(0x13)"] 0
            = .error e) ∧
    (∃ e, tiles ["P->V[32:64]: /cpu air/STARK/Interaction/Commit on Trace: Commitment: Hash(0x12)",
                 "P->V[0:32]: /cpu air/STARK/Original/Commit on Trace: Commitment: Hash(0x11)",
                 "P->V[64:96]: /cpu air/STARK/Out Of Domain Sampling/Commit on Trace: Commitment: Hash(0x13)"] 0
            = .error e) ∧
    (∃ e, tiles ["P->V[0:32]: /cpu air/STARK/Original/Commit on Trace: Commitment: Hash(0x11)",
                 "P->V[40:72]: /cpu air/STARK/Interaction/Commit on Trace: Commitment: Hash(0x12)",
                 "P->V[64:96]: /cpu air/STARK/Out Of Domain Sampling/Commit on Trace: Commitment: Hash(0x13)"] 0
            = .error e) :=
  ⟨tiles_total_bytes threeLines_tile,
   removed_message_fails (l1 := [_]) (it := ⟨.traceCommit 1, .hash, [0x12]⟩) threeLines_tile
     (by decide +kernel) (by decide) ⟨_, ⟨.traceCommit 2, .hash, [0x13]⟩, List.mem_singleton.2 rfl, by decide +kernel⟩,
   swapped_messages_fail (l1 := []) (is := ⟨.traceCommit 0, .hash, [0x11]⟩) (it := ⟨.traceCommit 1, .hash, [0x12]⟩)
     threeLines_tile (by decide +kernel) (by decide) (by decide +kernel),
   shifted_range_fails (l1 := [_]) (it := ⟨.traceCommit 1, .hash, [0x12]⟩) (it' := ⟨.traceCommit 1, .hash, [0x12]⟩)
     threeLines_tile (by decide +kernel) (by decide +kernel) rfl (by decide +kernel)⟩

/-! ## 10. the two readings of a message line agree (`Proofs/LoaderLines.lean`)

  `tiles` reads every message line twice: `parseLine` (the item) and `lineRange?` (the byte range).  A line that
  `parseLine` accepts as a message always carries at least one value and always has a range, so the hypotheses
  `it.values ≠ []` of section 9 are superfluous and the "malformed prover message (range)" branch of `tiles` is
  dead. -/

/-- a parsed prover message carries at least one value (one for `Hash` / `Field Element` / `Data`; for
    `Field Elements` one per comma-separated piece, and there is at least one piece) -/
theorem parseLine_values_ne_nil {s : String} {it : Item} (h : parseLine s = .ok (some it)) :
    it.values ≠ [] :=
  Loader.parseLine_values_ne_nil h

/-- a line that `parseLine` accepts as a message has a byte range: the second reading cannot fail -/
theorem lineRange?_of_parseLine {s : String} {it : Item} (h : parseLine s = .ok (some it)) :
    ∃ a b, lineRange? s = some (a, b) :=
  Loader.lineRange?_of_parseLine h

/-- `tiles` on a message line, the dead branch removed: the line has a range `[x:y]`; the check continues from `y`
    when `x` is the cursor and `y = x + 32·(number of values)`, and fails otherwise -/
theorem tiles_message_line {s : String} (rest : List String) (a : Nat) {it : Item}
    (hl : parseLine s = .ok (some it)) :
    ∃ x y, lineRange? s = some (x, y) ∧
      ((x = a ∧ x + 32 * it.values.length = y) → tiles (s :: rest) a = tiles rest y) ∧
      (¬ (x = a ∧ x + 32 * it.values.length = y) → ∃ e, tiles (s :: rest) a = .error e) :=
  Loader.tiles_cons_some rest a hl

/-- `removed_message_fails` for EVERY message line `s` (no hypothesis on its values) -/
theorem removed_message_fails' {l1 l2 : List String} {s : String} {a n : Nat} {it : Item}
    (h : tiles (l1 ++ s :: l2) a = .ok n) (hl : parseLine s = .ok (some it))
    (hm : ∃ t it', t ∈ l2 ∧ parseLine t = .ok (some it')) :
    ∃ e, tiles (l1 ++ l2) a = .error e :=
  removed_message_fails h hl (parseLine_values_ne_nil hl) hm

/-- `swapped_messages_fail` for EVERY two adjacent message lines -/
theorem swapped_messages_fail' {l1 l2 : List String} {s t : String} {a n : Nat} {is it : Item}
    (h : tiles (l1 ++ s :: t :: l2) a = .ok n) (hs : parseLine s = .ok (some is))
    (ht : parseLine t = .ok (some it)) :
    ∃ e, tiles (l1 ++ t :: s :: l2) a = .error e :=
  swapped_messages_fail h hs (parseLine_values_ne_nil hs) ht

/-- `duplicated_message_fails` for EVERY message line: a stream in which a message line is immediately repeated
    never tiles -/
theorem duplicated_message_fails' (s : String) (rest : List String) (next : Nat) (it : Item)
    (hl : parseLine s = .ok (some it)) : ∃ e, tiles (s :: s :: rest) next = .error e :=
  duplicated_message_fails s rest next it hl (parseLine_values_ne_nil hl)

/-- non-vacuity: the example of section 9 again, without the value hypotheses -/
example :
    (∃ e, tiles ["P->V[0:32]: /cpu air/STARK/Original/Commit on Trace: Commitment: Hash(0x11)",
                 "P->V[64:96]: /cpu air/STARK/Out Of Domain Sampling/Commit on Trace: Commitment: Hash(0x13)"] 0
            = .error e) ∧
    (∃ e, tiles ["P->V[32:64]: /cpu air/STARK/Interaction/Commit on Trace: Commitment: Hash(0x12)",
                 "P->V[0:32]: /cpu air/STARK/Original/Commit on Trace: Commitment: Hash(0x11)",
                 "P->V[64:96]: /cpu air/STARK/Out Of Domain Sampling/Commit on Trace: Commitment: Hash(0x13)"] 0
            = .error e) ∧
    (∃ e, tiles ["P->V[0:32]: /cpu air/STARK/Original/Commit on Trace: Commitment: Hash(0x11)",
                 "P->V[0:32]: /cpu air/STARK/Original/Commit on Trace: Commitment: Hash(0x11)"] 0
            = .error e) :=
  ⟨removed_message_fails' (l1 := [_]) (it := ⟨.traceCommit 1, .hash, [0x12]⟩) threeLines_tile
     (by decide +kernel) ⟨_, ⟨.traceCommit 2, .hash, [0x13]⟩, List.mem_singleton.2 rfl, by decide +kernel⟩,
   swapped_messages_fail' (l1 := []) (is := ⟨.traceCommit 0, .hash, [0x11]⟩) (it := ⟨.traceCommit 1, .hash, [0x12]⟩)
     threeLines_tile (by decide +kernel) (by decide +kernel),
   duplicated_message_fails' _ [] 0 ⟨.traceCommit 0, .hash, [0x11]⟩ (by decide +kernel)⟩

end Swiftness.C19
