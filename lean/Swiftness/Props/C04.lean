/-
  C04 — Merkle vector decommitment is complete and binding.

  "For every tree height, every boundary between verifier-friendly and masked-hash layers and every
  set of distinct in-range query indices, decommitment succeeds when given the queried leaves and
  sibling nodes of the tree whose root was committed, and fails when any queried value, any index,
  any needed sibling node or the root differs, or when a needed sibling is missing."

  All theorems hold for an ARBITRARY `H : Hashes` and an arbitrary friendly-layer count `nf : Felt`;
  the height `h` enters the model as `Felt.ofNat h` and is bounded by `h ≤ 250`, so that heap indices
  `< 2^(h+1) ≤ 2^251 < P` do not wrap in the field.  Binding is stated in collision-extraction form:
  acceptance of anything other than the committed data yields an explicit `Merkle.Collision H`
  (no injectivity of the hash is assumed).  Spec: `Swiftness/Spec/Merkle.lean`.
  Only property theorems and non-vacuity examples live here; proofs are in `Proofs/Merkle*.lean`.
-/
import Swiftness.Spec.Merkle
import Swiftness.Proofs.MerkleDecommit
import Swiftness.Proofs.MerkleBytes
import Swiftness.Proofs.MerkleDup

namespace Swiftness.C04

open Swiftness Swiftness.Merkle

/-- Completeness: the queried leaves of the committed tree together with its authentication path
    (followed by arbitrary unused trailing nodes) are accepted. -/
theorem decommit_complete (H : Hashes) (nf : Felt) (h : Nat) (hh : h ≤ 250) (leaf : Nat → Felt)
    (Q : List Nat) (extra : List Felt) (hne : Q ≠ []) (hsorted : Q.Pairwise (· < ·))
    (hrange : ∀ i ∈ Q, i < 2 ^ h) :
    Vector.decommit H ⟨⟨Felt.ofNat h, nf⟩, root H nf h leaf⟩
      (Q.map fun i => ⟨Felt.ofNat i, leaf i⟩) (authPath H nf h leaf Q ++ extra) = .ok () :=
  Proofs.Merkle.decommit_complete hh leaf Q extra hne hsorted hrange

/-- A needed sibling is missing: every strict prefix `pre` of the authentication path is rejected
    (with `IndexInvalid`, in particular not `ok`). -/
theorem decommit_missing_sibling (H : Hashes) (nf : Felt) (h : Nat) (hh : h ≤ 250)
    (leaf : Nat → Felt) (Q : List Nat) (pre missing : List Felt) (hne : Q ≠ [])
    (hsorted : Q.Pairwise (· < ·)) (hrange : ∀ i ∈ Q, i < 2 ^ h) (hm : missing ≠ [])
    (hp : authPath H nf h leaf Q = pre ++ missing) :
    Vector.decommit H ⟨⟨Felt.ofNat h, nf⟩, root H nf h leaf⟩
      (Q.map fun i => ⟨Felt.ofNat i, leaf i⟩) pre ≠ .ok () := by
  have := Proofs.Merkle.decommit_missing_sibling (H := H) (nf := nf) hh leaf Q pre missing hne
    hsorted hrange hm hp
  unfold Proofs.Merkle.honestQueries at this
  rw [this]; simp

/-- The same for arbitrary presented values and an arbitrary root: fewer authentication nodes than
    the query indices need is always an error. -/
theorem decommit_too_few_auths (H : Hashes) (nf : Felt) (h : Nat) (hh : h ≤ 250) (r : Felt)
    (leaf : Nat → Felt) (queries : List Vector.Query) (auths : List Felt) (hne : queries ≠ [])
    (hsorted : (queries.map (·.index.val)).Pairwise (· < ·))
    (hrange : ∀ q ∈ queries, q.index.val < 2 ^ h)
    (hlen : auths.length < (authPath H nf h leaf (queries.map (·.index.val))).length) :
    Vector.decommit H ⟨⟨Felt.ofNat h, nf⟩, r⟩ queries auths = .err "IndexInvalid" :=
  Proofs.Merkle.decommit_too_few hh r leaf queries auths hne hsorted hrange hlen

/-- Binding with respect to the committed tree, collision-extraction form. -/
theorem decommit_sound (H : Hashes) (nf : Felt) (h : Nat) (hh : h ≤ 250) (leaf : Nat → Felt)
    (queries : List Vector.Query) (auths : List Felt) (hne : queries ≠ [])
    (hsorted : (queries.map (·.index.val)).Pairwise (· < ·))
    (hrange : ∀ q ∈ queries, q.index.val < 2 ^ h)
    (hok : Vector.decommit H ⟨⟨Felt.ofNat h, nf⟩, root H nf h leaf⟩ queries auths = .ok ()) :
    ((∀ q ∈ queries, q.value = leaf q.index.val) ∧
        ∃ extra, auths = authPath H nf h leaf (queries.map (·.index.val)) ++ extra) ∨
      ∃ x y x' y' f, (x, y) ≠ (x', y') ∧ Vector.hashFU H x y f = Vector.hashFU H x' y' f :=
  Proofs.Merkle.decommit_sound hh leaf queries auths hne hsorted hrange hok

/-- Some queried value differs from the committed leaf: rejected, or explicit collision. -/
theorem rejects_wrong_value (H : Hashes) (nf : Felt) (h : Nat) (hh : h ≤ 250) (leaf : Nat → Felt)
    (queries : List Vector.Query) (auths : List Felt) (hne : queries ≠ [])
    (hsorted : (queries.map (·.index.val)).Pairwise (· < ·))
    (hrange : ∀ q ∈ queries, q.index.val < 2 ^ h)
    (hbad : ∃ q ∈ queries, q.value ≠ leaf q.index.val) :
    Vector.decommit H ⟨⟨Felt.ofNat h, nf⟩, root H nf h leaf⟩ queries auths ≠ .ok () ∨
      Collision H := by
  by_cases hok : Vector.decommit H ⟨⟨Felt.ofNat h, nf⟩, root H nf h leaf⟩ queries auths = .ok ()
  · rcases decommit_sound H nf h hh leaf queries auths hne hsorted hrange hok with ⟨hv, _⟩ | hc
    · obtain ⟨q, hq, hne⟩ := hbad
      exact absurd (hv q hq) hne
    · exact Or.inr hc
  · exact Or.inl hok

/-- The presented authentication nodes do not start with the committed authentication path
    (some needed sibling differs): rejected, or explicit collision. -/
theorem rejects_wrong_sibling (H : Hashes) (nf : Felt) (h : Nat) (hh : h ≤ 250)
    (leaf : Nat → Felt) (queries : List Vector.Query) (auths : List Felt) (hne : queries ≠ [])
    (hsorted : (queries.map (·.index.val)).Pairwise (· < ·))
    (hrange : ∀ q ∈ queries, q.index.val < 2 ^ h)
    (hbad : ¬ authPath H nf h leaf (queries.map (·.index.val)) <+: auths) :
    Vector.decommit H ⟨⟨Felt.ofNat h, nf⟩, root H nf h leaf⟩ queries auths ≠ .ok () ∨
      Collision H := by
  by_cases hok : Vector.decommit H ⟨⟨Felt.ofNat h, nf⟩, root H nf h leaf⟩ queries auths = .ok ()
  · rcases decommit_sound H nf h hh leaf queries auths hne hsorted hrange hok with ⟨_, e, he⟩ | hc
    · exact absurd ⟨e, he.symm⟩ hbad
    · exact Or.inr hc
  · exact Or.inl hok

/-- Single-site form: the honest witness with one needed sibling `s` replaced by `s' ≠ s`. -/
theorem rejects_wrong_sibling_at (H : Hashes) (nf : Felt) (h : Nat) (hh : h ≤ 250)
    (leaf : Nat → Felt) (Q : List Nat) (pre post extra : List Felt) (s s' : Felt) (hne : Q ≠ [])
    (hsorted : Q.Pairwise (· < ·)) (hrange : ∀ i ∈ Q, i < 2 ^ h)
    (hp : authPath H nf h leaf Q = pre ++ s :: post) (hs : s' ≠ s) :
    Vector.decommit H ⟨⟨Felt.ofNat h, nf⟩, root H nf h leaf⟩
        (Q.map fun i => ⟨Felt.ofNat i, leaf i⟩) (pre ++ s' :: post ++ extra) ≠ .ok () ∨
      Collision H := by
  obtain ⟨h1, h2, h3⟩ := Proofs.Merkle.honestQueries_ok hh (leaf := leaf) hne hsorted hrange
  apply rejects_wrong_sibling H nf h hh leaf _ _ h1 h2 h3
  rw [Proofs.Merkle.honestQueries_idx hh hrange, hp]
  rintro ⟨t, ht⟩
  simp only [List.append_assoc, List.cons_append, List.append_cancel_left_eq, List.cons.injEq] at ht
  exact hs ht.1.symm

/-- The root differs from the committed one: the honest witness is rejected (no collision clause). -/
theorem rejects_wrong_root (H : Hashes) (nf : Felt) (h : Nat) (hh : h ≤ 250) (r : Felt)
    (leaf : Nat → Felt) (Q : List Nat) (extra : List Felt) (hne : Q ≠ [])
    (hsorted : Q.Pairwise (· < ·)) (hrange : ∀ i ∈ Q, i < 2 ^ h) (hroot : r ≠ root H nf h leaf) :
    Vector.decommit H ⟨⟨Felt.ofNat h, nf⟩, r⟩
      (Q.map fun i => ⟨Felt.ofNat i, leaf i⟩) (authPath H nf h leaf Q ++ extra) ≠ .ok () := by
  have := Proofs.Merkle.rejects_wrong_root (H := H) (nf := nf) hh r leaf Q extra hne hsorted
    hrange hroot
  unfold Proofs.Merkle.honestQueries at this
  rw [this]; simp

/-- An index is moved: the value of leaf `i` is presented at another in-range position `i'` whose
    committed leaf differs (the remaining queries `pre`, `post` and the witness are arbitrary):
    rejected, or explicit collision.  (Without `leaf i' ≠ leaf i` acceptance is legitimate: a tree
    with equal leaves opens both positions to the same value.) -/
theorem rejects_wrong_index (H : Hashes) (nf : Felt) (h : Nat) (hh : h ≤ 250) (leaf : Nat → Felt)
    (pre post : List Vector.Query) (i i' : Nat) (auths : List Felt) (hi' : i' < 2 ^ h)
    (hsorted : ((pre ++ ⟨Felt.ofNat i', leaf i⟩ :: post).map (·.index.val)).Pairwise (· < ·))
    (hrange : ∀ q ∈ pre ++ ⟨Felt.ofNat i', leaf i⟩ :: post, q.index.val < 2 ^ h)
    (hdiff : leaf i' ≠ leaf i) :
    Vector.decommit H ⟨⟨Felt.ofNat h, nf⟩, root H nf h leaf⟩
        (pre ++ ⟨Felt.ofNat i', leaf i⟩ :: post) auths ≠ .ok () ∨
      Collision H := by
  apply rejects_wrong_value H nf h hh leaf _ auths (by simp) hsorted hrange
  refine ⟨⟨Felt.ofNat i', leaf i⟩, by simp, ?_⟩
  have h251 := Proofs.Merkle.pow_le_250 hh
  have : (Felt.ofNat i').val = i' := Proofs.Merkle.ofNat_val (by omega)
  simp only [this]
  exact fun e => hdiff e.symm

/-- The byte string hashed by the masked variant determines the two children: a `Collision H` with
    `f = false` is a collision of `H.masked` on two distinct 64-byte strings. -/
theorem maskedHash_preimage_injective (x y x' y' : Felt)
    (hb : x.toBytesBE ++ y.toBytesBE = x'.toBytesBE ++ y'.toBytesBE) : x = x' ∧ y = y' :=
  Proofs.Merkle.maskedHash_preimage_injective hb

/-- The fuel supplied by `decommit` is never exhausted, for all inputs (every step decreases
    `queue.length + auths.length` by one: at most that many steps are taken). -/
theorem computeRoot_fuel (H : Hashes) (nf : Felt) (queue : List Vector.QD) (auths : List Felt) :
    Vector.computeRoot H nf (queue.length + auths.length + 1) queue auths ≠ .err "fuel" :=
  Proofs.Merkle.computeRoot_fuel_aux _ queue auths (Nat.lt_succ_self _)

/-- `decommit` never panics, for all inputs. -/
theorem decommit_no_panic (H : Hashes) (c : Vector.Commitment) (queries : List Vector.Query)
    (auths : List Felt) (s : String) : Vector.decommit H c queries auths ≠ .panic s :=
  Proofs.Merkle.decommit_no_panic c queries auths s

/-- Negative: a repeated index is not bound.  For every `H`, every tree of height 1, every `b` and
    `s`, the query list `[(0, leaf 0), (0, b)]` with witness `[leaf 1, s]` is accepted: the second
    value and its sibling are never checked.  (Hence `hsorted` above is strict, and the callers'
    de-duplication of sampled queries matters.) -/
theorem duplicate_query_unbound (H : Hashes) (nf : Felt) (leaf : Nat → Felt) (b s : Felt) :
    Vector.decommit H ⟨⟨Felt.ofNat 1, nf⟩, root H nf 1 leaf⟩
      [⟨Felt.ofNat 0, leaf 0⟩, ⟨Felt.ofNat 0, b⟩] [leaf 1, s] = .ok () :=
  Proofs.Merkle.duplicate_query_unbound leaf b s

/-! ### non-vacuity: height 3, friendly boundary in the middle (`nf = 2`), `Q = [2,3,6]` -/

/-- the hypotheses on `Q` are satisfiable -/
example : ([2, 3, 6] : List Nat) ≠ [] ∧ ([2, 3, 6] : List Nat).Pairwise (· < ·) ∧
    ∀ i ∈ ([2, 3, 6] : List Nat), i < 2 ^ 3 := by decide

/-- the authentication path is what one expects: leaf 7 (sibling of 6; 2 and 3 are each other's
    siblings), then the level-1 nodes with heap indices 4 and 6; nothing at the top level. -/
example (H : Hashes) (leaf : Nat → Felt) :
    authPath H (Felt.ofNat 2) 3 leaf [2, 3, 6] =
      [leaf 7, nodeAt H (Felt.ofNat 2) 3 leaf 1 4, nodeAt H (Felt.ofNat 2) 3 leaf 1 6] := by
  simp [authPath, authLayers, siblings, parents, sibling, nodeAt]

/-- both hash variants occur in this tree: depth-3 children are hashed with the masked hash,
    depth-2 and depth-1 children with the friendly hash -/
example (H : Hashes) (leaf : Nat → Felt) :
    nodeAt H (Felt.ofNat 2) 3 leaf 1 4 = H.masked ((leaf 0).toBytesBE ++ (leaf 1).toBytesBE) ∧
    root H (Felt.ofNat 2) 3 leaf =
      H.poseidon2 (nodeAt H (Felt.ofNat 2) 3 leaf 2 2) (nodeAt H (Felt.ofNat 2) 3 leaf 2 3) := by
  have : (Felt.ofNat 2).val = 2 := by decide +kernel
  simp [root, nodeAt, Vector.hashFU, this]

/-- the instance is accepted (so the hypotheses of `decommit_sound` are satisfiable too) -/
example (H : Hashes) (leaf : Nat → Felt) :
    Vector.decommit H ⟨⟨Felt.ofNat 3, Felt.ofNat 2⟩, root H (Felt.ofNat 2) 3 leaf⟩
      [⟨Felt.ofNat 2, leaf 2⟩, ⟨Felt.ofNat 3, leaf 3⟩, ⟨Felt.ofNat 6, leaf 6⟩]
      (authPath H (Felt.ofNat 2) 3 leaf [2, 3, 6]) = .ok () := by
  simpa using decommit_complete H (Felt.ofNat 2) 3 (by omega) leaf [2, 3, 6] [] (by simp)
    (by decide) (by decide)

end Swiftness.C04
