/-
  C15 — the diluted-check final value equals the result of the defining recurrence
  `r_1 = 1, r_(j+1) = r_j*(1 + z*u_j) + alpha*u_j^2` over all `2^n_bits` diluted values, and the
  public-memory product ratio equals `z^size` divided by the product of
  `(z - (address + alpha*value))` over all public cells (page products for continuous pages),
  padded to the column size with the padding cell.
  (`crates/air/src/diluted.rs`, `public_memory.rs`, `types.rs`.)

  Only property theorems and non-vacuity examples live here; helper lemmas are in
  `Proofs/Diluted.lean`, `Proofs/PublicMemory.lean`; the specification of the recurrence
  (`dilute`, `u`, `r`) is `Spec/DilutedSpec.lean`.

  NOTATION WARNING: on `Felt = Fin P` the symbol `/` is core's truncated division of
  representatives, not field division.  Field quotients are written `a * b⁻¹` below.
-/
import Swiftness.Model.Diluted
import Swiftness.Model.PublicInput
import Swiftness.Spec.DilutedSpec
import Swiftness.Proofs.Diluted
import Swiftness.Proofs.PublicMemory

namespace Swiftness.C15

open Swiftness Swiftness.DilutedSpec Swiftness.PublicInput
attribute [-instance] Fin.instOfNat

/-! ### the specification says what it should -/

/-- `dilute` spreads bits: `dilute s j = Σ_{b<n} bit_b(j)·2^(b·s)` for `j < 2^n` -/
theorem dilute_eq_sum (s n j : ℕ) (hj : j < 2 ^ n) :
    dilute s j = ∑ b ∈ Finset.range n, (j / 2 ^ b % 2) * 2 ^ (b * s) :=
  Proofs.dilute_eq_sum s n j hj

/-- `u_j = Dilute(j) − Dilute(j−1)` in the field -/
theorem u_eq (s j : ℕ) :
    u s j = ((dilute s j : ℕ) : Felt) - ((dilute s (j - 1) : ℕ) : Felt) := rfl

theorem r_one (s : ℕ) (z alpha : Felt) : r s z alpha 1 = 1 := Proofs.r_one s z alpha

theorem r_succ (s : ℕ) (z alpha : Felt) (j : ℕ) (hj : 1 ≤ j) :
    r s z alpha (j + 1) = r s z alpha j * (1 + z * u s j) + alpha * (u s j) ^ 2 :=
  Proofs.r_succ s z alpha j hj

/-! ### `get_diluted_product` -/

/-- The value returned by `get_diluted_product` is `r_(2^n_bits)`: the recurrence run over all
    `2^n_bits` diluted values (steps `j = 1 … 2^n_bits − 1`), for every spacing, `z`, `alpha`. -/
theorem diluted_closed_form (n : ℕ) (h1 : 1 ≤ n) (hn : n < P) (spacing z alpha : Felt) :
    Diluted.getDilutedProduct (n : Felt) spacing z alpha = r spacing.val z alpha (2 ^ n) :=
  Proofs.diluted_closed_form n h1 hn spacing z alpha

/-- The loop body runs exactly `n − 1` times for `1 ≤ n < P`. -/
theorem diluted_iterations (n : ℕ) (h1 : 1 ≤ n) (hn : n < P) (spacing z alpha : Felt) :
    ((n : Felt) - 1).val = n - 1 ∧
    Diluted.getDilutedProduct (n : Felt) spacing z alpha =
      (Diluted.iter ((2 : Felt) ^ spacing.val) z (n - 1)
          { x := 1, diffX := (2 : Felt) ^ spacing.val - 2, p := z + 1, q := 1 }).p
        + (Diluted.iter ((2 : Felt) ^ spacing.val) z (n - 1)
          { x := 1, diffX := (2 : Felt) ^ spacing.val - 2, p := z + 1, q := 1 }).q * alpha := by
  refine ⟨Proofs.cast_sub_one_val n h1 hn, ?_⟩
  rw [Proofs.getDilutedProduct_unfold, Proofs.cast_sub_one_val n h1 hn]

/-- Remark: for `n_bits = 0` the `Felt` loop counter would have to reach `−1`, i.e. `P − 1`
    iterations (never reached: all callers pass the constant 16). -/
theorem diluted_iterations_zero : ((0 : Felt) - 1).val = P - 1 := Proofs.zero_sub_one_val

/-- `u_j` depends only on the number of trailing zeros of `j` (the facts the Rust comment uses) -/
theorem u_periodic (s i m : ℕ) (h0 : 0 < m) (hm : m < 2 ^ i) : u s (2 ^ i + m) = u s m :=
  Proofs.u_periodic s i m h0 hm

theorem u_two_pow_succ (s i : ℕ) :
    u s (2 ^ (i + 1)) = u s (2 ^ i) + ((2 : Felt) ^ s) ^ i * ((2 : Felt) ^ s - 2) :=
  Proofs.u_two_pow_succ s i

/-! ### `get_public_memory_product_ratio` -/

/-- what `get_public_memory_product` returns: (product over the main-page cells times the product
    of the continuous-page products, main-page length plus the continuous-page sizes) -/
theorem memory_product (pi : PublicInput) (z alpha : Felt) :
    publicMemoryProduct pi z alpha =
      ((pi.mainPage.map fun c => z - (c.address + alpha * c.value)).prod
          * (pi.continuousPageHeaders.map (·.prod)).prod,
        (pi.mainPage.length : Felt) + (pi.continuousPageHeaders.map (·.size)).sum) :=
  Proofs.publicMemoryProduct_eq pi z alpha

/-- The ratio is `z^size · (∏_{main page}(z − (addr + alpha·val)) · ∏_{headers} prod ·
    (z − (padAddr + alpha·padVal))^(size − total))⁻¹`, `total` being the second component of
    `get_public_memory_product`. -/
theorem memory_ratio (pi : PublicInput) (z alpha size : Felt)
    (htot : (publicMemoryProduct pi z alpha).2.val ≤ size.val)
    (hprod : (publicMemoryProduct pi z alpha).1 ≠ 0)
    (hpad : (z - (pi.paddingAddr + alpha * pi.paddingValue))
        ^ (size - (publicMemoryProduct pi z alpha).2).val ≠ 0) :
    publicMemoryProductRatio pi z alpha size =
      .ok (z ^ size.val *
        ((pi.mainPage.map fun c => z - (c.address + alpha * c.value)).prod
          * (pi.continuousPageHeaders.map (·.prod)).prod
          * (z - (pi.paddingAddr + alpha * pi.paddingValue))
              ^ (size - (publicMemoryProduct pi z alpha).2).val)⁻¹) := by
  rw [Proofs.publicMemoryProduct_eq] at htot hprod hpad ⊢
  exact Proofs.memory_ratio pi z alpha size htot hprod hpad

/-- With no continuous pages and a main page that fits the column, the denominator is the product
    over the padded column: the main page followed by `size − len` copies of the padding cell
    (exactly `size` cells). -/
theorem memory_ratio_padded (pi : PublicInput) (z alpha size : Felt)
    (hc : pi.continuousPageHeaders = []) (hlen : pi.mainPage.length ≤ size.val)
    (hne : ((pi.mainPage ++ List.replicate (size.val - pi.mainPage.length)
        (⟨pi.paddingAddr, pi.paddingValue⟩ : AddrValue)).map
          fun c => z - (c.address + alpha * c.value)).prod ≠ 0) :
    (pi.mainPage ++ List.replicate (size.val - pi.mainPage.length)
        (⟨pi.paddingAddr, pi.paddingValue⟩ : AddrValue)).length = size.val ∧
    publicMemoryProductRatio pi z alpha size =
      .ok (z ^ size.val *
        (((pi.mainPage ++ List.replicate (size.val - pi.mainPage.length)
            (⟨pi.paddingAddr, pi.paddingValue⟩ : AddrValue)).map
              fun c => z - (c.address + alpha * c.value)).prod)⁻¹) :=
  ⟨Proofs.paddedColumn_length pi size hlen, Proofs.memory_ratio_padded pi z alpha size hc hlen hne⟩

/-- … and if that product vanishes (some cell, or the padding cell when padding is needed, has
    `z = addr + alpha·val`) the Rust returns `None`. -/
theorem memory_ratio_padded_err (pi : PublicInput) (z alpha size : Felt)
    (hc : pi.continuousPageHeaders = []) (hlen : pi.mainPage.length ≤ size.val)
    (h0 : ((pi.mainPage ++ List.replicate (size.val - pi.mainPage.length)
        (⟨pi.paddingAddr, pi.paddingValue⟩ : AddrValue)).map
          fun c => z - (c.address + alpha * c.value)).prod = 0) :
    ∃ s, publicMemoryProductRatio pi z alpha size = .err s :=
  Proofs.memory_ratio_padded_err pi z alpha size hc hlen h0

/-- The result is an error (`None` in the Rust) exactly when the total length exceeds the column
    size or one of the two divisors is zero, and it never panics. -/
theorem memory_ratio_guards (pi : PublicInput) (z alpha size : Felt) :
    ((∃ e, publicMemoryProductRatio pi z alpha size = .err e) ↔
      (size.val < (publicMemoryProduct pi z alpha).2.val
        ∨ (publicMemoryProduct pi z alpha).1 = 0
        ∨ (z - (pi.paddingAddr + alpha * pi.paddingValue))
            ^ (size - (publicMemoryProduct pi z alpha).2).val = 0)) ∧
    ∀ s, publicMemoryProductRatio pi z alpha size ≠ .panic s := by
  refine ⟨?_, Proofs.memory_ratio_no_panic pi z alpha size⟩
  rw [Proofs.publicMemoryProduct_eq]
  exact Proofs.memory_ratio_err_iff pi z alpha size

/-! ### non-vacuity -/

/-- the only parameters used by the layouts: `n_bits = 16`, `spacing = 4` -/
example (z alpha : Felt) :
    Diluted.getDilutedProduct (Felt.ofNat 16) (Felt.ofNat 4) z alpha = r 4 z alpha (2 ^ 16) := by
  have h := diluted_closed_form 16 (by norm_num) (by decide +kernel) (Felt.ofNat 4) z alpha
  have h4 : (Felt.ofNat 4).val = 4 := by decide +kernel
  rw [h4] at h
  exact h

/-- the first diluted differences for spacing 4: `Dilute = 0, 1, 16, 17, 256, …` -/
example : u 4 1 = 1 ∧ u 4 2 = 15 ∧ u 4 3 = 1 ∧ u 4 4 = 239 := by
  have d0 : dilute 4 0 = 0 := Proofs.dilute_zero 4
  have d1 : dilute 4 1 = 1 := by rw [Proofs.dilute_unfold]; norm_num [d0]
  have d2 : dilute 4 2 = 16 := by rw [Proofs.dilute_unfold]; norm_num [d1]
  have d3 : dilute 4 3 = 17 := by rw [Proofs.dilute_unfold]; norm_num [d1]
  have d4 : dilute 4 4 = 256 := by rw [Proofs.dilute_unfold]; norm_num [d2]
  refine ⟨?_, ?_, ?_, ?_⟩ <;> simp only [u_eq, Nat.add_one_sub_one, d0, d1, d2, d3, d4]
    <;> norm_num

/-- a concrete public input meeting the hypotheses of `memory_ratio_padded`:
    two cells, column size 4, `z = 100`, `alpha = 1` -/
example :
    publicMemoryProductRatio
      { logNSteps := Felt.ofNat 0, rangeCheckMin := Felt.ofNat 0, rangeCheckMax := Felt.ofNat 0,
        layout := Felt.ofNat 0, dynamicParams := none, segments := [],
        paddingAddr := Felt.ofNat 1, paddingValue := Felt.ofNat 2,
        mainPage := [⟨Felt.ofNat 1, Felt.ofNat 2⟩, ⟨Felt.ofNat 3, Felt.ofNat 4⟩],
        continuousPageHeaders := [] }
      (Felt.ofNat 100) (Felt.ofNat 1) (Felt.ofNat 4)
    = .ok (Felt.ofNat (100 ^ 4) * (Felt.ofNat (97 * 93 * 97 * 97))⁻¹) := by
  rw [(memory_ratio_padded _ _ _ _ rfl (by decide +kernel) (by decide +kernel)).2]
  decide +kernel

end Swiftness.C15
