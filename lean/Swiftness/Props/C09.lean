/-
  C09 — proof of work: a nonce is accepted for a transcript digest and difficulty `n` exactly when
  `H(H(0x0123456789abcded ‖ digest ‖ n) ‖ nonce)` (all integers big-endian, `H` the build's 256-bit
  hash) starts with `n` zero bits; difficulties outside `20..=50` are rejected by configuration
  validation; the nonce is absorbed into the transcript exactly when it is accepted.
  Only property theorems and non-vacuity examples live here; helper lemmas are in `Proofs/Pow.lean`.
-/
import Swiftness.Model.Pow
import Swiftness.Spec.PowSpec
import Swiftness.Proofs.Pow

namespace Swiftness.C09

open Swiftness Swiftness.Proofs

/-- justification of the per-byte count used by `Spec.leadingZeroBits`: a non-zero byte is below
    `2^(8-k)` iff it has at least `k` leading zero bits. -/
theorem clz8_spec (b : UInt8) (hb : b ≠ 0) (k : ℕ) (hk : k ≤ 8) :
    b.toNat < 2 ^ (8 - k) ↔ k ≤ Spec.clz8 b := PowLemmas.clz8_spec b hb k hk

/-- … and for whole strings: the big-endian value of `bs` is below `2^(8·|bs| - k)` iff `bs` starts
    with at least `k` zero bits. -/
theorem leadingZeroBits_spec (bs : List UInt8) (k : ℕ) (hk : k ≤ 8 * bs.length) :
    Felt.natOfBytesBE bs < 2 ^ (8 * bs.length - k) ↔ k ≤ Spec.leadingZeroBits bs := by
  have := PowLemmas.take_lt_iff bs bs.length k (le_refl _) hk
  rwa [List.take_length] at this

/-- Acceptance is exactly "`n` leading zero bits of the final hash"; otherwise an error, never a
    panic (for `n ≤ 128`; configuration validation caps `n` at 50). -/
theorem pow_iff (H : Hashes) (hlen : ∀ x, (H.h256 x).length = 32)
    (digest : List UInt8) (n nonce : ℕ) (hn : n ≤ 128) :
    (Pow.verifyPow H digest n nonce = .ok () ↔
      n ≤ Spec.leadingZeroBits (Pow.finalHash H digest n nonce)) ∧
    (Pow.verifyPow H digest n nonce ≠ .ok () → ∃ e, Pow.verifyPow H digest n nonce = .err e) :=
  ⟨PowLemmas.verifyPow_ok_iff H hlen digest n nonce hn,
   fun h => ⟨_, PowLemmas.verifyPow_not_ok H digest n nonce hn h⟩⟩

/-- Layout of the two preimages: `MAGIC` (8 bytes big-endian) ‖ digest ‖ one byte `n`, then
    `H(first) ‖ nonce` with the nonce as 8 big-endian bytes. -/
theorem pow_preimage_layout (H : Hashes) (digest : List UInt8) (n nonce : ℕ) :
    Pow.initData digest n =
      [0x01, 0x23, 0x45, 0x67, 0x89, 0xab, 0xcd, 0xed] ++ digest ++ [UInt8.ofNat n] ∧
    (digest.length = 32 → (Pow.initData digest n).length = 41) ∧
    Pow.finalHash H digest n nonce = H.h256 (H.h256 (Pow.initData digest n) ++ Pow.be64 nonce) ∧
    (Pow.be64 nonce).length = 8 ∧
    (nonce < 2 ^ 64 → Felt.natOfBytesBE (Pow.be64 nonce) = nonce) := by
  refine ⟨PowLemmas.initData_eq digest n, ?_, rfl, PowLemmas.be64_length nonce,
    PowLemmas.be64_roundtrip nonce⟩
  intro h
  rw [PowLemmas.initData_eq]
  simp [h]

/-- The checked `u8` subtraction `128 - n_bits` panics above 128 (reachable only by calling the
    public function directly: configuration validation caps `n` at 50). -/
theorem pow_panics_above_128 (H : Hashes) (digest : List UInt8) (n nonce : ℕ) (hn : n > 128) :
    ∃ s, Pow.verifyPow H digest n nonce = .panic s :=
  ⟨_, PowLemmas.verifyPow_panic H digest n nonce hn⟩

/-- Configuration validation accepts exactly the difficulties `20..=50`, and never panics. -/
theorem pow_config_iff (n : ℕ) :
    (Pow.configValidate n = .ok () ↔ 20 ≤ n ∧ n ≤ 50) ∧ ∀ s, Pow.configValidate n ≠ .panic s :=
  ⟨PowLemmas.configValidate_ok_iff n, PowLemmas.configValidate_no_panic n⟩

/-- The nonce is absorbed into the transcript exactly when it is accepted, and it is absorbed into
    the digest that the subsequent query sampling reads. -/
theorem commit_spec (H : Hashes) (t t' : Transcript) (n nonce : ℕ) :
    Pow.commit H t n nonce = .ok t' ↔
      (Pow.verifyPow H t.digest.toBytesBE n nonce = .ok () ∧ t' = t.readU64 H nonce) :=
  PowLemmas.commit_ok_iff H t t' n nonce

/-! ### non-vacuity -/

/-- toy hash returning 32 copies of one byte -/
private def constH (b : UInt8) : Hashes := { Hashes.k160 with h256 := fun _ => List.replicate 32 b }

/-- with an all-zero hash every nonce is accepted, even at difficulty 128 … -/
example (digest : List UInt8) (nonce : ℕ) : Pow.verifyPow (constH 0) digest 128 nonce = .ok () := by
  refine ((pow_iff (constH 0) (fun _ => by simp [constH]) digest 128 nonce (le_refl _)).1).2 ?_
  show 128 ≤ Spec.leadingZeroBits (List.replicate 32 0)
  decide +kernel

/-- … and with an all-ones hash no nonce is accepted for any difficulty `1 ≤ n ≤ 128`. -/
example (digest : List UInt8) (n nonce : ℕ) (h1 : 1 ≤ n) (hn : n ≤ 128) :
    ∃ e, Pow.verifyPow (constH 0xff) digest n nonce = .err e := by
  have h := pow_iff (constH 0xff) (fun _ => by simp [constH]) digest n nonce hn
  refine h.2 (fun hok => ?_)
  have h2 := h.1.1 hok
  have h3 : Spec.leadingZeroBits (Pow.finalHash (constH 0xff) digest n nonce) = 0 := by
    show Spec.leadingZeroBits (List.replicate 32 0xff) = 0
    decide +kernel
  omega

end Swiftness.C09
