/-
  C11 — configuration validation accepts exactly the consistent, sufficiently secure
  configurations (`Spec.ConfigOK`, every number read as a natural number), and never panics.
  Only property theorems and non-vacuity examples live here; helper lemmas are in
  `Proofs/Config{Basic,Arith,Main}.lean`.
-/
import Swiftness.Model.StarkConfig
import Swiftness.Spec.ConfigOK
import Swiftness.Proofs.ConfigMain

namespace Swiftness.C11

open Swiftness Swiftness.Proofs

/-- `StarkConfig::validate` accepts exactly when `Spec.ConfigOK` holds.  `nc1`, `nc2` are the
    layout's column counts (between 1 and 128 for every layout); `hpow` records that the
    proof-of-work difficulty is a `u8` (it is not needed by the proof). -/
theorem validate_iff (c : StarkConfig) (sec nc1 nc2 : Felt) (_hpow : c.powBits < 256)
    (hcols : 1 ≤ nc1.val ∧ nc1.val ≤ 128 ∧ 1 ≤ nc2.val ∧ nc2.val ≤ 128) :
    StarkConfig.validate c sec nc1 nc2 = .ok () ↔ Spec.ConfigOK c sec nc1 nc2 :=
  ConfigLemmas.validate_iff c sec nc1 nc2 hcols

/-- Validation never panics, on any input whatsoever. -/
theorem validate_no_panic (c : StarkConfig) (sec nc1 nc2 : Felt) (site : String) :
    StarkConfig.validate c sec nc1 nc2 ≠ .panic site :=
  ConfigLemmas.stark_validate_no_panic c sec nc1 nc2 site

/-- An accepted configuration has blow-up exponent ≥ 1, FRI input exponent = trace exponent +
    blow-up exponent (as natural numbers), and the FRI degree-bound exponent returned by
    `fri::Config::validate` is the trace-length exponent. -/
theorem accepted_rate (c : StarkConfig) (sec nc1 nc2 : Felt)
    (h : StarkConfig.validate c sec nc1 nc2 = .ok ()) :
    1 ≤ c.logNCosets.val ∧
    c.fri.logInputSize.val = c.logTraceDomainSize.val + c.logNCosets.val ∧
    c.fri.validate c.logNCosets c.nFriendly = .ok c.logTraceDomainSize :=
  (ConfigLemmas.accepted_facts c sec nc1 nc2 h).1

/-- Size bounds of every accepted configuration. -/
theorem accepted_bounds (c : StarkConfig) (sec nc1 nc2 : Felt)
    (h : StarkConfig.validate c sec nc1 nc2 = .ok ()) :
    c.logTraceDomainSize.val ≤ 71 ∧ c.nQueries.val ≤ 48 ∧ c.fri.nLayers.val ≤ 15 :=
  (ConfigLemmas.accepted_facts c sec nc1 nc2 h).2

/-! ### non-vacuity -/

private def exV (h : Nat) : Vector.Config := ⟨Felt.ofNat h, Felt.ofNat 9⟩

/-- trace exponent 18, blow-up exponent 2, 16 queries, 30 PoW bits, FRI steps `[0,4,3,2,2]`,
    last-layer bound `2^7`, 7 + 3 trace columns -/
private def exCfg : StarkConfig where
  traces := ⟨⟨Felt.ofNat 7, exV 20⟩, ⟨Felt.ofNat 3, exV 20⟩⟩
  composition := ⟨Felt.ofNat 2, exV 20⟩
  fri :=
    { logInputSize := Felt.ofNat 20
      nLayers := Felt.ofNat 5
      innerLayers := [⟨Felt.ofNat 16, exV 16⟩, ⟨Felt.ofNat 8, exV 13⟩, ⟨Felt.ofNat 4, exV 11⟩,
        ⟨Felt.ofNat 4, exV 9⟩]
      friStepSizes := [Felt.ofNat 0, Felt.ofNat 4, Felt.ofNat 3, Felt.ofNat 2, Felt.ofNat 2]
      logLastLayerDegreeBound := Felt.ofNat 7 }
  powBits := 30
  logTraceDomainSize := Felt.ofNat 18
  nQueries := Felt.ofNat 16
  logNCosets := Felt.ofNat 2
  nFriendly := Felt.ofNat 9

/-- the model accepts this configuration at security level 62 = 16·2 + 30 … -/
example : exCfg.validate (Felt.ofNat 62) (Felt.ofNat 7) (Felt.ofNat 3) = .ok () := by
  decide +kernel

/-- … so `Spec.ConfigOK` is satisfiable (the hypotheses of `validate_iff` are met) … -/
example : Spec.ConfigOK exCfg (Felt.ofNat 62) (Felt.ofNat 7) (Felt.ofNat 3) :=
  (validate_iff exCfg _ _ _ (by decide) (by decide +kernel)).mp (by decide +kernel)

/-- … and it is not trivially true: one more security bit is refused (with an error). -/
example : exCfg.validate (Felt.ofNat 63) (Felt.ofNat 7) (Felt.ofNat 3) =
    .err "InsufficientSecurity" := by
  decide +kernel

end Swiftness.C11
