/-
  C14 — Public-input validation accepts exactly inputs whose step count matches the trace length,
  whose segment count, layout code and range-check bounds are valid, and whose builtin segment
  usages are whole numbers of instances not exceeding what the trace holds.  The returned program
  hash and output hash are computed from main-page cells whose addresses are the consecutive
  program addresses starting at the initial pc and the consecutive output-segment addresses; a main
  page whose cells sit at other addresses, or that is too short, is rejected rather than hashed
  positionally.
  (`validate_public_input` / `verify_public_input` of the six static layouts,
  `crates/air/src/layout/<L>/mod.rs`; model `Model/LayoutStatic.lean`, generic in the
  translator-read `LayoutData`.)

  Specification vocabulary: `Spec/PublicInputOK.lean` (`PublicInputOK`, `BuiltinRowOK`, `usage`,
  `WellFormed`, `programLen`, `VerifyOK`).  Helper lemmas: `Proofs/PublicInputCheck*.lean`.

  ALL SIX static layouts: the generated constants and builtin tables of dex, recursive,
  recursive_with_poseidon, small, starknet, starknet_with_keccak are well-formed
  (`generated_layouts_wellFormed`, by evaluating the computable check `wellFormedB`), so the main
  theorem holds for each of them with no hypothesis left (`validate_pi_iff_static_layouts`,
  `validate_pi_iff_<L>`).

  NO PROVISO on the trace length: each builtin's `copies = trace_length.field_div(row_ratio)` is
  required to be `<= u128::MAX`, which forces the row ratio to divide the trace length
  (`copies_small_iff`); a trace SHORTER than a builtin's row ratio (field quotient near `P`) is
  rejected (`short_trace_rejected`, `short_trace_witness_rejected`).  History: before that check
  was added such a trace made `uses <= copies` vacuous and was accepted with arbitrary usages (the
  witness below was accepted by the real code); `copies_short` records the arithmetic.
-/
import Swiftness.Spec.PublicInputOK
import Swiftness.Proofs.PublicInputCheckArith
import Swiftness.Proofs.PublicInputCheckValidate
import Swiftness.Proofs.PublicInputCheckVerify
import Swiftness.Proofs.PublicInputCheckExample
import Swiftness.Proofs.PublicInputCheckLayouts

namespace Swiftness.C14

open Swiftness Swiftness.LayoutData Swiftness.Spec
attribute [-instance] Fin.instOfNat

/-! ### field division versus whole numbers of instances -/

/-- THE KEY ARITHMETIC FACT.  `field_div(d, k) <= m` (`field_div` = multiplication by the inverse
    of `k`; `m · k < P`, e.g. `m < 2^128`, `k ≤ 16`) holds exactly when `k` divides the
    representative of `d` and the natural quotient is at most `m`. -/
theorem uses_field_div (k : ℕ) (hk : 0 < k) (hkP : k < P) (d : Felt) (m : ℕ) (hm : m * k < P) :
    (d * Felt.inv (Felt.ofNat k)).val ≤ m ↔ (k ∣ d.val ∧ d.val / k ≤ m) :=
  Proofs.PIC.uses_field_div k hk hkP d m hm

/-- `copies` for a trace of length `2^t` and a row ratio `2^r ≤ 2^t`: the natural quotient -/
theorem copies_exact (t r : ℕ) (hrt : r ≤ t) (ht : t ≤ 192) :
    (Felt.ofNat (2 ^ t) * Felt.inv (Felt.ofNat (2 ^ r))).val = 2 ^ (t - r) :=
  Proofs.PIC.copies_exact t r hrt ht

/-- a `u128`-small `copies` forces the ratio to divide the trace length … -/
theorem copies_small_iff (t ratio : ℕ) (ht : t ≤ 71) (hr : 0 < ratio) (hr64 : ratio < 2 ^ 64)
    (h : (Felt.ofNat (2 ^ t) * Felt.inv (Felt.ofNat ratio)).val < 2 ^ 128) : ratio ∣ 2 ^ t :=
  Proofs.PIC.copies_small_iff t ratio ht hr hr64 h

/-- … and for a trace `2^t` SHORTER than the row ratio `2^r` the value of `copies` is
    `P - (P-1)/2^(r-t)`, at least `2^250` (in fact `≥ (P+1)/2`). -/
theorem copies_short (t r : ℕ) (htr : t < r) (hr : r ≤ 192) :
    (Felt.ofNat (2 ^ t) * Felt.inv (Felt.ofNat (2 ^ r))).val = P - (P - 1) / 2 ^ (r - t) ∧
    2 ^ 250 ≤ (Felt.ofNat (2 ^ t) * Felt.inv (Felt.ofNat (2 ^ r))).val :=
  ⟨Proofs.PIC.copies_short t r htr hr, Proofs.PIC.copies_short_ge t r htr hr⟩

/-! ### `validate_public_input` -/

/-- the recursive layout's generated constants and builtin table are well-formed -/
example : WellFormed Proofs.PIC.recursiveData := Proofs.PIC.recursiveData_wellFormed

/-- `validate_public_input` never panics (all inputs, all layout data). -/
theorem validate_pi_no_panic (D : LayoutData) (pi : PublicInput) (d : StarkDomains) (s : String) :
    D.validatePublicInput pi d ≠ .panic s :=
  Proofs.PIC.validate_ne_panic D pi d s

/-- MAIN.  For well-formed layout data and ANY trace length `T < P`: the input is accepted EXACTLY
    when the natural-number specification holds (step count matches the trace length, segment
    count, range-check bounds, layout code, output usage `≤ u128::MAX`, and for every builtin: the
    row ratio divides `T` and the usage is a whole number of instances `≤ T / ratio`). -/
theorem validate_pi_iff (D : LayoutData) (hD : WellFormed D) (pi : PublicInput) (d : StarkDomains)
    (T : ℕ) (hT : T < P) (hd : d.traceDomainSize = Felt.ofNat T) :
    D.validatePublicInput pi d = .ok () ↔ PublicInputOK D pi T :=
  Proofs.PIC.validate_iff D hD pi d T hT hd

/-- the same for a power-of-two trace `2^t` (what `StarkDomains::new` produces) -/
theorem validate_pi_iff_pow2 (D : LayoutData) (hD : WellFormed D) (pi : PublicInput) (d : StarkDomains)
    (t : ℕ) (ht : t ≤ 250) (hd : d.traceDomainSize = Felt.ofNat (2 ^ t)) :
    D.validatePublicInput pi d = .ok () ↔ PublicInputOK D pi (2 ^ t) :=
  validate_pi_iff D hD pi d (2 ^ t) (Proofs.PIC.two_pow_lt_P ht) hd

/-! ### short traces are rejected -/

/-- a trace whose length is not a multiple of some builtin's row ratio (for power-of-two lengths: a
    trace shorter than one instance of that builtin) is rejected, whatever the usages -/
theorem short_trace_rejected (D : LayoutData) (hD : WellFormed D) (pi : PublicInput) (d : StarkDomains)
    (T : ℕ) (hT : T < P) (hd : d.traceDomainSize = Felt.ofNat T)
    (row : ℕ × ℕ × ℕ) (hrow : row ∈ D.builtins) (hnd : ¬ row.2.1 ∣ T) :
    D.validatePublicInput pi d ≠ .ok () := by
  intro h
  obtain ⟨_, _, _, _, _, _, _, h8⟩ := (validate_pi_iff D hD pi d T hT hd).mp h
  obtain ⟨seg, ratio, cells⟩ := row
  obtain ⟨_, _, hdvd, _⟩ := h8 _ hrow
  exact hnd hdvd

/-- row level: for a trace `2^t` shorter than the row ratio `2^r` the test of that builtin fails -/
theorem short_trace_row_rejected (pi : PublicInput) (t r seg cells : ℕ) (htr : t < r) (hr : r ≤ 192) :
    builtinOK pi (Felt.ofNat (2 ^ t)) (seg, 2 ^ r, cells) ≠ .ok () :=
  Proofs.PIC.builtinOK_short_trace pi t r seg cells htr hr

/-- THE FORMER WITNESS of the short-trace gap (recursive layout: one step, trace length `16`,
    Pedersen usage `1` cell, range-check usage `1000`, bitwise usage `7`) is now rejected by the
    model with `UsesInvalid`; it never satisfied the specification. -/
theorem short_trace_witness_rejected :
    Proofs.PIC.recursiveData.validatePublicInput Proofs.PIC.shortPi (Proofs.PIC.mkDomains 16) =
      .err "UsesInvalid" ∧
    ¬ PublicInputOK Proofs.PIC.recursiveData Proofs.PIC.shortPi 16 :=
  ⟨Proofs.PIC.shortPi_validate, Proofs.PIC.shortPi_not_ok⟩

/-! ### `verify_public_input` -/

/-- `verify_public_input` never panics (all inputs, all layout data, all hash functions). -/
theorem verify_pi_no_panic (D : LayoutData) (H : Hashes) (pi : PublicInput) (s : String) :
    D.verifyPublicInput H pi ≠ .panic s :=
  Proofs.PIC.verify_ne_panic D H pi s

/-- MAIN.  `verify_public_input` returns `(a, b)` exactly when: the three segments are present,
    `initial_ap, final_ap < MAX_ADDRESS`, there are no continuous pages, `initial_pc = INITIAL_PC`,
    `final_pc = INITIAL_PC + 4`, the program and output lengths fit `usize` and the main page, the
    first `programLen` cells are at addresses `initial_pc + i`, the last `outputLen` cells are at
    addresses `output_begin + i`, and `a` / `b` are the Pedersen chains over exactly those cells'
    values (`Spec.VerifyOK`). -/
theorem verify_pi_ok_iff (D : LayoutData) (H : Hashes) (pi : PublicInput) (a b : Felt) :
    D.verifyPublicInput H pi = .ok (a, b) ↔ VerifyOK D H pi a b :=
  Proofs.PIC.verify_iff D H pi a b

/-- a program or output cell that is not at its address: rejected (never hashed positionally) -/
theorem rejects_shifted_addresses (D : LayoutData) (H : Hashes) (pi : PublicInput)
    (prog exec out : SegmentInfo)
    (hp : pi.segments[D.constD "SEG_PROGRAM"]? = some prog)
    (he : pi.segments[D.constD "SEG_EXECUTION"]? = some exec)
    (ho : pi.segments[D.constD "SEG_OUTPUT"]? = some out)
    (h : (∃ i, i < programLen prog exec ∧
            (pi.mainPage[i]?).map (·.address) ≠ some (prog.beginAddr + Felt.ofNat i)) ∨
         (∃ i, i < usage out ∧
            (pi.mainPage[pi.mainPage.length - usage out + i]?).map (·.address) ≠
              some (out.beginAddr + Felt.ofNat i)))
    (ab : Felt × Felt) : D.verifyPublicInput H pi ≠ .ok ab := by
  obtain ⟨a, b⟩ := ab
  intro hok
  obtain ⟨p, e, o, hp', he', ho', _, _, _, _, _, _, _, _, _, hA, hB, _, _⟩ :=
    (verify_pi_ok_iff D H pi a b).mp hok
  cases hp.symm.trans hp'; cases he.symm.trans he'; cases ho.symm.trans ho'
  rcases h with ⟨i, hi, hne⟩ | ⟨i, hi, hne⟩
  · exact hne (hA i hi)
  · exact hne (hB i hi)

/-- a main page shorter than program + output: rejected -/
theorem rejects_short_page (D : LayoutData) (H : Hashes) (pi : PublicInput)
    (prog exec out : SegmentInfo)
    (hp : pi.segments[D.constD "SEG_PROGRAM"]? = some prog)
    (he : pi.segments[D.constD "SEG_EXECUTION"]? = some exec)
    (ho : pi.segments[D.constD "SEG_OUTPUT"]? = some out)
    (h : pi.mainPage.length < programLen prog exec + usage out)
    (ab : Felt × Felt) : D.verifyPublicInput H pi ≠ .ok ab := by
  obtain ⟨a, b⟩ := ab
  intro hok
  obtain ⟨p, e, o, hp', he', ho', _, _, _, _, _, _, _, _, hlen, _⟩ :=
    (verify_pi_ok_iff D H pi a b).mp hok
  cases hp.symm.trans hp'; cases he.symm.trans he'; cases ho.symm.trans ho'
  omega

/-! ### the Pedersen chain binds the hashed cells -/

/-- collision extraction: two different value lists (of `usize` length) with the same chain hash
    yield an explicit `pedersen_hash` collision -/
theorem hashChain_binding (H : Hashes) (v w : List Felt) (hv : v.length < 2 ^ 64)
    (hw : w.length < 2 ^ 64) (hne : v ≠ w) (he : hashChain H v = hashChain H w) :
    ∃ x y x' y', (x, y) ≠ (x', y') ∧ H.pedersen x y = H.pedersen x' y' := by
  rcases Proofs.PIC.hashChain_inj H v w hv hw he with h | h
  · exact absurd h hne
  · exact h

/-! ### non-vacuity (recursive layout: generated constants and builtin table) -/

/-- an honest small input (`2^7` steps, trace length `2048`, 2-cell program at addresses 1, 2, one
    output cell at address 20) is accepted by `validate_public_input` … -/
example : Proofs.PIC.recursiveData.validatePublicInput Proofs.PIC.goodPi (Proofs.PIC.mkDomains 2048) = .ok () :=
  Proofs.PIC.goodPi_validate

/-- … it satisfies the specification (through `validate_pi_iff_pow2`, `2048 = 2^11`) … -/
example : PublicInputOK Proofs.PIC.recursiveData Proofs.PIC.goodPi (2 ^ 11) :=
  (validate_pi_iff_pow2 Proofs.PIC.recursiveData Proofs.PIC.recursiveData_wellFormed Proofs.PIC.goodPi
    (Proofs.PIC.mkDomains 2048) 11 (by norm_num) rfl).mp Proofs.PIC.goodPi_validate

/-- … and by `verify_public_input`, for every hash function, returning the chains over the program
    values and the output values -/
example (H : Hashes) :
    Proofs.PIC.recursiveData.verifyPublicInput H Proofs.PIC.goodPi =
      .ok (hashChain H [Felt.ofNat 11, Felt.ofNat 22], hashChain H [Felt.ofNat 33]) :=
  Proofs.PIC.goodPi_verify H

/-- the same page with the program cells moved to addresses 1001, 1002 is rejected -/
example (H : Hashes) :
    Proofs.PIC.recursiveData.verifyPublicInput H Proofs.PIC.shiftedPi = .err "MainPageInvalid" :=
  Proofs.PIC.shiftedPi_verify H

/-! ### all six static layouts (generated constants and builtin tables)

  `Proofs/PublicInputCheckLayouts.lean`: `wellFormedB : LayoutData → Bool` is a computable check with
  `wellFormedB D = true ↔ WellFormed D`; the data of each layout (`dexData`, `recursiveData`,
  `recursiveWithPoseidonData`, `smallData`, `starknetData`, `starknetWithKeccakData`: the generated
  constants and `Gen.Layout.<L>.builtinTable`) passes it by evaluation, so nothing below depends on
  the concrete rows of a table. -/

/-- the computable well-formedness check decides `WellFormed` -/
theorem wellFormedB_iff (D : LayoutData) : Proofs.PIC.wellFormedB D = true ↔ WellFormed D :=
  Proofs.PIC.wellFormedB_iff D

/-- the generated constants and builtin tables of ALL SIX static layouts are well-formed -/
theorem generated_layouts_wellFormed :
    WellFormed Proofs.PIC.dexData ∧ WellFormed Proofs.PIC.recursiveData ∧
    WellFormed Proofs.PIC.recursiveWithPoseidonData ∧ WellFormed Proofs.PIC.smallData ∧
    WellFormed Proofs.PIC.starknetData ∧ WellFormed Proofs.PIC.starknetWithKeccakData :=
  ⟨Proofs.PIC.dexData_wellFormed, Proofs.PIC.recursiveData_wellFormed,
   Proofs.PIC.recursiveWithPoseidonData_wellFormed, Proofs.PIC.smallData_wellFormed,
   Proofs.PIC.starknetData_wellFormed, Proofs.PIC.starknetWithKeccakData_wellFormed⟩

/-- PAYOFF.  For each of the six static layouts, with its generated data, and for ALL public inputs
    and ALL domains (no hypothesis left): `validate_public_input` accepts exactly when the
    natural-number specification holds for the trace length the domains carry. -/
theorem validate_pi_iff_static_layouts (D : LayoutData)
    (hD : D ∈ [Proofs.PIC.dexData, Proofs.PIC.recursiveData, Proofs.PIC.recursiveWithPoseidonData,
      Proofs.PIC.smallData, Proofs.PIC.starknetData, Proofs.PIC.starknetWithKeccakData])
    (pi : PublicInput) (d : StarkDomains) :
    D.validatePublicInput pi d = .ok () ↔ PublicInputOK D pi d.traceDomainSize.val :=
  validate_pi_iff D (Proofs.PIC.staticLayoutData_wellFormed D hD) pi d d.traceDomainSize.val
    d.traceDomainSize.isLt (Proofs.PIC.felt_ofNat_val d.traceDomainSize).symm

theorem validate_pi_iff_dex (pi : PublicInput) (d : StarkDomains) :
    Proofs.PIC.dexData.validatePublicInput pi d = .ok () ↔
      PublicInputOK Proofs.PIC.dexData pi d.traceDomainSize.val :=
  validate_pi_iff_static_layouts _ (by simp) pi d

theorem validate_pi_iff_recursive (pi : PublicInput) (d : StarkDomains) :
    Proofs.PIC.recursiveData.validatePublicInput pi d = .ok () ↔
      PublicInputOK Proofs.PIC.recursiveData pi d.traceDomainSize.val :=
  validate_pi_iff_static_layouts _ (by simp) pi d

theorem validate_pi_iff_recursive_with_poseidon (pi : PublicInput) (d : StarkDomains) :
    Proofs.PIC.recursiveWithPoseidonData.validatePublicInput pi d = .ok () ↔
      PublicInputOK Proofs.PIC.recursiveWithPoseidonData pi d.traceDomainSize.val :=
  validate_pi_iff_static_layouts _ (by simp) pi d

theorem validate_pi_iff_small (pi : PublicInput) (d : StarkDomains) :
    Proofs.PIC.smallData.validatePublicInput pi d = .ok () ↔
      PublicInputOK Proofs.PIC.smallData pi d.traceDomainSize.val :=
  validate_pi_iff_static_layouts _ (by simp) pi d

theorem validate_pi_iff_starknet (pi : PublicInput) (d : StarkDomains) :
    Proofs.PIC.starknetData.validatePublicInput pi d = .ok () ↔
      PublicInputOK Proofs.PIC.starknetData pi d.traceDomainSize.val :=
  validate_pi_iff_static_layouts _ (by simp) pi d

theorem validate_pi_iff_starknet_with_keccak (pi : PublicInput) (d : StarkDomains) :
    Proofs.PIC.starknetWithKeccakData.validatePublicInput pi d = .ok () ↔
      PublicInputOK Proofs.PIC.starknetWithKeccakData pi d.traceDomainSize.val :=
  validate_pi_iff_static_layouts _ (by simp) pi d

/-- in particular: on every static layout a trace whose length is not a multiple of some builtin's
    row ratio is rejected, for all inputs -/
theorem short_trace_rejected_static_layouts (D : LayoutData)
    (hD : D ∈ [Proofs.PIC.dexData, Proofs.PIC.recursiveData, Proofs.PIC.recursiveWithPoseidonData,
      Proofs.PIC.smallData, Proofs.PIC.starknetData, Proofs.PIC.starknetWithKeccakData])
    (pi : PublicInput) (d : StarkDomains)
    (row : ℕ × ℕ × ℕ) (hrow : row ∈ D.builtins) (hnd : ¬ row.2.1 ∣ d.traceDomainSize.val) :
    D.validatePublicInput pi d ≠ .ok () :=
  short_trace_rejected D (Proofs.PIC.staticLayoutData_wellFormed D hD) pi d d.traceDomainSize.val
    d.traceDomainSize.isLt (Proofs.PIC.felt_ofNat_val d.traceDomainSize).symm row hrow hnd

/-- non-vacuity on the largest table (starknet_with_keccak, seven builtins): an honest input with one
    instance of each builtin on a trace of length `32768 = 2^15` is accepted and satisfies the
    specification; with half a Keccak instance (8 of 16 cells) it is rejected and does not -/
example :
    Proofs.PIC.starknetWithKeccakData.validatePublicInput Proofs.PIC.keccakGoodPi
      (Proofs.PIC.mkDomains 32768) = .ok () ∧
    PublicInputOK Proofs.PIC.starknetWithKeccakData Proofs.PIC.keccakGoodPi
      (Proofs.PIC.mkDomains 32768).traceDomainSize.val ∧
    ¬ PublicInputOK Proofs.PIC.starknetWithKeccakData Proofs.PIC.keccakHalfPi
      (Proofs.PIC.mkDomains 32768).traceDomainSize.val :=
  ⟨Proofs.PIC.keccakGoodPi_validate,
   (validate_pi_iff_starknet_with_keccak _ _).mp Proofs.PIC.keccakGoodPi_validate,
   fun h => by
     have h' := (validate_pi_iff_starknet_with_keccak _ _).mpr h
     rw [Proofs.PIC.keccakHalfPi_validate] at h'
     cases h'⟩

end Swiftness.C14
