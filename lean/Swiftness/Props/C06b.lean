/-
  C06b — FRI completeness (first sentence of C06):
    "For every valid FRI configuration, every polynomial of degree below the configured bound and every
     query set, the commitments, coset leaves, authentication paths and last-layer coefficients obtained
     by honestly folding that polynomial are accepted."

  Objects.
  * Verifier: the model `Swiftness/Model/Fri.lean` (`Fri.commit`, `Fri.verify`, `Fri.Config.validate`).
  * Honest prover: `Swiftness/Prover/FriProver.lean` (`Prover.friProve`, `Prover.friConfig`), the
    executable prover whose output the REAL Rust `fri_commit` + `fri_verify` accept (driver test).
    The main theorem `fri_complete` is about THIS prover.
    `Proofs.FriComplete.friProveSpec` is the same prover with the executable Merkle builder
    `Prover.buildTableAuth` replaced by the SPEC functions `TableSpec.tableRoot` / `Merkle.authPath`
    (`Proofs/FriCompleteLayer.lean`; otherwise identical, line by line); `friProve_eq_spec` shows the
    two coincide on well-formed query lists, via `buildAuth_spec` / `buildTableAuth_spec` (the
    executable Merkle builder computes the spec root and authentication path).
  * A configuration is `(steps, lastBound, logNCosets)`: `steps` are the FRI step sizes after the
    leading `0` (so there are `steps.length + 1` layers), the last layer has `2^lastBound`
    coefficients, the evaluation domain has log-size `L = steps.sum + lastBound + logNCosets`.
    "Valid": `1 ≤ steps.length ≤ 14` (2..15 layers), every step in `1..4`, `lastBound ≤ 15`,
    `1 ≤ logNCosets ≤ 16`, `L ≤ 64`.
  * A polynomial is its coefficient list `cs` (lowest degree first), "degree below the bound":
    `cs.length ≤ 2^(steps.sum + lastBound)`.  A query set is a non-empty strictly increasing list `Q`
    of (bit-reversed) domain indices `< 2^L`.

  All theorems hold for an ARBITRARY `H : Hashes`, arbitrary `nf` and arbitrary initial transcript.
  Only property theorems and non-vacuity examples live here; proofs are in `Proofs/FriComplete*.lean`.
-/
import Swiftness.Proofs.FriCompleteReal

namespace Swiftness.C06b

open Swiftness Fri FoldSpec Prover Proofs.FriComplete
attribute [-instance] Fin.instOfNat

/-! ### building blocks (exported) -/

/-- the prover's folded polynomial is `2^k · Σ_j b^j · P_j` … -/
theorem foldPoly_eval (k : ℕ) (hk : k ≤ 4) (b : Felt) (cs : List Felt) (y : Felt) :
    evalL (foldPoly k b cs) y
      = ((2 ^ k : ℕ) : Felt) * ∑ j ∈ Finset.range (2 ^ k), b ^ j * evalL (split k cs j) y :=
  Proofs.FriComplete.foldPoly_eval k hk b cs y

/-- … and folding divides the length bound by `2^k` -/
theorem foldPoly_length_le (k d : ℕ) (b : Felt) (cs : List Felt) (h : cs.length ≤ 2 ^ (k + d)) :
    (foldPoly k b cs).length ≤ 2 ^ d :=
  Proofs.FriComplete.foldPoly_length_le k d b cs h

/-- the next layer's domain points are the `2^k`-th powers of the coset representatives -/
theorem layerPoint_next (k L : ℕ) (hkL : k ≤ L) (hL : L ≤ 192) (c : ℕ) :
    layerPoint (L - k) c = layerPoint L (c * 2 ^ k) ^ 2 ^ k :=
  Proofs.FriComplete.layerPoint_next k L hkL hL c

/-- `cosetIdx` is the strictly increasing list of the cosets touched by the queries -/
theorem cosetIdx_spec (n : ℕ) (Q : List ℕ) (hQ : Q.Pairwise (· < ·)) :
    (cosetIdx n Q).Pairwise (· < ·) ∧ ∀ c, c ∈ cosetIdx n Q ↔ ∃ q ∈ Q, q / n = c :=
  ⟨cosetIdx_pairwise n Q hQ, cosetIdx_mem n Q⟩

/-- the executable Merkle builder computes the SPEC root and authentication path (leaf array read as
    `0` beyond its size), for strictly increasing in-range leaf numbers -/
theorem buildAuth_spec (H : Hashes) (nf : Felt) (h : ℕ) (leaves : Array Felt) (Q : List ℕ)
    (hs : Q.Pairwise (· < ·)) (hr : ∀ i ∈ Q, i < 2 ^ h) :
    buildAuth H nf h leaves Q
      = (Merkle.root H nf h (fun i => leaves.getD i 0),
         Merkle.authPath H nf h (fun i => leaves.getD i 0) Q) :=
  Proofs.FriComplete.buildAuth_spec H nf h leaves Q hs hr

/-- … and the executable table builder the spec table root, row values and authentication path -/
theorem buildTableAuth_spec (H : Hashes) (nf : Felt) (h n : ℕ) (cell : ℕ → ℕ → Felt)
    (Q : List ℕ) (hs : Q.Pairwise (· < ·)) (hr : ∀ i ∈ Q, i < 2 ^ h) :
    buildTableAuth H nf h
        (Array.ofFn (n := 2 ^ h) fun r => (List.range n).map fun i => cell r.val i) Q
      = (TableSpec.tableRoot H nf h n cell,
         TableSpec.rowValues cell n Q,
         Merkle.authPath H nf h (TableSpec.tableLeaf H nf h n cell) Q) :=
  Proofs.FriComplete.buildTableAuth_spec H nf h n cell Q hs hr

/-- hence the executable prover is the spec-level prover on strictly increasing in-range queries -/
theorem friProve_eq_spec (H : Hashes) (nf : Felt) (steps : List ℕ) (lastBound logNCosets : ℕ)
    (cs : List Felt) (Q : List ℕ) (t : Transcript) (hQ : Q.Pairwise (· < ·))
    (hQb : ∀ q ∈ Q, q < 2 ^ (steps.sum + lastBound + logNCosets)) :
    friProve H nf steps lastBound logNCosets cs Q t
      = friProveSpec H nf steps lastBound logNCosets cs Q t :=
  Proofs.FriComplete.friProve_eq_spec H nf steps lastBound logNCosets cs Q t hQ hQb

/-- **One honest layer is accepted**: on the honest queries of `cs` (layer of log-size `L`, indices
    `Q`) and the prover's sibling values, `compute_next_layer` returns the honest queries of the folded
    polynomial on the next layer at the touched cosets, and the table decommitment of the coset values
    against the committed root with the authentication path of the touched rows succeeds. -/
theorem fri_complete_one_layer (H : Hashes) (nf : Felt) (k L : ℕ) (hk1 : 1 ≤ k) (hk4 : k ≤ 4)
    (hkL : k ≤ L) (hL : L ≤ 64) (cs : List Felt) (b : Felt) (Q : List ℕ) (hne : Q ≠ [])
    (hQ : Q.Pairwise (· < ·)) (hQb : ∀ q ∈ Q, q < 2 ^ L) :
    ∃ nl : NextLayer,
      computeNextLayer (honestQueries cs L Q)
        (expectedSiblings (2 ^ k) (fun idx => evalL cs (layerPoint L idx)) (cosetIdx (2 ^ k) Q) Q)
        (Felt.pow (Felt.ofNat 2) (Felt.ofNat k).val) b = .ok nl ∧
      nl.nextQueries = honestQueries (foldPoly k b cs) (L - k) (cosetIdx (2 ^ k) Q) ∧
      Table.decommit H
        ⟨Felt.ofNat (2 ^ k), ⟨⟨Felt.ofNat (L - k), nf⟩,
          TableSpec.tableRoot H nf (L - k) (2 ^ k) (fun r c => evalL cs (layerPoint L (r * 2 ^ k + c)))⟩⟩
        nl.verifyIndices nl.verifyYValues
        (Merkle.authPath H nf (L - k)
          (TableSpec.tableLeaf H nf (L - k) (2 ^ k) (fun r c => evalL cs (layerPoint L (r * 2 ^ k + c))))
          (cosetIdx (2 ^ k) Q)) = .ok () := by
  refine ⟨⟨honestQueries (foldPoly k b cs) (L - k) (cosetIdx (2 ^ k) Q),
    (cosetIdx (2 ^ k) Q).map Felt.ofNat,
    cosetValues (2 ^ k) (fun idx => evalL cs (layerPoint L idx)) (cosetIdx (2 ^ k) Q), []⟩, ?_, rfl, ?_⟩
  · rw [show Felt.ofNat 2 = @OfNat.ofNat Felt 2 Fin.instOfNat from rfl]
    have h := one_layer_next k L hk1 hk4 hkL hL cs b Q hQ hQb
    exact h
  · exact one_layer_decommit H nf k L hk4 hkL hL (fun idx => evalL cs (layerPoint L idx)) Q hne hQ hQb

/-- **The commit phase replays the prover's transcript**: `fri_commit` on the prover's roots and
    last-layer coefficients succeeds, ends in the prover's transcript state, and the evaluation points
    it draws are the prover's folding challenges. -/
theorem fri_commit_replays_transcript (H : Hashes) (nf : Felt) (steps : List ℕ)
    (lastBound logNCosets : ℕ) (cs : List Felt) (Q : List ℕ) (t : Transcript)
    (hlen : steps.length ≤ 14) (hlb : lastBound ≤ 15) (hQ : Q.Pairwise (· < ·))
    (hQb : ∀ q ∈ Q, q < 2 ^ (steps.sum + lastBound + logNCosets)) :
    ∃ c, Fri.commit H t (friProve H nf steps lastBound logNCosets cs Q t).roots
          (friProve H nf steps lastBound logNCosets cs Q t).lastCoefs
          (friConfig nf steps lastBound logNCosets)
        = .ok ((friProve H nf steps lastBound logNCosets cs Q t).transcript, c) ∧
      c.evalPoints = (friProve H nf steps lastBound logNCosets cs Q t).evalPoints ∧
      c.lastLayerCoefficients = (friProve H nf steps lastBound logNCosets cs Q t).lastCoefs ∧
      c.config = friConfig nf steps lastBound logNCosets := by
  rw [Proofs.FriComplete.friProve_eq_spec H nf steps lastBound logNCosets cs Q t hQ hQb]
  exact ⟨_, commit_spec H nf steps lastBound logNCosets cs Q t hlen hlb, by
    rw [friProveSpec_eq]; exact ⟨rfl, rfl, rfl⟩⟩

/-- the configuration the prover uses passes the verifier's `fri::Config::validate`, with the
    expected input degree `steps.sum + lastBound` -/
theorem friConfig_valid (nf : Felt) (steps : List ℕ) (lastBound logNCosets : ℕ)
    (hne : steps ≠ []) (hlen : steps.length ≤ 14) (hsteps : ∀ s ∈ steps, 1 ≤ s ∧ s ≤ 4)
    (hlb : lastBound ≤ 15) (hL : steps.sum + lastBound + logNCosets ≤ 64) :
    (friConfig nf steps lastBound logNCosets).validate (Felt.ofNat logNCosets) nf
      = .ok (Felt.ofNat (steps.sum + lastBound)) :=
  config_validate nf steps lastBound logNCosets hne hlen hsteps hlb hL

/-! ### completeness -/

/-- **FRI completeness** for the executable honest prover `Prover.friProve`: for every valid
    configuration, every polynomial below the degree bound and every query set, `fri_commit` accepts
    the prover's layer roots and last-layer coefficients (ending in the prover's transcript state) and
    `fri_verify`, run with the commitment `fri_commit` returned, accepts the prover's query values,
    coset leaves and authentication paths; moreover the prover's configuration passes
    `fri::Config::validate`.  (`1 ≤ logNCosets ≤ 16` belongs to "valid configuration" but is not
    needed.) -/
theorem fri_complete (H : Hashes) (nf : Felt) (steps : List ℕ) (lastBound logNCosets : ℕ)
    (cs : List Felt) (Q : List ℕ) (t : Transcript)
    (hne : steps ≠ []) (hlen : steps.length ≤ 14) (hsteps : ∀ s ∈ steps, 1 ≤ s ∧ s ≤ 4)
    (hlb : lastBound ≤ 15) (_hc1 : 1 ≤ logNCosets) (_hc16 : logNCosets ≤ 16)
    (hL : steps.sum + lastBound + logNCosets ≤ 64)
    (hdeg : cs.length ≤ 2 ^ (steps.sum + lastBound))
    (hQne : Q ≠ []) (hQ : Q.Pairwise (· < ·))
    (hQb : ∀ q ∈ Q, q < 2 ^ (steps.sum + lastBound + logNCosets)) :
    let inst := friProve H nf steps lastBound logNCosets cs Q t
    let cfg := friConfig nf steps lastBound logNCosets
    (∃ c, Fri.commit H t inst.roots inst.lastCoefs cfg = .ok (inst.transcript, c) ∧
      Fri.verify H (Q.map Felt.ofNat) c inst.values inst.points
        (inst.layers.map fun l => ⟨l.leaves, l.auths⟩) = .ok ()) ∧
    cfg.validate (Felt.ofNat logNCosets) nf = .ok (Felt.ofNat (steps.sum + lastBound)) := by
  intro inst cfg
  have heq : inst = friProveSpec H nf steps lastBound logNCosets cs Q t :=
    Proofs.FriComplete.friProve_eq_spec H nf steps lastBound logNCosets cs Q t hQ hQb
  rw [heq]
  exact ⟨⟨_, commit_spec H nf steps lastBound logNCosets cs Q t hlen hlb,
      verify_spec H nf steps lastBound logNCosets cs Q t hlen hsteps hlb hL hdeg hQne hQ hQb⟩,
    config_validate nf steps lastBound logNCosets hne hlen hsteps hlb hL⟩

/-- **FRI completeness, spec-level prover.**  (`1 ≤ logNCosets ≤ 16` belongs to "valid configuration"
    but is not needed.) -/
theorem fri_complete_spec (H : Hashes) (nf : Felt) (steps : List ℕ) (lastBound logNCosets : ℕ)
    (cs : List Felt) (Q : List ℕ) (t : Transcript)
    (hne : steps ≠ []) (hlen : steps.length ≤ 14) (hsteps : ∀ s ∈ steps, 1 ≤ s ∧ s ≤ 4)
    (hlb : lastBound ≤ 15) (_hc1 : 1 ≤ logNCosets) (_hc16 : logNCosets ≤ 16)
    (hL : steps.sum + lastBound + logNCosets ≤ 64)
    (hdeg : cs.length ≤ 2 ^ (steps.sum + lastBound))
    (hQne : Q ≠ []) (hQ : Q.Pairwise (· < ·))
    (hQb : ∀ q ∈ Q, q < 2 ^ (steps.sum + lastBound + logNCosets)) :
    let inst := friProveSpec H nf steps lastBound logNCosets cs Q t
    let cfg := friConfig nf steps lastBound logNCosets
    (∃ c, Fri.commit H t inst.roots inst.lastCoefs cfg = .ok (inst.transcript, c) ∧
      Fri.verify H (Q.map Felt.ofNat) c inst.values inst.points
        (inst.layers.map fun l => ⟨l.leaves, l.auths⟩) = .ok ()) ∧
    cfg.validate (Felt.ofNat logNCosets) nf = .ok (Felt.ofNat (steps.sum + lastBound)) :=
  ⟨⟨_, commit_spec H nf steps lastBound logNCosets cs Q t hlen hlb,
      verify_spec H nf steps lastBound logNCosets cs Q t hlen hsteps hlb hL hdeg hQne hQ hQb⟩,
    config_validate nf steps lastBound logNCosets hne hlen hsteps hlb hL⟩

/-! ### non-vacuity: steps `[2, 1]` (3 layers), last layer of 2 coefficients, blow-up 2, domain size 32,
    a polynomial with 16 coefficients, queries `3, 5, 30` -/

local notation "exCs" => ([1, 2, 3, 4, 5, 6, 7, 8, 9, 10, 11, 12, 13, 14, 15, 16] : List Felt)

/-- the hypotheses of `fri_complete` are satisfiable -/
example : ([2, 1] : List ℕ) ≠ [] ∧ ([2, 1] : List ℕ).length ≤ 14 ∧
    (∀ s ∈ ([2, 1] : List ℕ), 1 ≤ s ∧ s ≤ 4) ∧ 1 ≤ 15 ∧ 1 ≤ 1 ∧ 1 ≤ 16 ∧
    ([2, 1] : List ℕ).sum + 1 + 1 ≤ 64 ∧ (exCs).length ≤ 2 ^ (([2, 1] : List ℕ).sum + 1) ∧
    ([3, 5, 30] : List ℕ) ≠ [] ∧ ([3, 5, 30] : List ℕ).Pairwise (· < ·) ∧
    ∀ q ∈ ([3, 5, 30] : List ℕ), q < 2 ^ (([2, 1] : List ℕ).sum + 1 + 1) := by
  decide

/-- … and the conclusion for that instance, for every hash family, `nf` and transcript state -/
example (H : Hashes) (nf : Felt) (t : Transcript) :
    let inst := friProve H nf [2, 1] 1 1 exCs [3, 5, 30] t
    ∃ c, Fri.commit H t inst.roots inst.lastCoefs (friConfig nf [2, 1] 1 1) = .ok (inst.transcript, c) ∧
      Fri.verify H ([3, 5, 30].map Felt.ofNat) c inst.values inst.points
        (inst.layers.map fun l => ⟨l.leaves, l.auths⟩) = .ok () :=
  (fri_complete H nf [2, 1] 1 1 exCs [3, 5, 30] t (by decide) (by decide) (by decide) (by decide)
    (by decide) (by decide) (by decide) (by decide) (by decide) (by decide) (by decide)).1

/-- the instance is not degenerate: two committed layers, two last-layer coefficients, three queries -/
example (H : Hashes) (nf : Felt) (t : Transcript) :
    let inst := friProve H nf [2, 1] 1 1 exCs [3, 5, 30] t
    inst.roots.length = 2 ∧ inst.layers.length = 2 ∧ inst.evalPoints.length = 2 ∧
      inst.lastCoefs.length = 2 ∧ inst.values.length = 3 ∧ inst.points.length = 3 :=
  ⟨rfl, rfl, rfl, rfl, rfl, rfl⟩

/-- the touched cosets of that instance: layer 0 (cosets of 4) `0, 1, 7`; layer 1 (cosets of 2) `0, 3` -/
example : cosetIdx 4 [3, 5, 30] = [0, 1, 7] ∧ cosetIdx 2 [0, 1, 7] = [0, 3] := by decide

end Swiftness.C06b
