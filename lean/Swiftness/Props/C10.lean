/-
  C10 — the query indices drawn from a transcript are a deterministic function of it, each lies in
  `[0, bound)`, they are strictly increasing (sorted, no repeats), there are at most `n_samples` of
  them, and they are exactly the raw samples with repeats removed.  Index `i` is mapped to the
  field point `3 * w ^ bitreverse(i)` where `w` is the evaluation-domain generator.
  (`crates/stark/src/queries.rs`.)
  Only property theorems and non-vacuity examples live here; helper lemmas are in
  `Proofs/Queries.lean`.  `bitrev` (the `k`-bit reversal) is defined there:
  `bitrev 0 _ = 0`, `bitrev (k+1) i = (i % 2) * 2^k + bitrev k (i / 2)`.
-/
import Swiftness.Model.Queries
import Swiftness.Proofs.Queries

namespace Swiftness.C10

open Swiftness Swiftness.Queries
open Swiftness.Proofs (bitrev)
attribute [-instance] Fin.instOfNat

/-! ### `generate_queries` -/

/-- No panic and no error when the sample count fits a `u128` and the bound is non-zero (or no
    sample is drawn at all). -/
theorem queries_ok (H : Hashes) (t : Transcript) (nSamples bound : Felt)
    (hn : nSamples.val < 2 ^ 128) (hb : bound ≠ 0 ∨ nSamples = 0) :
    ∃ r, generateQueries H t nSamples bound = .ok r :=
  ⟨_, Proofs.generateQueries_eq H t nSamples bound hn hb⟩

/-- `generate_queries` never returns an error (it has no `Result`); … -/
theorem queries_no_err (H : Hashes) (t : Transcript) (nSamples bound : Felt) (e : String) :
    generateQueries H t nSamples bound ≠ .err e :=
  Proofs.generateQueries_no_err H t nSamples bound e

/-- … and it panics exactly when the count does not fit a `u128`, or a sample is drawn with a zero
    bound (the two `unwrap`s). -/
theorem queries_panic_iff (H : Hashes) (t : Transcript) (nSamples bound : Felt) :
    (∃ s, generateQueries H t nSamples bound = .panic s) ↔
      (2 ^ 128 ≤ nSamples.val ∨ (nSamples ≠ 0 ∧ bound = 0)) :=
  Proofs.generateQueries_panic_iff H t nSamples bound

section ok
variable {H : Hashes} {t t' : Transcript} {n bound : Felt} {qs : List Felt}

/-- every query index is below the bound (the evaluation-domain size at the call site) -/
theorem queries_in_range (h : generateQueries H t n bound = .ok (qs, t')) (hb : bound ≠ 0) :
    ∀ q ∈ qs, q.val < bound.val := Proofs.queries_in_range h hb

/-- strictly increasing: sorted, no repeats -/
theorem queries_strict (h : generateQueries H t n bound = .ok (qs, t')) (hb : bound ≠ 0) :
    List.Pairwise (fun a b => a.val < b.val) qs := Proofs.queries_strict h hb

/-- at most the configured number of queries -/
theorem queries_length_le (h : generateQueries H t n bound = .ok (qs, t')) (hb : bound ≠ 0) :
    qs.length ≤ n.val := Proofs.queries_length_le h hb

/-- the transcript advances by exactly `n` squeezes and keeps its digest -/
theorem queries_counter (h : generateQueries H t n bound = .ok (qs, t')) (hb : bound ≠ 0) :
    t'.counter = t.counter + n ∧ t'.digest = t.digest := Proofs.queries_counter h hb

/-- deterministic: a function of the hash functions, the transcript state, the count and the
    bound (the result and the new transcript are determined). -/
theorem queries_deterministic {qs₂ : List Felt} {t₂ : Transcript}
    (h₁ : generateQueries H t n bound = .ok (qs, t'))
    (h₂ : generateQueries H t n bound = .ok (qs₂, t₂)) : qs = qs₂ ∧ t' = t₂ := by
  rw [h₁] at h₂
  injection h₂ with h₂
  injection h₂ with h3 h4
  exact ⟨h3, h4⟩

/-- the set of query values is exactly the set of the `n` raw samples
    `(poseidon2(digest, counter + k) mod 2^128) mod bound`, `k < n`: sorting and deduplication lose
    nothing but repeats. -/
theorem queries_set (h : generateQueries H t n bound = .ok (qs, t')) (hb : bound ≠ 0) (v : ℕ) :
    (∃ q ∈ qs, q.val = v) ↔
      ∃ k, k < n.val ∧
        v = (H.poseidon2 t.digest (t.counter + (k : Felt))).val % 2 ^ 128 % bound.val :=
  Proofs.queries_set h hb v

end ok

/-! ### bit reversal -/

/-- the reversal is a `k`-bit number … -/
theorem bitrev_lt (k i : ℕ) : bitrev k i < 2 ^ k := Proofs.bitrev_lt k i

/-- … whose bit `j` is bit `k-1-j` of the input (so `bitrev k i = Σ_{j<k} bit_j(i)·2^(k-1-j)`). -/
theorem bitrev_testBit (k i j : ℕ) (hj : j < k) :
    (bitrev k i).testBit j = i.testBit (k - 1 - j) := Proofs.bitrev_testBit k i j hj

/-- `u64::reverse_bits` applied to a `k`-bit index shifted to the top of the word is the `k`-bit
    reversal, for every `k ≤ 64` (the hypothesis `i < 2^k` only says the shifted value is a `u64`;
    it is not needed for the equation). -/
theorem reverseBits64_spec (k i : ℕ) (hk : k ≤ 64) (_hi : i < 2 ^ k) :
    reverseBits64 (i * 2 ^ (64 - k)) = bitrev k i := Proofs.reverseBits64_spec k i hk

/-! ### `queries_to_points` -/

/-- index `q` is mapped to `3 * w ^ bitrev_k(q)`; no panic when `k ≤ 64` and all indices are
    below `2^k`. -/
theorem points_formula (qs : List Felt) (d : StarkDomains) (k : ℕ)
    (hd : d.logEvalDomainSize.val = k) (hk : k ≤ 64) (hq : ∀ q ∈ qs, q.val < 2 ^ k) :
    queriesToPoints qs d = .ok (qs.map fun q => 3 * d.evalGenerator ^ bitrev k q.val) :=
  Proofs.points_formula qs d k hd hk hq

/-- evaluation domains larger than `2^64` hit the `assert!` -/
theorem points_panic_large (qs : List Felt) (d : StarkDomains)
    (hk : 64 < d.logEvalDomainSize.val) :
    queriesToPoints qs d = .panic "queries.rs:queries_to_points:assert" :=
  Proofs.points_panic_large qs d hk

/-! ### non-vacuity -/

/-- the fixture's shape (16 queries, bound `2^22`) meets the hypotheses of `queries_ok`, for any
    hash functions and transcript -/
example (H : Hashes) (t : Transcript) :
    ∃ r, generateQueries H t (Felt.ofNat 16) (Felt.ofNat (2 ^ 22)) = .ok r :=
  queries_ok H t _ _ (by decide +kernel) (Or.inl (by decide +kernel))

/-- a concrete run with repeats: a constant "hash" gives three equal samples and one query -/
example :
    generateQueries { Hashes.k160 with poseidon2 := fun _ _ => Felt.ofNat 1234567 }
      ⟨Felt.ofNat 1, Felt.ofNat 0⟩ (Felt.ofNat 3) (Felt.ofNat 1000)
      = .ok ([Felt.ofNat 567], ⟨Felt.ofNat 1, Felt.ofNat 3⟩) := by
  decide +kernel

/-- a concrete run without repeats: samples `7, 8, 9 mod 5` come out sorted as `2, 3, 4` -/
example :
    generateQueries { Hashes.k160 with poseidon2 := fun _ c => Felt.ofNat 9 - c }
      ⟨Felt.ofNat 1, Felt.ofNat 0⟩ (Felt.ofNat 3) (Felt.ofNat 5)
      = .ok ([Felt.ofNat 2, Felt.ofNat 3, Felt.ofNat 4], ⟨Felt.ofNat 1, Felt.ofNat 3⟩) := by
  decide +kernel

example : bitrev 3 6 = 3 ∧ bitrev 22 1 = 2 ^ 21 ∧ reverseBits64 1 = 2 ^ 63 := by decide +kernel

/-- the fixture's domain (`log_eval_domain_size = 22`) meets the hypotheses of `points_formula` -/
example : ∃ d, StarkDomains.new (Felt.ofNat 18) (Felt.ofNat 4) = .ok d ∧
    queriesToPoints [Felt.ofNat 0, Felt.ofNat 1, Felt.ofNat 6] d
      = .ok [3 * d.evalGenerator ^ 0, 3 * d.evalGenerator ^ 2 ^ 21,
             3 * d.evalGenerator ^ (3 * 2 ^ 19)] := by
  obtain ⟨d, hd⟩ := Proofs.domains_new_ok (Felt.ofNat 18) (Felt.ofNat 4)
  refine ⟨d, hd, ?_⟩
  have h22 : d.logEvalDomainSize.val = 22 := by
    have := (Proofs.sizes_eq _ _ (by decide +kernel) d hd).2.2.1
    rw [this]; decide +kernel
  have hq : ∀ q ∈ [Felt.ofNat 0, Felt.ofNat 1, Felt.ofNat 6], q.val < 2 ^ 22 := by
    intro q hq
    simp only [List.mem_cons, List.not_mem_nil, or_false] at hq
    rcases hq with rfl | rfl | rfl <;> decide +kernel
  rw [points_formula _ d 22 h22 (by norm_num) hq]
  have e1 : bitrev 22 (Felt.ofNat 0).val = 0 := by decide +kernel
  have e2 : bitrev 22 (Felt.ofNat 1).val = 2 ^ 21 := by decide +kernel
  have e3 : bitrev 22 (Felt.ofNat 6).val = 3 * 2 ^ 19 := by decide +kernel
  simp only [List.map_cons, List.map_nil, e1, e2, e3]

end Swiftness.C10
