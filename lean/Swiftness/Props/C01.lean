/-
  C01 — acceptance factors through every check, with parameters that cannot be decoupled.

  "A proof is accepted only if the committed trace satisfies the layout's constraints at the
  out-of-domain point and every committed column is low-degree over the evaluation domain fixed by
  the trace length and a blow-up factor of at least 2.  No choice of vector lengths, configuration
  numbers or auxiliary commitments lets a prover decouple the composition values it is checked
  against from the ones it opened, or declare FRI or domain parameters (FRI input size, blow-up
  exponent taken modulo the field) that make the low-degree test vacuous."
  (`crates/stark/src/{stark,commit,verify,oods}.rs`.)

  PARTIAL BY NATURE.  The probabilistic soundness of the STARK / FRI protocol (that passing the
  checks below implies, except with small probability over the Fiat–Shamir challenges, that the
  committed columns are close to low-degree polynomials satisfying the constraints) is NOT
  formalised anywhere in this project.  What IS proved here, for an ARBITRARY layout `L : LayoutOps`
  and ARBITRARY hash functions `H : Hashes`: `StarkProof::verify` returns `Ok` exactly when every
  individual check succeeded (`accept_iff_all_checks`), and the parameters of those checks are tied
  to each other as natural numbers, never modulo the field (`accept_shape`, `oods_coupled`,
  `accept_domains`, `accept_deep_values`).  The per-check binding/soundness theorems are C04/C05
  (Merkle / table decommitment), C06/C07 (FRI), C08 (transcript), C10 (queries), C11 (config), C12
  (domains).

  Vocabulary: `Spec.compositionAlpha`, `Spec.oodsPoint`, `Spec.oodsAlpha`,
  `Spec.interactionElements` (`Spec/TranscriptSpec.lean`) are the Fiat–Shamir challenges as explicit
  functions of the transcript seed and the prover messages preceding them (C08 `commit_script`);
  `row n values i = (values.drop (i * n)).take n` is row `i` of a row-major value list;
  `bitrev k i` is the `k`-bit reversal (C10).  Helper lemmas: `Proofs/Pipeline*.lean`.
-/
import Swiftness.Proofs.PipelineMain
import Swiftness.Proofs.PipelineExample

namespace Swiftness.C01

open Swiftness Swiftness.Spec
open Swiftness.Proofs (bitrev)
open Swiftness.Proofs.Pipeline (row)
attribute [-instance] Fin.instOfNat

variable {L : LayoutOps} {H : Hashes} {stone6 : Bool} {p : Stark.Proof} {sec : Felt}
  {r : Felt × Felt}

/-! ## 1. acceptance = all checks -/

/-- `StarkProof::verify` returns `Ok r` IF AND ONLY IF: both column counts exist; the configuration
    validates against them; the domains are built; the layout accepts the public input for these
    domains; the commitment phase, started from the transcript seeded with the public-input hash,
    succeeds; the queries are drawn from the transcript state the commitment phase returned, with
    the evaluation-domain size as the bound; the three table decommitments succeed at these queries;
    the evaluation domain has at most `2^64` points; the DEEP values are computed from the
    decommitted values at the query points; FRI accepts exactly these queries, values and points
    against the FRI commitment of the commitment phase; and `r` is what the layout's
    `verify_public_input` returns. -/
theorem accept_iff_all_checks :
    Stark.verify L H stone6 p sec = .ok r ↔
    ∃ n1 n2 d t' c queries tq points evals,
      L.numColumnsFirst p.publicInput = some n1 ∧ L.numColumnsSecond p.publicInput = some n2 ∧
      p.config.validate sec (Felt.ofNat n1) (Felt.ofNat n2) = .ok () ∧
      StarkDomains.new p.config.logTraceDomainSize p.config.logNCosets = .ok d ∧
      L.validatePublicInput p.publicInput d = .ok () ∧
      Stark.commit L H (Transcript.new (p.publicInput.getHash H stone6 p.config.nFriendly))
        p.publicInput p.unsent p.config d = .ok (t', c) ∧
      Queries.generateQueries H t' p.config.nQueries d.evalDomainSize = .ok (queries, tq) ∧
      Table.decommit H c.tracesOriginal queries p.witness.tracesOriginalValues
        p.witness.tracesOriginalAuths = .ok () ∧
      Table.decommit H c.tracesInteraction queries p.witness.tracesInteractionValues
        p.witness.tracesInteractionAuths = .ok () ∧
      Table.decommit H c.composition queries p.witness.compositionValues
        p.witness.compositionAuths = .ok () ∧
      d.logEvalDomainSize.val ≤ 64 ∧
      Queries.queriesToPoints queries d = .ok points ∧
      Stark.evalOodsBoundary L n1 n2 p.publicInput c.oodsValues c.interactionAfterOods
        c.interactionAfterComposition d.traceGenerator points p.witness.tracesOriginalValues
        p.witness.tracesInteractionValues p.witness.compositionValues = .ok evals ∧
      Fri.verify H queries c.fri evals points p.witness.friLayers = .ok () ∧
      L.verifyPublicInput p.publicInput = .ok r := by
  constructor
  · intro hok
    obtain ⟨n1, n2, d, t', c, queries, tq, A⟩ := Proofs.Pipeline.verify_ok_elim hok
    obtain ⟨h1, h2, h3, h4, points, evals, h5, h6, h7⟩ :=
      Proofs.Pipeline.verifyPhase_ok_elim A.phase
    exact ⟨n1, n2, d, t', c, queries, tq, points, evals, A.cols1, A.cols2, A.config, A.domains,
      A.publicInput, A.commit, A.sampled, h1, h2, h3, h4, h5, h6, h7, A.result⟩
  · rintro ⟨n1, n2, d, t', c, queries, tq, points, evals, a1, a2, a3, a4, a5, a6, a7, h1, h2, h3,
      h4, h5, h6, h7, a8⟩
    exact Proofs.Pipeline.verify_ok_intro
      ⟨a1, a2, a3, a4, a5, a6, a7, Proofs.Pipeline.verifyPhase_ok_intro h1 h2 h3 h4 h5 h6 h7, a8⟩

/-- the "only if" direction, as asked -/
theorem accept_all_checks (hok : Stark.verify L H stone6 p sec = .ok r) :
    ∃ n1 n2 d t' c queries tq points evals,
      L.numColumnsFirst p.publicInput = some n1 ∧ L.numColumnsSecond p.publicInput = some n2 ∧
      p.config.validate sec (Felt.ofNat n1) (Felt.ofNat n2) = .ok () ∧
      StarkDomains.new p.config.logTraceDomainSize p.config.logNCosets = .ok d ∧
      L.validatePublicInput p.publicInput d = .ok () ∧
      Stark.commit L H (Transcript.new (p.publicInput.getHash H stone6 p.config.nFriendly))
        p.publicInput p.unsent p.config d = .ok (t', c) ∧
      Queries.generateQueries H t' p.config.nQueries d.evalDomainSize = .ok (queries, tq) ∧
      Table.decommit H c.tracesOriginal queries p.witness.tracesOriginalValues
        p.witness.tracesOriginalAuths = .ok () ∧
      Table.decommit H c.tracesInteraction queries p.witness.tracesInteractionValues
        p.witness.tracesInteractionAuths = .ok () ∧
      Table.decommit H c.composition queries p.witness.compositionValues
        p.witness.compositionAuths = .ok () ∧
      d.logEvalDomainSize.val ≤ 64 ∧
      Queries.queriesToPoints queries d = .ok points ∧
      Stark.evalOodsBoundary L n1 n2 p.publicInput c.oodsValues c.interactionAfterOods
        c.interactionAfterComposition d.traceGenerator points p.witness.tracesOriginalValues
        p.witness.tracesInteractionValues p.witness.compositionValues = .ok evals ∧
      Fri.verify H queries c.fri evals points p.witness.friLayers = .ok () ∧
      L.verifyPublicInput p.publicInput = .ok r :=
  accept_iff_all_checks.mp hok

/-! ## 2. the parameters of the checks

  In the theorems below `d`, `(t', c)`, `(queries, tq)` are the values computed by the verifier:
  the hypotheses `hd`, `hc`, `hq` only NAME them (by `accept_all_checks` they exist, and they are
  unique since the three computations are functions); likewise `h1`, `h2` name the column counts. -/

section named
variable {n1 n2 : Nat} {d : StarkDomains} {t' : Transcript} {c : Stark.Commitment}
  {queries : List Felt} {tq : Transcript}

/-- SHAPE.  Every vector length is forced:
    * the OODS vector has exactly `MASK_SIZE + CONSTRAINT_DEGREE` entries;
    * the layout's column counts lie in `1..=128` and ARE the configured trace column counts (as
      natural numbers);
    * `composition_columns_forced`: the composition table's column count — which
      `StarkConfig::validate` does NOT look at — equals `CONSTRAINT_DEGREE`;
    * the three decommitments have exactly `columns × queries` values;
    * the FRI last layer has `2^log_last_layer_degree_bound` coefficients (the verifier compares in
      the field: exact modulo `P`, hence exact for any list shorter than `P`; a Rust `Vec` is shorter
      than `2^64`), with the bound exponent at most 15;
    * there are at least `n_layers - 1` FRI inner-layer commitments. -/
theorem accept_shape (hok : Stark.verify L H stone6 p sec = .ok r)
    (h1 : L.numColumnsFirst p.publicInput = some n1)
    (h2 : L.numColumnsSecond p.publicInput = some n2)
    (hd : StarkDomains.new p.config.logTraceDomainSize p.config.logNCosets = .ok d)
    (hc : Stark.commit L H (Transcript.new (p.publicInput.getHash H stone6 p.config.nFriendly))
      p.publicInput p.unsent p.config d = .ok (t', c))
    (hq : Queries.generateQueries H t' p.config.nQueries d.evalDomainSize = .ok (queries, tq)) :
    p.unsent.oodsValues.length = L.maskSize + L.constraintDegree ∧
    (1 ≤ n1 ∧ n1 ≤ 128 ∧ 1 ≤ n2 ∧ n2 ≤ 128) ∧
    (p.config.traces.original.nColumns.val = n1 ∧ p.config.traces.interaction.nColumns.val = n2 ∧
      p.config.composition.nColumns.val = L.constraintDegree) ∧
    (p.witness.tracesOriginalValues.length = n1 * queries.length ∧
      p.witness.tracesInteractionValues.length = n2 * queries.length ∧
      p.witness.compositionValues.length = L.constraintDegree * queries.length) ∧
    (p.config.fri.logLastLayerDegreeBound.val ≤ 15 ∧
      p.unsent.friLastLayerCoefficients.length % P = 2 ^ p.config.fri.logLastLayerDegreeBound.val ∧
      (p.unsent.friLastLayerCoefficients.length < P →
        p.unsent.friLastLayerCoefficients.length = 2 ^ p.config.fri.logLastLayerDegreeBound.val)) ∧
    p.config.fri.nLayers.val - 1 ≤ p.unsent.friInnerLayers.length := by
  have A := Proofs.Pipeline.accepting_of_parts' hok h1 h2 hd hc hq
  obtain ⟨_, ho, _⟩ := A.oods_facts
  obtain ⟨s1, s2, s3⟩ := A.shape_facts
  obtain ⟨f1, f2, _, f4, _⟩ := A.fri_shape
  exact ⟨ho, s1, s2, s3, ⟨f1, f2, fun hlt => by rw [← f2, Nat.mod_eq_of_lt hlt]⟩, f4⟩

/-- The composition table's column count is forced to `CONSTRAINT_DEGREE` although the
    configuration check does not constrain it: `table_decommit` demands
    `values = nColumns × queries`, `eval_oods_boundary_poly_at_points` demands
    `values = queries × CONSTRAINT_DEGREE`, and there is at least one query. -/
theorem composition_columns_forced (hok : Stark.verify L H stone6 p sec = .ok r)
    (hd : StarkDomains.new p.config.logTraceDomainSize p.config.logNCosets = .ok d)
    (hc : Stark.commit L H (Transcript.new (p.publicInput.getHash H stone6 p.config.nFriendly))
      p.publicInput p.unsent p.config d = .ok (t', c)) :
    p.config.composition.nColumns.val = L.constraintDegree ∧
    c.composition.nColumns.val = L.constraintDegree := by
  obtain ⟨m1, m2, q0, tq0, A⟩ := Proofs.Pipeline.accepting_of_commit hok hd hc
  have h := A.shape_facts.2.1.2.2
  refine ⟨h, ?_⟩
  rw [(Proofs.Pipeline.commit_fri_shape A.commit).2.2.2.2.1]
  exact h

/-- COUPLING OF THE OODS VALUES.  The list whose last two entries are compared with the composition
    polynomial evaluated from the mask (`verify_oods`) and the list the DEEP quotients subtract at
    every query (`eval_oods_boundary_poly_at_points`) are the SAME list `p.unsent.oodsValues`, of
    the exact length `m = MASK_SIZE + CONSTRAINT_DEGREE ≥ 2`, absorbed into the transcript before
    the DEEP challenge is drawn:
    * the commitment carries `p.unsent.oodsValues` unchanged;
    * the mask is its first `m - 2` entries, the claimed composition value is
      `oods[m-2] + oods[m-1]·z` with `z` the OODS point, and the layout's composition evaluation on
      that mask (with the powers of the composition challenge as coefficients, at `z`, for the
      trace domain of the configuration) equals it;
    * the DEEP evaluation at the query points is run with that same list.
    For general `CONSTRAINT_DEGREE` the model (like the Rust, "TODO support degree > 2") uses the
    LAST TWO entries; see `oods_coupled_degree_two` for the layouts' `CONSTRAINT_DEGREE = 2`. -/
theorem oods_coupled (hok : Stark.verify L H stone6 p sec = .ok r)
    (h1 : L.numColumnsFirst p.publicInput = some n1)
    (h2 : L.numColumnsSecond p.publicInput = some n2)
    (hd : StarkDomains.new p.config.logTraceDomainSize p.config.logNCosets = .ok d)
    (hc : Stark.commit L H (Transcript.new (p.publicInput.getHash H stone6 p.config.nFriendly))
      p.publicInput p.unsent p.config d = .ok (t', c))
    (hq : Queries.generateQueries H t' p.config.nQueries d.evalDomainSize = .ok (queries, tq)) :
    let t0 := Transcript.new (p.publicInput.getHash H stone6 p.config.nFriendly)
    let n := L.nInteractionElements
    let u := p.unsent
    let a := compositionAlpha H t0 n u.tracesOriginal u.tracesInteraction
    let z := oodsPoint H t0 n u.tracesOriginal u.tracesInteraction u.composition
    let b := oodsAlpha H t0 n u.tracesOriginal u.tracesInteraction u.composition u.oodsValues
    let m := L.maskSize + L.constraintDegree
    c.oodsValues = u.oodsValues ∧ u.oodsValues.length = m ∧ 2 ≤ m ∧
    (∃ fromTrace x y,
      L.evalComposition (interactionElements H t0 n u.tracesOriginal) p.publicInput
        (u.oodsValues.take (m - 2)) (Stark.powersArray L.nConstraints 1 a) z
        d.traceDomainSize d.traceGenerator = .ok fromTrace ∧
      u.oodsValues[m - 2]? = some x ∧ u.oodsValues[m - 1]? = some y ∧
      fromTrace = x + y * z) ∧
    ∃ points evals,
      Stark.evalOodsBoundary L n1 n2 p.publicInput u.oodsValues (Stark.powersArray m 1 b) z
        d.traceGenerator points p.witness.tracesOriginalValues p.witness.tracesInteractionValues
        p.witness.compositionValues = .ok evals ∧
      Fri.verify H queries c.fri evals points p.witness.friLayers = .ok () := by
  intro t0 n u a z b m
  have A := Proofs.Pipeline.accepting_of_parts' hok h1 h2 hd hc hq
  obtain ⟨o1, o2, o3, o4, _, _, ft, x, y, o5, o6, o7, o8⟩ := A.oods_facts
  obtain ⟨points, evals, _, _, _, e1, _, _, _, e2, _⟩ := A.deep_facts
  rw [o4] at o5
  exact ⟨o1, o2, o3, ⟨ft, x, y, o5, o6, o7, o8⟩, points, evals, e1, e2⟩

/-- … for `CONSTRAINT_DEGREE = 2` (all layouts): the mask is the first `MASK_SIZE` entries and the
    two composition halves are the entries at positions `MASK_SIZE` and `MASK_SIZE + 1`. -/
theorem oods_coupled_degree_two (hok : Stark.verify L H stone6 p sec = .ok r)
    (hdeg : L.constraintDegree = 2)
    (hd : StarkDomains.new p.config.logTraceDomainSize p.config.logNCosets = .ok d)
    (hc : Stark.commit L H (Transcript.new (p.publicInput.getHash H stone6 p.config.nFriendly))
      p.publicInput p.unsent p.config d = .ok (t', c)) :
    let t0 := Transcript.new (p.publicInput.getHash H stone6 p.config.nFriendly)
    let n := L.nInteractionElements
    let u := p.unsent
    let a := compositionAlpha H t0 n u.tracesOriginal u.tracesInteraction
    let z := oodsPoint H t0 n u.tracesOriginal u.tracesInteraction u.composition
    c.oodsValues = u.oodsValues ∧ u.oodsValues.length = L.maskSize + 2 ∧
    ∃ fromTrace x y,
      L.evalComposition (interactionElements H t0 n u.tracesOriginal) p.publicInput
        (u.oodsValues.take L.maskSize) (Stark.powersArray L.nConstraints 1 a) z
        d.traceDomainSize d.traceGenerator = .ok fromTrace ∧
      u.oodsValues[L.maskSize]? = some x ∧ u.oodsValues[L.maskSize + 1]? = some y ∧
      fromTrace = x + y * z := by
  intro t0 n u a z
  obtain ⟨m1, m2, q0, tq0, A⟩ := Proofs.Pipeline.accepting_of_commit hok hd hc
  obtain ⟨o1, o2, _, o4, _, _, ft, x, y, o5, o6, o7, o8⟩ := A.oods_facts
  rw [o4] at o5
  rw [hdeg] at o2 o5 o6 o7
  exact ⟨o1, o2, ft, x, y, by simpa using o5, by simpa using o6, by simpa using o7, o8⟩

/-- DOMAINS.  With `t = log_trace_domain_size`, `k = log_n_cosets` READ AS NATURAL NUMBERS:
    * `1 ≤ k ≤ 16` (blow-up factor at least 2), `t ≤ 71`, and `t + k ≤ 64`;
    * the evaluation domain has exactly `2^(t+k)` points and the trace domain `2^t`, and their
      generators have exactly these multiplicative orders, the trace generator being the
      `2^k`-th power of the evaluation generator (C12);
    * the FRI input exponent is `t + k` (FRI runs on the whole evaluation domain) and the FRI
      degree-bound exponent `Σ steps + last` is exactly `t` (rate `2^-k`; C11);
    * the queries are at least one and at most `n_queries ≤ 48`, strictly increasing, and each
      is `< 2^(t+k)` (C10). -/
theorem accept_domains (hok : Stark.verify L H stone6 p sec = .ok r)
    (hd : StarkDomains.new p.config.logTraceDomainSize p.config.logNCosets = .ok d)
    (hc : Stark.commit L H (Transcript.new (p.publicInput.getHash H stone6 p.config.nFriendly))
      p.publicInput p.unsent p.config d = .ok (t', c))
    (hq : Queries.generateQueries H t' p.config.nQueries d.evalDomainSize = .ok (queries, tq)) :
    let t := p.config.logTraceDomainSize.val
    let k := p.config.logNCosets.val
    (1 ≤ k ∧ k ≤ 16) ∧ t ≤ 71 ∧ t + k ≤ 64 ∧
    (d.evalDomainSize.val = 2 ^ (t + k) ∧ d.traceDomainSize.val = 2 ^ t ∧
      d.logEvalDomainSize.val = t + k ∧ d.logTraceDomainSize = p.config.logTraceDomainSize) ∧
    p.config.fri.logInputSize.val = t + k ∧
    stepSum p.config.fri.friStepSizes (p.config.fri.nLayers.val - 1) +
      p.config.fri.logLastLayerDegreeBound.val = t ∧
    (orderOf d.evalGenerator = 2 ^ (t + k) ∧ orderOf d.traceGenerator = 2 ^ t ∧
      d.traceGenerator = d.evalGenerator ^ (2 ^ k)) ∧
    (∀ q ∈ queries, q.val < 2 ^ (t + k)) ∧
    queries.Pairwise (fun a b => a.val < b.val) ∧
    (1 ≤ queries.length ∧ queries.length ≤ p.config.nQueries.val ∧ p.config.nQueries.val ≤ 48) := by
  obtain ⟨m1, m2, A⟩ := Proofs.Pipeline.accepting_of_parts hok hd hc hq
  exact A.domain_facts

/-- DEEP VALUES.  The values handed to FRI are, query by query, the layout's DEEP combination of
    exactly the cells opened (and Merkle-checked by the three `table_decommit`s: row `i` of each
    decommitment, see `opened_rows_are_hashed`) and the absorbed OODS values, with the powers of
    the DEEP challenge `oods_alpha` as coefficients, at the point `3·w^bitrev(q_i)` of the
    evaluation-domain coset, relative to the OODS point and the trace generator; FRI's first layer
    consists of exactly these `(query, value, 1/(point/3))` triples. -/
theorem accept_deep_values (hok : Stark.verify L H stone6 p sec = .ok r)
    (h1 : L.numColumnsFirst p.publicInput = some n1)
    (h2 : L.numColumnsSecond p.publicInput = some n2)
    (hd : StarkDomains.new p.config.logTraceDomainSize p.config.logNCosets = .ok d)
    (hc : Stark.commit L H (Transcript.new (p.publicInput.getHash H stone6 p.config.nFriendly))
      p.publicInput p.unsent p.config d = .ok (t', c))
    (hq : Queries.generateQueries H t' p.config.nQueries d.evalDomainSize = .ok (queries, tq)) :
    let t0 := Transcript.new (p.publicInput.getHash H stone6 p.config.nFriendly)
    let n := L.nInteractionElements
    let u := p.unsent
    let z := oodsPoint H t0 n u.tracesOriginal u.tracesInteraction u.composition
    let b := oodsAlpha H t0 n u.tracesOriginal u.tracesInteraction u.composition u.oodsValues
    let m := L.maskSize + L.constraintDegree
    let w := p.witness
    let K := p.config.logTraceDomainSize.val + p.config.logNCosets.val
    ∃ points evals fq,
      Queries.queriesToPoints queries d = .ok points ∧
      points = queries.map (fun q => 3 * d.evalGenerator ^ bitrev K q.val) ∧
      Stark.evalOodsBoundary L n1 n2 p.publicInput u.oodsValues (Stark.powersArray m 1 b) z
        d.traceGenerator points w.tracesOriginalValues w.tracesInteractionValues
        w.compositionValues = .ok evals ∧
      evals.length = queries.length ∧ points.length = queries.length ∧
      (∀ i (hi : i < points.length), ∃ y, evals[i]? = some y ∧
        L.evalOods p.publicInput
          (row n1 w.tracesOriginalValues i ++ row n2 w.tracesInteractionValues i ++
            row L.constraintDegree w.compositionValues i)
          u.oodsValues (Stark.powersArray m 1 b) points[i] z d.traceGenerator = .ok y) ∧
      Fri.verify H queries c.fri evals points w.friLayers = .ok () ∧
      Fri.gatherFirstLayer queries evals points = .ok fq ∧
      fq.map (·.index) = queries ∧ fq.map (·.yValue) = evals ∧
      fq.map (·.xInvValue) = points.map (fun x => Felt.inv (x * Fri.FIELD_GENERATOR_INVERSE)) :=
  (Proofs.Pipeline.accepting_of_parts' hok h1 h2 hd hc hq).deep_facts

end named

/-- The rows used by the DEEP combination are the rows `table_decommit` hashes: query `i` of the
    vector decommitment is `(queries[i], row hash of row i)` (of the Montgomery-form values). -/
theorem opened_rows_are_hashed (H : Hashes) (n : Nat) (friendly : Bool) (queries values : List Felt)
    (i : Nat) (hi : i < queries.length) :
    (Table.vectorQueries H n friendly queries (values.map (· * Table.MONTGOMERY_R)))[i]? =
      some ⟨queries[i],
        Table.rowHash H n friendly ((row n values i).map (· * Table.MONTGOMERY_R))⟩ := by
  rw [Proofs.Pipeline.vectorQueries_rows n friendly _ _ i hi, Proofs.Pipeline.row_map]

/-! ## 3. non-vacuity

  `Proofs/PipelineExample.lean`: a complete toy proof (trace domain `2^2`, blow-up 2, one query,
  one FRI layer) for a toy layout and toy hash functions that the model ACCEPTS, and tampered
  variants that it rejects with the expected error. -/

open Swiftness.Proofs.Pipeline.Toy in
/-- the hypothesis `Stark.verify … = .ok r` is satisfiable -/
example : Stark.verify toyL toyH false toyP (Felt.ofNat 31) = .ok (Felt.ofNat 1, Felt.ofNat 77) :=
  toy_accepts

open Swiftness.Proofs.Pipeline.Toy in
/-- so the conclusions hold of something: e.g. the composition table of the toy proof has exactly
    `CONSTRAINT_DEGREE = 2` columns … -/
example : toyP.config.composition.nColumns.val = toyL.constraintDegree := by
  obtain ⟨n1, n2, d, t', c, qs, tq, _, _, _, _, _, hd, _, hc, _⟩ := accept_all_checks toy_accepts
  exact (composition_columns_forced toy_accepts hd hc).1

open Swiftness.Proofs.Pipeline.Toy in
/-- … and declaring one column instead (which `StarkConfig::validate` accepts) is rejected, by
    `table_decommit`'s length check or, if the decommitment is shortened to match, by
    `eval_oods_boundary_poly_at_points`' -/
example :
    Stark.verify toyL toyH false
      { toyP with config := { toyCfg with composition := ⟨Felt.ofNat 1, vec 3⟩ } }
      (Felt.ofNat 31) = .err "DecommitmentLength" ∧
    Stark.verify toyL toyH false
      { config := { toyCfg with composition := ⟨Felt.ofNat 1, vec 3⟩ }
        publicInput := toyPI
        unsent := { toyU with composition := root1 2 }
        witness := { toyW 1 with compositionValues := [Felt.ofNat 2], compositionAuths := auth1 1 2 } }
      (Felt.ofNat 31) = .err "InvalidDecommitmentLength" :=
  ⟨toy_rejects_composition_columns, toy_rejects_composition_columns'⟩

open Swiftness.Proofs.Pipeline.Toy in
/-- the checks are not vacuous: a wrong OODS composition value, an extra OODS value, a wrong opened
    cell, a FRI input size other than the evaluation domain, a blow-up exponent of zero, one more
    security bit, are all rejected -/
example :
    Stark.verify toyL toyH false
      { toyP with unsent := { toyU with oodsValues := [Felt.ofNat 7, Felt.ofNat 8, Felt.ofNat 0] } }
      (Felt.ofNat 31) = .err "EvaluationInvalid" ∧
    Stark.verify toyL toyH false
      { toyP with unsent := { toyU with
          oodsValues := [Felt.ofNat 7, Felt.ofNat 7, Felt.ofNat 0, Felt.ofNat 0] } }
      (Felt.ofNat 31) = .err "InvalidLength" ∧
    Stark.verify toyL toyH false
      { toyP with witness := { toyW 5 with tracesOriginalValues := [Felt.ofNat 3] } }
      (Felt.ofNat 31) = .err "MisMatch" ∧
    Stark.verify toyL toyH false
      { toyP with config := { toyCfg with fri := { toyCfg.fri with logInputSize := Felt.ofNat 4 } } }
      (Felt.ofNat 31) = .err "MisMatch" ∧
    Stark.verify toyL toyH false
      { toyP with config := { toyCfg with logNCosets := Felt.ofNat 0 } }
      (Felt.ofNat 31) = .err "OutOfBounds" ∧
    Stark.verify toyL toyH false toyP (Felt.ofNat 32) = .err "InsufficientSecurity" :=
  ⟨toy_rejects_oods, toy_rejects_oods_length, toy_rejects_cell, toy_rejects_fri_input_size,
    toy_rejects_no_blowup, toy_rejects_security⟩

end Swiftness.C01
