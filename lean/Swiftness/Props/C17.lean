/-
  C17 (partial) — bounded work.

    "Verification of any proof terminates after time and memory bounded by a fixed polynomial in the
     proof's size: no numeric field of the proof (query count, layer count, exponents, sizes, dynamic
     parameters) can make the verifier loop, hash or allocate in proportion to the field's value
     rather than to the data supplied."

  What is established.
  * Termination: every function of the model is total — Lean's termination checker accepted each
    definition by STRUCTURAL recursion, either on a list or on an explicit natural-number bound.  The
    natural-number bounds are: the sample count of `Queries.sample`; the round count of
    `Fri.commitRounds` / `Fri.verifyLayers`; the coset size of `Fri.cosetLoop`; the fuel 256 of
    `Felt.powAux`; 64 in `reverseBits64Aux`; the iteration count of `Diluted.iter`; the layout constants
    in `squeezeN` / `powersArray`; and the fuels of `Vector.computeRoot` and `Fri.nextLayerLoop`, which are
    LENGTHS (`queue.length + auths.length + 1`, `queries.length + 1`) and are never exhausted
    (C04 `computeRoot_fuel`, C06 `nextLayer_fuel`), so the fuelled model loops are the Rust loops.
  * `numeric_loop_bounds`: after `StarkConfig::validate` every bound that derives from a NUMERIC field
    of the proof is at most a constant: 48 samples, 14 rounds, coset size 16, PoW difficulty 50,
    evaluation-domain exponent 87 (and 64 is enforced before `queries_to_points`).
  * per-function step counts (`sample_length`, `queries_length_le`, `vectorQueries_length`,
    `computeNextLayer_counts`, `verifyLayers_length`, `gatherFirstLayer_length`): every later phase handles
    at most `n_queries` queries / rows, whatever the indices are.
  * `cost_bound_partial`: the step count `verifyCost` (`Model/Cost.lean`: the sum of these loop bounds
    over the phases of `Stark.verify`, value-driven factors written as the field's value) is at most
    `A + B · size`, with `A`, `B` depending only on the layout.
  * `unvalidated_loop_is_value_driven`: why validation matters.

  /- UNPROVED: an end-to-end cost SEMANTICS.  `verifyCost` is a formula assembled phase by phase from
     the loop bounds above; there is no instrumented interpreter whose tick count is proved to be at
     most `verifyCost`, so the link "the model performs at most `verifyCost L K p` steps" rests on
     reading `Model/Cost.lean` against `Model/Stark.lean` (each summand is annotated with the loop it
     counts) plus the per-function lemmas.  The costs of the layout callbacks and of the hash functions
     are parameters (`LayoutCost`; one unit per hash call), memory is not modelled separately (every
     list the model builds is produced by one of the counted loops), and dynamic-layout parameters are
     outside the static-layout model. -/
-/
import Swiftness.Model.Cost
import Swiftness.Proofs.Cost
import Swiftness.Proofs.CostLoops
import Swiftness.Props.C04
import Swiftness.Props.C06
import Swiftness.Props.C10

namespace Swiftness.C17

open Swiftness
attribute [-instance] Fin.instOfNat

/-! ### 1. loop bounds that come from numeric fields -/

/-- Whenever `StarkConfig::validate` accepts, every loop whose iteration count is a numeric field of the
    proof runs at most a constant number of times. -/
theorem numeric_loop_bounds (p : Stark.Proof) (sec n1 n2 : Felt)
    (h : p.config.validate sec n1 n2 = .ok ()) :
    -- `generate_queries`: the sampling loop runs `n_queries ≤ 48` times
    ((∀ H bound t, (Queries.sample H bound p.config.nQueries.val t).1.length = p.config.nQueries.val) ∧
      p.config.nQueries.val ≤ 48) ∧
    -- `fri_commit_rounds`, `fri_verify_layers` run `n_layers - 1 ≤ 14` times
    (Cost.rounds p.config.fri = (p.config.fri.nLayers - 1).val ∧ Cost.rounds p.config.fri ≤ 14) ∧
    -- every `compute_coset_elements` loop runs `2^step ≤ 16` times
    (∀ st ∈ (p.config.fri.friStepSizes.drop 1).take (Cost.rounds p.config.fri),
      Cost.cosetSize st = ((2 : Felt) ^ st.val).val ∧ Cost.cosetSize st ≤ 16) ∧
    -- `pow` / `inverse`: 256 squarings, by definition
    (∀ a e, Felt.pow a e = Felt.powAux 256 a e) ∧
    -- `get_diluted_product` with the layouts' constant `n_bits = 16`: 15 iterations
    ((((16 : ℕ) : Felt) - 1).val = 15) ∧
    -- proof-of-work difficulty and the exponent of every domain-sized power
    p.config.powBits ≤ 50 ∧ p.config.logTraceDomainSize.val + p.config.logNCosets.val ≤ 87 ∧
    -- the two fuelled loops: the fuel is a LENGTH and is never exhausted
    (∀ H nf (queue : List Vector.QD) (auths : List Felt),
      Vector.computeRoot H nf (queue.length + auths.length + 1) queue auths ≠ .err "fuel") ∧
    (∀ qs sibs cs e, Fri.computeNextLayer qs sibs cs e ≠ .err "fuel") := by
  have hb := Proofs.Cost.numericBounds_of_validate p.config sec n1 n2 h
  have hc := Proofs.NoPanic.cfgFacts_of_validate p.config sec n1 n2 h
  refine ⟨⟨fun H bound t => Proofs.Cost.sample_length H bound _ t, hb.queries⟩, ⟨rfl, hb.rounds⟩, ?_,
    fun _ _ => rfl, (C15_iter), hb.powBits, hb.logEval,
    fun H nf queue auths => C04.computeRoot_fuel H nf queue auths,
    fun qs sibs cs e => C06.nextLayer_fuel qs sibs cs e⟩
  intro st hst
  refine ⟨?_, hb.cosets st hst⟩
  show (Felt.pow _ st.val).val = _
  rw [Proofs.pow2_model _ st.isLt]
where
  C15_iter : (((16 : ℕ) : Felt) - 1).val = 15 := by decide +kernel

/-! ### 2. per-function step counts: every phase handles at most `n_queries` items -/

/-- the sampling loop returns exactly `n` samples … -/
theorem sample_length (H : Hashes) (bound n : ℕ) (t : Transcript) :
    (Queries.sample H bound n t).1.length = n := Proofs.Cost.sample_length H bound n t

/-- … of which at most `n` distinct queries remain (C10) -/
theorem queries_length_le {H : Hashes} {t t' : Transcript} {n bound : Felt} {qs : List Felt}
    (h : Queries.generateQueries H t n bound = .ok (qs, t')) (hb : bound ≠ 0) : qs.length ≤ n.val :=
  C10.queries_length_le h hb

/-- one Merkle leaf query per query: `compute_root_from_queries` starts with a queue of that length
    and makes at most `queries.length + auths.length` steps (its fuel minus one) -/
theorem vectorQueries_length (H : Hashes) (nc : ℕ) (fr : Bool) (qs vals : List Felt) :
    (Table.vectorQueries H nc fr qs vals).length = qs.length :=
  Proofs.Cost.vectorQueries_length H nc fr qs vals

/-- first FRI layer: one layer query per query -/
theorem gatherFirstLayer_length (qs evals xs : List Felt) (r : List Fri.LayerQuery)
    (h : Fri.gatherFirstLayer qs evals xs = .ok r) : r.length = qs.length :=
  Proofs.Cost.gatherFirstLayer_length qs evals xs r h

/-- `compute_next_layer`, for ANY query indices, sibling values and coset size: at most one next-layer
    query and one Merkle row of `coset_size` values per query of this layer -/
theorem computeNextLayer_counts (qs : List Fri.LayerQuery) (sibs : List Felt) (cs e : Felt)
    (r : Fri.NextLayer) (h : Fri.computeNextLayer qs sibs cs e = .ok r) :
    r.nextQueries.length ≤ qs.length ∧ r.verifyIndices.length ≤ qs.length ∧
    r.verifyYValues.length ≤ qs.length * cs.val :=
  Proofs.Cost.computeNextLayer_counts qs sibs cs e r h

/-- so the number of queries never grows along the FRI layers -/
theorem verifyLayers_length (H : Hashes) (n : ℕ) (cs : List Table.Commitment) (ws : List Fri.LayerWitness)
    (es steps : List Felt) (qs r : List Fri.LayerQuery)
    (h : Fri.verifyLayers H n cs ws es steps qs = .ok r) : r.length ≤ qs.length :=
  Proofs.Cost.verifyLayers_length H n cs ws es steps qs r h

/-- one FRI layer costs a constant plus the size of its witness (48 queries, coset size ≤ 16) -/
theorem layer_cost_le (nq cs : ℕ) (w : Fri.LayerWitness) (hq : nq ≤ 48) (hcs : cs ≤ 16) :
    Cost.layer nq cs w ≤ 14929 + w.size := Proofs.Cost.layer_le nq cs w hq hcs

/-! ### 3. the combined bound -/

/-- After configuration validation the step count of `Model/Cost.lean` is at most linear in the
    number of field elements of the proof value, with constants that depend only on the layout.
    (PARTIAL: see the `UNPROVED` note in the header for what ties `verifyCost` to the model.) -/
theorem cost_bound_partial (L : LayoutOps) (K : LayoutCost) (p : Stark.Proof) (sec n1 n2 : Felt)
    (h : p.config.validate sec n1 n2 = .ok ()) :
    verifyCost L K p ≤
      -- `A_L`: depends only on the layout's sizes and callback costs
      (K.piA + K.compA + 48 * K.oods + L.nInteractionElements + L.nConstraints + L.maskSize
        + L.constraintDegree + 253070)
      -- `B_L` times the number of field elements in the proof value
      + (K.piB + K.compB + 52) * Stark.Proof.size p :=
  Proofs.Cost.cost_le L K p (Proofs.Cost.numericBounds_of_validate p.config sec n1 n2 h)

/-! ### 4. why validation matters -/

/-- `Queries.sample` returns `n` samples (and squeezes the transcript `n` times) for ANY `n`: without
    the `n_queries ≤ 48` check of `StarkConfig::validate`, the sampling loop — and with it sorting and
    every per-query phase — would be driven by the VALUE of the field `n_queries`, not by the amount
    of data supplied. -/
theorem unvalidated_loop_is_value_driven (H : Hashes) (bound : ℕ) (t : Transcript) (n : ℕ) :
    (Queries.sample H bound n t).1.length = n ∧
    (Queries.sample H bound n t).2.counter = t.counter + (n : Felt) :=
  ⟨Proofs.Cost.sample_length H bound n t, (Proofs.Cost.sample_counter H bound n t).1⟩

/-- e.g. a configuration announcing `2^100` queries would make the unvalidated loop run `2^100` times -/
example (H : Hashes) (t : Transcript) : (Queries.sample H 1024 (2 ^ 100) t).1.length = 2 ^ 100 :=
  (unvalidated_loop_is_value_driven H 1024 t (2 ^ 100)).1

/-- … and correspondingly `verifyCost` of an UNVALIDATED proof grows with the field's value -/
theorem cost_value_driven_without_validation (L : LayoutOps) (K : LayoutCost) (p : Stark.Proof) :
    p.config.nQueries.val ≤ verifyCost L K p := by
  unfold verifyCost
  simp only []
  omega

/-! ### non-vacuity -/

/-- the hypothesis of `numeric_loop_bounds` / `cost_bound_partial` is satisfiable (the configuration of
    C11's example), and the bound is then a concrete number -/
private def exV (h : Nat) : Vector.Config := ⟨Felt.ofNat h, Felt.ofNat 9⟩

private def exCfg : StarkConfig where
  traces := ⟨⟨Felt.ofNat 7, exV 20⟩, ⟨Felt.ofNat 3, exV 20⟩⟩
  composition := ⟨Felt.ofNat 2, exV 20⟩
  fri :=
    { logInputSize := Felt.ofNat 20
      nLayers := Felt.ofNat 5
      innerLayers := [⟨Felt.ofNat 16, exV 16⟩, ⟨Felt.ofNat 8, exV 13⟩, ⟨Felt.ofNat 4, exV 11⟩,
        ⟨Felt.ofNat 4, exV 9⟩]
      friStepSizes := [Felt.ofNat 0, Felt.ofNat 4, Felt.ofNat 3, Felt.ofNat 2, Felt.ofNat 2]
      logLastLayerDegreeBound := Felt.ofNat 7 }
  powBits := 30
  logTraceDomainSize := Felt.ofNat 18
  nQueries := Felt.ofNat 16
  logNCosets := Felt.ofNat 2
  nFriendly := Felt.ofNat 9

example : exCfg.validate (Felt.ofNat 62) (Felt.ofNat 7) (Felt.ofNat 3) = .ok () := by decide +kernel

example : Cost.rounds exCfg.fri = 4 ∧
    ((exCfg.fri.friStepSizes.drop 1).take (Cost.rounds exCfg.fri)).map Cost.cosetSize = [16, 8, 4, 4] := by
  decide +kernel

end Swiftness.C17
