/-
  C17 — bounded work.

    "Verification of any proof terminates after time and memory bounded by a fixed polynomial in the
     proof's size: no numeric field of the proof (query count, layer count, exponents, sizes, dynamic
     parameters) can make the verifier loop, hash or allocate in proportion to the field's value
     rather than to the data supplied."

  What is established.
  * Termination: every function of the model is total — Lean's termination checker accepted each
    definition by STRUCTURAL recursion, either on a list or on an explicit natural-number bound.  The
    natural-number bounds are: the sample count of `Queries.sample`; the round count of
    `Fri.commitRounds` / `Fri.verifyLayers`; the coset size of `Fri.cosetLoop`; the fuel 256 of
    `Felt.powAux`; 64 in `reverseBits64Aux`; the iteration count of `Diluted.iter`; the layout constants
    in `squeezeN` / `powersArray`; and the fuels of `Vector.computeRoot` and `Fri.nextLayerLoop`, which are
    LENGTHS (`queue.length + auths.length + 1`, `queries.length + 1`) and are never exhausted
    (C04 `computeRoot_fuel`, C06 `nextLayer_fuel`), so the fuelled model loops are the Rust loops.
  * `numeric_loop_bounds`: after `StarkConfig::validate` every bound that derives from a NUMERIC field
    of the proof is at most a constant: 48 samples, 14 rounds, coset size 16, PoW difficulty 50,
    evaluation-domain exponent 87 (and 64 is enforced before `queries_to_points`).
  * per-function step counts (`sample_length`, `queries_length_le`, `vectorQueries_length`,
    `computeNextLayer_counts`, `verifyLayers_length`, `gatherFirstLayer_length`): every later phase handles
    at most `n_queries` queries / rows, whatever the indices are.
  * `cost_bound_partial`: the step count `verifyCost` (`Model/Cost.lean`: the sum of these loop bounds
    over the phases of `Stark.verify`, value-driven factors written as the field's value) is at most
    `A + B · size`, with `A`, `B` depending only on the layout.
  * `unvalidated_loop_is_value_driven`: why validation matters.
  * THE INSTRUMENTED SEMANTICS (section 5; `Proofs/Ticked*.lean`).  `Ticked.verifyT` is a step-counting
    twin of `Stark.verify`: the same program written in a writer monad (`Ticked.TO α` = outcome +
    ticks), with a twin for every function on the path that loops or recurses.  Charging scheme
    (`Proofs/TickedBasic.lean`): one tick per loop iteration / recursive call; one per hash call plus
    one per absorbed element (`poseidon_hash_many`, masked row hash); `Cost.F = 256` per `pow` /
    `inverse` (`Ticked.pow_steps`: the square-and-multiply loop takes at most 256 iterations); one per
    element produced or walked by every bulk list operation (`map`, `flatMap`, `take`, `drop`,
    `reverse`; `a ++ b` is charged `|a| + |b|`, which covers the model's list append as well as the
    Rust `push` / `extend`).  Proved:
      - `verify_ticked_erases`: erasure — the twin computes exactly `Stark.verify` (so the ticked pipeline
        IS the model plus a counter);
      - `verify_ticks_le_cost`: for EVERY proof value the tick count is at most `Ticked.verifyCost'`
        (`Proofs/TickedBoundsStark.lean`), the corrected version of `verifyCost` whose value-driven
        factors are written as the fields' values;
      - `verify_ticks_bounded`: once `StarkConfig::validate` accepts, ticks `≤ verifyCost' ≤ A + B · size`;
      - `sampling_ticks_value_driven`: the contrast — the sampling loop alone takes `2 n` ticks for any `n`;
      - per-function bounds (`computeRoot_ticks`, `tableDecommit_ticks`, `computeNextLayer_ticks`,
        `verifyLayers_ticks`, `generateQueries_ticks`).
    Since every list the twins build is produced by a charged bulk operation or by a `cons` inside a
    ticked iteration, the tick count also bounds the number of list cells allocated (memory).
    `verifyCost` (the old formula) under-counts under this scheme; see the comparison in section 5.

  /- UNPROVED / PARAMETERS.  (1) The costs of the hash functions are not modelled: a hash call is
     charged one tick plus one per absorbed field element, whatever `Hashes` is.  (2) The layout
     callbacks of `LayoutOps` (`eval_composition_polynomial`, `eval_oods_polynomial`,
     `validate_public_input`, `verify_public_input` — for the static layouts AND for the dynamic
     layout) are opaque functions; their step counts enter through the parameter
     `KF : Ticked.LayoutCostFn` with the HYPOTHESIS `KF.BoundedBy K` (at most `compA + compB·|pi|`,
     `oods`, `piA + piB·|pi|`); nothing is proved here about the translated layout programs
     themselves.  (3) Operations on fixed-width values (field arithmetic, comparisons, 32-byte
     encodings, the 41/40-byte proof-of-work preimages), `List.length`, indexing and `fri_formula`
     (straight-line, fixed charge 64) are unit-cost by convention.  (4) The tick semantics is that of
     the MODEL; its agreement with the Rust code is the correspondence check's business. -/
-/
import Swiftness.Model.Cost
import Swiftness.Proofs.Cost
import Swiftness.Proofs.CostLoops
import Swiftness.Proofs.TickedLinear
import Swiftness.Proofs.PipelineExample
import Swiftness.Props.C04
import Swiftness.Props.C06
import Swiftness.Props.C10

namespace Swiftness.C17

open Swiftness
attribute [-instance] Fin.instOfNat

/-! ### 1. loop bounds that come from numeric fields -/

/-- Whenever `StarkConfig::validate` accepts, every loop whose iteration count is a numeric field of the
    proof runs at most a constant number of times. -/
theorem numeric_loop_bounds (p : Stark.Proof) (sec n1 n2 : Felt)
    (h : p.config.validate sec n1 n2 = .ok ()) :
    -- `generate_queries`: the sampling loop runs `n_queries ≤ 48` times
    ((∀ H bound t, (Queries.sample H bound p.config.nQueries.val t).1.length = p.config.nQueries.val) ∧
      p.config.nQueries.val ≤ 48) ∧
    -- `fri_commit_rounds`, `fri_verify_layers` run `n_layers - 1 ≤ 14` times
    (Cost.rounds p.config.fri = (p.config.fri.nLayers - 1).val ∧ Cost.rounds p.config.fri ≤ 14) ∧
    -- every `compute_coset_elements` loop runs `2^step ≤ 16` times
    (∀ st ∈ (p.config.fri.friStepSizes.drop 1).take (Cost.rounds p.config.fri),
      Cost.cosetSize st = ((2 : Felt) ^ st.val).val ∧ Cost.cosetSize st ≤ 16) ∧
    -- `pow` / `inverse`: 256 squarings, by definition
    (∀ a e, Felt.pow a e = Felt.powAux 256 a e) ∧
    -- `get_diluted_product` with the layouts' constant `n_bits = 16`: 15 iterations
    ((((16 : ℕ) : Felt) - 1).val = 15) ∧
    -- proof-of-work difficulty and the exponent of every domain-sized power
    p.config.powBits ≤ 50 ∧ p.config.logTraceDomainSize.val + p.config.logNCosets.val ≤ 87 ∧
    -- the two fuelled loops: the fuel is a LENGTH and is never exhausted
    (∀ H nf (queue : List Vector.QD) (auths : List Felt),
      Vector.computeRoot H nf (queue.length + auths.length + 1) queue auths ≠ .err "fuel") ∧
    (∀ qs sibs cs e, Fri.computeNextLayer qs sibs cs e ≠ .err "fuel") := by
  have hb := Proofs.Cost.numericBounds_of_validate p.config sec n1 n2 h
  have hc := Proofs.NoPanic.cfgFacts_of_validate p.config sec n1 n2 h
  refine ⟨⟨fun H bound t => Proofs.Cost.sample_length H bound _ t, hb.queries⟩, ⟨rfl, hb.rounds⟩, ?_,
    fun _ _ => rfl, (C15_iter), hb.powBits, hb.logEval,
    fun H nf queue auths => C04.computeRoot_fuel H nf queue auths,
    fun qs sibs cs e => C06.nextLayer_fuel qs sibs cs e⟩
  intro st hst
  refine ⟨?_, hb.cosets st hst⟩
  show (Felt.pow _ st.val).val = _
  rw [Proofs.pow2_model _ st.isLt]
where
  C15_iter : (((16 : ℕ) : Felt) - 1).val = 15 := by decide +kernel

/-! ### 2. per-function step counts: every phase handles at most `n_queries` items -/

/-- the sampling loop returns exactly `n` samples … -/
theorem sample_length (H : Hashes) (bound n : ℕ) (t : Transcript) :
    (Queries.sample H bound n t).1.length = n := Proofs.Cost.sample_length H bound n t

/-- … of which at most `n` distinct queries remain (C10) -/
theorem queries_length_le {H : Hashes} {t t' : Transcript} {n bound : Felt} {qs : List Felt}
    (h : Queries.generateQueries H t n bound = .ok (qs, t')) (hb : bound ≠ 0) : qs.length ≤ n.val :=
  C10.queries_length_le h hb

/-- one Merkle leaf query per query: `compute_root_from_queries` starts with a queue of that length
    and makes at most `queries.length + auths.length` steps (its fuel minus one) -/
theorem vectorQueries_length (H : Hashes) (nc : ℕ) (fr : Bool) (qs vals : List Felt) :
    (Table.vectorQueries H nc fr qs vals).length = qs.length :=
  Proofs.Cost.vectorQueries_length H nc fr qs vals

/-- first FRI layer: one layer query per query -/
theorem gatherFirstLayer_length (qs evals xs : List Felt) (r : List Fri.LayerQuery)
    (h : Fri.gatherFirstLayer qs evals xs = .ok r) : r.length = qs.length :=
  Proofs.Cost.gatherFirstLayer_length qs evals xs r h

/-- `compute_next_layer`, for ANY query indices, sibling values and coset size: at most one next-layer
    query and one Merkle row of `coset_size` values per query of this layer -/
theorem computeNextLayer_counts (qs : List Fri.LayerQuery) (sibs : List Felt) (cs e : Felt)
    (r : Fri.NextLayer) (h : Fri.computeNextLayer qs sibs cs e = .ok r) :
    r.nextQueries.length ≤ qs.length ∧ r.verifyIndices.length ≤ qs.length ∧
    r.verifyYValues.length ≤ qs.length * cs.val :=
  Proofs.Cost.computeNextLayer_counts qs sibs cs e r h

/-- so the number of queries never grows along the FRI layers -/
theorem verifyLayers_length (H : Hashes) (n : ℕ) (cs : List Table.Commitment) (ws : List Fri.LayerWitness)
    (es steps : List Felt) (qs r : List Fri.LayerQuery)
    (h : Fri.verifyLayers H n cs ws es steps qs = .ok r) : r.length ≤ qs.length :=
  Proofs.Cost.verifyLayers_length H n cs ws es steps qs r h

/-- one FRI layer costs a constant plus the size of its witness (48 queries, coset size ≤ 16) -/
theorem layer_cost_le (nq cs : ℕ) (w : Fri.LayerWitness) (hq : nq ≤ 48) (hcs : cs ≤ 16) :
    Cost.layer nq cs w ≤ 14929 + w.size := Proofs.Cost.layer_le nq cs w hq hcs

/-! ### 3. the combined bound -/

/-- After configuration validation the step count of `Model/Cost.lean` is at most linear in the
    number of field elements of the proof value, with constants that depend only on the layout.
    (PARTIAL: `verifyCost` is a hand-assembled formula; the step count that is PROVED to bound the
    instrumented model is `Ticked.verifyCost'`, section 5.) -/
theorem cost_bound_partial (L : LayoutOps) (K : LayoutCost) (p : Stark.Proof) (sec n1 n2 : Felt)
    (h : p.config.validate sec n1 n2 = .ok ()) :
    verifyCost L K p ≤
      -- `A_L`: depends only on the layout's sizes and callback costs
      (K.piA + K.compA + 48 * K.oods + L.nInteractionElements + L.nConstraints + L.maskSize
        + L.constraintDegree + 253070)
      -- `B_L` times the number of field elements in the proof value
      + (K.piB + K.compB + 52) * Stark.Proof.size p :=
  Proofs.Cost.cost_le L K p (Proofs.Cost.numericBounds_of_validate p.config sec n1 n2 h)

/-! ### 4. why validation matters -/

/-- `Queries.sample` returns `n` samples (and squeezes the transcript `n` times) for ANY `n`: without
    the `n_queries ≤ 48` check of `StarkConfig::validate`, the sampling loop — and with it sorting and
    every per-query phase — would be driven by the VALUE of the field `n_queries`, not by the amount
    of data supplied. -/
theorem unvalidated_loop_is_value_driven (H : Hashes) (bound : ℕ) (t : Transcript) (n : ℕ) :
    (Queries.sample H bound n t).1.length = n ∧
    (Queries.sample H bound n t).2.counter = t.counter + (n : Felt) :=
  ⟨Proofs.Cost.sample_length H bound n t, (Proofs.Cost.sample_counter H bound n t).1⟩

/-- e.g. a configuration announcing `2^100` queries would make the unvalidated loop run `2^100` times -/
example (H : Hashes) (t : Transcript) : (Queries.sample H 1024 (2 ^ 100) t).1.length = 2 ^ 100 :=
  (unvalidated_loop_is_value_driven H 1024 t (2 ^ 100)).1

/-- … and correspondingly `verifyCost` of an UNVALIDATED proof grows with the field's value -/
theorem cost_value_driven_without_validation (L : LayoutOps) (K : LayoutCost) (p : Stark.Proof) :
    p.config.nQueries.val ≤ verifyCost L K p := by
  unfold verifyCost
  simp only []
  omega

/-! ### 5. the instrumented (step-counting) semantics -/

open Ticked in
/-- ERASURE: the instrumented verifier returns exactly what `Stark.verify` returns — it is the model
    plus a counter. -/
theorem verify_ticked_erases (L : LayoutOps) (KF : LayoutCostFn) (H : Hashes) (stone6 : Bool)
    (p : Stark.Proof) (sec : Felt) :
    (verifyT L KF H stone6 p sec).out = Stark.verify L H stone6 p sec :=
  verifyT_out L KF H stone6 p sec

open Ticked in
/-- For EVERY proof value (validated or not, accepted or not) the instrumented verifier takes at most
    `verifyCost' L K p` steps, provided the layout callbacks cost what `K` declares.  `verifyCost'`
    is the sum over the phases of `Stark.verify` of explicit expressions in the LENGTHS of the lists
    in the proof and in the VALUES of `n_queries`, `n_layers`, `2^step` (`Proofs/TickedBoundsStark.lean`). -/
theorem verify_ticks_le_cost (L : LayoutOps) (KF : LayoutCostFn) (K : LayoutCost) (hK : KF.BoundedBy K)
    (H : Hashes) (stone6 : Bool) (p : Stark.Proof) (sec : Felt) :
    (verifyT L KF H stone6 p sec).ticks ≤
      -- the initial tick, `StarkConfig::validate`, `StarkDomains::new`
      1 + Cost'.config p.config + Cost'.domains
      -- `validate_public_input` + `verify_public_input` (callbacks), `PublicInput::get_hash`
      + (K.piA + K.piB * p.publicInput.size) + Cost'.pubHash p.publicInput
      -- `stark_commit`, `generate_queries`, `stark_verify`
      + Cost'.commit L K p + Cost'.sampling p.config.nQueries.val + Cost'.phase K p :=
  verifyT_ticks_le L KF K hK H stone6 p sec

open Ticked in
/-- HEADLINE.  Whenever `StarkConfig::validate` accepts the configuration of a proof, the instrumented
    verifier takes at most `A_L + B_L · size` steps on it, where `size` is the number of field elements
    (and machine integers) in the proof value and `A_L`, `B_L` depend only on the layout (its sizes and
    the declared costs of its callbacks): no numeric field of the proof buys more than a constant. -/
theorem verify_ticks_bounded (L : LayoutOps) (KF : LayoutCostFn) (K : LayoutCost) (hK : KF.BoundedBy K)
    (H : Hashes) (stone6 : Bool) (p : Stark.Proof) (sec sec' n1 n2 : Felt)
    (h : p.config.validate sec' n1 n2 = .ok ()) :
    (verifyT L KF H stone6 p sec).ticks ≤ verifyCost' L K p ∧
    verifyCost' L K p ≤
      -- `A_L`
      (K.piA + K.compA + 48 * K.oods + 2 * L.nInteractionElements + L.nConstraints + L.maskSize
        + L.constraintDegree + 938307)
      -- `B_L` times the number of field elements in the proof value
      + (K.piB + K.compB + 50) * Stark.Proof.size p :=
  ⟨verifyT_ticks_le L KF K hK H stone6 p sec,
    verifyCost'_le L K p (Proofs.Cost.numericBounds_of_validate p.config sec' n1 n2 h)⟩

open Ticked in
/-- The contrast: the instrumented sampling loop returns what `Queries.sample` returns and takes `2 n`
    steps (one iteration and one transcript squeeze per sample) for ANY `n` — without the
    `n_queries ≤ 48` check the cost would be driven by the value of the field. -/
theorem sampling_ticks_value_driven (H : Hashes) (bound : ℕ) (t : Transcript) (n : ℕ) :
    (sampleT H bound n t).val = Queries.sample H bound n t ∧ (sampleT H bound n t).ticks = 2 * n :=
  ⟨sampleT_val H bound n t, sampleT_ticks H bound n t⟩

/-! per-function bounds of the instrumented semantics (each twin erases to its model function:
    `Ticked.computeRootT_out`, `Ticked.tableDecommitT_out`, `Ticked.computeNextLayerT_out`, …) -/

open Ticked in
/-- `generate_queries`: sampling (`2 q`), insertion sort (`q² + q`), dedup (`q`) -/
theorem generateQueries_ticks (H : Hashes) (t : Transcript) (n bound : Felt) :
    (generateQueriesT H t n bound).ticks ≤ 1 + 2 * n.val + (n.val * n.val + n.val) + n.val :=
  generateQueriesT_ticks H t n bound

open Ticked in
/-- `compute_root_from_queries`: at most `fuel` iterations, each one hash call and the re-queued parent -/
theorem computeRoot_ticks (H : Hashes) (nf : Felt) (fuel : ℕ) (queue : List Vector.QD) (auths : List Felt) :
    (computeRootT H nf fuel queue auths).ticks ≤ fuel * (queue.length + 2) :=
  computeRootT_ticks H nf fuel queue auths

open Ticked in
/-- `table_decommit`, for ANY commitment (column count, height) and any indices: bounded by the numbers
    of queries, values and authentication values SUPPLIED -/
theorem tableDecommit_ticks (H : Hashes) (c : Table.Commitment) (queries values auths : List Felt) :
    (tableDecommitT H c queries values auths).ticks ≤
      1 + values.length + (2 * queries.length + 3 * values.length)
        + (1 + Cost.F + queries.length + (queries.length + auths.length + 1) * (queries.length + 2)) :=
  tableDecommitT_ticks H c queries values auths

open Ticked in
/-- `compute_next_layer`, for ANY indices and coset size `cs`: `|qs| + 1` iterations of coset loop,
    `fri_formula`, one exponentiation and the growing `verify_y_values` -/
theorem computeNextLayer_ticks (qs : List Fri.LayerQuery) (sibs : List Felt) (cs e : Felt) :
    (computeNextLayerT qs sibs cs e).ticks ≤
      1 + ((qs.length + 1) * (FF + Cost.F + 3 + 3 * cs.val + (qs.length + 1) * cs.val) + 2 * (qs.length + 1)) :=
  computeNextLayerT_ticks qs sibs cs e

open Ticked in
/-- `fri_verify_layers`: one `Cost'.layer` per (step, witness) pair among the first `n`, for ANY `n` -/
theorem verifyLayers_ticks (H : Hashes) (n : ℕ) (cs : List Table.Commitment) (ws : List Fri.LayerWitness)
    (es steps : List Felt) (qs : List Fri.LayerQuery) :
    (verifyLayersT H n cs ws es steps qs).ticks ≤ Cost'.layers qs.length (steps.take n) ws + 1 :=
  verifyLayersT_ticks H qs.length n cs ws es steps qs (Nat.le_refl _)

/-! Comparison with the hand-assembled `verifyCost` (`Model/Cost.lean`).  Under the charging scheme above
    EVERY summand of `verifyCost` is too small by constant factors (it charges an iteration and the hash
    call in it as one unit, and list slicing not at all).  Independently of such conventions it misses:
    `StarkDomains::new` performs SIX exponentiations (`dom = 4·F`); `fri::Config::validate` computes
    `2^step` in every iteration (`cfg = 16 + n_layers` has no `F`); every `vector_commitment_decommit`
    computes `2^height`, every FRI layer `2^step`, `queries_to_points` the shift `2^(64 - log_eval)`,
    `stark_commit` / `fri_commit` / `fri_verify` each `2^log_last_layer_degree_bound` (none of these `F`s is
    in `dec`, `layers`, `pts`, `com`, `fri`); the Montgomery map and row hashing of the `nq · cs` values of
    every FRI layer are counted once (`nq * cs`), the model touches each value four times; and
    `eval_oods_boundary_poly_at_points` copies every decommitted trace value into the row it passes to
    the layout (`ood = q · K.oods` has no term in the number of values).  `verifyCost' ≤ A + B·size`
    still holds, with `A = … + 938307` instead of `… + 253070` and `B = … + 50` instead of `… + 52`. -/

/-! ### non-vacuity -/

/-- the hypothesis of `numeric_loop_bounds` / `cost_bound_partial` is satisfiable (the configuration of
    C11's example), and the bound is then a concrete number -/
private def exV (h : Nat) : Vector.Config := ⟨Felt.ofNat h, Felt.ofNat 9⟩

private def exCfg : StarkConfig where
  traces := ⟨⟨Felt.ofNat 7, exV 20⟩, ⟨Felt.ofNat 3, exV 20⟩⟩
  composition := ⟨Felt.ofNat 2, exV 20⟩
  fri :=
    { logInputSize := Felt.ofNat 20
      nLayers := Felt.ofNat 5
      innerLayers := [⟨Felt.ofNat 16, exV 16⟩, ⟨Felt.ofNat 8, exV 13⟩, ⟨Felt.ofNat 4, exV 11⟩,
        ⟨Felt.ofNat 4, exV 9⟩]
      friStepSizes := [Felt.ofNat 0, Felt.ofNat 4, Felt.ofNat 3, Felt.ofNat 2, Felt.ofNat 2]
      logLastLayerDegreeBound := Felt.ofNat 7 }
  powBits := 30
  logTraceDomainSize := Felt.ofNat 18
  nQueries := Felt.ofNat 16
  logNCosets := Felt.ofNat 2
  nFriendly := Felt.ofNat 9

example : exCfg.validate (Felt.ofNat 62) (Felt.ofNat 7) (Felt.ofNat 3) = .ok () := by decide +kernel

example : Cost.rounds exCfg.fri = 4 ∧
    ((exCfg.fri.friStepSizes.drop 1).take (Cost.rounds exCfg.fri)).map Cost.cosetSize = [16, 8, 4, 4] := by
  decide +kernel

/-- the hypotheses of `verify_ticks_bounded` are satisfiable: callback cost functions within a declared
    `LayoutCost`, and (above) a configuration that validates; the bound is then a concrete number for
    EVERY proof carrying that configuration -/
private theorem exCfg_validates :
    exCfg.validate (Felt.ofNat 62) (Felt.ofNat 7) (Felt.ofNat 3) = .ok () := by decide +kernel

private def exKF : Ticked.LayoutCostFn where
  evalComposition := fun _ pi mask _ _ _ _ => 5 + 2 * pi.size + 0 * mask.length
  evalOods := fun _ _ _ _ _ _ _ => 7
  validatePublicInput := fun pi _ => 3 + pi.size
  verifyPublicInput := fun pi => 2 * pi.size

private def exK : LayoutCost := ⟨5, 2, 7, 3, 3⟩

example : exKF.BoundedBy exK :=
  ⟨fun _ pi _ _ _ _ _ => by simp [exKF, exK], fun _ _ _ _ _ _ _ => by simp [exKF, exK],
    fun pi _ => by simp only [exKF, exK]; omega⟩

example (L : LayoutOps) (hK : exKF.BoundedBy exK) (H : Hashes) (stone6 : Bool) (pi : PublicInput)
    (u : Stark.UnsentCommitment) (w : Stark.Witness) (sec : Felt) :
    (Ticked.verifyT L exKF H stone6 ⟨exCfg, pi, u, w⟩ sec).ticks ≤
      (3 + 5 + 48 * 7 + 2 * L.nInteractionElements + L.nConstraints + L.maskSize + L.constraintDegree + 938307)
        + (3 + 2 + 50) * Stark.Proof.size ⟨exCfg, pi, u, w⟩ :=
  let h := verify_ticks_bounded L exKF exK hK H stone6 ⟨exCfg, pi, u, w⟩ sec (Felt.ofNat 62) (Felt.ofNat 7)
    (Felt.ofNat 3) exCfg_validates
  Nat.le_trans h.1 h.2

/-- a complete run: on the toy proof that the model accepts (`Proofs/PipelineExample.lean`, one query, one
    FRI layer) with unit-cost callbacks the instrumented verifier accepts after 5730 steps, and
    `verifyCost'` of that proof is 6402; a proof rejected for insufficient security costs 3 steps -/
private def unitKF : Ticked.LayoutCostFn :=
  ⟨fun _ _ _ _ _ _ _ => 1, fun _ _ _ _ _ _ _ => 1, fun _ _ => 1, fun _ => 1⟩

open Proofs.Pipeline.Toy in
example :
    (Ticked.verifyT toyL unitKF toyH false toyP (Felt.ofNat 31)).out = .ok (Felt.ofNat 1, Felt.ofNat 77) ∧
    (Ticked.verifyT toyL unitKF toyH false toyP (Felt.ofNat 31)).ticks = 5730 ∧
    Ticked.verifyCost' toyL ⟨1, 0, 1, 2, 0⟩ toyP = 6402 ∧
    (Ticked.verifyT toyL unitKF toyH false toyP (Felt.ofNat 99)).ticks = 3 := by
  decide +kernel

end Swiftness.C17
