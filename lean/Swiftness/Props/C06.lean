/-
  C06 — FRI folding.
    "Folding a coset of size 2^k with challenge b yields 2^k · Σ_j b^j · P_j(y), where
     P(x) = Σ_j x^j · P_j(x^(2^k)) and y is the coset's image."
  plus the per-layer step (`compute_next_layer`) and the last-layer check (`verify_last_layer`) of the
  FRI verifier model `Swiftness/Model/Fri.lean`.

  Vocabulary (`Swiftness/Spec/FoldSpec.lean`): polynomials are coefficient lists (lowest degree first),
  `evalL`, `evens`, `odds`, `split k cs j` (= coefficients of `P_j`), `bitrev`, `expectedSiblings`,
  `cosetValues`.  Only property theorems and non-vacuity examples live here; proofs are in `Proofs/`.

  ORIENTATION FACTS established here (see `group_facts`, `fold_identity`, `domain_layout`):
  * `friGroup[i] = g^(bitrev₄ i)` where `g = friGroup[8] = OMEGA_16⁻¹ = 3^((P-1)/16)`.
  * the `j`-th value handed to `fri_formula` for the coset with first point `x` is `P(x · friGroup[j])`.
  * a layer domain of size `2^L` with generator `ω = 3^((P-1)/2^L)` and shift `s` has, at bit-reversed
    index `idx`, the point `s · ω^(bitrev_L idx)`; its cosets of size `2^k` are the index blocks
    `c·2^k … c·2^k + 2^k - 1`, and `pt (c·2^k + i) = pt (c·2^k) · friGroup[i]`.
-/
import Swiftness.Proofs.Fold
import Swiftness.Proofs.FoldFelt
import Swiftness.Proofs.FoldDomain
import Swiftness.Proofs.FriLayerLast
import Swiftness.Proofs.FriLayerNext

namespace Swiftness.C06

open Swiftness Fri FoldSpec
attribute [-instance] Fin.instOfNat

/-! ### 1. polynomials as coefficient lists -/

/-- `P(x) = P_e(x²) + x · P_o(x²)` -/
theorem evalL_evens_odds {F : Type} [Field F] (cs : List F) (x : F) :
    evalL cs x = evalL (evens cs) (x * x) + x * evalL (odds cs) (x * x) :=
  Proofs.evalL_evens_odds cs x

/-- `P(x) = Σ_{j<2^k} x^j · P_j(x^(2^k))` with `P_j = split k cs j` -/
theorem split_spec {F : Type} [Field F] (k : ℕ) (cs : List F) (x : F) :
    evalL cs x = ∑ j ∈ Finset.range (2 ^ k), x ^ j * evalL (split k cs j) (x ^ 2 ^ k) :=
  Proofs.split_spec k cs x

/-- `split k cs j` consists of the coefficients of `cs` at the positions `j, j + 2^k, j + 2·2^k, …` -/
theorem split_getElem? {α : Type} (k : ℕ) (cs : List α) (j m : ℕ) (hj : j < 2 ^ k) :
    (split k cs j)[m]? = cs[j + 2 ^ k * m]? :=
  Proofs.split_getElem? k cs j m hj

/-! ### 2. one folding step -/

theorem fold2_identity (cs : List Felt) (x xinv b : Felt) (h : x * xinv = 1) :
    Fri.formula2 (evalL cs x) (evalL cs (-x)) b xinv
      = 2 * (evalL (evens cs) (x * x) + b * evalL (odds cs) (x * x)) :=
  Proofs.f2_identity cs x xinv b h

/-! ### 3. the generated constants -/

theorem group_facts :
    OMEGA_4 ^ 2 = -1 ∧ OMEGA_8 ^ 2 = OMEGA_4 ∧ OMEGA_16 ^ 2 = OMEGA_8 ∧ OMEGA_16 ^ 8 = -1 ∧
    OMEGA_16 ^ 16 = 1 ∧
    friGroup.length = 16 ∧ friGroup.getD 0 0 = 1 ∧ friGroup.getD 1 0 = -1 ∧
    friGroup.getD 15 0 = OMEGA_16 ∧
    -- `friGroup[i] = (OMEGA_16⁻¹)^(bitrev₄ i)`
    (∀ i < 16, friGroup.getD i 0 * OMEGA_16 ^ bitrev 4 i = 1) ∧
    -- `friGroup[8]` is that generator `g`, it is the canonical one and has order 16
    (∀ i < 16, friGroup.getD i 0 = friGroup.getD 8 0 ^ bitrev 4 i) ∧
    friGroup.getD 8 0 = (3 : Felt) ^ ((P - 1) / 2 ^ 4) ∧ orderOf (friGroup.getD 8 0) = 16 ∧
    -- the first `2^k` entries are the subgroup of order `2^k`, bit-reversed
    (∀ k < 5, ∀ i < 2 ^ k, friGroup.getD i 0 = (friGroup.getD 8 0 ^ 2 ^ (4 - k)) ^ bitrev k i) ∧
    (∀ i < 16, friGroup.getD i 0 ≠ 0) ∧
    FIELD_GENERATOR_INVERSE * 3 = 1 :=
  ⟨Proofs.omega4_sq, Proofs.omega8_sq, Proofs.omega16_sq, Proofs.omega16_pow8, Proofs.omega16_pow16,
   Proofs.friGroup_length, Proofs.friGroup_zero, Proofs.friGroup_one, Proofs.friGroup_last,
   Proofs.friGroup_bitrev, Proofs.friGroup_pow, Proofs.friGroup_gen, Proofs.friGroup_gen_order,
   Proofs.friGroup_sub, Proofs.friGroup_ne_zero, Proofs.field_generator_inverse⟩

/-! ### 4. the fold identity -/

/-- The property's sentence: for `k ∈ {1,2,3,4}`, `n = 2^k`, `x ≠ 0`, folding the values of `P` on the
    coset `x·friGroup[0], …, x·friGroup[n-1]` (the verifier's order) with challenge `b` and
    `x_inv = x⁻¹` yields `n · Σ_{j<n} b^j · P_j(x^n)`. -/
theorem fold_identity (k : ℕ) (hk1 : 1 ≤ k) (hk4 : k ≤ 4) (cs : List Felt) (x b : Felt) (hx : x ≠ 0) :
    Fri.friFormula (List.ofFn (fun j : Fin (2 ^ k) => evalL cs (x * friGroup.getD j.val 0))) b x⁻¹
        ((2 ^ k : ℕ) : Felt)
      = .ok (((2 ^ k : ℕ) : Felt)
          * ∑ j ∈ Finset.range (2 ^ k), b ^ j * evalL (split k cs j) (x ^ 2 ^ k)) :=
  Proofs.fold_identity k hk1 hk4 cs x x⁻¹ b (mul_inv_cancel₀ hx)

/-- If the query at offset `i` of the coset with first point `x` sits at the point `x·friGroup[i]`
    (x-inverse `(x·friGroup[i])⁻¹`), then `compute_coset_elements`' `coset_x_inv = q.x_inv · friGroup[i]`
    is `x⁻¹`, whichever offset was queried. -/
theorem coset_xinv_consistent (x : Felt) (hx : x ≠ 0) (i : ℕ) (hi : i < 16) :
    (x * friGroup.getD i 0)⁻¹ * friGroup.getD i 0 = x⁻¹ :=
  Proofs.coset_xinv_consistent x hx i hi

/-- The canonical domain of size `2^(k+m)` (generator `3^((P-1)/2^(k+m))`, any shift `s`), indexed in
    bit-reversed order, is laid out coset-wise in exactly this way … -/
theorem domain_layout (k m : ℕ) (hk4 : k ≤ 4) (hL : k + m ≤ 192) (s : Felt) (c i : ℕ) (hi : i < 2 ^ k) :
    s * ((3 : Felt) ^ ((P - 1) / 2 ^ (k + m))) ^ bitrev (k + m) (c * 2 ^ k + i)
      = s * ((3 : Felt) ^ ((P - 1) / 2 ^ (k + m))) ^ bitrev (k + m) (c * 2 ^ k) * friGroup.getD i 0 :=
  Proofs.domain_layout k m hk4 hL s c i hi

/-- … and the image of coset `c` under `x ↦ x^(2^k)` is the point with bit-reversed index `c` of the
    canonical domain of size `2^m` with shift `s^(2^k)`. -/
theorem domain_layout_next (k m : ℕ) (hL : k + m ≤ 192) (s : Felt) (c : ℕ) :
    (s * ((3 : Felt) ^ ((P - 1) / 2 ^ (k + m))) ^ bitrev (k + m) (c * 2 ^ k)) ^ 2 ^ k
      = s ^ 2 ^ k * ((3 : Felt) ^ ((P - 1) / 2 ^ m)) ^ bitrev m c :=
  Proofs.domain_layout_next k m hL s c

/-! ### 5. last layer -/

theorem hornerEval_eq (cs : List Felt) (x : Felt) : Fri.hornerEval cs x = evalL cs x :=
  Proofs.hornerEval_eq cs x

theorem verifyLastLayer_ok_iff (qs : List LayerQuery) (cs : List Felt)
    (hq : ∀ q ∈ qs, q.xInvValue ≠ 0) :
    Fri.verifyLastLayer qs cs = .ok () ↔ ∀ q ∈ qs, evalL cs (q.xInvValue)⁻¹ = q.yValue :=
  Proofs.verifyLastLayer_ok_iff qs cs hq

/-- two coefficient lists of the same length that differ in exactly one position `j`, by `δ ≠ 0`,
    evaluate differently at every `y ≠ 0` (by `δ·y^j`), hence for a non-empty query list at most one of
    them is accepted. -/
theorem last_layer_coeff_sensitive (cs cs' : List Felt) (j : ℕ) (δ : Felt)
    (hlen : cs'.length = cs.length) (hj : j < cs.length) (hsame : ∀ i, i ≠ j → cs'[i]? = cs[i]?)
    (hdiff : cs'[j]? = some (cs[j] + δ)) (hδ : δ ≠ 0) :
    (∀ y : Felt, evalL cs' y = evalL cs y + δ * y ^ j) ∧
    (∀ y : Felt, y ≠ 0 → evalL cs' y ≠ evalL cs y) ∧
    ∀ qs : List LayerQuery, qs ≠ [] → (∀ q ∈ qs, q.xInvValue ≠ 0) →
      ¬ (Fri.verifyLastLayer qs cs = .ok () ∧ Fri.verifyLastLayer qs cs' = .ok ()) :=
  ⟨Proofs.evalL_differ cs cs' j δ hlen hj hsame hdiff,
   Proofs.last_layer_coeff_sensitive cs cs' j δ hlen hj hsame hdiff hδ⟩

/-! ### 6. the per-layer step -/

/-- **Completeness of one FRI layer.**  `cs` a polynomial, `n = 2^k` (`1 ≤ k ≤ 4`) the coset size,
    `pt` the (nonzero) points of the layer domain by bit-reversed index, laid out coset-wise
    (`pt (c·n + i) = pt (c·n) · friGroup[i]`, cf. `domain_layout`).  `qi` the strictly increasing query
    indices (`< 2^64`), `cidx` the strictly increasing list of the cosets they touch.  Given the honest
    queries and exactly the honest sibling values (followed by anything, `extra`), `compute_next_layer`
    returns the honest queries of the next layer — polynomial `n·Σ_j b^j·P_j`, points
    `pt' c = (pt (c·n))^n` (cf. `domain_layout_next`) — the coset indices and all coset values for the
    Merkle decommitment, and leaves `extra` unconsumed. -/
theorem next_layer_step (k : ℕ) (hk1 : 1 ≤ k) (hk4 : k ≤ 4) (cs : List Felt) (b : Felt)
    (pt : ℕ → Felt) (hpt0 : ∀ idx, pt idx ≠ 0)
    (hpt : ∀ c i, i < 2 ^ k → pt (c * 2 ^ k + i) = pt (c * 2 ^ k) * friGroup.getD i 0)
    (qi cidx : List ℕ) (hq : qi.Pairwise (· < ·)) (hqb : ∀ q ∈ qi, q < 2 ^ 64)
    (hc : cidx.Pairwise (· < ·)) (hmem : ∀ c, c ∈ cidx ↔ ∃ q ∈ qi, q / 2 ^ k = c)
    (extra : List Felt) :
    Fri.computeNextLayer
        (qi.map fun idx : ℕ => (⟨(idx : Felt), evalL cs (pt idx), (pt idx)⁻¹⟩ : LayerQuery))
        (expectedSiblings (2 ^ k) (fun idx => evalL cs (pt idx)) cidx qi ++ extra)
        ((2 ^ k : ℕ) : Felt) b
      = .ok ⟨cidx.map fun c : ℕ => (⟨(c : Felt),
                ((2 ^ k : ℕ) : Felt) * ∑ j ∈ Finset.range (2 ^ k),
                  b ^ j * evalL (split k cs j) (pt (c * 2 ^ k) ^ 2 ^ k),
                ((pt (c * 2 ^ k))⁻¹) ^ 2 ^ k⟩ : LayerQuery),
             cidx.map (fun c : ℕ => (c : Felt)),
             cosetValues (2 ^ k) (fun idx => evalL cs (pt idx)) cidx,
             extra⟩ :=
  Proofs.next_layer_step k hk1 hk4 cs b pt hpt0 hpt qi cidx hq hqb hc hmem extra

/-- the list `cidx` of touched cosets always exists -/
theorem cosetIndices_exists (qi : List ℕ) (n : ℕ) :
    ∃ cidx : List ℕ, cidx.Pairwise (· < ·) ∧ ∀ c, c ∈ cidx ↔ ∃ q ∈ qi, q / n = c :=
  Proofs.cosetIndices_exists qi n

/-- `compute_next_layer`'s while-loop makes progress: the model's fuel is never exhausted, for ANY
    input. -/
theorem nextLayer_fuel (qs : List LayerQuery) (sibs : List Felt) (cosetSize e : Felt) :
    Fri.computeNextLayer qs sibs cosetSize e ≠ .err "fuel" :=
  Proofs.computeNextLayer_fuel qs sibs cosetSize e

/-- Sibling accounting (values arbitrary): a successful run consumes exactly one sibling value per
    non-queried position of every touched coset … -/
theorem nextLayer_count (k : ℕ) (hk4 : k ≤ 4) (b : Felt) (yv xi : ℕ → Felt)
    (qi cidx : List ℕ) (hq : qi.Pairwise (· < ·)) (hqb : ∀ q ∈ qi, q < 2 ^ 64)
    (hc : cidx.Pairwise (· < ·)) (hmem : ∀ c, c ∈ cidx ↔ ∃ q ∈ qi, q / 2 ^ k = c)
    (sibs : List Felt) (r : NextLayer)
    (h : Fri.computeNextLayer (qi.map fun idx : ℕ => (⟨(idx : Felt), yv idx, xi idx⟩ : LayerQuery)) sibs
      ((2 ^ k : ℕ) : Felt) b = .ok r) :
    sibs.length = (expectedSiblings (2 ^ k) yv cidx qi).length + r.siblingsLeft.length :=
  Proofs.nextLayer_count k hk4 b yv xi qi cidx hq hqb hc hmem sibs r h

/-- … so with fewer sibling values than needed the result is not `ok` … -/
theorem nextLayer_consumes (k : ℕ) (hk4 : k ≤ 4) (b : Felt) (yv xi : ℕ → Felt)
    (qi cidx : List ℕ) (hq : qi.Pairwise (· < ·)) (hqb : ∀ q ∈ qi, q < 2 ^ 64)
    (hc : cidx.Pairwise (· < ·)) (hmem : ∀ c, c ∈ cidx ↔ ∃ q ∈ qi, q / 2 ^ k = c)
    (sibs : List Felt) (hshort : sibs.length < (expectedSiblings (2 ^ k) yv cidx qi).length) :
    ∀ r, Fri.computeNextLayer (qi.map fun idx : ℕ => (⟨(idx : Felt), yv idx, xi idx⟩ : LayerQuery)) sibs
      ((2 ^ k : ℕ) : Felt) b ≠ .ok r :=
  Proofs.nextLayer_consumes k hk4 b yv xi qi cidx hq hqb hc hmem sibs hshort

/-- … in fact it is exactly the error `SiblingWitnessTooShort` (what the fixed Rust returns instead of
    panicking in `drain`) … -/
theorem nextLayer_consumes_err (k : ℕ) (hk1 : 1 ≤ k) (hk4 : k ≤ 4) (b : Felt) (yv xi : ℕ → Felt)
    (qi cidx : List ℕ) (hq : qi.Pairwise (· < ·)) (hqb : ∀ q ∈ qi, q < 2 ^ 64)
    (hc : cidx.Pairwise (· < ·)) (hmem : ∀ c, c ∈ cidx ↔ ∃ q ∈ qi, q / 2 ^ k = c)
    (sibs : List Felt) (hshort : sibs.length < (expectedSiblings (2 ^ k) yv cidx qi).length) :
    Fri.computeNextLayer (qi.map fun idx : ℕ => (⟨(idx : Felt), yv idx, xi idx⟩ : LayerQuery)) sibs
      ((2 ^ k : ℕ) : Felt) b = .err "SiblingWitnessTooShort" :=
  Proofs.nextLayer_consumes_err k hk1 hk4 b yv xi qi cidx hq hqb hc hmem sibs hshort

/-- … and on well-formed query indices (values arbitrary) `compute_next_layer` never panics: the outcome
    is `ok` or that error. -/
theorem nextLayer_wf (k : ℕ) (hk1 : 1 ≤ k) (hk4 : k ≤ 4) (b : Felt) (yv xi : ℕ → Felt)
    (qi cidx : List ℕ) (hq : qi.Pairwise (· < ·)) (hqb : ∀ q ∈ qi, q < 2 ^ 64)
    (hc : cidx.Pairwise (· < ·)) (hmem : ∀ c, c ∈ cidx ↔ ∃ q ∈ qi, q / 2 ^ k = c)
    (sibs : List Felt) :
    (∃ r, Fri.computeNextLayer (qi.map fun idx : ℕ => (⟨(idx : Felt), yv idx, xi idx⟩ : LayerQuery)) sibs
      ((2 ^ k : ℕ) : Felt) b = .ok r) ∨
    Fri.computeNextLayer (qi.map fun idx : ℕ => (⟨(idx : Felt), yv idx, xi idx⟩ : LayerQuery)) sibs
      ((2 ^ k : ℕ) : Felt) b = .err "SiblingWitnessTooShort" :=
  Proofs.nextLayer_wf k hk1 hk4 b yv xi qi cidx hq hqb hc hmem sibs

/-! ### non-vacuity -/

/-- a concrete degree-7 polynomial and a degree-15 one (notation only) -/
local notation "exP" => ([1, 2, 3, 4, 5, 6, 7, 8] : List Felt)
local notation "exQ" => ([1, 2, 3, 4, 5, 6, 7, 8, 9, 10, 11, 12, 13, 14, 15, 16] : List Felt)

/-- hypotheses of `fold_identity` at `x = 5` -/
example : (5 : Felt) ≠ 0 ∧ (5 : Felt) * Felt.inv 5 = 1 := by decide +kernel

/-- the model, run on the 8 values of `exP` on the coset of `x = 5`, challenge `7`: `8·Σ_j 7^j·c_j` -/
example :
    Fri.friFormula (List.ofFn (fun j : Fin 8 => evalL exP (5 * friGroup.getD j.val 0))) 7 (Felt.inv 5) 8
      = .ok (8 * (1 + 2 * 7 + 3 * 7 ^ 2 + 4 * 7 ^ 3 + 5 * 7 ^ 4 + 6 * 7 ^ 5 + 7 * 7 ^ 6 + 8 * 7 ^ 7)) := by
  decide +kernel

/-- the right-hand side of `fold_identity` for `exP`, `k = 3` is that number -/
example : ((2 ^ 3 : ℕ) : Felt) * ∑ j ∈ Finset.range (2 ^ 3),
      (7 : Felt) ^ j * evalL (split 3 exP j) ((5 : Felt) ^ 2 ^ 3)
    = 8 * (1 + 2 * 7 + 3 * 7 ^ 2 + 4 * 7 ^ 3 + 5 * 7 ^ 4 + 6 * 7 ^ 5 + 7 * 7 ^ 6 + 8 * 7 ^ 7) := by
  decide +kernel

/-- degree 15, `k = 3`: `P_j = c_j + c_{j+8}·y` evaluated at `y = 5^8` -/
example : ((2 ^ 3 : ℕ) : Felt) * ∑ j ∈ Finset.range (2 ^ 3),
      (7 : Felt) ^ j * evalL (split 3 exQ j) ((5 : Felt) ^ 2 ^ 3)
    = 8 * ((1 + 9 * 5 ^ 8) + (2 + 10 * 5 ^ 8) * 7 + (3 + 11 * 5 ^ 8) * 7 ^ 2 + (4 + 12 * 5 ^ 8) * 7 ^ 3
        + (5 + 13 * 5 ^ 8) * 7 ^ 4 + (6 + 14 * 5 ^ 8) * 7 ^ 5 + (7 + 15 * 5 ^ 8) * 7 ^ 6
        + (8 + 16 * 5 ^ 8) * 7 ^ 7) := by
  decide +kernel

/-- and the model agrees on `exQ` too (direct run, 8 values of a degree-15 polynomial) -/
example :
    Fri.friFormula (List.ofFn (fun j : Fin 8 => evalL exQ (5 * friGroup.getD j.val 0))) 7 (Felt.inv 5) 8
      = .ok (8 * ((1 + 9 * 5 ^ 8) + (2 + 10 * 5 ^ 8) * 7 + (3 + 11 * 5 ^ 8) * 7 ^ 2
        + (4 + 12 * 5 ^ 8) * 7 ^ 3 + (5 + 13 * 5 ^ 8) * 7 ^ 4 + (6 + 14 * 5 ^ 8) * 7 ^ 5
        + (7 + 15 * 5 ^ 8) * 7 ^ 6 + (8 + 16 * 5 ^ 8) * 7 ^ 7)) := by
  decide +kernel

/-- `next_layer_step` applies to the canonical size-8 domain with coset size 2, queries `2, 5`
    (cosets `1, 2`), any polynomial and challenge. -/
example (cs : List Felt) (b : Felt) :
    let pt : ℕ → Felt := fun idx => ((3 : Felt) ^ ((P - 1) / 2 ^ (1 + 2))) ^ bitrev (1 + 2) idx
    ∃ r, Fri.computeNextLayer
      ([2, 5].map fun idx : ℕ => (⟨(idx : Felt), evalL cs (pt idx), (pt idx)⁻¹⟩ : LayerQuery))
      (expectedSiblings (2 ^ 1) (fun idx => evalL cs (pt idx)) [1, 2] [2, 5] ++ [])
      ((2 ^ 1 : ℕ) : Felt) b = .ok r := by
  intro pt
  have h3 : (3 : Felt) ≠ 0 := by decide +kernel
  refine ⟨_, next_layer_step 1 (le_refl _) (by norm_num) cs b pt
    (fun idx => pow_ne_zero _ (pow_ne_zero _ h3)) ?_ [2, 5] [1, 2] (by simp) (by simp) (by simp) ?_ []⟩
  · intro c i hi
    have := domain_layout 1 2 (by norm_num) (by norm_num) 1 c i hi
    simpa [pt] using this
  · intro c; simp; omega

/-- … and with no sibling values it is `err "SiblingWitnessTooShort"`. -/
example (yv xi : ℕ → Felt) (b : Felt) :
    Fri.computeNextLayer ([2, 5].map fun idx : ℕ => (⟨(idx : Felt), yv idx, xi idx⟩ : LayerQuery)) []
      ((2 ^ 1 : ℕ) : Felt) b = .err "SiblingWitnessTooShort" :=
  nextLayer_consumes_err 1 (le_refl _) (by norm_num) b yv xi [2, 5] [1, 2] (by simp) (by simp) (by simp)
    (by intro c; simp; omega) [] (by simp [expectedSiblings, List.range, List.range.loop])

/-- last layer: `[1, 2]` vs `[1, 5]` differ at position 1 by `3`. -/
example : ∀ y : Felt, y ≠ 0 → evalL [1, 5] y ≠ evalL ([1, 2] : List Felt) y :=
  (last_layer_coeff_sensitive [1, 2] [1, 5] 1 3 rfl (by decide)
    (by intro i hi; match i with
      | 0 => rfl
      | 1 => exact absurd rfl hi
      | i + 2 => rfl)
    (by decide +kernel) (by decide +kernel)).2.1

end Swiftness.C06
