/-
  C13 — two public inputs of the same layout that differ in any field the statement depends on
  (step count, range-check bounds, layout code, any dynamic parameter, any segment bound, padding
  cell, any main-page address or value, the main-page length, any continuous-page header's
  address, size or hash, and under Stone 6 the friendly-layer count) have different transcript
  seeds; equal public inputs have equal seeds.  (`PublicInput::get_hash`,
  `crates/air/src/public_memory.rs`.)

  For an ARBITRARY `H : Hashes`, in collision-extraction form: equal seeds force agreement on all
  these fields (`Spec.SeedFieldsEq`) or exhibit an explicit collision of `pedersen_hash`
  (`Spec.PedersenCollision`) or of `poseidon_hash_many` (`Spec.PoseidonManyCollision`).
  "Same layout" is the shape proviso `Spec.SeedShape`: same number of segments, same presence and
  number of dynamic parameters (each `< 2^64`, they are `usize`), main-page lengths `< 2^64`.
  `shape_proviso_needed` shows the proviso cannot be dropped.
  Definitions in `Spec/TranscriptSpec.lean`, helper lemmas in `Proofs/PublicInputHash.lean`.
-/
import Swiftness.Spec.TranscriptSpec
import Swiftness.Proofs.PublicInputHash

namespace Swiftness.C13

open Swiftness Swiftness.PublicInput Swiftness.Spec
attribute [-instance] Fin.instOfNat

variable (H : Hashes)

/-- The list hashed by `get_hash` determines every field it contains, given the shape: the four
    scalar fields, the dynamic parameters, the segments, the padding cell, the number of continuous
    pages and each header's `(start_address, size, hash)` (NOT `prod`, which is not hashed), the
    main-page length, the main-page hash, and under Stone 6 the friendly-layer count. -/
theorem hashData_injective (s : Bool) (nfA nfB : Felt) (a b : PublicInput)
    (hseg : a.segments.length = b.segments.length)
    (hdyn : a.dynamicParams.map List.length = b.dynamicParams.map List.length)
    (hda : ∀ d ∈ a.dynamicParams.getD [], d < 2 ^ 64)
    (hdb : ∀ d ∈ b.dynamicParams.getD [], d < 2 ^ 64)
    (hma : a.mainPage.length < 2 ^ 64) (hmb : b.mainPage.length < 2 ^ 64)
    (he : hashData H s nfA a = hashData H s nfB b) :
    a.logNSteps = b.logNSteps ∧ a.rangeCheckMin = b.rangeCheckMin ∧
    a.rangeCheckMax = b.rangeCheckMax ∧ a.layout = b.layout ∧
    a.dynamicParams = b.dynamicParams ∧ a.segments = b.segments ∧
    a.paddingAddr = b.paddingAddr ∧ a.paddingValue = b.paddingValue ∧
    a.continuousPageHeaders.length = b.continuousPageHeaders.length ∧
    a.continuousPageHeaders.map headerKey = b.continuousPageHeaders.map headerKey ∧
    a.mainPage.length = b.mainPage.length ∧
    mainPageHash H a.mainPage = mainPageHash H b.mainPage ∧
    (s = true → nfA = nfB) :=
  Proofs.PIH.hashData_inj H s nfA nfB a b hseg hdyn hda hdb hma hmb he

/-- The Pedersen chain binds the main page: two different pages (of `usize` length) with the same
    hash yield an explicit `pedersen_hash` collision. -/
theorem mainPageHash_binding (p q : List AddrValue) (hp : p.length < 2 ^ 64) (hq : q.length < 2 ^ 64)
    (hne : p ≠ q) (he : mainPageHash H p = mainPageHash H q) : PedersenCollision H := by
  rcases Proofs.PIH.mainPageHash_inj H p q hp hq he with h | h
  · exact absurd h hne
  · exact h

/-- Equal seeds: the inputs agree on every bound field, or an explicit collision exists. -/
theorem getHash_binding' (s : Bool) (nfA nfB : Felt) (a b : PublicInput) (hshape : SeedShape a b)
    (he : getHash H s nfA a = getHash H s nfB b) :
    SeedFieldsEq s nfA nfB a b ∨ PedersenCollision H ∨ PoseidonManyCollision H := by
  obtain ⟨hseg, hdyn, hda, hdb, hma, hmb⟩ := hshape
  by_cases hl : hashData H s nfA a = hashData H s nfB b
  · obtain ⟨e1, e2, e3, e4, e5, e6, e7, e8, _, e10, _, e12, e13⟩ :=
      Proofs.PIH.hashData_inj H s nfA nfB a b hseg hdyn hda hdb hma hmb hl
    rcases Proofs.PIH.mainPageHash_inj H _ _ hma hmb e12 with hm | hc
    · exact Or.inl ⟨e1, e2, e3, e4, e5, e6, e7, e8, hm, e10, e13⟩
    · exact Or.inr (Or.inl hc)
  · exact Or.inr (Or.inr ⟨_, _, hl, he⟩)

/-- Two public inputs of the same shape that differ in any bound field and nevertheless have the
    same seed yield an explicit collision of `pedersen_hash` or of `poseidon_hash_many`. -/
theorem getHash_binding (s : Bool) (nfA nfB : Felt) (a b : PublicInput) (hshape : SeedShape a b)
    (hne : ¬ SeedFieldsEq s nfA nfB a b) (he : getHash H s nfA a = getHash H s nfB b) :
    PedersenCollision H ∨ PoseidonManyCollision H := by
  rcases getHash_binding' H s nfA nfB a b hshape he with h | h
  · exact absurd h hne
  · exact h

/-- how to obtain `¬ SeedFieldsEq`: any one differing field suffices (each of the fields named in
    the property) -/
theorem fields_differ (s : Bool) (nfA nfB : Felt) (a b : PublicInput)
    (h : a.logNSteps ≠ b.logNSteps ∨ a.rangeCheckMin ≠ b.rangeCheckMin ∨
      a.rangeCheckMax ≠ b.rangeCheckMax ∨ a.layout ≠ b.layout ∨
      a.dynamicParams ≠ b.dynamicParams ∨ a.segments ≠ b.segments ∨
      a.paddingAddr ≠ b.paddingAddr ∨ a.paddingValue ≠ b.paddingValue ∨
      a.mainPage ≠ b.mainPage ∨ a.mainPage.length ≠ b.mainPage.length ∨
      a.continuousPageHeaders.length ≠ b.continuousPageHeaders.length ∨
      (∃ (i : ℕ) (ha : i < a.continuousPageHeaders.length) (hb : i < b.continuousPageHeaders.length),
        headerKey a.continuousPageHeaders[i] ≠ headerKey b.continuousPageHeaders[i]) ∨
      (s = true ∧ nfA ≠ nfB)) :
    ¬ SeedFieldsEq s nfA nfB a b := by
  rintro ⟨e1, e2, e3, e4, e5, e6, e7, e8, e9, e10, e11⟩
  rcases h with h | h | h | h | h | h | h | h | h | h | h | ⟨i, ha, hb, h⟩ | ⟨hs, h⟩
  · exact h e1
  · exact h e2
  · exact h e3
  · exact h e4
  · exact h e5
  · exact h e6
  · exact h e7
  · exact h e8
  · exact h e9
  · exact h (by rw [e9])
  · exact h (by simpa using congrArg List.length e10)
  · apply h
    have := congrArg (fun l => l[i]?) e10
    simpa [ha, hb] using this
  · exact h (e11 hs)

/-- equal inputs have equal seeds -/
theorem getHash_congr (s s' : Bool) (nfA nfB : Felt) (a b : PublicInput) (hs : s = s')
    (hnf : nfA = nfB) (hab : a = b) : getHash H s nfA a = getHash H s' nfB b := by
  rw [hs, hnf, hab]

/-- under Stone 5 the friendly-layer count is not part of the seed -/
theorem getHash_stone5 (nfA nfB : Felt) (a : PublicInput) :
    getHash H false nfA a = getHash H false nfB a := rfl

/-- `prod` of a continuous-page header is not part of the seed -/
theorem getHash_ignores_prod (s : Bool) (nf : Felt) (a b : PublicInput)
    (h : SeedFieldsEq s nf nf a b) : getHash H s nf a = getHash H s nf b := by
  obtain ⟨e1, e2, e3, e4, e5, e6, e7, e8, e9, e10, _⟩ := h
  have hl : a.continuousPageHeaders.length = b.continuousPageHeaders.length := by
    simpa using congrArg List.length e10
  have hf : a.continuousPageHeaders.flatMap Proofs.PIH.hdrFelts =
      b.continuousPageHeaders.flatMap Proofs.PIH.hdrFelts := by
    have : ∀ l : List ContinuousPageHeader, l.flatMap Proofs.PIH.hdrFelts =
        (l.map headerKey).flatMap (fun k => [k.1, k.2.1, k.2.2]) := by
      intro l; induction l with
      | nil => rfl
      | cons x l ih => simp [Proofs.PIH.hdrFelts, headerKey, ih]
    rw [this, this, e10]
  unfold getHash
  rw [Proofs.PIH.hashData_eq, Proofs.PIH.hashData_eq, e1, e2, e3, e4, e5, e6, e7, e8, e9, hl, hf]

/-- The shape proviso is needed: for every hash instance there are two public inputs without
    dynamic parameters, with 3 and 0 segments, that hash the very same list (so they have the same
    seed without any collision) although they differ in bound fields.  (Three segments contribute
    six field elements, two page headers contribute six.) -/
theorem shape_proviso_needed (s : Bool) (nf : Felt) :
    ∃ a b : PublicInput, a.segments.length ≠ b.segments.length ∧
      a.dynamicParams = none ∧ b.dynamicParams = none ∧
      a.mainPage = b.mainPage ∧
      hashData H s nf a = hashData H s nf b ∧ getHash H s nf a = getHash H s nf b ∧
      ¬ SeedFieldsEq s nf nf a b := by
  let z : Felt := Felt.ofNat 0
  let mh : Felt := mainPageHash H []
  let a : PublicInput :=
    ⟨z, z, z, z, none, [⟨z, z⟩, ⟨Felt.ofNat 3, z⟩, ⟨mh, z⟩], z, z, [], []⟩
  let b : PublicInput :=
    ⟨z, z, z, z, none, [], z, z, [], [⟨z, z, z, z⟩, ⟨Felt.ofNat 1, z, mh, z⟩]⟩
  have hl : hashData H s nf a = hashData H s nf b := by cases s <;> rfl
  refine ⟨a, b, by simp [a, b], rfl, rfl, rfl, hl, congrArg H.poseidonMany hl, ?_⟩
  rintro ⟨_, _, _, _, _, h6, _⟩
  simp [a, b] at h6

/-! ### non-vacuity -/

section examples

def toyH : Hashes where
  poseidon2 x y := Felt.ofNat (x.val + 3 * y.val + 1)
  poseidonMany l := Felt.ofNat (l.foldl (fun a x => 31 * a + x.val + 1) 7)
  pedersen x y := Felt.ofNat (x.val + 5 * y.val + 2)
  h256 _ := List.replicate 32 0
  maskBytes := 20

def toyA : PublicInput :=
  ⟨Felt.ofNat 10, Felt.ofNat 0, Felt.ofNat 100, Felt.ofNat 7, some [1, 2, 3],
   [⟨Felt.ofNat 1, Felt.ofNat 5⟩, ⟨Felt.ofNat 5, Felt.ofNat 9⟩], Felt.ofNat 1, Felt.ofNat 2,
   [⟨Felt.ofNat 1, Felt.ofNat 11⟩, ⟨Felt.ofNat 2, Felt.ofNat 12⟩],
   [⟨Felt.ofNat 50, Felt.ofNat 4, Felt.ofNat 99, Felt.ofNat 3⟩]⟩

/-- differs from `toyA` in one main-page value only -/
def toyB : PublicInput := { toyA with mainPage := [⟨Felt.ofNat 1, Felt.ofNat 11⟩, ⟨Felt.ofNat 2, Felt.ofNat 13⟩] }

/-- the shape proviso is satisfiable … -/
example : SeedShape toyA toyB := by
  refine ⟨rfl, rfl, ?_, ?_, ?_, ?_⟩ <;> decide

/-- … the two inputs differ in a bound field … -/
example : ¬ SeedFieldsEq true (Felt.ofNat 0) (Felt.ofNat 0) toyA toyB :=
  fields_differ _ _ _ _ _ (by decide +kernel)

/-- … and for the toy hash their seeds are indeed different, while the hypothesis "equal seeds" of
    `getHash_binding'` is satisfiable (take `b = a`). -/
example : getHash toyH true (Felt.ofNat 0) toyA ≠ getHash toyH true (Felt.ofNat 0) toyB := by
  decide +kernel

example : getHash toyH true (Felt.ofNat 0) toyA = getHash toyH true (Felt.ofNat 0) toyA ∧
    SeedShape toyA toyA :=
  ⟨rfl, rfl, rfl, by decide, by decide, by decide, by decide⟩

end examples

end Swiftness.C13
