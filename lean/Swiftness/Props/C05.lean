/-
  C05 — table decommitment binds every cell.

  "A table decommitment succeeds for the rows actually committed (cells hashed in Montgomery form,
  single-column rows used unhashed, row hash chosen by the friendly-layer rule for depth height+1)
  and fails if any cell of any queried row differs, if cells are moved between rows or columns, or
  if the number of cells is not columns x queries."

  Spec: `Swiftness/Spec/TableSpec.lean` (`tableLeaf`, `tableRoot`, `rowValues`) on top of
  `Swiftness/Spec/Merkle.lean`.  All theorems hold for an ARBITRARY `H : Hashes`, arbitrary `nf`,
  every height `h ≤ 250` (as in C04).  "Fails" is in collision-extraction form: acceptance of a value
  list other than the committed cells of the queried rows (`rowValues`, in row-major order — so a
  cell moved to another row or column is a different list unless the moved cells are equal) yields
  an explicit collision of the tree hash (`Merkle.Collision`), of `H.poseidonMany`
  (`ManyCollision`: two different lists) or of `H.masked` (`MaskedCollision`: two different byte
  strings).  Only property theorems and non-vacuity examples live here; proofs are in
  `Proofs/Table*.lean`.
-/
import Swiftness.Spec.TableSpec
import Swiftness.Proofs.TableProofs

namespace Swiftness.C05

open Swiftness Swiftness.Merkle Swiftness.TableSpec

/-- Completeness: the plain cells of the queried rows of the committed table, with the
    authentication path of the underlying tree (and arbitrary trailing nodes), are accepted —
    for every column count `n < 2^32` (including `n = 0` and `n = 1`). -/
theorem table_complete (H : Hashes) (nf : Felt) (h : Nat) (hh : h ≤ 250) (n : Nat)
    (hn : n < 2 ^ 32) (cell : Nat → Nat → Felt) (Q : List Nat) (extra : List Felt) (hne : Q ≠ [])
    (hsorted : Q.Pairwise (· < ·)) (hrange : ∀ i ∈ Q, i < 2 ^ h) :
    Table.decommit H ⟨Felt.ofNat n, ⟨⟨Felt.ofNat h, nf⟩, tableRoot H nf h n cell⟩⟩
      (Q.map Felt.ofNat) (rowValues cell n Q)
      (authPath H nf h (tableLeaf H nf h n cell) Q ++ extra) = .ok () :=
  Proofs.Table.table_complete hh n hn cell Q extra hne hsorted hrange

/-- The number of cells must be exactly columns × queries: otherwise an error, for ALL inputs (no
    hash assumption). -/
theorem table_length_exact (H : Hashes) (c : Table.Commitment) (queries values auths : List Felt)
    (hl : values.length ≠ c.nColumns.val * queries.length) :
    Table.decommit H c queries values auths ≠ .ok () := by
  rcases Proofs.Table.table_length_exact (H := H) c queries values auths hl with h | h <;>
    rw [h] <;> simp

/-- … and the column count must fit a `u32`. -/
theorem table_ncolumns_u32 (H : Hashes) (c : Table.Commitment) (queries values auths : List Felt)
    (hn : c.nColumns.val ≥ 2 ^ 32) :
    Table.decommit H c queries values auths = .err "TryFromBigInt" :=
  Proofs.Table.table_ncolumns_u32 c queries values auths hn

/-- Conversely acceptance implies both (in particular `nColumns = 0` accepts only `values = []`). -/
theorem table_length_of_ok (H : Hashes) (c : Table.Commitment) (queries values auths : List Felt)
    (hok : Table.decommit H c queries values auths = .ok ()) :
    c.nColumns.val < 2 ^ 32 ∧ values.length = c.nColumns.val * queries.length :=
  Proofs.Table.table_length_of_ok c queries values auths hok

/-- Conversion to Montgomery form loses nothing. -/
theorem montgomery_injective (v v' : Felt)
    (h : v * Table.MONTGOMERY_R = v' * Table.MONTGOMERY_R) : v = v' :=
  Proofs.Table.montgomery_injective h

/-- For rows of equal length the byte string hashed by the masked row hash determines the row. -/
theorem rowPreimage_injective (row row' : List Felt) (hl : row.length = row'.length)
    (hb : row.flatMap Felt.toBytesBE = row'.flatMap Felt.toBytesBE) : row = row' :=
  Proofs.Merkle.rowPreimage_injective hl hb

/-- Binding: acceptance against the root of a committed table means that the values are exactly
    the committed cells of the queried rows, or yields an explicit collision. -/
theorem table_sound (H : Hashes) (nf : Felt) (h : Nat) (hh : h ≤ 250) (nc : Felt)
    (cell : Nat → Nat → Felt) (queries values auths : List Felt) (hne : queries ≠ [])
    (hsorted : (queries.map (·.val)).Pairwise (· < ·)) (hrange : ∀ q ∈ queries, q.val < 2 ^ h)
    (hok : Table.decommit H ⟨nc, ⟨⟨Felt.ofNat h, nf⟩, tableRoot H nf h nc.val cell⟩⟩
      queries values auths = .ok ()) :
    values = rowValues cell nc.val (queries.map (·.val)) ∨
      Collision H ∨ ManyCollision H ∨ MaskedCollision H :=
  Proofs.Table.table_sound hh nc cell queries values auths hne hsorted hrange hok

/-- Sharper: only the row hash actually in use can be the colliding one — `poseidonMany` iff the
    table layer is verifier-friendly (`nf ≥ h + 1`), the masked hash otherwise, and none at all for
    a single column. -/
theorem table_sound_strong (H : Hashes) (nf : Felt) (h : Nat) (hh : h ≤ 250) (nc : Felt)
    (cell : Nat → Nat → Felt) (queries values auths : List Felt) (hne : queries ≠ [])
    (hsorted : (queries.map (·.val)).Pairwise (· < ·)) (hrange : ∀ q ∈ queries, q.val < 2 ^ h)
    (hok : Table.decommit H ⟨nc, ⟨⟨Felt.ofNat h, nf⟩, tableRoot H nf h nc.val cell⟩⟩
      queries values auths = .ok ()) :
    values = rowValues cell nc.val (queries.map (·.val)) ∨ Collision H ∨
      (nc.val ≠ 1 ∧ if nf.val ≥ h + 1 then ManyCollision H else MaskedCollision H) := by
  rcases Proofs.Table.table_sound_strong hh nc cell queries values auths hne hsorted hrange hok
    with h1 | h2 | ⟨h3, h4⟩
  · exact Or.inl h1
  · exact Or.inr (Or.inl h2)
  · refine Or.inr (Or.inr ⟨h3, ?_⟩)
    simpa [bottomFriendly] using h4

/-- Single column: the leaf is the Montgomery-form cell itself … -/
theorem tableLeaf_single_column (H : Hashes) (nf : Felt) (h : Nat) (cell : Nat → Nat → Felt)
    (r : Nat) : tableLeaf H nf h 1 cell r = cell r 0 * Table.MONTGOMERY_R :=
  Proofs.Table.tableLeaf_single_column cell r

/-- … and acceptance binds every presented cell up to a collision of the tree hash only. -/
theorem table_sound_single_column (H : Hashes) (nf : Felt) (h : Nat) (hh : h ≤ 250) (nc : Felt)
    (hnc : nc.val = 1) (cell : Nat → Nat → Felt) (queries values auths : List Felt)
    (hne : queries ≠ []) (hsorted : (queries.map (·.val)).Pairwise (· < ·))
    (hrange : ∀ q ∈ queries, q.val < 2 ^ h)
    (hok : Table.decommit H ⟨nc, ⟨⟨Felt.ofNat h, nf⟩, tableRoot H nf h 1 cell⟩⟩
      queries values auths = .ok ()) :
    values = queries.map (fun q => cell q.val 0) ∨ Collision H :=
  Proofs.Table.table_sound_single_column hh nc hnc cell queries values auths hne hsorted hrange hok

/-- Rejection form: any value list other than the committed cells of the queried rows (a changed
    cell, cells moved between rows or columns) is rejected, or explicit collision. -/
theorem table_rejects_wrong_cells (H : Hashes) (nf : Felt) (h : Nat) (hh : h ≤ 250) (nc : Felt)
    (cell : Nat → Nat → Felt) (queries values auths : List Felt) (hne : queries ≠ [])
    (hsorted : (queries.map (·.val)).Pairwise (· < ·)) (hrange : ∀ q ∈ queries, q.val < 2 ^ h)
    (hbad : values ≠ rowValues cell nc.val (queries.map (·.val))) :
    Table.decommit H ⟨nc, ⟨⟨Felt.ofNat h, nf⟩, tableRoot H nf h nc.val cell⟩⟩
        queries values auths ≠ .ok () ∨
      Collision H ∨ ManyCollision H ∨ MaskedCollision H := by
  by_cases hok : Table.decommit H ⟨nc, ⟨⟨Felt.ofNat h, nf⟩, tableRoot H nf h nc.val cell⟩⟩
      queries values auths = .ok ()
  · rcases table_sound H nf h hh nc cell queries values auths hne hsorted hrange hok with h1 | h2
    · exact absurd h1 hbad
    · exact Or.inr h2
  · exact Or.inl hok

/-- Reading `rowValues` cell by cell: position `j * n + c` holds the committed cell of the `j`-th
    queried row, column `c`. -/
theorem rowValues_cell (cell : Nat → Nat → Felt) (n : Nat) (Q : List Nat) (j c : Nat)
    (hj : j < Q.length) (hc : c < n) : (rowValues cell n Q)[j * n + c]? = some (cell Q[j] c) :=
  Proofs.Table.rowValues_getElem? cell n Q j c hj hc

/-- `table_decommit` never panics, for all inputs. -/
theorem table_no_panic (H : Hashes) (c : Table.Commitment) (queries values auths : List Felt)
    (s : String) : Table.decommit H c queries values auths ≠ .panic s :=
  Proofs.Table.table_no_panic c queries values auths s

/-! ### non-vacuity: 4 rows (`h = 2`), 3 columns, friendly table layer (`nf = 3`), rows `[1, 2]` -/

example : ([1, 2] : List Nat) ≠ [] ∧ ([1, 2] : List Nat).Pairwise (· < ·) ∧
    (∀ i ∈ ([1, 2] : List Nat), i < 2 ^ 2) ∧ 3 < 2 ^ 32 := by decide

example (cell : Nat → Nat → Felt) :
    rowValues cell 3 [1, 2] = [cell 1 0, cell 1 1, cell 1 2, cell 2 0, cell 2 1, cell 2 2] := rfl

/-- the instance is accepted, so the hypothesis of `table_sound` is satisfiable -/
example (H : Hashes) (cell : Nat → Nat → Felt) :
    Table.decommit H ⟨Felt.ofNat 3, ⟨⟨Felt.ofNat 2, Felt.ofNat 3⟩,
        tableRoot H (Felt.ofNat 3) 2 3 cell⟩⟩
      [Felt.ofNat 1, Felt.ofNat 2] [cell 1 0, cell 1 1, cell 1 2, cell 2 0, cell 2 1, cell 2 2]
      (authPath H (Felt.ofNat 3) 2 (tableLeaf H (Felt.ofNat 3) 2 3 cell) [1, 2]) = .ok () := by
  have := table_complete H (Felt.ofNat 3) 2 (by omega) 3 (by omega) cell [1, 2] []
    (by simp) (by decide) (by decide)
  rw [List.append_nil] at this
  exact this

end Swiftness.C05
