/-
  C02 — tampering with an accepted proof (the deterministic content).

  "If a proof is accepted, every proof obtained from it by replacing one value the verifier reads
  (a configuration number, public-input field, commitment, out-of-domain value, FRI coefficient,
  proof-of-work nonce, decommitted cell, Merkle authentication node or FRI witness leaf) by a
  different value, or by deleting one element of any of its vectors, is not accepted.  Appending
  unused trailing elements is the only tolerated malleability."
  (`crates/stark/src/{stark,commit,verify}.rs` and everything below them.)

  PARTIAL BY NATURE.  For the positions that are bound only through the Fiat–Shamir transcript
  (public-input fields, the three table roots, the out-of-domain values, the FRI inner-layer roots,
  the FRI last-layer coefficients, the proof-of-work nonce) "the mutant is rejected" is a
  PROBABILISTIC statement in the random-oracle model and is NOT proved here.  What IS proved, for an
  ARBITRARY layout `L : LayoutOps` and ARBITRARY hash functions `H : Hashes`, always in
  collision-extraction form (no hash is ever assumed injective):

   A. `same_transcript_prefix`, `witness_only_same_run` — mutating only unhashed positions moves no
      challenge and no query.
   B. `decommit_two_openings`, `table_two_openings`, `tamper_witness_positions` (+ rejection forms
      `rejects_wrong_decommitted_values`, `rejects_wrong_auth_node`) — decommitted cells,
      consumed authentication nodes and consumed FRI witness leaves are bound: two accepted proofs
      that differ only in the witness agree on all of them, or exhibit a collision.  (The roots are
      arbitrary field elements: nothing is assumed about them being roots of committed tables.)
   C. `deletion_rejected`, `deletion_rejected_exact_auths`, `deletion_consumed_prefix` — vector
      lengths are forced.
   D. `trailing_tolerated`, `trailing_tolerated_auths`, `trailing_inner_layers_tolerated` — the
      tolerated malleability.
   E. `tamper_config_positions`, `config_free_positions` — configuration numbers that
      `Spec.ConfigOK` (C11) expresses through the others cannot be changed alone.
   F. `tamper_changes_challenges`, `tamper_seed_changes_challenges` — for the transcript-bound
      positions: every later challenge and the query-sampling state change, or a collision is
      exhibited.  The theorems STOP THERE (see the `UNPROVED` block at the end).

  Helper lemmas: `Proofs/Tamper{Merkle,Fri,Challenges,Config,Trailing,Main}.lean`.
-/
import Swiftness.Proofs.TamperMain
import Swiftness.Proofs.TamperChallenges
import Swiftness.Proofs.TamperConfig
import Swiftness.Proofs.TamperTrailing
import Swiftness.Proofs.PipelineExample
import Swiftness.Props.C03

namespace Swiftness.C02

open Swiftness Swiftness.Spec Swiftness.Merkle Swiftness.TableSpec
open Swiftness.Proofs.Tamper
  (authCount WitnessAgree LayerAgree FreeEq PinnedEq Position challenges padWitness)
open Swiftness.Proofs.FriSound (AcceptTrace)

variable {L : LayoutOps} {H : Hashes} {stone6 : Bool} {p p' : Stark.Proof} {sec sec' : Felt}
  {r r' : Felt × Felt}

/-! ## A. the same challenges -/

/-- Two proofs that agree on every hashed public-input field (`Spec.SeedFieldsEq`: under Stone 6
    this includes `config.nFriendly`), on the whole unsent commitment and on the number of FRI
    layers (which decides how many inner-layer roots are absorbed) have the same transcript seed and
    the same commitment script; if both commitment phases succeed they return the SAME transcript
    state and the SAME challenges (interaction elements, OODS point, DEEP coefficients, FRI folding
    points), and query sampling — for equal `n_queries` and evaluation-domain size — returns the
    same queries.  Everything else (witness, the other configuration numbers, unhashed public-input
    data such as a page header's `prod`) is free. -/
theorem same_transcript_prefix {d d' : StarkDomains} {t1 t1' : Transcript}
    {c c' : Stark.Commitment}
    (hpi : SeedFieldsEq stone6 p.config.nFriendly p'.config.nFriendly p.publicInput p'.publicInput)
    (hu : p.unsent = p'.unsent) (hn : p.config.fri.nLayers = p'.config.fri.nLayers)
    (hc : Stark.commit L H (Transcript.new (p.publicInput.getHash H stone6 p.config.nFriendly))
      p.publicInput p.unsent p.config d = .ok (t1, c))
    (hc' : Stark.commit L H (Transcript.new (p'.publicInput.getHash H stone6 p'.config.nFriendly))
      p'.publicInput p'.unsent p'.config d' = .ok (t1', c')) :
    p.publicInput.getHash H stone6 p.config.nFriendly =
      p'.publicInput.getHash H stone6 p'.config.nFriendly ∧
    commitScript L p.unsent p.config = commitScript L p'.unsent p'.config ∧
    t1 = t1' ∧ c.interactionElements = c'.interactionElements ∧
    c.interactionAfterComposition = c'.interactionAfterComposition ∧
    c.interactionAfterOods = c'.interactionAfterOods ∧
    c.fri.evalPoints = c'.fri.evalPoints ∧ c.oodsValues = c'.oodsValues ∧
    c.fri.lastLayerCoefficients = c'.fri.lastLayerCoefficients ∧
    (p.config.nQueries = p'.config.nQueries → d.evalDomainSize = d'.evalDomainSize →
      Queries.generateQueries H t1 p.config.nQueries d.evalDomainSize =
        Queries.generateQueries H t1' p'.config.nQueries d'.evalDomainSize) := by
  have hseed := Proofs.Tamper.seed_eq_of_fields (H := H) stone6 _ _ _ _ hpi
  rw [← hseed, ← hu] at hc'
  obtain ⟨e1, e2, e3, e4, e5, e6, e7⟩ := Proofs.Tamper.commit_same_challenges hn hc hc'
  refine ⟨hseed, by simp only [commitScript, hu, hn], e1, e2, e3, e4, e5, e6, e7, ?_⟩
  intro hq hd
  rw [e1, hq, hd]

/-- In particular a proof that differs from an accepted one ONLY in the witness (decommitted cells,
    authentication nodes, FRI leaves) goes through literally the same run up to the decommitment
    phase: same domains, same commitment (same challenges), same queries. -/
theorem witness_only_same_run {n1 n2 : Nat} {d : StarkDomains} {t' : Transcript}
    {c : Stark.Commitment} {queries : List Felt} {tq : Transcript}
    (hok' : Stark.verify L H stone6 p' sec' = .ok r')
    (hcfg : p'.config = p.config) (hpi : p'.publicInput = p.publicInput)
    (hu : p'.unsent = p.unsent)
    (A : Proofs.Pipeline.Accepting L H stone6 p sec r n1 n2 d t' c queries tq) :
    Proofs.Pipeline.Accepting L H stone6 p' sec' r' n1 n2 d t' c queries tq := by
  obtain ⟨cfg', pi', u', w'⟩ := p'
  simp only at hcfg hpi hu
  subst hcfg hpi hu
  exact Proofs.Pipeline.accepting_of_parts' hok' A.cols1 A.cols2 A.domains A.commit A.sampled

/-! ## B. witness positions are Merkle-bound -/

/-- **Two accepted vector openings of the same root at the same indices.**  The root `rt` is an
    ARBITRARY field element.  Both query lists carry the same strictly increasing in-range
    indices.  Then the presented values are equal and the two authentication lists agree on the
    consumed prefix `pre`, whose length `authCount h indices` depends on the index set only (it is
    the length of `Merkle.authPath`); what follows (`ra`, `rb`) is never read (C04
    `decommit_complete`, C03 `verify_ignores_trailing`) — or a `Merkle.Collision H` is exhibited. -/
theorem decommit_two_openings (H : Hashes) (nf : Felt) (h : Nat) (hh : h ≤ 250) (rt : Felt)
    (qs qs' : List Vector.Query) (a a' : List Felt) (hne : qs ≠ [])
    (hsorted : (qs.map (·.index.val)).Pairwise (· < ·)) (hrange : ∀ q ∈ qs, q.index.val < 2 ^ h)
    (hidx : qs.map (·.index) = qs'.map (·.index))
    (h1 : Vector.decommit H ⟨⟨Felt.ofNat h, nf⟩, rt⟩ qs a = .ok ())
    (h2 : Vector.decommit H ⟨⟨Felt.ofNat h, nf⟩, rt⟩ qs' a' = .ok ()) :
    (qs = qs' ∧ ∃ pre ra rb, a = pre ++ ra ∧ a' = pre ++ rb ∧
        pre.length = authCount h (qs.map (·.index.val))) ∨ Collision H :=
  Proofs.Tamper.decommit_two_openings hh rt qs qs' a a' hne hsorted hrange hidx h1 h2

/-- `authCount h Q` is the number of authentication nodes the leaf numbers `Q` of a tree of height
    `h` need: per layer the siblings that are not themselves known, i.e. the length of the
    authentication path (`Merkle.authPath`) of ANY tree of that height for these indices. -/
theorem authCount_eq (H : Hashes) (nf : Felt) (h : Nat) (leaf : Nat → Felt) (Q : List Nat) :
    authCount h Q = (authPath H nf h leaf Q).length :=
  (Proofs.Tamper.authPath_length H nf h leaf Q).symm

/-- e.g. height 3, leaves `2, 3, 6`: one node at the bottom (the sibling of 6; 2 and 3 are each
    other's siblings), two one level up, none at the top (cf. C04) -/
example : authCount 3 [2, 3, 6] = 3 := by decide

/-- **Two accepted table openings of the same commitment at the same rows.**  The commitment `c`
    is ARBITRARY (any column count, any root); only `height ≤ 250` (configuration validation gives
    `≤ 64`) and non-empty, strictly increasing, in-range row indices are required.  Then the two
    value lists are EQUAL (every decommitted cell is bound) and the authentication lists agree on
    the consumed prefix — or an explicit collision of the node hash, of `poseidon_hash_many` or of
    the masked hash is exhibited. -/
theorem table_two_openings (H : Hashes) (c : Table.Commitment)
    (hh : c.vector.config.height.val ≤ 250) (queries v v' a a' : List Felt) (hne : queries ≠ [])
    (hsorted : (queries.map (·.val)).Pairwise (· < ·))
    (hrange : ∀ q ∈ queries, q.val < 2 ^ c.vector.config.height.val)
    (h1 : Table.decommit H c queries v a = .ok ())
    (h2 : Table.decommit H c queries v' a' = .ok ()) :
    (v = v' ∧ ∃ pre ra rb, a = pre ++ ra ∧ a' = pre ++ rb ∧
        pre.length = authCount c.vector.config.height.val (queries.map (·.val))) ∨
      Collision H ∨ ManyCollision H ∨ MaskedCollision H :=
  Proofs.Tamper.table_two_openings c hh queries v v' a a' hne hsorted hrange h1 h2

/-- the fields of `WitnessAgree` (what two accepted proofs differing only in the witness agree
    on), written out -/
theorem witnessAgree_iff (H : Hashes) (c : Stark.Commitment) (queries : List Felt)
    (w w' : Stark.Witness) :
    WitnessAgree H c queries w w' ↔
      w.tracesOriginalValues = w'.tracesOriginalValues ∧
      w.tracesInteractionValues = w'.tracesInteractionValues ∧
      w.compositionValues = w'.compositionValues ∧
      (∃ pre ra rb, w.tracesOriginalAuths = pre ++ ra ∧ w'.tracesOriginalAuths = pre ++ rb ∧
        pre.length = authCount c.tracesOriginal.vector.config.height.val (queries.map (·.val))) ∧
      (∃ pre ra rb, w.tracesInteractionAuths = pre ++ ra ∧ w'.tracesInteractionAuths = pre ++ rb ∧
        pre.length = authCount c.tracesInteraction.vector.config.height.val (queries.map (·.val))) ∧
      (∃ pre ra rb, w.compositionAuths = pre ++ ra ∧ w'.compositionAuths = pre ++ rb ∧
        pre.length = authCount c.composition.vector.config.height.val (queries.map (·.val))) ∧
      ∃ evals points q q' nl nl',
        AcceptTrace H queries c.fri evals points w.friLayers q nl ∧
        AcceptTrace H queries c.fri evals points w'.friLayers q' nl' ∧
        (∀ i, i ≤ (c.fri.config.nLayers - 1).val → q i = q' i) ∧
        ∀ i, i < (c.fri.config.nLayers - 1).val →
          LayerAgree c.fri w.friLayers w'.friLayers i (nl i) (nl' i) :=
  ⟨fun h => ⟨h.originalValues, h.interactionValues, h.compositionValues, h.originalAuths,
      h.interactionAuths, h.compositionAuths, h.fri⟩,
   fun ⟨h1, h2, h3, h4, h5, h6, h7⟩ => ⟨h1, h2, h3, h4, h5, h6, h7⟩⟩

/-- … and of `LayerAgree` for FRI inner layer `i` (`nl`, `nl'` are the results of the fold step
    `compute_next_layer` of the two runs, C07 `AcceptTrace`): same coset indices, same coset rows
    `verifyYValues` (these contain the queried values AND the consumed witness leaves, in
    position — C07 `next_layer_structure`), same next-layer queries, the same consumed witness
    leaves `used` (what is left over is handed back unread), the same consumed authentication
    nodes `pre`. -/
theorem layerAgree_iff (c : Fri.Commitment) (w w' : List Fri.LayerWitness) (i : Nat)
    (nl nl' : Fri.NextLayer) :
    LayerAgree c w w' i nl nl' ↔
      nl.verifyIndices = nl'.verifyIndices ∧ nl.verifyYValues = nl'.verifyYValues ∧
      nl.nextQueries = nl'.nextQueries ∧
      (∃ wi wi' used, w[i]? = some wi ∧ w'[i]? = some wi' ∧
        wi.leaves = used ++ nl.siblingsLeft ∧ wi'.leaves = used ++ nl'.siblingsLeft) ∧
      ∃ wi wi' ci pre ra rb, w[i]? = some wi ∧ w'[i]? = some wi' ∧
        c.innerLayers[i]? = some ci ∧ wi.auths = pre ++ ra ∧ wi'.auths = pre ++ rb ∧
        pre.length = authCount ci.vector.config.height.val (nl.verifyIndices.map (·.val)) :=
  ⟨fun h => ⟨h.indices, h.rows, h.next, h.leaves, h.auths⟩,
   fun ⟨h1, h2, h3, h4, h5⟩ => ⟨h1, h2, h3, h4, h5⟩⟩

/-- **B.**  Let `p` and `p'` both be accepted and agree on everything except the witness.  With
    `c`, `queries` the commitment and the queries the verifier computed (the hypotheses `hd`,
    `hc`, `hq` only NAME them, as in C01), `WitnessAgree H c queries p.witness p'.witness` holds —
    * the decommitted VALUES of the original trace, the interaction trace and the composition
      table are equal;
    * the three authentication lists agree on their consumed prefixes;
    * in every FRI inner layer: the coset rows handed to the table decommitment (queried values
      and consumed witness leaves), the consumed leaves, the consumed authentication nodes and
      the folded next-layer queries are equal —
    or an explicit collision `Merkle.Collision H ∨ ManyCollision H ∨ MaskedCollision H` exists.
    Hence a mutant of an accepted proof in which ONE decommitted cell, ONE consumed authentication
    node or ONE consumed FRI leaf was replaced by a different value is not accepted, unless a
    collision is exhibited. -/
theorem tamper_witness_positions {d : StarkDomains} {t' : Transcript} {c : Stark.Commitment}
    {queries : List Felt} {tq : Transcript}
    (hok : Stark.verify L H stone6 p sec = .ok r) (hok' : Stark.verify L H stone6 p' sec' = .ok r')
    (hcfg : p'.config = p.config) (hpi : p'.publicInput = p.publicInput)
    (hu : p'.unsent = p.unsent)
    (hd : StarkDomains.new p.config.logTraceDomainSize p.config.logNCosets = .ok d)
    (hc : Stark.commit L H (Transcript.new (p.publicInput.getHash H stone6 p.config.nFriendly))
      p.publicInput p.unsent p.config d = .ok (t', c))
    (hq : Queries.generateQueries H t' p.config.nQueries d.evalDomainSize = .ok (queries, tq)) :
    WitnessAgree H c queries p.witness p'.witness ∨
      Collision H ∨ ManyCollision H ∨ MaskedCollision H := by
  obtain ⟨n1, n2, A⟩ := Proofs.Pipeline.accepting_of_parts hok hd hc hq
  obtain ⟨cfg', pi', u', w'⟩ := p'
  simp only at hcfg hpi hu
  subst hcfg hpi hu
  exact Proofs.Tamper.witness_agree A hok'

/-- the headline of B without naming anything: the decommitted values are equal or a collision
    exists -/
theorem tamper_decommitted_values
    (hok : Stark.verify L H stone6 p sec = .ok r) (hok' : Stark.verify L H stone6 p' sec' = .ok r')
    (hcfg : p'.config = p.config) (hpi : p'.publicInput = p.publicInput)
    (hu : p'.unsent = p.unsent) :
    (p.witness.tracesOriginalValues = p'.witness.tracesOriginalValues ∧
      p.witness.tracesInteractionValues = p'.witness.tracesInteractionValues ∧
      p.witness.compositionValues = p'.witness.compositionValues) ∨
      Collision H ∨ ManyCollision H ∨ MaskedCollision H := by
  obtain ⟨n1, n2, d, t', c, qs, tq, A⟩ := Proofs.Pipeline.verify_ok_elim hok
  rcases tamper_witness_positions hok hok' hcfg hpi hu A.domains A.commit A.sampled with h | h
  · exact Or.inl ⟨h.originalValues, h.interactionValues, h.compositionValues⟩
  · exact Or.inr h

/-- rejection form for one decommitted value list: a mutant that differs from an accepted proof
    only in that list (one cell replaced, say) is rejected, or a collision is exhibited -/
theorem rejects_wrong_decommitted_values (hok : Stark.verify L H stone6 p sec = .ok r)
    (hcfg : p'.config = p.config) (hpi : p'.publicInput = p.publicInput)
    (hu : p'.unsent = p.unsent)
    (hbad : p'.witness.tracesOriginalValues ≠ p.witness.tracesOriginalValues ∨
      p'.witness.tracesInteractionValues ≠ p.witness.tracesInteractionValues ∨
      p'.witness.compositionValues ≠ p.witness.compositionValues) :
    (∀ r', Stark.verify L H stone6 p' sec' ≠ .ok r') ∨
      Collision H ∨ ManyCollision H ∨ MaskedCollision H := by
  by_cases hacc : ∃ r', Stark.verify L H stone6 p' sec' = .ok r'
  · obtain ⟨r', hok'⟩ := hacc
    rcases tamper_decommitted_values hok hok' hcfg hpi hu with ⟨h1, h2, h3⟩ | h
    · rcases hbad with hb | hb | hb
      · exact absurd h1.symm hb
      · exact absurd h2.symm hb
      · exact absurd h3.symm hb
    · exact Or.inr h
  · exact Or.inl fun r' h => hacc ⟨r', h⟩

/-- rejection form for one authentication node: the accepted proof with node `j` of the
    original-trace authentication list — a CONSUMED one, `j < authCount` — replaced by a different
    value `x` is rejected, or a collision is exhibited.  (Likewise for the other lists and the FRI
    layers, from the corresponding fields of `WitnessAgree`.) -/
theorem rejects_wrong_auth_node {d : StarkDomains} {t' : Transcript} {c : Stark.Commitment}
    {queries : List Felt} {tq : Transcript}
    (hok : Stark.verify L H stone6 p sec = .ok r)
    (hd : StarkDomains.new p.config.logTraceDomainSize p.config.logNCosets = .ok d)
    (hc : Stark.commit L H (Transcript.new (p.publicInput.getHash H stone6 p.config.nFriendly))
      p.publicInput p.unsent p.config d = .ok (t', c))
    (hq : Queries.generateQueries H t' p.config.nQueries d.evalDomainSize = .ok (queries, tq))
    (j : Nat) (x : Felt)
    (hj : j < authCount c.tracesOriginal.vector.config.height.val (queries.map (·.val)))
    (hx : p.witness.tracesOriginalAuths[j]? ≠ some x) :
    (∀ sec' r', Stark.verify L H stone6
      { p with witness := { p.witness with
          tracesOriginalAuths := p.witness.tracesOriginalAuths.set j x } } sec' ≠ .ok r') ∨
      Collision H ∨ ManyCollision H ∨ MaskedCollision H := by
  by_cases hacc : ∃ sec' r', Stark.verify L H stone6
      { p with witness := { p.witness with
          tracesOriginalAuths := p.witness.tracesOriginalAuths.set j x } } sec' = .ok r'
  · obtain ⟨sec', r', hok'⟩ := hacc
    rcases tamper_witness_positions hok hok' rfl rfl rfl hd hc hq with h | h
    · exfalso
      obtain ⟨pre, ra, rb, h1, h2, h3⟩ := h.originalAuths
      simp only at h2
      have hjl : j < p.witness.tracesOriginalAuths.length := by
        rw [h1, List.length_append]; omega
      have e1 : (p.witness.tracesOriginalAuths.set j x)[j]? = some x := by
        rw [List.getElem?_set_self hjl]
      have e2 : (p.witness.tracesOriginalAuths.set j x)[j]? = p.witness.tracesOriginalAuths[j]? := by
        rw [h2]
        conv_rhs => rw [h1]
        rw [List.getElem?_append_left (by omega), List.getElem?_append_left (by omega)]
      rw [e1] at e2
      exact hx e2.symm
    · exact Or.inr h
  · exact Or.inl fun sec' r' h => hacc ⟨sec', r', h⟩

/-! ## C. deletions -/

/-- **C.**  `p'` is the accepted proof `p` with element `i` DELETED from one of: the out-of-domain
    values, the FRI last-layer coefficients (a Rust `Vec` is shorter than `2^64 < P`), the
    decommitted values of the original trace, of the interaction trace, of the composition table.
    Then `p'` is not accepted (at any security level) — unconditionally, no hash is involved: the
    OODS vector has `MASK_SIZE + CONSTRAINT_DEGREE` entries, the last layer `2^bound`, and a
    decommitment `columns × queries` cells where the queries are those of `p`
    (`witness_only_same_run`). -/
theorem deletion_rejected (hok : Stark.verify L H stone6 p sec = .ok r) (i : Nat)
    (hdel :
      (i < p.unsent.oodsValues.length ∧
        p' = { p with unsent := { p.unsent with oodsValues := p.unsent.oodsValues.eraseIdx i } }) ∨
      (i < p.unsent.friLastLayerCoefficients.length ∧ p.unsent.friLastLayerCoefficients.length < P ∧
        p' = { p with unsent := { p.unsent with
          friLastLayerCoefficients := p.unsent.friLastLayerCoefficients.eraseIdx i } }) ∨
      (i < p.witness.tracesOriginalValues.length ∧
        p' = { p with witness := { p.witness with
          tracesOriginalValues := p.witness.tracesOriginalValues.eraseIdx i } }) ∨
      (i < p.witness.tracesInteractionValues.length ∧
        p' = { p with witness := { p.witness with
          tracesInteractionValues := p.witness.tracesInteractionValues.eraseIdx i } }) ∨
      (i < p.witness.compositionValues.length ∧
        p' = { p with witness := { p.witness with
          compositionValues := p.witness.compositionValues.eraseIdx i } })) :
    ∀ sec' r', Stark.verify L H stone6 p' sec' ≠ .ok r' := by
  intro sec' r' hok'
  have hlen : ∀ (l : List Felt), i < l.length → (l.eraseIdx i).length ≠ l.length := by
    intro l hi; rw [List.length_eraseIdx, if_pos hi]; omega
  rcases hdel with ⟨hi, rfl⟩ | ⟨hi, hP, rfl⟩ | ⟨hi, rfl⟩ | ⟨hi, rfl⟩ | ⟨hi, rfl⟩
  · have h1 := Proofs.Tamper.accept_oods_length hok
    have h2 := Proofs.Tamper.accept_oods_length hok'
    simp only at h2
    exact hlen _ hi (h2.trans h1.symm)
  · have h1 := Proofs.Tamper.accept_last_layer_length hok hP
    have h2 := Proofs.Tamper.accept_last_layer_length hok'
      (by simp only; rw [List.length_eraseIdx, if_pos hi]; omega)
    simp only at h2
    exact hlen _ hi (h2.trans h1.symm)
  · exact hlen _ hi (Proofs.Tamper.decommitment_lengths_forced hok hok').1.symm
  · exact hlen _ hi (Proofs.Tamper.decommitment_lengths_forced hok hok').2.1.symm
  · exact hlen _ hi (Proofs.Tamper.decommitment_lengths_forced hok hok').2.2.symm

/-- the forced lengths behind `deletion_rejected`, for any accepted proof -/
theorem forced_lengths (hok : Stark.verify L H stone6 p sec = .ok r) :
    p.unsent.oodsValues.length = L.maskSize + L.constraintDegree ∧
    (p.unsent.friLastLayerCoefficients.length < P →
      p.unsent.friLastLayerCoefficients.length = 2 ^ p.config.fri.logLastLayerDegreeBound.val) :=
  ⟨Proofs.Tamper.accept_oods_length hok, Proofs.Tamper.accept_last_layer_length hok⟩

/-- Authentication nodes and FRI witness leaves are consumed from the front and there is no
    length check, so for them a deletion is a statement about the CONSUMED PREFIX: if the mutant
    `p'` — `p` with element `i` of the original-trace authentication list deleted — is accepted too,
    then both lists start with the same `authCount` nodes (so the deletion happened behind the
    consumed prefix, or it shifted equal nodes onto each other), or a collision is exhibited.
    The same holds for the other authentication lists and for every FRI layer's leaves and
    authentication nodes: it is `tamper_witness_positions`, which does not care HOW the two
    witnesses differ. -/
theorem deletion_consumed_prefix {d : StarkDomains} {t' : Transcript} {c : Stark.Commitment}
    {queries : List Felt} {tq : Transcript}
    (hok : Stark.verify L H stone6 p sec = .ok r) (i : Nat)
    (hok' : Stark.verify L H stone6
      { p with witness := { p.witness with
          tracesOriginalAuths := p.witness.tracesOriginalAuths.eraseIdx i } } sec' = .ok r')
    (hd : StarkDomains.new p.config.logTraceDomainSize p.config.logNCosets = .ok d)
    (hc : Stark.commit L H (Transcript.new (p.publicInput.getHash H stone6 p.config.nFriendly))
      p.publicInput p.unsent p.config d = .ok (t', c))
    (hq : Queries.generateQueries H t' p.config.nQueries d.evalDomainSize = .ok (queries, tq)) :
    (∃ pre ra rb, p.witness.tracesOriginalAuths = pre ++ ra ∧
        p.witness.tracesOriginalAuths.eraseIdx i = pre ++ rb ∧
        pre.length = authCount c.tracesOriginal.vector.config.height.val (queries.map (·.val))) ∨
      Collision H ∨ ManyCollision H ∨ MaskedCollision H := by
  rcases tamper_witness_positions hok hok' rfl rfl rfl hd hc hq with h | h
  · exact Or.inl h.originalAuths
  · exact Or.inr h

/-- … and when the accepted proof carries NO trailing authentication nodes — exactly `authCount`
    of them, as an honest prover sends — deleting any one of them is rejected outright, no hash
    involved: an accepted run consumed `authCount` nodes, so it had at least that many. -/
theorem deletion_rejected_exact_auths {d : StarkDomains} {t' : Transcript} {c : Stark.Commitment}
    {queries : List Felt} {tq : Transcript}
    (hok : Stark.verify L H stone6 p sec = .ok r)
    (hd : StarkDomains.new p.config.logTraceDomainSize p.config.logNCosets = .ok d)
    (hc : Stark.commit L H (Transcript.new (p.publicInput.getHash H stone6 p.config.nFriendly))
      p.publicInput p.unsent p.config d = .ok (t', c))
    (hq : Queries.generateQueries H t' p.config.nQueries d.evalDomainSize = .ok (queries, tq))
    (i : Nat)
    (hdel :
      (i < p.witness.tracesOriginalAuths.length ∧ p.witness.tracesOriginalAuths.length =
          authCount c.tracesOriginal.vector.config.height.val (queries.map (·.val)) ∧
        p' = { p with witness := { p.witness with
          tracesOriginalAuths := p.witness.tracesOriginalAuths.eraseIdx i } }) ∨
      (i < p.witness.tracesInteractionAuths.length ∧ p.witness.tracesInteractionAuths.length =
          authCount c.tracesInteraction.vector.config.height.val (queries.map (·.val)) ∧
        p' = { p with witness := { p.witness with
          tracesInteractionAuths := p.witness.tracesInteractionAuths.eraseIdx i } }) ∨
      (i < p.witness.compositionAuths.length ∧ p.witness.compositionAuths.length =
          authCount c.composition.vector.config.height.val (queries.map (·.val)) ∧
        p' = { p with witness := { p.witness with
          compositionAuths := p.witness.compositionAuths.eraseIdx i } })) :
    ∀ sec' r', Stark.verify L H stone6 p' sec' ≠ .ok r' := by
  intro sec' r' hok'
  obtain ⟨n1, n2, A⟩ := Proofs.Pipeline.accepting_of_parts hok hd hc hq
  have hlen : ∀ (l : List Felt), i < l.length → (l.eraseIdx i).length + 1 = l.length := by
    intro l hi; rw [List.length_eraseIdx, if_pos hi]; omega
  rcases hdel with ⟨hi, he, rfl⟩ | ⟨hi, he, rfl⟩ | ⟨hi, he, rfl⟩
  · have A' := witness_only_same_run (p := p) hok' rfl rfl rfl A
    have := (Proofs.Tamper.accepting_auths_length_ge A').1
    simp only at this
    have := hlen _ hi
    omega
  · have A' := witness_only_same_run (p := p) hok' rfl rfl rfl A
    have := (Proofs.Tamper.accepting_auths_length_ge A').2.1
    simp only at this
    have := hlen _ hi
    omega
  · have A' := witness_only_same_run (p := p) hok' rfl rfl rfl A
    have := (Proofs.Tamper.accepting_auths_length_ge A').2.2
    simp only at this
    have := hlen _ hi
    omega

/-! ## D. the tolerated malleability: unused trailing elements -/

/-- (C03) trailing authentication nodes and trailing FRI layer witnesses -/
theorem trailing_tolerated_auths (hok : Stark.verify L H stone6 p sec = .ok r) (e1 e2 e3 : List Felt)
    (ef : List (List Felt)) (more : List Fri.LayerWitness) :
    Stark.verify L H stone6
      { p with witness :=
        { p.witness with
          tracesOriginalAuths := p.witness.tracesOriginalAuths ++ e1
          tracesInteractionAuths := p.witness.tracesInteractionAuths ++ e2
          compositionAuths := p.witness.compositionAuths ++ e3
          friLayers := Proofs.Pipeline.padLayers p.witness.friLayers ef ++ more } } sec = .ok r :=
  C03.verify_ignores_trailing hok e1 e2 e3 ef more

/-- **D.**  … and trailing FRI witness LEAVES as well: appending arbitrary elements to the three
    table authentication lists, to the leaves (`el[i]`) and to the authentication nodes (`ef[i]`) of
    every FRI layer witness `i` (`padWitness`), and appending further layer witnesses, keeps an
    accepted verdict and its result.  (These are ALL the witness vectors that are consumed from
    the front without a length check; the three value lists are length-checked, see C.) -/
theorem trailing_tolerated (hok : Stark.verify L H stone6 p sec = .ok r) (e1 e2 e3 : List Felt)
    (el ef : List (List Felt)) (more : List Fri.LayerWitness) :
    Stark.verify L H stone6
      { p with witness :=
        { p.witness with
          tracesOriginalAuths := p.witness.tracesOriginalAuths ++ e1
          tracesInteractionAuths := p.witness.tracesInteractionAuths ++ e2
          compositionAuths := p.witness.compositionAuths ++ e3
          friLayers := padWitness p.witness.friLayers el ef ++ more } } sec = .ok r :=
  Proofs.Tamper.verify_pad_all hok e1 e2 e3 el ef more

/-- what `padWitness` does to a layer witness -/
example (w : Fri.LayerWitness) (ws : List Fri.LayerWitness) (l a : List Felt)
    (el ef : List (List Felt)) :
    padWitness (w :: ws) (l :: el) (a :: ef) = ⟨w.leaves ++ l, w.auths ++ a⟩ :: padWitness ws el ef :=
  rfl

/-- Among the UNSENT commitment only the list of FRI inner-layer roots is read by position with a
    lower bound on its length only: roots behind the first `n_layers - 1` are unused, and
    appending more keeps an accepted verdict (a `Vec` length is far below `P`). -/
theorem trailing_inner_layers_tolerated (hok : Stark.verify L H stone6 p sec = .ok r)
    (e : List Felt) (hlen : p.unsent.friInnerLayers.length + e.length + 1 < P) :
    Stark.verify L H stone6
      { p with unsent := { p.unsent with friInnerLayers := p.unsent.friInnerLayers ++ e } } sec
      = .ok r :=
  Proofs.Tamper.verify_append_inner hok e hlen

/-! ## E. configuration numbers -/

/-- the fields of `FreeEq` / `PinnedEq` written out -/
theorem freeEq_iff (c c' : StarkConfig) :
    FreeEq c c' ↔
      c.logTraceDomainSize = c'.logTraceDomainSize ∧ c.logNCosets = c'.logNCosets ∧
      c.nFriendly = c'.nFriendly ∧ c.fri.nLayers = c'.fri.nLayers ∧
      ∀ i, i < c.fri.nLayers.val → c.fri.friStepSizes[i]? = c'.fri.friStepSizes[i]? :=
  ⟨fun h => ⟨h.logTrace, h.logNCosets, h.nFriendly, h.nLayers, h.steps⟩,
   fun ⟨h1, h2, h3, h4, h5⟩ => ⟨h1, h2, h3, h4, h5⟩⟩

theorem pinnedEq_iff (c c' : StarkConfig) :
    PinnedEq c c' ↔
      c.traces.original = c'.traces.original ∧ c.traces.interaction = c'.traces.interaction ∧
      c.composition.vector = c'.composition.vector ∧
      c.fri.logInputSize = c'.fri.logInputSize ∧
      c.fri.logLastLayerDegreeBound = c'.fri.logLastLayerDegreeBound ∧
      c.fri.innerLayers.take (c.fri.nLayers.val - 1) =
        c'.fri.innerLayers.take (c.fri.nLayers.val - 1) :=
  ⟨fun h => ⟨h.original, h.interaction, h.compositionVector, h.logInputSize, h.lastBound, h.inner⟩,
   fun ⟨h1, h2, h3, h4, h5, h6⟩ => ⟨h1, h2, h3, h4, h5, h6⟩⟩

/-- **E.**  Let `p` be accepted and let `p'` have the same public input and a configuration that
    agrees with `p`'s on the numbers `ConfigOK` does not derive (`FreeEq`: the two domain exponents,
    the global friendly-layer count, the number of FRI layers, the FRI steps that are read) but
    DIFFERS in a derived one (`PinnedEq` or the composition table configuration: the heights, column
    counts and friendly-layer counts of the three commitments; `fri.log_input_size`;
    `fri.log_last_layer_degree_bound`; the column count, height or friendly-layer count of an inner
    FRI layer that is read).  Then `p'` is not accepted — whatever its unsent commitment and
    witness are, at any security level and Stone version; purely from the uniqueness in
    `Spec.ConfigOK` (C11) and C01 `composition_columns_forced`; no hash is involved.  In particular
    ONE such number replaced by a different value gives a rejected proof. -/
theorem tamper_config_positions {stone6' : Bool} (hok : Stark.verify L H stone6 p sec = .ok r)
    (hpi : p'.publicInput = p.publicInput) (hfree : FreeEq p.config p'.config)
    (hdiff : ¬ (PinnedEq p.config p'.config ∧ p.config.composition = p'.config.composition)) :
    ∀ r', Stark.verify L H stone6' p' sec' ≠ .ok r' := fun _ hok' =>
  hdiff (Proofs.Tamper.accept_config_pinned hok hok' hpi.symm hfree)

/-- The "free" numbers are not free to change ALONE either: between two accepted configurations
    (for any layouts, security levels)
    * equal friendly-layer counts of the original-trace vector force equal global counts;
    * equal heights of the original-trace vector force `t + k = t' + k'`, so each of the two domain
      exponents is determined by the other;
    * equal step sizes, last-layer bound, blow-up exponent and FRI input size force equal numbers
      of FRI layers.
    NOT determined by anything (only bounded, C11): the proof-of-work difficulty and the query
    count; and entries of `fri_step_sizes` / `fri.inner_layers` behind the ones that are read are
    not looked at at all. -/
theorem config_free_positions {c c' : StarkConfig} {s s' nc1 nc2 nc1' nc2' : Felt}
    (h : ConfigOK c s nc1 nc2) (h' : ConfigOK c' s' nc1' nc2') :
    (c.traces.original.vector.nFriendly = c'.traces.original.vector.nFriendly →
      c.nFriendly = c'.nFriendly) ∧
    (c.traces.original.vector.height = c'.traces.original.vector.height →
      (c.logNCosets = c'.logNCosets → c.logTraceDomainSize = c'.logTraceDomainSize) ∧
      (c.logTraceDomainSize = c'.logTraceDomainSize → c.logNCosets = c'.logNCosets)) ∧
    (c.fri.friStepSizes = c'.fri.friStepSizes →
      c.fri.logLastLayerDegreeBound = c'.fri.logLastLayerDegreeBound →
      c.logNCosets = c'.logNCosets → c.fri.logInputSize = c'.fri.logInputSize →
      c.fri.nLayers = c'.fri.nLayers) :=
  ⟨Proofs.Tamper.nFriendly_pinned h h', Proofs.Tamper.domain_exponents_pinned h h',
   Proofs.Tamper.nLayers_pinned h h'⟩

/-! ## F. transcript-bound positions -/

/-- what `Position.Differs` and `Position.challengesBefore` say, position by position
    (`m = n_layers - 1` inner-layer roots are read; `nI` interaction elements) -/
theorem position_differs_iff (m : Nat) (u u' : Stark.UnsentCommitment) :
    (Position.tracesOriginal.Differs m u u' ↔ u.tracesOriginal ≠ u'.tracesOriginal) ∧
    (Position.tracesInteraction.Differs m u u' ↔ u.tracesInteraction ≠ u'.tracesInteraction) ∧
    (Position.composition.Differs m u u' ↔ u.composition ≠ u'.composition) ∧
    (Position.oodsValues.Differs m u u' ↔ u.oodsValues ≠ u'.oodsValues) ∧
    (∀ j, (Position.friInnerLayer j).Differs m u u' ↔
      j < m ∧ u.friInnerLayers[j]? ≠ u'.friInnerLayers[j]?) ∧
    (Position.friLastLayer.Differs m u u' ↔
      u.friLastLayerCoefficients ≠ u'.friLastLayerCoefficients) ∧
    (Position.powNonce.Differs m u u' ↔
      u.powNonce < 2 ^ 64 ∧ u'.powNonce < 2 ^ 64 ∧ u.powNonce ≠ u'.powNonce) :=
  ⟨Iff.rfl, Iff.rfl, Iff.rfl, Iff.rfl, fun _ => Iff.rfl, Iff.rfl, Iff.rfl⟩

theorem position_challengesBefore (nI m : Nat) :
    Position.tracesOriginal.challengesBefore nI m = 0 ∧
    Position.tracesInteraction.challengesBefore nI m = nI ∧
    Position.composition.challengesBefore nI m = nI + 1 ∧
    Position.oodsValues.challengesBefore nI m = nI + 2 ∧
    (∀ j, (Position.friInnerLayer j).challengesBefore nI m = nI + 3 + j) ∧
    Position.friLastLayer.challengesBefore nI m = nI + 3 + m ∧
    Position.powNonce.challengesBefore nI m = nI + 3 + m :=
  ⟨rfl, rfl, rfl, rfl, fun _ => rfl, rfl, rfl⟩

/-- `challenges H L t u c` is the list of ALL challenges of the commitment phase in the order drawn:
    the interaction elements, the composition challenge, the OODS point, the DEEP challenge, the
    FRI folding points; it is the challenge list of the run of `Spec.commitScript` (C08). -/
theorem challenges_eq {t t1 : Transcript} {pi : PublicInput} {u : Stark.UnsentCommitment}
    {cfg : StarkConfig} {d : StarkDomains} {c : Stark.Commitment}
    (hc : Stark.commit L H t pi u cfg d = .ok (t1, c)) :
    challenges H L t u c = c.interactionElements ++
      [compositionAlpha H t L.nInteractionElements u.tracesOriginal u.tracesInteraction,
       c.interactionAfterComposition,
       oodsAlpha H t L.nInteractionElements u.tracesOriginal u.tracesInteraction u.composition
         u.oodsValues] ++ c.fri.evalPoints ∧
    Transcript.run H t (commitScript L u cfg) = (t1, challenges H L t u c) ∧
    (challenges H L t u c).length = L.nInteractionElements + 3 + (cfg.fri.nLayers - 1).val :=
  ⟨rfl, (Proofs.Tamper.commit_challenges hc).1, (Proofs.Tamper.commit_challenges hc).2.2⟩

/-- **F.**  Two accepting commitment phases for the same layout and the same number of FRI layers —
    from ARBITRARY start states `t`, `t'` (in `StarkProof::verify`: `Transcript.new seed`), with
    arbitrary public inputs, configurations and domains — whose unsent commitments DIFFER at the
    position `pos` (one table root, the OODS vector — e.g. one `oods_values[i]` —, one FRI
    inner-layer root `j < n_layers - 1`, the last-layer coefficient vector — e.g. one coefficient —,
    the `u64` nonce).  Then
    * every challenge drawn AFTER that message (the challenge list without its first
      `pos.challengesBefore` entries) differs, entry by entry, between the two runs;
    * the returned transcript states have different digests, and so every raw query sample
      `poseidon_hash(digest, counter)` of one run differs from every raw sample of the other —
    or an explicit collision of `poseidon_hash` or `poseidon_hash_many` is exhibited.
    THE THEOREM STOPS HERE: that the unchanged remainder of the proof then fails some algebraic
    check (OODS consistency, DEEP/FRI consistency, proof of work) is a random-oracle statement and
    is NOT proved. -/
theorem tamper_changes_challenges {t t' t1 t1' : Transcript} {pi pi' : PublicInput}
    {u u' : Stark.UnsentCommitment} {cfg cfg' : StarkConfig} {d d' : StarkDomains}
    {c c' : Stark.Commitment}
    (hn : cfg.fri.nLayers = cfg'.fri.nLayers)
    (hc : Stark.commit L H t pi u cfg d = .ok (t1, c))
    (hc' : Stark.commit L H t' pi' u' cfg' d' = .ok (t1', c'))
    (pos : Position) (hdiff : pos.Differs (cfg.fri.nLayers - 1).val u u') :
    (List.Forall₂ (· ≠ ·)
        ((challenges H L t u c).drop
          (pos.challengesBefore L.nInteractionElements (cfg.fri.nLayers - 1).val))
        ((challenges H L t' u' c').drop
          (pos.challengesBefore L.nInteractionElements (cfg.fri.nLayers - 1).val)) ∧
      t1.digest ≠ t1'.digest ∧
      ∀ k k', H.poseidon2 t1.digest k ≠ H.poseidon2 t1'.digest k') ∨
      Poseidon2Collision H ∨ PoseidonManyCollision H := by
  by_cases hP2 : Poseidon2Collision H
  · exact Or.inr (Or.inl hP2)
  rcases Proofs.Tamper.commit_position_differs hn hc hc' pos hdiff with ⟨h1, h2⟩ | h
  · refine Or.inl ⟨h1, h2, fun k k' he => hP2 ⟨_, _, _, _, ?_, he⟩⟩
    exact fun hpair => h2 (Prod.mk.inj hpair).1
  · exact Or.inr h

/-- **F, public input.**  Two proofs whose public inputs have the same shape (`Spec.SeedShape`, C13)
    but differ in a hashed field (`¬ Spec.SeedFieldsEq`; C13 `fields_differ` lists them: step count,
    range-check bounds, layout code, a dynamic parameter, a segment bound, the padding cell, a
    main-page address or value, a page header's address, size or hash, under Stone 6 the
    friendly-layer count), with the same number of FRI layers, both commitment phases succeeding:
    ALL challenges differ pairwise, the query-sampling states differ — or an explicit collision of
    `pedersen_hash`, `poseidon_hash` or `poseidon_hash_many` is exhibited.  Again the theorem stops
    there. -/
theorem tamper_seed_changes_challenges {d d' : StarkDomains} {t1 t1' : Transcript}
    {c c' : Stark.Commitment}
    (hshape : SeedShape p.publicInput p'.publicInput)
    (hne : ¬ SeedFieldsEq stone6 p.config.nFriendly p'.config.nFriendly p.publicInput p'.publicInput)
    (hn : p.config.fri.nLayers = p'.config.fri.nLayers)
    (hc : Stark.commit L H (Transcript.new (p.publicInput.getHash H stone6 p.config.nFriendly))
      p.publicInput p.unsent p.config d = .ok (t1, c))
    (hc' : Stark.commit L H (Transcript.new (p'.publicInput.getHash H stone6 p'.config.nFriendly))
      p'.publicInput p'.unsent p'.config d' = .ok (t1', c')) :
    (p.publicInput.getHash H stone6 p.config.nFriendly ≠
        p'.publicInput.getHash H stone6 p'.config.nFriendly ∧
      List.Forall₂ (· ≠ ·)
        (challenges H L (Transcript.new (p.publicInput.getHash H stone6 p.config.nFriendly))
          p.unsent c)
        (challenges H L (Transcript.new (p'.publicInput.getHash H stone6 p'.config.nFriendly))
          p'.unsent c') ∧
      t1.digest ≠ t1'.digest) ∨
      PedersenCollision H ∨ Poseidon2Collision H ∨ PoseidonManyCollision H := by
  by_cases hs : p.publicInput.getHash H stone6 p.config.nFriendly =
      p'.publicInput.getHash H stone6 p'.config.nFriendly
  · rcases C13.getHash_binding H stone6 _ _ _ _ hshape hne hs with h | h
    · exact Or.inr (Or.inl h)
    · exact Or.inr (Or.inr (Or.inr h))
  · rcases Proofs.Tamper.commit_seed_differs hn hc hc' (by exact hs) with ⟨h1, h2⟩ | h
    · exact Or.inl ⟨hs, h1, h2⟩
    · exact Or.inr (Or.inr h)

/-! ## non-vacuity (`Proofs/PipelineExample.lean`: the toy proof `toyP` the model accepts) -/

section examples
open Swiftness.Proofs.Pipeline.Toy

/-- B: the hypotheses are satisfiable with `p' ≠ p` — the toy proof and the toy proof with
    trailing data (accepted by `trailing_tolerated`) differ only in the witness … -/
example :
    let p' : Stark.Proof := { toyP with witness := { toyP.witness with
      tracesOriginalAuths := toyP.witness.tracesOriginalAuths ++ [Felt.ofNat 1]
      tracesInteractionAuths := toyP.witness.tracesInteractionAuths ++ []
      compositionAuths := toyP.witness.compositionAuths ++ []
      friLayers := padWitness toyP.witness.friLayers [[Felt.ofNat 9]] [[Felt.ofNat 4]] ++ [] } }
    Stark.verify toyL toyH false p' (Felt.ofNat 31) = .ok (Felt.ofNat 1, Felt.ofNat 77) ∧
      p' ≠ toyP ∧ p'.config = toyP.config ∧ p'.publicInput = toyP.publicInput ∧
      p'.unsent = toyP.unsent :=
  ⟨trailing_tolerated toy_accepts _ _ _ _ _ _, by decide +kernel, rfl, rfl, rfl⟩

/-- … and a genuine mutant — one FRI witness leaf, one authentication node, one composition cell
    replaced — is rejected by the model (kernel evaluation); by `tamper_witness_positions` this is
    no accident of the toy hash -/
example :
    (Stark.verify toyL toyH false
      { toyP with witness := { toyW 5 with friLayers := [⟨[Felt.ofNat 6], authF 5⟩] } }
      (Felt.ofNat 31)).isOk = false ∧
    (Stark.verify toyL toyH false
      { toyP with witness := { toyW 5 with
          tracesOriginalAuths := (auth1 5 1).set 0 (Felt.ofNat 12345) } }
      (Felt.ofNat 31)).isOk = false ∧
    (Stark.verify toyL toyH false
      { toyP with witness := { toyW 5 with compositionValues := [Felt.ofNat 2, Felt.ofNat 1] } }
      (Felt.ofNat 31)).isOk = false := by
  decide +kernel

/-- B instantiated: any accepted proof that differs from `toyP` only in the witness opens the same
    trace cell `1`, or exhibits a collision of the toy hashes -/
example (w' : Stark.Witness) (r' : Felt × Felt)
    (hok' : Stark.verify toyL toyH false ⟨toyCfg, toyPI, toyU, w'⟩ (Felt.ofNat 31) = .ok r') :
    w'.tracesOriginalValues = [Felt.ofNat 1] ∨
      Collision toyH ∨ ManyCollision toyH ∨ MaskedCollision toyH := by
  rcases tamper_decommitted_values toy_accepts hok' rfl rfl rfl with ⟨h, _, _⟩ | h
  · exact Or.inl h.symm
  · exact Or.inr h

/-- C instantiated: the toy proof with its second OODS value deleted, or with its first
    composition cell deleted, is not accepted -/
example : ∀ sec' r', Stark.verify toyL toyH false
    { toyP with unsent := { toyU with oodsValues := [Felt.ofNat 7, Felt.ofNat 0] } } sec' ≠ .ok r' :=
  deletion_rejected toy_accepts 1 (Or.inl ⟨by decide, rfl⟩)

example : ∀ sec' r', Stark.verify toyL toyH false
    { toyP with witness := { toyW 5 with compositionValues := [Felt.ofNat 0] } } sec' ≠ .ok r' :=
  deletion_rejected toy_accepts 0 (Or.inr (Or.inr (Or.inr (Or.inr ⟨by decide, rfl⟩))))

/-- E instantiated: the toy configuration with another FRI input-size exponent, or with another
    height for the composition commitment, is not accepted whatever else is changed -/
example (u' : Stark.UnsentCommitment) (w' : Stark.Witness) (sec' : Felt) :
    ∀ r', Stark.verify toyL toyH true
      ⟨{ toyCfg with fri := { toyCfg.fri with logInputSize := Felt.ofNat 4 } }, toyPI, u', w'⟩ sec'
      ≠ .ok r' :=
  tamper_config_positions toy_accepts rfl ⟨rfl, rfl, rfl, rfl, fun _ _ => rfl⟩
    (fun h => absurd h.1.logInputSize
      (by show ¬ (toyCfg.fri.logInputSize = Felt.ofNat 4); decide +kernel))

example (u' : Stark.UnsentCommitment) (w' : Stark.Witness) (sec' : Felt) :
    ∀ r', Stark.verify toyL toyH false
      ⟨{ toyCfg with composition := ⟨Felt.ofNat 2, vec 4⟩ }, toyPI, u', w'⟩ sec' ≠ .ok r' :=
  tamper_config_positions toy_accepts rfl ⟨rfl, rfl, rfl, rfl, fun _ _ => rfl⟩
    (fun h => absurd h.2
      (by show ¬ (toyCfg.composition = ⟨Felt.ofNat 2, vec 4⟩); decide +kernel))

/-- F: the hypotheses are satisfiable — the toy commitment phase also succeeds with another
    composition root (the toy layout's OODS check does not involve the challenges), the two unsent
    commitments differ at `Position.composition`, and for the toy hashes the first alternative
    holds: e.g. the returned states differ -/
example :
    let u' : Stark.UnsentCommitment := { toyU with composition := Felt.ofNat 5 }
    let d : StarkDomains := ⟨Felt.ofNat 3, Felt.ofNat 8, Felt.ofNat 0, Felt.ofNat 2, Felt.ofNat 4,
      Felt.ofNat 0⟩
    (Stark.commit toyL toyH (Transcript.new (Felt.ofNat 1)) toyPI toyU toyCfg d).isOk = true ∧
    (Stark.commit toyL toyH (Transcript.new (Felt.ofNat 1)) toyPI u' toyCfg d).isOk = true ∧
    Position.composition.Differs (toyCfg.fri.nLayers - 1).val toyU u' := by
  refine ⟨by decide +kernel, by decide +kernel, ?_⟩
  show rootC ≠ Felt.ofNat 5
  decide +kernel

end examples

/- UNPROVED (the probabilistic part of C02; NOT provable in this development)

   Statement.  Let `p` be accepted and let `p'` differ from `p` in exactly one transcript-bound
   position: a hashed public-input field, one of the three table roots, one out-of-domain value,
   one FRI inner-layer root that is read, one FRI last-layer coefficient, the proof-of-work nonce
   — or in one of the configuration numbers that are neither hashed nor derived (proof-of-work
   bits, which enter the proof-of-work preimage; the query count).  Then, with the transcript hash
   (and the proof-of-work hash) modelled as random oracles,
       Pr[ Stark.verify … p' … = .ok _ ]  ≤  negligible.

   What is proved towards it: `tamper_changes_challenges`, `tamper_seed_changes_challenges` — all
   challenges after the mutated message and all raw query samples change (or a collision exists);
   `tamper_witness_positions` — the witness that accompanies given commitments and queries is
   unique up to collisions, so the mutant cannot be repaired by the old witness at old queries.

   What is missing: (a) any probability space — `H : Hashes` is an arbitrary function here, so
   "the new challenges are fresh uniform values" cannot even be stated; (b) the algebraic step:
   the unchanged OODS values satisfy the composition identity at a fresh OODS point, resp. the
   unchanged decommitments are consistent with fresh queries/folding points, only with small
   probability (Schwartz–Zippel / FRI soundness, cf. the UNPROVED block of C07); (c) for the
   nonce and the proof-of-work bits: that a fresh `h256` output has `n_bits` leading zeros with
   probability `2^-n_bits`.  None of (a)–(c) is claimed.
-/

end Swiftness.C02
