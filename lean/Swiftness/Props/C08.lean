/-
  C08 — every verifier challenge is a deterministic function of the public-input digest and of all
  prover messages that precede it in the protocol: it changes when any one of them changes and is
  unaffected by later messages; challenges drawn without an intervening message are pairwise
  different.  (`crates/transcript/src/transcript.rs`, `crates/stark/src/commit.rs`,
  `crates/fri/src/fri.rs` (`fri_commit`), `crates/pow/src/pow.rs`.)

  All theorems hold for an ARBITRARY `H : Hashes`.  There is no injectivity hypothesis: "changes"
  is stated in collision-extraction form — the two values are equal only if an explicit collision
  (`Spec.Poseidon2Collision`, `Spec.PoseidonManyCollision`: two different inputs with the same hash)
  exists.  Vocabulary (`Op.message`, `SameShape`, `commitScript`, `oodsPoint`, …) is in
  `Spec/TranscriptSpec.lean`; helper lemmas in `Proofs/Transcript.lean`, `Proofs/TranscriptCommit.lean`.
-/
import Swiftness.Spec.TranscriptSpec
import Swiftness.Proofs.Transcript
import Swiftness.Proofs.TranscriptCommit

namespace Swiftness.C08

open Swiftness Swiftness.Transcript Swiftness.Spec
attribute [-instance] Fin.instOfNat

variable (H : Hashes)

/-! ### determinism, independence of later messages -/

/-- histories compose: running `h ++ l` is running `h`, then `l` from the state reached; the
    challenges of `h` are produced first and do not depend on `l`. -/
theorem run_append (t : Transcript) (h l : List Op) :
    run H t (h ++ l) =
      (let (t', cs) := run H t h
       let (t'', cs') := run H t' l
       (t'', cs ++ cs')) := Proofs.Tr.run_append_let H t h l

/-- challenges are unaffected by later messages -/
theorem challenge_prefix (t : Transcript) (h later : List Op) :
    (run H t h).2 <+: (run H t (h ++ later)).2 := Proofs.Tr.challenge_prefix H t h later

/-- (trivial) the final state and all challenges are a function of the hash functions, the start
    state and the history -/
theorem challenge_determined (t t' : Transcript) (h h' : List Op) (ht : t = t') (hh : h = h') :
    run H t h = run H t' h' := by rw [ht, hh]

/-- the first state of a verification is `(digest, 0)` with `digest` the public-input hash, so the
    above says: a function of the public-input digest and the history -/
theorem challenge_determined_by_seed (d d' : Felt) (h h' : List Op) (hd : d = d') (hh : h = h') :
    run H (Transcript.new d) h = run H (Transcript.new d') h' := by rw [hd, hh]

/-! ### the counter -/

/-- after any absorbing operation the counter is `0` and the digest is
    `poseidon_hash_many (digest + 1 :: message)` -/
theorem absorb_resets_counter (t : Transcript) (op : Op) (m : List Felt)
    (hm : Op.message op = some m) :
    (step H t op).1.counter = 0 ∧ (step H t op).1.digest = H.poseidonMany ((t.digest + 1) :: m) ∧
      (step H t op).2 = none := by
  refine ⟨Proofs.Tr.step_absorb_counter H t op ?_, Proofs.Tr.step_absorb_digest H t op m hm, ?_⟩
  · rintro rfl; simp [Op.message] at hm
  · cases op <;> first | rfl | simp [Op.message] at hm

/-- `k` squeezes from a state with counter `c`: digest unchanged, counter `c + k` -/
theorem squeeze_increments (t : Transcript) (k : ℕ) :
    (run H t (List.replicate k .squeeze)).1 = ⟨t.digest, t.counter + Felt.ofNat k⟩ := by
  rw [Proofs.Tr.run_replicate_squeeze]

/-- the challenges of `k ≤ P` consecutive squeezes are `poseidon_hash (digest, counter + j)`,
    `j < k`, and these input pairs are pairwise distinct -/
theorem consecutive_distinct (t : Transcript) (k : ℕ) (hk : k ≤ P) :
    (run H t (List.replicate k .squeeze)).2 =
      (List.range k).map (fun j => H.poseidon2 t.digest (t.counter + Felt.ofNat j)) ∧
    ∀ i j, i < j → j < k →
      (t.digest, t.counter + Felt.ofNat i) ≠ (t.digest, t.counter + Felt.ofNat j) := by
  refine ⟨by rw [Proofs.Tr.run_replicate_squeeze], fun i j hij hj => ?_⟩
  exact Proofs.Tr.counter_inputs_distinct t hij (lt_of_lt_of_le hj hk)

/-- hence two equal challenges among them are an explicit `poseidon_hash` collision -/
theorem consecutive_equal_collision (t : Transcript) (k : ℕ) (hk : k ≤ P)
    (hdup : ¬ (run H t (List.replicate k .squeeze)).2.Nodup) : Poseidon2Collision H :=
  Proofs.Tr.consecutive_collision H t k hk hdup

/-! ### binding to everything absorbed before -/

/-- Two histories of the same shape from the same state whose `i`-th operations absorb different
    messages: after any `n > i` operations the digests differ, or an explicit
    `poseidon_hash_many` collision exists.  (Only the sequence of operation kinds matters; the
    equal-length condition on vectors in `SameShape` is not used.) -/
theorem history_binding (t : Transcript) (h h' : List Op) (hs : SameShape h h') (i : ℕ)
    (hi : i < h.length) (hi' : i < h'.length) (hm : Op.message h[i] ≠ Op.message h'[i])
    (n : ℕ) (hn : i < n) :
    (run H t (h.take n)).1.digest ≠ (run H t (h'.take n)).1.digest ∨ PoseidonManyCollision H :=
  Proofs.Tr.history_binding H t h h' (Proofs.Tr.SameShape.sameKind hs) i hi hi' hm n hn

/-- what "different messages" means for each kind: different field elements, different vectors,
    different `u64` nonces (`read_uint64_from_prover` takes a `u64`, which embeds injectively) -/
theorem message_ne_iff (op op' : Op) (hk : Op.sameKind op op') :
    Op.message op ≠ Op.message op' ↔
      match op, op' with
      | .absorbFelt v, .absorbFelt v' => v ≠ v'
      | .absorbVec vs, .absorbVec vs' => vs ≠ vs'
      | .absorbU64 n, .absorbU64 n' => Felt.ofNat n ≠ Felt.ofNat n'
      | _, _ => False := by
  cases op <;> cases op' <;> first | exact False.elim hk | simp [Op.message]

theorem u64_message_ne (n n' : ℕ) (hn : n < 2 ^ 64) (hn' : n' < 2 ^ 64) (hne : n ≠ n') :
    Op.message (.absorbU64 n) ≠ Op.message (.absorbU64 n') := by
  have h64 : 2 ^ 64 < P := by decide +kernel
  simp only [Op.message, ne_eq, Option.some.injEq, List.cons.injEq, and_true]
  exact fun h => hne (Proofs.Tr.ofNat_injOn (lt_trans hn h64) (lt_trans hn' h64) h)

/-- Stronger, decomposed form: nothing is assumed about the start states or about what happened
    before the differing message (not even the same shape). -/
theorem history_binding_any_prefix (t t' : Transcript) (pre pre' post post' : List Op) (op op' : Op)
    (hk : Op.sameKind op op') (hm : Op.message op ≠ Op.message op') (hpost : SameKind post post') :
    (run H t (pre ++ op :: post)).1.digest ≠ (run H t' (pre' ++ op' :: post')).1.digest ∨
      PoseidonManyCollision H :=
  Proofs.Tr.history_binding_decomposed H t t' pre pre' post post' op op' hk hm hpost

/-- The same for the seed: different public-input digests give different transcript digests after
    any history (of the same sequence of kinds), or a collision. -/
theorem seed_binding (d d' : Felt) (h h' : List Op) (hs : SameKind h h') (hd : d ≠ d') :
    (run H (Transcript.new d) h).1.digest ≠ (run H (Transcript.new d') h').1.digest ∨
      PoseidonManyCollision H :=
  Proofs.Tr.run_digest_ne H _ _ h h' hs hd

/-- the challenge produced by a squeeze appended to a history (to read the next two theorems) -/
theorem squeeze_after (t : Transcript) (h : List Op) :
    (run H t (h ++ [.squeeze])).2 = (run H t h).2 ++ [(randomFelt H (run H t h).1).1] :=
  Proofs.Tr.squeeze_last H t h

/-- Any challenge squeezed after the differing message (after `n > i` operations): the two
    challenge values are equal only if a collision of `poseidon_hash` or of `poseidon_hash_many`
    exists. -/
theorem later_challenge_changes (t : Transcript) (h h' : List Op) (hs : SameShape h h') (i : ℕ)
    (hi : i < h.length) (hi' : i < h'.length) (hm : Op.message h[i] ≠ Op.message h'[i])
    (n : ℕ) (hn : i < n)
    (he : (randomFelt H (run H t (h.take n)).1).1 = (randomFelt H (run H t (h'.take n)).1).1) :
    Poseidon2Collision H ∨ PoseidonManyCollision H :=
  Proofs.Tr.later_challenge_changes H t h h' (Proofs.Tr.SameShape.sameKind hs) i hi hi' hm n hn he

/-- … and likewise any challenge after a different seed. -/
theorem challenge_changes_with_seed (d d' : Felt) (h h' : List Op) (hs : SameKind h h') (hd : d ≠ d')
    (he : (randomFelt H (run H (Transcript.new d) h).1).1 =
      (randomFelt H (run H (Transcript.new d') h').1).1) :
    Poseidon2Collision H ∨ PoseidonManyCollision H := by
  rcases seed_binding H d d' h h' hs hd with h1 | h1
  · exact Or.inl (Proofs.Tr.challenge_ne_of_digest_ne H _ _ h1 he)
  · exact Or.inr h1

/-! ### the protocol order of `stark_commit` -/

section commit
variable {H} {L : LayoutOps} {t t' : Transcript} {pi : PublicInput} {u : Stark.UnsentCommitment}
  {cfg : StarkConfig} {d : StarkDomains} {c : Stark.Commitment}

/-- An accepting commitment phase is the run of `Spec.commitScript`:
    absorb the first trace root, squeeze the interaction elements, absorb the second trace root,
    squeeze the composition challenge `a`, absorb the composition root, squeeze the OODS point,
    absorb the OODS values, squeeze the DEEP challenge `b`, then per FRI inner layer absorb its
    root and squeeze the next folding point, absorb the last-layer coefficients, absorb the nonce.
    The state returned is the final state of the run, and the returned challenges are the
    challenges of the run, in this order. -/
theorem commit_script (h : Stark.commit L H t pi u cfg d = .ok (t', c)) :
    let n := L.nInteractionElements
    let a := compositionAlpha H t n u.tracesOriginal u.tracesInteraction
    let b := oodsAlpha H t n u.tracesOriginal u.tracesInteraction u.composition u.oodsValues
    run H t (commitScript L u cfg) =
      (t', c.interactionElements ++ [a, c.interactionAfterComposition, b] ++ c.fri.evalPoints) ∧
    c.interactionElements.length = n ∧
    c.fri.evalPoints.length = (cfg.fri.nLayers - 1).val ∧
    (cfg.fri.nLayers - 1).val ≤ u.friInnerLayers.length ∧
    c.oodsValues = u.oodsValues ∧
    c.fri.lastLayerCoefficients = u.friLastLayerCoefficients ∧
    c.interactionAfterOods = Stark.powersArray (L.maskSize + L.constraintDegree) 1 b ∧
    Stark.verifyOods L u.oodsValues c.interactionElements pi
      (Stark.powersArray L.nConstraints 1 a) c.interactionAfterComposition
      d.traceDomainSize d.traceGenerator = .ok () := by
  intro n a b
  obtain ⟨s, h1, _, h3, _, h5, _, h7, h8, h9, h10, h11, h12⟩ :=
    Proofs.Tr.commit_run H L t t' pi u cfg d c h
  refine ⟨?_, h5, h7, h8, h9, h10, h11, h12⟩
  rw [Proofs.Tr.commitScript_eq, Proofs.Tr.run_append, h1, h3]
  simp [a, b, n]

/-- the interaction elements are squeezed after (only) the first trace root -/
theorem interaction_elements_after_first_trace (h : Stark.commit L H t pi u cfg d = .ok (t', c)) :
    c.interactionElements = interactionElements H t L.nInteractionElements u.tracesOriginal :=
  (Proofs.Tr.commit_run H L t t' pi u cfg d c h).choose_spec.2.2.2.1

/-- the OODS point is squeezed after the composition root was absorbed and before the OODS values
    are: it is `Spec.oodsPoint`, the first challenge of the state that absorbed `u.composition`,
    a function of the start state and the three table roots only. -/
theorem oods_point_before_oods_values (h : Stark.commit L H t pi u cfg d = .ok (t', c)) :
    c.interactionAfterComposition =
      (randomFelt H (readFelt H
        (randomFelt H (stateAfterTraces H t L.nInteractionElements u.tracesOriginal
          u.tracesInteraction)).2 u.composition)).1 :=
  (Proofs.Tr.commit_run H L t t' pi u cfg d c h).choose_spec.2.2.2.2.2.1

/-- consequently it does not depend on the OODS values (nor on anything sent later) -/
theorem oods_point_independent_of_oods_values {u₂ : Stark.UnsentCommitment} {t₂' : Transcript}
    {c₂ : Stark.Commitment} {pi₂ : PublicInput} {cfg₂ : StarkConfig} {d₂ : StarkDomains}
    (h : Stark.commit L H t pi u cfg d = .ok (t', c))
    (h₂ : Stark.commit L H t pi₂ u₂ cfg₂ d₂ = .ok (t₂', c₂))
    (h0 : u.tracesOriginal = u₂.tracesOriginal) (h1 : u.tracesInteraction = u₂.tracesInteraction)
    (h2 : u.composition = u₂.composition) :
    c.interactionAfterComposition = c₂.interactionAfterComposition := by
  rw [oods_point_before_oods_values h, oods_point_before_oods_values h₂, h0, h1, h2]

/-- the DEEP-combination challenge is squeezed after the OODS values were absorbed: the
    coefficients used in the DEEP quotient are the powers of the first challenge of the state
    that absorbed `u.oodsValues` -/
theorem oods_alpha_after_oods_values (h : Stark.commit L H t pi u cfg d = .ok (t', c)) :
    c.interactionAfterOods =
      Stark.powersArray (L.maskSize + L.constraintDegree) 1
        (randomFelt H (readFeltVector H
          (randomFelt H (stateAfterComposition H t L.nInteractionElements u.tracesOriginal
            u.tracesInteraction u.composition)).2 u.oodsValues)).1 :=
  (commit_script h).2.2.2.2.2.2.1

/-- the nonce is absorbed last: the proof-of-work check hashed the digest of the state `s` reached
    by the script without its last operation, and the returned state is `s` after reading the
    nonce (counter `0`, digest `poseidon_hash_many [s.digest + 1, nonce]`). -/
theorem nonce_absorbed_last (h : Stark.commit L H t pi u cfg d = .ok (t', c)) :
    let s := (run H t (commitScriptBeforeNonce L u cfg)).1
    commitScript L u cfg = commitScriptBeforeNonce L u cfg ++ [.absorbU64 u.powNonce] ∧
    Pow.verifyPow H s.digest.toBytesBE cfg.powBits u.powNonce = .ok () ∧
    t' = readU64 H s u.powNonce := by
  obtain ⟨s, h1, h2, h3, _⟩ := Proofs.Tr.commit_run H L t t' pi u cfg d c h
  intro s'
  have : s' = s := by simp only [s', h1]
  rw [this]
  exact ⟨Proofs.Tr.commitScript_eq L u cfg, h2, h3⟩

end commit

/-- query sampling starts from the state returned by `stark_commit`, i.e. after the nonce is
    absorbed; and that state descends from `(public-input hash, 0)` -/
theorem queries_after_nonce (L : LayoutOps) (stone6 : Bool) (p : Stark.Proof) (sb : Felt)
    (r : Felt × Felt) (h : Stark.verify L H stone6 p sb = .ok r) :
    ∃ d t' c qs tq,
      Stark.commit L H (Transcript.new (p.publicInput.getHash H stone6 p.config.nFriendly))
        p.publicInput p.unsent p.config d = .ok (t', c) ∧
      Queries.generateQueries H t' p.config.nQueries d.evalDomainSize = .ok (qs, tq) :=
  Proofs.Tr.verify_queries_state H L stone6 p sb r h

/-! ### non-vacuity -/

section examples

/-- a toy instance (Nat arithmetic only), used to run the model on concrete histories -/
def toyH : Hashes where
  poseidon2 x y := Felt.ofNat (x.val + 3 * y.val + 1)
  poseidonMany l := Felt.ofNat (l.foldl (fun a x => 31 * a + x.val + 1) 7)
  pedersen x y := Felt.ofNat (x.val + 5 * y.val + 2)
  h256 _ := List.replicate 32 0
  maskBytes := 20

/-- a concrete history: absorb, squeeze twice, absorb a vector, squeeze -/
example :
    run toyH (Transcript.new (Felt.ofNat 5))
      [.absorbFelt (Felt.ofNat 1), .squeeze, .squeeze, .absorbVec [Felt.ofNat 2, Felt.ofNat 3], .squeeze] =
      (⟨Felt.ofNat 6885662, Felt.ofNat 1⟩,
        [Felt.ofNat 6947, Felt.ofNat 6950, Felt.ofNat 6885663]) := by decide +kernel

/-- the hypotheses of `history_binding` / `later_challenge_changes` are satisfiable, and for the toy
    hash the first alternative (different digests) is the one that holds -/
example :
    let h : List Op := [.absorbFelt (Felt.ofNat 1), .squeeze, .absorbVec [Felt.ofNat 2, Felt.ofNat 3]]
    let h' : List Op := [.absorbFelt (Felt.ofNat 9), .squeeze, .absorbVec [Felt.ofNat 2, Felt.ofNat 3]]
    SameShape h h' ∧ Op.message h[0] ≠ Op.message h'[0] ∧
      (run toyH (Transcript.new (Felt.ofNat 5)) (h.take 3)).1.digest ≠
        (run toyH (Transcript.new (Felt.ofNat 5)) (h'.take 3)).1.digest := by
  refine ⟨⟨trivial, trivial, rfl, trivial⟩, by decide +kernel, by decide +kernel⟩

/-- a toy layout and proof data for which `stark_commit` accepts, so `commit_script` and its
    corollaries are not vacuous -/
def toyL : LayoutOps where
  nInteractionElements := 3
  nConstraints := 2
  maskSize := 1
  constraintDegree := 1
  numColumnsFirst _ := some 1
  numColumnsSecond _ := some 1
  evalComposition _ _ _ _ _ _ _ := .ok (Felt.ofNat 0)
  evalOods _ _ _ _ _ _ _ := .ok (Felt.ofNat 0)
  validatePublicInput _ _ := .ok ()
  verifyPublicInput _ := .ok (Felt.ofNat 0, Felt.ofNat 0)

def toyU : Stark.UnsentCommitment :=
  ⟨Felt.ofNat 11, Felt.ofNat 12, Felt.ofNat 13, [Felt.ofNat 0, Felt.ofNat 0],
   [Felt.ofNat 21, Felt.ofNat 22], [Felt.ofNat 31], 77⟩

def toyTable : Fri.TableConfig := ⟨Felt.ofNat 1, ⟨Felt.ofNat 4, Felt.ofNat 0⟩⟩

def toyCfg : StarkConfig :=
  { traces := ⟨toyTable, toyTable⟩, composition := toyTable,
    fri := ⟨Felt.ofNat 4, Felt.ofNat 3, [toyTable, toyTable], [Felt.ofNat 0, Felt.ofNat 1, Felt.ofNat 1],
            Felt.ofNat 0⟩,
    powBits := 30, logTraceDomainSize := Felt.ofNat 2, nQueries := Felt.ofNat 1,
    logNCosets := Felt.ofNat 1, nFriendly := Felt.ofNat 0 }

def toyPI : PublicInput :=
  ⟨Felt.ofNat 1, Felt.ofNat 0, Felt.ofNat 1, Felt.ofNat 0, none, [], Felt.ofNat 0, Felt.ofNat 0, [], []⟩

def toyD : StarkDomains := ⟨Felt.ofNat 0, Felt.ofNat 0, Felt.ofNat 0, Felt.ofNat 0, Felt.ofNat 0,
  Felt.ofNat 0⟩

example : (Stark.commit toyL toyH (Transcript.new (Felt.ofNat 5)) toyPI toyU toyCfg toyD).isOk = true := by
  decide +kernel

/-- the script of that run has 3 + 1 + 1 + 1 + 2 = 8 squeezes and 8 absorptions -/
example : (commitScript toyL toyU toyCfg).length = 16 ∧
    (run toyH (Transcript.new (Felt.ofNat 5)) (commitScript toyL toyU toyCfg)).2.length = 8 := by
  decide +kernel

end examples

end Swiftness.C08
