/-
  C12 — evaluation and trace domains have generators of exactly the right order.
  Only property theorems and non-vacuity examples live here; helper lemmas are in `Proofs/`.
-/
import Swiftness.Model.Domains
import Swiftness.Proofs.Domains

namespace Swiftness.C12

open Swiftness

/-- `StarkDomains::new` never panics and always returns (for every pair of field elements). -/
theorem new_ok (t c : Felt) : ∃ d, StarkDomains.new t c = .ok d := Proofs.domains_new_ok t c

/-- The evaluation-domain generator has multiplicative order exactly `2^(t+c)`. -/
theorem eval_generator_order (t c : Felt) (h : t.val + c.val ≤ 192) (d : StarkDomains)
    (hd : StarkDomains.new t c = .ok d) :
    orderOf d.evalGenerator = 2 ^ (t.val + c.val) := Proofs.eval_generator_order t c h d hd

/-- The trace-domain generator has multiplicative order exactly `2^t`. -/
theorem trace_generator_order (t c : Felt) (h : t.val + c.val ≤ 192) (d : StarkDomains)
    (hd : StarkDomains.new t c = .ok d) :
    orderOf d.traceGenerator = 2 ^ t.val := Proofs.trace_generator_order t c h d hd

/-- … and equals the evaluation generator raised to `2^c`. -/
theorem trace_eq_eval_pow (t c : Felt) (h : t.val + c.val ≤ 192) (d : StarkDomains)
    (hd : StarkDomains.new t c = .ok d) :
    d.traceGenerator = d.evalGenerator ^ (2 ^ c.val) := Proofs.trace_eq_eval_pow t c h d hd

/-- The reported sizes and exponents are those powers of two (as natural numbers, no wrap). -/
theorem sizes_eq (t c : Felt) (h : t.val + c.val ≤ 192) (d : StarkDomains)
    (hd : StarkDomains.new t c = .ok d) :
    d.evalDomainSize.val = 2 ^ (t.val + c.val) ∧ d.traceDomainSize.val = 2 ^ t.val ∧
    d.logEvalDomainSize.val = t.val + c.val ∧ d.logTraceDomainSize = t :=
  Proofs.sizes_eq t c h d hd

/-- non-vacuity: the fixture's `(18, 4)` meets the hypotheses and yields a value. -/
example : (Felt.ofNat 18).val + (Felt.ofNat 4).val ≤ 192 ∧
    ∃ d, StarkDomains.new (Felt.ofNat 18) (Felt.ofNat 4) = .ok d :=
  ⟨by decide +kernel, new_ok _ _⟩

end Swiftness.C12
