/-
  Specification of the Merkle tree behind a vector commitment (core Lean only, executable).

  Conventions (as in `crates/commitment/src/vector/decommit.rs`):
  * a tree of height `h` has `2^h` leaves; nodes are addressed by *heap indices*: the root is `1`,
    the children of `i` are `2*i` and `2*i+1`, the leaves are `2^h … 2^(h+1)-1`
    (leaf number `j` has heap index `j + 2^h`);
  * a node "`k` levels above the leaves" has depth `h - k`; two children of depth `d` are hashed with
    the verifier-friendly hash iff `nf ≥ d` (`nf` = `n_verifier_friendly_commitment_layers`),
    otherwise with the masked hash.
-/
import Swiftness.Model.Vector

namespace Swiftness.Merkle

open Swiftness

/-- value of the node `k` levels above the leaves with heap index `i`, in the tree of height `h`
    over `leaf`.  (The two children hashed at level `k+1` have depth `h - k`.) -/
def nodeAt (H : Hashes) (nf : Felt) (h : Nat) (leaf : Nat → Felt) : Nat → Nat → Felt
  | 0, i => leaf (i - 2 ^ h)
  | k + 1, i =>
    Vector.hashFU H (nodeAt H nf h leaf k (2 * i)) (nodeAt H nf h leaf k (2 * i + 1))
      (decide (nf.val ≥ h - k))

/-- the committed root -/
def root (H : Hashes) (nf : Felt) (h : Nat) (leaf : Nat → Felt) : Felt := nodeAt H nf h leaf h 1

/-- heap index of the sibling -/
def sibling (i : Nat) : Nat := if i % 2 = 0 then i + 1 else i - 1

/-- heap indices of the parents of a strictly increasing list of heap indices of one layer
    (two adjacent siblings share one parent) -/
def parents : List Nat → List Nat
  | [] => []
  | [i] => [i / 2]
  | i :: j :: t =>
    if i % 2 = 0 ∧ i + 1 = j then i / 2 :: parents t else i / 2 :: parents (j :: t)

/-- heap indices of the siblings that are *not* themselves in the (strictly increasing) list,
    left to right: exactly the nodes a verifier must be given for this layer -/
def siblings : List Nat → List Nat
  | [] => []
  | [i] => [sibling i]
  | i :: j :: t =>
    if i % 2 = 0 ∧ i + 1 = j then siblings t else sibling i :: siblings (j :: t)

/-- sibling values for `n` consecutive layers starting `k` levels above the leaves, where `L` are the
    known heap indices of that layer: bottom layer up, left to right -/
def authLayers (H : Hashes) (nf : Felt) (h : Nat) (leaf : Nat → Felt) :
    Nat → Nat → List Nat → List Felt
  | 0, _, _ => []
  | n + 1, k, L =>
    (siblings L).map (nodeAt H nf h leaf k) ++ authLayers H nf h leaf n (k + 1) (parents L)

/-- the authentication path for the strictly increasing list `Q` of leaf numbers `< 2^h` -/
def authPath (H : Hashes) (nf : Felt) (h : Nat) (leaf : Nat → Felt) (Q : List Nat) : List Felt :=
  authLayers H nf h leaf h 0 (Q.map (· + 2 ^ h))

/-- an explicit collision of the node hash: two different ordered pairs of children with the same
    parent value under the same variant (`f = true`: `H.poseidon2`; `f = false`: `H.masked` of the
    64-byte concatenation). -/
def Collision (H : Hashes) : Prop :=
  ∃ x y x' y' f, (x, y) ≠ (x', y') ∧ Vector.hashFU H x y f = Vector.hashFU H x' y' f

end Swiftness.Merkle
