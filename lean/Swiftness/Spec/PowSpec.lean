/-
  C09 specification: number of leading zero bits of a big-endian byte string (core Lean only).
-/
namespace Swiftness.Spec

/-- leading zero bits of one non-zero byte: `7 - ⌊log₂ b⌋` (`0x80.. ↦ 0`, `0x01 ↦ 7`). -/
def clz8 (b : UInt8) : Nat := 7 - Nat.log2 b.toNat

/-- number of leading zero bits of the big-endian byte string `bs`: a zero byte contributes 8 and
    the count continues; the first non-zero byte contributes its own leading zeros and stops. -/
def leadingZeroBits : List UInt8 → Nat
  | [] => 0
  | b :: bs => if b = 0 then 8 + leadingZeroBits bs else clz8 b

end Swiftness.Spec
