/-
  Specification vocabulary for C06 (FRI folding).  Core Lean only.

  A polynomial is the list of its coefficients, lowest degree first.
  `split k cs j` (for `j < 2^k`) is the coefficient list of `P_j` in the unique decomposition
      P(x) = Σ_{j < 2^k} x^j · P_j(x^(2^k)),
  i.e. the coefficients of `P` whose index is `≡ j (mod 2^k)` (`Proofs.split_getElem?`).
-/
namespace Swiftness.FoldSpec

/-- evaluation of a coefficient list (lowest degree first) -/
def evalL {F : Type} [Zero F] [Add F] [Mul F] : List F → F → F
  | [], _ => 0
  | c :: cs, x => c + x * evalL cs x

/-- coefficients at even positions: `P(x) = P_e(x²) + x·P_o(x²)` -/
def evens {α : Type} : List α → List α
  | [] => []
  | [a] => [a]
  | a :: _ :: t => a :: evens t

/-- coefficients at odd positions -/
def odds {α : Type} : List α → List α
  | [] => []
  | [_] => []
  | _ :: b :: t => b :: odds t

/-- `split k cs j`: coefficients of `cs` at positions `j, j + 2^k, j + 2·2^k, …` (for `j < 2^k`).
    The bits of `j` are consumed from the most significant one down: the `2^k`-way split refines the
    `2^(k-1)`-way split `P_j` into `P_j = (P_j)_e(·²) + ·(P_j)_o(·²)`, giving the new components
    `j` and `j + 2^(k-1)`. -/
def split {α : Type} : Nat → List α → Nat → List α
  | 0, cs, _ => cs
  | k + 1, cs, j => if j < 2 ^ k then evens (split k cs j) else odds (split k cs (j - 2 ^ k))

/-- bit reversal of a `k`-bit number -/
def bitrev : Nat → Nat → Nat
  | 0, _ => 0
  | k + 1, i => 2 ^ k * (i % 2) + bitrev k (i / 2)

/-! ### vocabulary for the per-layer step

  A layer is a table `yv : Nat → α` of values indexed by (bit-reversed) domain index; it is laid out
  coset-wise: coset `c` occupies the indices `c*n, …, c*n + n-1`.  `qi` is the list of queried indices,
  `cidx` the list of cosets containing a query. -/

/-- the sibling values the verifier consumes: coset by coset, the values at the non-queried offsets -/
def expectedSiblings {α : Type} (n : Nat) (yv : Nat → α) (cidx qi : List Nat) : List α :=
  cidx.flatMap fun c =>
    ((List.range n).filter (fun i => decide (c * n + i ∉ qi))).map (fun i => yv (c * n + i))

/-- all values of the cosets `cidx`, coset by coset (what is sent to the Merkle decommitment) -/
def cosetValues {α : Type} (n : Nat) (yv : Nat → α) (cidx : List Nat) : List α :=
  cidx.flatMap fun c => (List.range n).map (fun i => yv (c * n + i))

end Swiftness.FoldSpec
