/-
  Specification of the diluted-check cumulative value (`crates/air/src/diluted.rs`, the comment
  above `get_diluted_product`).  Core Lean only.

  `dilute spacing j` spreads the bits of `j`: bit `b` of `j` moves to position `b * spacing`,
  i.e. `dilute spacing j = Σ_b bit_b(j) · 2^(b·spacing)`.
  `u_j = Dilute(j) - Dilute(j-1)` (in the field), and the cumulative value is
  `r_1 = 1`, `r_(j+1) = r_j · (1 + z·u_j) + alpha · u_j²`.
-/
import Swiftness.Model.Felt

namespace Swiftness.DilutedSpec

/-- spread the bits of `j` so that bit `b` lands at position `b * spacing` -/
def dilute (spacing : Nat) (j : Nat) : Nat :=
  if h : j = 0 then 0 else j % 2 + 2 ^ spacing * dilute spacing (j / 2)
termination_by j
decreasing_by omega

/-- `u_j = Dilute(j) - Dilute(j-1)` as a field element (used for `j ≥ 1`) -/
def u (spacing : Nat) (j : Nat) : Felt :=
  Felt.ofNat (dilute spacing j) - Felt.ofNat (dilute spacing (j - 1))

/-- the defining recurrence: `r 1 = 1`, `r (j+1) = r j * (1 + z * u j) + alpha * (u j)^2` for
    `j ≥ 1` (`r 0` is unused junk). -/
def r (spacing : Nat) (z alpha : Felt) : Nat → Felt
  | 0 => 0
  | 1 => 1
  | j + 2 =>
    r spacing z alpha (j + 1) * (1 + z * u spacing (j + 1))
      + alpha * (u spacing (j + 1) * u spacing (j + 1))

end Swiftness.DilutedSpec
