/-
  C11 specification: a configuration is consistent and sufficiently secure, reading every number
  as a natural number (`.val`), never modulo the field.  Literal bounds are the ones in the
  property statement; the model uses the constants translated from the Rust sources, so a changed
  constant breaks `validate_iff`.
-/
import Swiftness.Model.StarkConfig

namespace Swiftness.Spec
open Swiftness

/-- sum of the first `k` entries after the leading one: `Σ_{1 ≤ j ≤ k} steps[j]` -/
def stepSum (steps : List Felt) (k : Nat) : Nat :=
  (((steps.drop 1).take k).map (·.val)).sum

/-- inner layer `i` (1-based step index `i`, table `i-1`) is as the FRI description demands -/
def InnerLayerOK (fri : Fri.Config) (nFriendly : Felt) (i : Nat) : Prop :=
  ∃ step tc, fri.friStepSizes[i]? = some step ∧ fri.innerLayers[i - 1]? = some tc ∧
    1 ≤ step.val ∧ step.val ≤ 4 ∧
    tc.nColumns.val = 2 ^ step.val ∧
    tc.vector.height.val + stepSum fri.friStepSizes i = fri.logInputSize.val ∧
    tc.vector.nFriendly = nFriendly

def VectorOK (v : Vector.Config) (c : StarkConfig) : Prop :=
  v.height.val = c.logTraceDomainSize.val + c.logNCosets.val ∧ v.nFriendly = c.nFriendly

/-- the property's acceptance condition, clause by clause -/
def ConfigOK (c : StarkConfig) (sec nColsFirst nColsSecond : Felt) : Prop :=
  -- proof-of-work bits in 20..=50
  (20 ≤ c.powBits ∧ c.powBits ≤ 50) ∧
  -- blow-up exponent in 1..=16, query count in 1..=48
  (1 ≤ c.logNCosets.val ∧ c.logNCosets.val ≤ 16) ∧
  (1 ≤ c.nQueries.val ∧ c.nQueries.val ≤ 48) ∧
  -- query count × blow-up exponent + PoW bits reaches the caller's security level
  sec.val ≤ c.nQueries.val * c.logNCosets.val + c.powBits ∧
  -- trace column counts equal the layout's
  c.traces.original.nColumns = nColsFirst ∧ c.traces.interaction.nColumns = nColsSecond ∧
  -- every trace / composition commitment: height = t + c, global friendly-layer count
  VectorOK c.traces.original.vector c ∧ VectorOK c.traces.interaction.vector c ∧
  VectorOK c.composition.vector c ∧
  -- FRI: 2..=15 layers, vectors long enough, first step 0
  (2 ≤ c.fri.nLayers.val ∧ c.fri.nLayers.val ≤ 15) ∧
  c.fri.nLayers.val ≤ c.fri.friStepSizes.length ∧ c.fri.nLayers.val - 1 ≤ c.fri.innerLayers.length ∧
  c.fri.friStepSizes[0]? = some 0 ∧
  -- other steps in 1..=4, 2^step columns, telescoping heights, friendly count
  (∀ i, 1 ≤ i → i < c.fri.nLayers.val → InnerLayerOK c.fri c.nFriendly i) ∧
  -- last-layer bound at most 2^15
  c.fri.logLastLayerDegreeBound.val ≤ 15 ∧
  -- input size exponent = Σ steps + last bound + blow-up exponent = evaluation-domain exponent
  c.fri.logInputSize.val =
    stepSum c.fri.friStepSizes (c.fri.nLayers.val - 1) + c.fri.logLastLayerDegreeBound.val + c.logNCosets.val ∧
  c.fri.logInputSize.val = c.logTraceDomainSize.val + c.logNCosets.val

end Swiftness.Spec
