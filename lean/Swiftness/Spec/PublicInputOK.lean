/-
  C14 specification vocabulary (core Lean only): the natural-number reading of
  `validate_public_input` / `verify_public_input` of the six static layouts
  (`crates/air/src/layout/<L>/mod.rs`), over the translator-read `LayoutData`.
-/
import Swiftness.Model.LayoutStatic

namespace Swiftness.Spec

open Swiftness Swiftness.LayoutData

/-- memory cells used by a segment: the MODULAR difference `stop_ptr - begin_addr` read as a
    natural number (a stop pointer below the begin pointer wraps to a number near `P`). -/
def usage (s : SegmentInfo) : Nat := (s.stopPtr - s.beginAddr).val

/-- one row `(segment index, row ratio, cells per instance)` of the builtin table: the segment is
    present, the row ratio divides the trace length (the trace holds a whole number
    `traceLen / ratio` of instances; for power-of-two lengths: the trace is at least as long as one
    instance), the segment's usage is a whole number of instances, and that number does not exceed
    the number of instances the trace holds. -/
def BuiltinRowOK (pi : PublicInput) (traceLen : Nat) : Nat × Nat × Nat → Prop
  | (seg, ratio, cells) =>
    ∃ s, pi.segments[seg]? = some s ∧ ratio ∣ traceLen ∧
      cells ∣ usage s ∧ usage s / cells ≤ traceLen / ratio

/-- what `validate_public_input` is meant to accept, over the naturals -/
def PublicInputOK (D : LayoutData) (pi : PublicInput) (traceLen : Nat) : Prop :=
  pi.logNSteps.val < 80 ∧
  2 ^ pi.logNSteps.val * D.constD "CPU_COMPONENT_HEIGHT" * D.constD "CPU_COMPONENT_STEP" = traceLen ∧
  pi.segments.length = D.constD "SEG_N_SEGMENTS" ∧
  pi.rangeCheckMin.val < pi.rangeCheckMax.val ∧
  pi.rangeCheckMax.val ≤ 65535 ∧
  pi.layout = Felt.ofNat (D.constD "LAYOUT_CODE") ∧
  (∃ out, pi.segments[D.constD "SEG_OUTPUT"]? = some out ∧ usage out ≤ 2 ^ 128 - 1) ∧
  ∀ row ∈ D.builtins, BuiltinRowOK pi traceLen row

/-- well-formedness of the translator-read layout data, as far as `validate_public_input` is
    concerned -/
structure WellFormed (D : LayoutData) : Prop where
  maxLogNSteps : D.MAX_LOG_N_STEPS = 80
  maxRangeCheck : D.MAX_RANGE_CHECK = 65535
  cpu : D.constD "CPU_COMPONENT_HEIGHT" * D.constD "CPU_COMPONENT_STEP" < 2 ^ 32
  /-- cells per instance in `1..16`, row ratios powers of two `≤ 2^20` -/
  rows : ∀ row ∈ D.builtins, 1 ≤ row.2.2 ∧ row.2.2 ≤ 16 ∧ ∃ r, r ≤ 20 ∧ row.2.1 = 2 ^ r

/-- number of program cells: `initial_ap - 2 - initial_pc` (modular difference read as a natural) -/
def programLen (prog exec : SegmentInfo) : Nat := (exec.beginAddr - 2 - prog.beginAddr).val

/-- what `verify_public_input` accepts, and what it then returns.  The program is the first
    `programLen prog exec` cells of the main page, the output its last `usage out` cells; every
    one of these cells must sit at its address (`initial_pc + i`, `output_begin + i`).
    (`programLen + outputLen < 2^64` is the `checked_add`; it follows from the next conjunct for
    any page that fits in memory.) -/
def VerifyOK (D : LayoutData) (H : Hashes) (pi : PublicInput) (a b : Felt) : Prop :=
  ∃ prog exec out,
    pi.segments[D.constD "SEG_PROGRAM"]? = some prog ∧
    pi.segments[D.constD "SEG_EXECUTION"]? = some exec ∧
    pi.segments[D.constD "SEG_OUTPUT"]? = some out ∧
    exec.beginAddr.val < D.MAX_ADDRESS ∧
    exec.stopPtr.val < D.MAX_ADDRESS ∧
    pi.continuousPageHeaders = [] ∧
    prog.beginAddr = Felt.ofNat D.INITIAL_PC ∧
    prog.stopPtr = Felt.ofNat D.INITIAL_PC + 4 ∧
    programLen prog exec < 2 ^ 64 ∧ usage out < 2 ^ 64 ∧
    programLen prog exec + usage out < 2 ^ 64 ∧
    programLen prog exec + usage out ≤ pi.mainPage.length ∧
    (∀ i, i < programLen prog exec →
      (pi.mainPage[i]?).map (·.address) = some (prog.beginAddr + Felt.ofNat i)) ∧
    (∀ i, i < usage out →
      (pi.mainPage[pi.mainPage.length - usage out + i]?).map (·.address) =
        some (out.beginAddr + Felt.ofNat i)) ∧
    a = hashChain H ((pi.mainPage.take (programLen prog exec)).map (·.value)) ∧
    b = hashChain H ((pi.mainPage.drop (pi.mainPage.length - usage out)).map (·.value))

end Swiftness.Spec
