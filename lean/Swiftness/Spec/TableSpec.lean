/-
  Specification of a committed table (core Lean only, executable).

  A table with `n` columns and `2^h` rows, `cell r c` being the (plain, non-Montgomery) value in row
  `r`, column `c`.  Its commitment is the Merkle root (`Spec/Merkle.lean`, height `h`) over one leaf
  per row:
  * the row is first put into Montgomery form (every cell multiplied by `MONTGOMERY_R`);
  * a single-column row is used as the leaf unhashed;
  * otherwise the row is hashed — with `poseidonMany` if the table layer (depth `h + 1`) is a
    verifier-friendly layer (`nf ≥ h + 1`), else with the masked hash of the concatenated 32-byte
    big-endian encodings.
-/
import Swiftness.Model.Table
import Swiftness.Spec.Merkle

namespace Swiftness.TableSpec

open Swiftness

/-- the table layer has depth `h + 1` -/
def bottomFriendly (nf : Felt) (h : Nat) : Bool := decide (nf.val ≥ h + 1)

/-- row `r` in Montgomery form -/
def montRow (cell : Nat → Nat → Felt) (n : Nat) (r : Nat) : List Felt :=
  (List.range n).map fun c => cell r c * Table.MONTGOMERY_R

/-- leaf made from one (Montgomery-form) row -/
def rowLeaf (H : Hashes) (friendly : Bool) : List Felt → Felt
  | [v] => v
  | row => if friendly then H.poseidonMany row else H.masked (row.flatMap Felt.toBytesBE)

/-- the leaves of the underlying vector commitment -/
def tableLeaf (H : Hashes) (nf : Felt) (h n : Nat) (cell : Nat → Nat → Felt) (r : Nat) : Felt :=
  rowLeaf H (bottomFriendly nf h) (montRow cell n r)

/-- the committed root of the table -/
def tableRoot (H : Hashes) (nf : Felt) (h n : Nat) (cell : Nat → Nat → Felt) : Felt :=
  Merkle.root H nf h (tableLeaf H nf h n cell)

/-- the decommitment values for the rows `Q`: the plain cells, row after row -/
def rowValues (cell : Nat → Nat → Felt) (n : Nat) (Q : List Nat) : List Felt :=
  Q.flatMap fun r => (List.range n).map (cell r)

/-- explicit collision of `poseidonMany` -/
def ManyCollision (H : Hashes) : Prop := ∃ l l' : List Felt, l ≠ l' ∧ H.poseidonMany l = H.poseidonMany l'

/-- explicit collision of the masked hash on byte strings -/
def MaskedCollision (H : Hashes) : Prop :=
  ∃ b b' : List UInt8, b ≠ b' ∧ H.masked b = H.masked b'

end Swiftness.TableSpec
