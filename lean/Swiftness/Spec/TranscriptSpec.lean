/-
  C08 / C13 specification vocabulary (core Lean only).

  * what a transcript history *absorbs* (`Op.message`), when two histories have the same *shape*,
  * explicit hash collisions (the conclusions of the binding theorems: there is no injectivity
    hypothesis anywhere, a binding theorem says "… or here are two different inputs with the same
    hash"),
  * the Fiat–Shamir *script* of the commitment phase (`commitScript`): the exact sequence of
    absorb / squeeze operations `stark_commit` performs on the transcript.
-/
import Swiftness.Model.Stark

namespace Swiftness.Spec

open Swiftness Swiftness.Transcript

/-! ### explicit collisions -/

/-- two different input pairs of `poseidon_hash` with the same output -/
def Poseidon2Collision (H : Hashes) : Prop :=
  ∃ x y x' y', (x, y) ≠ (x', y') ∧ H.poseidon2 x y = H.poseidon2 x' y'

/-- two different input lists of `poseidon_hash_many` with the same output -/
def PoseidonManyCollision (H : Hashes) : Prop :=
  ∃ l l' : List Felt, l ≠ l' ∧ H.poseidonMany l = H.poseidonMany l'

/-- two different input pairs of `pedersen_hash` with the same output -/
def PedersenCollision (H : Hashes) : Prop :=
  ∃ x y x' y', (x, y) ≠ (x', y') ∧ H.pedersen x y = H.pedersen x' y'

/-! ### histories -/

/-- the field elements an operation absorbs (`none` for a squeeze, which absorbs nothing and only
    moves the counter) -/
def Op.message : Op → Option (List Felt)
  | .absorbFelt v => some [v]
  | .absorbVec vs => some vs
  | .absorbU64 n => some [Felt.ofNat n]
  | .squeeze => none

/-- the message list of a history: everything absorbed, in order -/
def messages (h : List Op) : List (List Felt) := h.filterMap Op.message

/-- same kind of operation (the absorbed data is free) -/
def Op.sameKind : Op → Op → Prop
  | .absorbFelt _, .absorbFelt _ => True
  | .absorbVec _, .absorbVec _ => True
  | .absorbU64 _, .absorbU64 _ => True
  | .squeeze, .squeeze => True
  | _, _ => False

/-- same kind, and vectors of the same length -/
def Op.sameShape : Op → Op → Prop
  | .absorbFelt _, .absorbFelt _ => True
  | .absorbVec a, .absorbVec b => a.length = b.length
  | .absorbU64 _, .absorbU64 _ => True
  | .squeeze, .squeeze => True
  | _, _ => False

/-- two histories with the same sequence of operation kinds -/
def SameKind : List Op → List Op → Prop
  | [], [] => True
  | a :: as, b :: bs => Op.sameKind a b ∧ SameKind as bs
  | _, _ => False

/-- two histories of the same shape: same sequence of operation kinds, vectors of equal lengths -/
def SameShape : List Op → List Op → Prop
  | [], [] => True
  | a :: as, b :: bs => Op.sameShape a b ∧ SameShape as bs
  | _, _ => False

/-! ### the script of `stark_commit` -/

/-- `traces_commit`, the composition challenge and the composition root: everything up to and
    including the absorption of the composition-polynomial root.  Arguments: the number of
    interaction elements of the layout and the three table roots — NOT the OODS values. -/
def scriptToComposition (nInteraction : Nat) (tracesOriginal tracesInteraction composition : Felt) :
    List Op :=
  [Op.absorbFelt tracesOriginal] ++ List.replicate nInteraction Op.squeeze ++
  [Op.absorbFelt tracesInteraction, Op.squeeze, Op.absorbFelt composition]

/-- the FRI commitment rounds: each inner-layer root is absorbed, then the next folding point is
    squeezed -/
def friRoundsScript (roots : List Felt) : List Op :=
  roots.flatMap (fun r => [Op.absorbFelt r, Op.squeeze])

/-- the whole commitment phase, in protocol order -/
def commitScript (L : LayoutOps) (u : Stark.UnsentCommitment) (cfg : StarkConfig) : List Op :=
  [Op.absorbFelt u.tracesOriginal] ++ List.replicate L.nInteractionElements Op.squeeze ++
  [Op.absorbFelt u.tracesInteraction, Op.squeeze, Op.absorbFelt u.composition, Op.squeeze,
   Op.absorbVec u.oodsValues, Op.squeeze] ++
  friRoundsScript (u.friInnerLayers.take (cfg.fri.nLayers - 1).val) ++
  [Op.absorbVec u.friLastLayerCoefficients, Op.absorbU64 u.powNonce]

/-- the commitment phase without its last operation (the absorption of the proof-of-work nonce) -/
def commitScriptBeforeNonce (L : LayoutOps) (u : Stark.UnsentCommitment) (cfg : StarkConfig) :
    List Op :=
  scriptToComposition L.nInteractionElements u.tracesOriginal u.tracesInteraction u.composition ++
  [Op.squeeze, Op.absorbVec u.oodsValues, Op.squeeze] ++
  friRoundsScript (u.friInnerLayers.take (cfg.fri.nLayers - 1).val) ++
  [Op.absorbVec u.friLastLayerCoefficients]

/-! ### the challenges of the commitment phase, as explicit functions of what precedes them

  Each definition lists exactly the prover messages it depends on: the start state `t` (whose
  digest is the public-input hash), the number `n` of interaction elements of the layout, and the
  roots / values absorbed so far. -/

/-- state after `traces_commit`: both trace roots absorbed, `n` interaction elements squeezed in
    between -/
def stateAfterTraces (H : Hashes) (t : Transcript) (n : Nat) (tracesOriginal tracesInteraction : Felt) :
    Transcript :=
  (run H t ([Op.absorbFelt tracesOriginal] ++ List.replicate n Op.squeeze ++
    [Op.absorbFelt tracesInteraction])).1

/-- the interaction elements: squeezed after the first trace root only -/
def interactionElements (H : Hashes) (t : Transcript) (n : Nat) (tracesOriginal : Felt) : List Felt :=
  (run H t ([Op.absorbFelt tracesOriginal] ++ List.replicate n Op.squeeze)).2

/-- `composition_alpha` (constraint-combination challenge): squeezed after both trace roots -/
def compositionAlpha (H : Hashes) (t : Transcript) (n : Nat) (r0 r1 : Felt) : Felt :=
  (randomFelt H (stateAfterTraces H t n r0 r1)).1

/-- state after the composition root has been absorbed -/
def stateAfterComposition (H : Hashes) (t : Transcript) (n : Nat) (r0 r1 composition : Felt) :
    Transcript :=
  readFelt H (randomFelt H (stateAfterTraces H t n r0 r1)).2 composition

/-- the OODS point `interaction_after_composition`: squeezed after the composition root; the OODS
    values are not among its arguments -/
def oodsPoint (H : Hashes) (t : Transcript) (n : Nat) (r0 r1 composition : Felt) : Felt :=
  (randomFelt H (stateAfterComposition H t n r0 r1 composition)).1

/-- state after the OODS values have been absorbed -/
def stateAfterOodsValues (H : Hashes) (t : Transcript) (n : Nat) (r0 r1 composition : Felt)
    (oodsValues : List Felt) : Transcript :=
  readFeltVector H (randomFelt H (stateAfterComposition H t n r0 r1 composition)).2 oodsValues

/-- `oods_alpha` (DEEP-combination challenge): squeezed after the OODS values were absorbed -/
def oodsAlpha (H : Hashes) (t : Transcript) (n : Nat) (r0 r1 composition : Felt)
    (oodsValues : List Felt) : Felt :=
  (randomFelt H (stateAfterOodsValues H t n r0 r1 composition oodsValues)).1

/-! ### C13: the fields of the public input bound by the transcript seed -/

/-- the part of a continuous-page header that `get_hash` hashes (`prod` is not hashed) -/
def headerKey (h : ContinuousPageHeader) : Felt × Felt × Felt := (h.startAddress, h.size, h.hash)

/-- two public inputs (and, under Stone 6, friendly-layer counts) agree on everything the seed
    binds: step count, range-check bounds, layout code, dynamic parameters, segments, padding cell,
    the whole main page (hence its length), the number of continuous pages and each header's
    address, size and hash, and — if `stone6` — the friendly-layer count. -/
def SeedFieldsEq (stone6 : Bool) (nfA nfB : Felt) (a b : PublicInput) : Prop :=
  a.logNSteps = b.logNSteps ∧ a.rangeCheckMin = b.rangeCheckMin ∧
  a.rangeCheckMax = b.rangeCheckMax ∧ a.layout = b.layout ∧
  a.dynamicParams = b.dynamicParams ∧ a.segments = b.segments ∧
  a.paddingAddr = b.paddingAddr ∧ a.paddingValue = b.paddingValue ∧
  a.mainPage = b.mainPage ∧
  a.continuousPageHeaders.map headerKey = b.continuousPageHeaders.map headerKey ∧
  (stone6 = true → nfA = nfB)

/-- "same layout" shape proviso of C13: same segment count, same presence and number of dynamic
    parameters (each a `usize`), main-page lengths that fit a `usize` -/
def SeedShape (a b : PublicInput) : Prop :=
  a.segments.length = b.segments.length ∧
  a.dynamicParams.map List.length = b.dynamicParams.map List.length ∧
  (∀ d ∈ a.dynamicParams.getD [], d < 2 ^ 64) ∧ (∀ d ∈ b.dynamicParams.getD [], d < 2 ^ 64) ∧
  a.mainPage.length < 2 ^ 64 ∧ b.mainPage.length < 2 ^ 64

end Swiftness.Spec
