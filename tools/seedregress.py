#!/usr/bin/env python3
"""Re-run the quick checks against every kept seeded change (/verif/seeded/<id>/) and compare with meta.json["detected_by"].
usage: seedregress.py [<seed-id-prefix> ...]         (must not run concurrently with any other check: it patches /repo)
For each seed: git -C /repo apply patch.diff; ./check <Cxx> quick for each property in detected_by; git -C /repo checkout -- .
Records rc / VIOLATION line / seconds in meta.json["regress"], stores the replay as replay-<Cxx>.json, and feeds the failing case
into /verif/corpus/<Cxx>.jsonl (tools/add_corpus.py) so that it runs first in every later check.
Afterwards the generated Lean files are regenerated from the clean tree."""
import json, os, shutil, subprocess, sys, time
os.environ['VERIF_EVIDENCE_DIR'] = '/verif/.cache/seed-evidence'   # never overwrite the committed evidence from a patched tree
SEEDED = '/verif/seeded'


def sh(cmd, cwd='/verif', timeout=3400):
    r = subprocess.run(cmd, shell=True, cwd=cwd, stdout=subprocess.PIPE, stderr=subprocess.STDOUT, text=True, timeout=timeout)
    return r.returncode, r.stdout


def clean():
    sh('git -C /repo checkout -- . && git -C /repo clean -fdq -- crates proof_parser cli')


def main():
    want = sys.argv[1:]
    rc, o = sh('git -C /repo status --porcelain')
    if o.strip():
        print('refusing: /repo is not clean:\n' + o); return 2
    rows, bad = [], 0
    for sid in sorted(os.listdir(SEEDED)):
        if want and not any(sid.startswith(w) for w in want): continue
        d = f'{SEEDED}/{sid}'
        meta = json.load(open(f'{d}/meta.json'))
        props = meta.get('detected_by') or [meta.get('breaks_property') or sid[:3]]
        rc, o = sh(f'git -C /repo apply {d}/patch.diff')
        if rc != 0:
            print(f'{sid}: patch does not apply: {o[-300:]}'); bad += 1; clean(); continue
        res = {}
        try:
            for p in props:
                t0 = time.time()
                rc, o = sh(f'./check {p} quick')
                vl = [l for l in o.splitlines() if l.startswith('VIOLATION')]
                res[p] = {'rc': rc, 'seconds': round(time.time() - t0), 'violation_line': vl[0] if vl else None,
                          'what': [l for l in o.splitlines() if l.startswith(('violation', 'broken'))][:3]}
                if vl and 'replay=' in vl[0]:
                    rf = vl[0].split('replay=')[1].split()[0]
                    if os.path.exists(rf):
                        shutil.copy(rf, f'{d}/replay-{p}.json')
                        sh(f'python3 tools/add_corpus.py {d}/replay-{p}.json seed:{sid}')
                ok = rc == 1 and bool(vl)
                bad += 0 if ok else 1
                rows.append((sid, p, 'DETECTED' if ok else 'MISSED', res[p]['seconds'], (res[p]['what'] or [''])[0][:110]))
                print(rows[-1], flush=True)
        finally:
            clean()
        meta['regress'] = {'date': time.strftime('%Y-%m-%d %H:%M'), 'results': res}
        json.dump(meta, open(f'{d}/meta.json', 'w'), indent=1)
    sh('python3 tools/gen.py && python3 tools/gen_ast.py && python3 tools/gen_witness.py')
    print(f'\n{len(rows)} runs, {bad} not detected')
    return 1 if bad else 0


if __name__ == '__main__':
    sys.exit(main())
