"""Independent Python implementations used by spec oracles (Keccak-256 with the original 0x01 padding; Blake2s via hashlib)."""
import hashlib

RC = [0x0000000000000001, 0x0000000000008082, 0x800000000000808A, 0x8000000080008000, 0x000000000000808B, 0x0000000080000001,
      0x8000000080008081, 0x8000000000008009, 0x000000000000008A, 0x0000000000000088, 0x0000000080008009, 0x000000008000000A,
      0x000000008000808B, 0x800000000000008B, 0x8000000000008089, 0x8000000000008003, 0x8000000000008002, 0x8000000000000080,
      0x000000000000800A, 0x800000008000000A, 0x8000000080008081, 0x8000000000008080, 0x0000000080000001, 0x8000000080008008]
ROT = [[0, 36, 3, 41, 18], [1, 44, 10, 45, 2], [62, 6, 43, 15, 61], [28, 55, 25, 21, 56], [27, 20, 39, 8, 14]]
M = (1 << 64) - 1


def rol(x, n):
    n %= 64
    return ((x << n) | (x >> (64 - n))) & M if n else x


def keccak_f(A):
    for rc in RC:
        C = [A[x][0] ^ A[x][1] ^ A[x][2] ^ A[x][3] ^ A[x][4] for x in range(5)]
        D = [C[(x - 1) % 5] ^ rol(C[(x + 1) % 5], 1) for x in range(5)]
        A = [[A[x][y] ^ D[x] for y in range(5)] for x in range(5)]
        B = [[0] * 5 for _ in range(5)]
        for x in range(5):
            for y in range(5):
                B[y][(2 * x + 3 * y) % 5] = rol(A[x][y], ROT[x][y])
        A = [[B[x][y] ^ ((~B[(x + 1) % 5][y]) & B[(x + 2) % 5][y]) for y in range(5)] for x in range(5)]
        A[0][0] ^= rc
    return A


def keccak256(data: bytes) -> bytes:
    rate = 136
    p = bytearray(data)
    p.append(0x01)
    while len(p) % rate: p.append(0)
    p[-1] |= 0x80
    A = [[0] * 5 for _ in range(5)]
    for off in range(0, len(p), rate):
        blk = p[off:off + rate]
        for i in range(rate // 8):
            A[i % 5][i // 5] ^= int.from_bytes(blk[8 * i:8 * i + 8], 'little')
        A = keccak_f(A)
    out = b''
    for i in range(4):
        out += A[i % 5][i // 5].to_bytes(8, 'little')
    return out


def blake2s256(data: bytes) -> bytes:
    return hashlib.blake2s(data, digest_size=32).digest()


def h256(name, data):
    return keccak256(data) if name.startswith('k') else blake2s256(data)


if __name__ == '__main__':
    assert keccak256(b'').hex() == 'c5d2460186f7233c927e7db2dcc703c0e500b653ca82273b7bfad8045d85a470'
    assert keccak256(b'abc').hex() == '4e03657aea45a94fc7d47ba826c8d667c0d1e6e33a64a036ec44f58fa12d6c45'
    print('ok')
