"""C05 — table decommitment binds every cell of every queried row.
Theorems: Props/C05.lean (completeness for the committed rows, exact length, Montgomery and row-preimage
injectivity, soundness in collision-extraction form, single-column rows unhashed, no panic).
Tie: tables built by the Lean spec builder (Prover.buildTableAuth) for column counts 1..8,16 and the layouts' 7/3/2,
heights 0..6, every friendly boundary around height+1; then single-cell corruptions, moved cells, wrong lengths."""
import framework as fw
from framework import P, hexf, hexl

PID = 'C05'
LEVEL = 'proof'
LEAN_TARGETS = ['Swiftness.Props.C05', 'Swiftness.Prover.MerkleProver']
BUILDS = {'quick': [('k160', 'stone5'), ('k248', 'stone5'), ('b160', 'stone5'), ('b248', 'stone5')],   # the property names all four hash variants: all four in every tier
          'thorough': [('k160', 'stone5'), ('k248', 'stone5'), ('b160', 'stone5'), ('b248', 'stone5')]}
RULE = ('honest tables from the Lean spec builder: n_columns in {1,2,3,4,7,8,16} (+0 and 2^32 as malformed), heights 0..5 (quick) / 0..8, '
        'n_verifier_friendly around height+1 (the row-hash boundary) and 0/huge, query sets single/adjacent/all/sparse; corruptions: every '
        'cell of a queried row +1 (sampled when many), two cells swapped within a row / across rows, one value missing / one extra, '
        'n_columns declared one higher or higher by 2^32 / 2^64 / 2^128, root +1, sibling +1 / +2^160 / +2^248, cell +2^160 / +2^248, trailing auth node. non-trivial = n_columns >= 2 or height >= 1.')
ASSUMPTIONS = ['Keccak-256/Blake2s-256/Poseidon are modelled (executable Lean), compared with the real crates on every case',
               'a hash collision among the random test values is treated as impossible by the oracle']
TRUSTED = ['Python oracle: honest/extra-trailing-auth => Ok; any cell changed or moved (to an unequal cell), wrong cell count => not Ok']


def corpus(feats):
    return []


def cases(rng, tier, feats, drv_ok):
    if not drv_ok:
        return []
    Hmax = 5 if tier == 'quick' else 8
    specs = []
    for h in range(0, Hmax + 1):
        for nc in [1, 2, 3, 4, 7, 8, 16]:
            if tier == 'quick' and rng.chance(1, 3):
                continue
            for nf in sorted({0, h, h + 1, h + 2, rng.below(h + 4)}) + [rng.choice([P - 1, 1 << 40])]:
                if tier == 'quick' and rng.chance(1, 2):
                    continue
                n = 1 << h
                cells = [rng.felt() for _ in range(n * nc)]
                shape = rng.choice(['single', 'adjacent', 'all', 'sparse'])
                if shape == 'single' or n == 1: Q = [rng.below(n)]
                elif shape == 'adjacent': a = 2 * rng.below(n // 2); Q = [a, a + 1]
                elif shape == 'all' and n <= 16: Q = list(range(n))
                else: Q = sorted({rng.below(n) for _ in range(min(n, 4))})
                specs.append((h, nf, nc, cells, Q, shape))
    lines = [f'table_build {h:x} {hexf(nf)} {nc:x} {hexl(cells)} {",".join(format(q, "x") for q in Q)}' for h, nf, nc, cells, Q, _ in specs]
    out, _ = fw.run_split(lambda ls, **kw: fw.run_drv(feats, ls), lines)
    res = []
    for (h, nf, nc, cells, Q, shape), o in zip(specs, out):
        t = o.split()
        root = int(t[1], 16)
        vals = [] if t[2] == '-' else [int(x, 16) for x in t[2].split(',')]
        auths = [] if t[3] == '-' else [int(x, 16) for x in t[3].split(',')]
        def add(kind, expect, r=root, ncols=nc, q=Q, v=vals, a=auths):
            res.append({'line': f'tdecommit {hexf(r)} {hexf(ncols)} {hexf(h)} {hexf(nf)} {hexl(q)} {hexl(v)} {hexl(a)}',
                        'kind': kind, 'expect': expect, 'h': h, 'nc': nc, 'shape': shape})
        add('honest', 'ok')
        add('extra-trailing-auth', 'ok', a=auths + [rng.felt()])
        add('root+1', 'reject', r=(root + 1) % P)
        pos = list(range(len(vals))) if len(vals) <= 6 else sorted({rng.below(len(vals)) for _ in range(4)})
        for j in pos:
            add('cell+1', 'reject', v=vals[:j] + [(vals[j] + 1) % P] + vals[j + 1:])
        if nc >= 2:
            j = rng.below(len(Q)) * nc
            v2 = list(vals); v2[j], v2[j + 1] = v2[j + 1], v2[j]
            add('cells-swapped-in-row', 'reject', v=v2)
        if len(Q) >= 2:
            v2 = list(vals); v2[0], v2[nc] = v2[nc], v2[0]
            add('cells-swapped-across-rows', 'reject', v=v2)
        add('value-missing', 'reject', v=vals[:-1])
        add('value-extra', 'reject', v=vals + [rng.felt()])
        add('ncolumns+1', 'reject', ncols=nc + 1)
        # a column count that satisfies `columns x queries = cells` only MODULO THE FIELD: cells = honest rows + r surplus cells, declared
        # count = cells / queries in the field (a huge number); over the naturals the shape is wrong — must be rejected
        if len(Q) >= 2:
            for r in sorted({1, len(Q) - 1}):
                add(f'ncolumns=cells/queries-mod-p,surplus={r}', 'reject', ncols=(len(vals) + r) * pow(len(Q), -1, P) % P, v=vals + [rng.felt() for _ in range(r)])
        for w in (32, 64, 128):   # column counts congruent to the honest one modulo a machine word
            add(f'ncolumns+2^{w}', 'reject', ncols=nc + (1 << w))
        if auths:
            j = rng.below(len(auths))
            add('sibling+1', 'reject', a=auths[:j] + [(auths[j] + 1) % P] + auths[j + 1:])
            add('sibling-missing', 'reject', a=auths[:-1])
            for e in (160, 248):   # nodes differing only above the digest width
                j = rng.below(len(auths))
                add(f'sibling+2^{e}', 'reject', a=auths[:j] + [(auths[j] + (1 << e)) % P] + auths[j + 1:])
        for e in (160, 248):
            j = rng.below(len(vals))
            add(f'cell+2^{e}', 'reject', v=vals[:j] + [(vals[j] + (1 << e)) % P] + vals[j + 1:])
    # malformed column counts: no panic, model agreement
    # (column counts whose product with the number of queries passes a word boundary: 2^31 x 2, 2^62 x 4, 2^63 x 2, ... with an EMPTY value
    # list, which is what a wrapped product would equal)
    for nc, nq in [(1 << 31, 2), (1 << 32, 1), (1 << 62, 4), (1 << 63, 2), ((1 << 64) - 1, 2), (1 << 64, 1), ((1 << 64) // 3 + 1, 3)]:
        qs = ','.join(str(i) for i in range(nq))
        for vals in ([], [rng.felt()]):
            res.append({'line': f'tdecommit {hexf(rng.felt())} {hexf(nc)} 2 3 {qs} {hexl(vals)} {hexl([rng.felt()])}',
                        'kind': 'malformed-ncolumns-wrap', 'expect': 'any', 'h': 2, 'nc': 0, 'shape': 'adv'})
    for nc in [0, 1 << 32, (1 << 32) - 1, P - 1]:
        res.append({'line': f'tdecommit {hexf(rng.felt())} {hexf(nc)} 2 3 0,1 {hexl([rng.felt() for _ in range(rng.below(4))])} {hexl([rng.felt()])}',
                    'kind': 'malformed-ncolumns', 'expect': 'any', 'h': 2, 'nc': 0, 'shape': 'adv'})
    return res


def classify(c, co):
    return f"{c['kind']}:{co[0]}"


def nontrivial(c, co):
    return c['nc'] >= 2 or c['h'] >= 1


def oracle(c, co):
    if co[0] == 'panic':
        return {'key': 'panic:table_decommit', 'what': f"table_decommit panicked ({c['kind']}): {co[1][:120]}"}
    if c['expect'] == 'ok' and co[0] != 'ok':
        return {'key': f"complete:{c['kind']}", 'what': f"honest table decommitment rejected (n_columns {c['nc']}, height {c['h']}, {c['kind']})"}
    if c['expect'] == 'reject' and co[0] == 'ok':
        return {'key': f"binding:{c['kind']}", 'what': f"corrupted table decommitment accepted: {c['kind']} (n_columns {c['nc']}, height {c['h']})"}
    return None
