"""C15 — closed-form AIR boundary values equal their defining products.
Theorems: Props/C15.lean (diluted closed form = recurrence for all 1 <= n < P, all spacings, z, alpha;
memory ratio = z^size / padded product; panics exactly at the two guards).
Tie: get_diluted_product / get_public_memory_product_ratio (real) vs model; the Python oracle evaluates the
DEFINING recurrence / product naively."""
from framework import P, hexf, hexl

PID = 'C15'
LEVEL = 'proof'
LEAN_TARGETS = ['Swiftness.Props.C15']
BUILDS = {'quick': [('k160', 'stone5', 'full')], 'thorough': [('k160', 'stone5', 'full')]}
RULE = ('diluted cases: all (n_bits 1..NB, spacing 0..8) with random and edge z, alpha (NB = 10 quick / 16 thorough, plus the '
        "layouts' (16,4)); large parameters n in {11..200} x spacing in {1..300, 2^32+4, 2^64+4, P-1} (quick: a quarter of them) and the "
        "pairs around (n-1)*spacing = 64; memory cases: random main pages (0..40 cells), 0..3 continuous page headers, sizes around the total length, "
        'padding cells, edge z/alpha incl. a z that zeroes a factor. non-trivial = n_bits >= 2 or >= 1 public cell.')
ASSUMPTIONS = ['Felt arithmetic of starknet-types-core modelled as Fin P (compared on every case)']
TRUSTED = ['Python oracle (n > 14: x_i from the definition of Dilute + doubling identities, cross-check only): r_1 = 1, r_(j+1) = r_j (1 + z u_j) + alpha u_j^2 over all 2^n diluted values; z^size / prod(z - (a + alpha v))']


def dilute(j, s, n):
    r = 0
    for b in range(n):
        if (j >> b) & 1: r += 1 << (b * s)
    return r


def diluted_naive(n, s, z, al):
    r = 1
    prev = 0
    for j in range(1, 1 << n):
        d = dilute(j, s, n)
        u = (d - prev) % P
        prev = d
        r = (r * (1 + z * u) + al * u * u) % P
    return r


def diluted_doubling(n, s, z, al):
    """for n too large for the naive walk: x_i = u_(2^i) = Dilute(2^i) - Dilute(2^i - 1) taken from the DEFINITION of Dilute over the
    integers (not from the code's running difference), then the doubling identities for the block products; the Lean theorem
    closed_form_eq_recurrence is what justifies the doubling, this is only the cross-check of the real code against the model"""
    p_, q_ = (1 + z) % P, 1
    for i in range(1, n):
        x = (pow(2, i * s, P) - sum(pow(2, b * s, P) for b in range(i))) % P
        y = p_ * (1 + z * x) % P
        q_ = (q_ * y + x * x * p_ + q_) % P
        p_ = p_ * y % P
    return (p_ + al * q_) % P


def mk_d(n, s, z, al):
    return {'line': f'diluted {n:x} {s:x} {hexf(z)} {hexf(al)}', 'kind': 'diluted', 'n': n, 's': s, 'z': z, 'al': al}


def fmt_rows(rows):
    return ';'.join(':'.join(hexf(x) for x in r) for r in rows) if rows else '-'


def mk_m(page, headers, pad, z, al, size):
    pi = f"e 0 ffff 726563757273697665 - 1:5;25:68 {hexf(pad[0])} {hexf(pad[1])} {fmt_rows(page)} {fmt_rows(headers)}"
    return {'line': f'memratio {pi} {hexf(z)} {hexf(al)} {hexf(size)}', 'kind': 'memratio', 'page': page, 'headers': headers,
            'pad': pad, 'z': z, 'al': al, 'size': size}


def corpus(feats):
    return [mk_d(16, 4, 7, 9), mk_d(1, 4, 7, 9), mk_m([(1, 2), (3, 4)], [], (5, 6), 7, 9, 4)]


def cases(rng, tier, feats, drv_ok):
    out = []
    NB = 10 if tier == 'quick' else 14
    for n in range(1, NB + 1):
        for s in range(0, 9):
            if tier == 'quick' and (n * 9 + s) % 3 != rng.below(3) and n > 3: continue
            out.append(mk_d(n, s, rng.edge_felt(), rng.edge_felt()))
    out.append(mk_d(16, 4, rng.felt(), rng.felt()))
    # parameters past every machine-word boundary ((n-1)*spacing around 32, 64, 128, 252; spacing itself >= 32 / 64 / 2^32 / 2^64)
    BIGN = [11, 12, 15, 16, 17, 18, 20, 24, 32, 33, 64, 65, 100, 128, 200]
    BIGS = [1, 2, 3, 4, 5, 7, 8, 15, 16, 17, 31, 32, 33, 63, 64, 65, 100, 127, 128, 251, 252, 300, (1 << 32) + 4, (1 << 64) + 4, P - 1]
    for n in BIGN:
        for sp in BIGS:
            if tier == 'quick' and not rng.chance(1, 4): continue
            out.append(mk_d(n, sp, rng.edge_felt(), rng.edge_felt()))
    for n, sp in [(18, 4), (17, 4), (6, 16), (5, 16), (10, 8), (9, 8), (4, 32), (3, 32), (2, 64), (2, 65), (3, 63)]:
        out.append(mk_d(n, sp, rng.felt(), rng.felt()))
    for _ in range(60 if tier == 'quick' else 600):
        m = rng.choice([0, 1, 2, 3, 8, 40])
        page = [(rng.choice([rng.below(1 << 20), rng.felt()]), rng.edge_felt()) for _ in range(m)]
        headers = [(rng.below(1 << 30), rng.below(50), rng.felt(), rng.choice([rng.felt(), 1, 0 if rng.chance(1, 8) else 2])) for _ in range(rng.choice([0, 0, 0, 1, 3]))]
        total = m + sum(h[1] for h in headers)
        size = max(0, total + rng.choice([-1, 0, 0, 1, 5, 1 << 10, 1 << 14]))
        pad = (rng.edge_felt(), rng.edge_felt())
        z, al = rng.edge_felt(), rng.edge_felt()
        if page and rng.chance(1, 10):
            z = (page[0][0] + al * page[0][1]) % P   # zero factor -> division by zero
        if rng.chance(1, 12):
            z = (pad[0] + al * pad[1]) % P
        out.append(mk_m(page, headers, pad, z, al, size))
    return out


def classify(c, co):
    return f"{c['kind']}:{co[0]}"


def nontrivial(c, co):
    return (c['kind'] == 'diluted' and c['n'] >= 2) or (c['kind'] == 'memratio' and len(c['page']) >= 1)


def oracle(c, co):
    if c['kind'] == 'diluted':
        if co[0] != 'ok':
            return {'key': 'diluted:noval', 'what': f"get_diluted_product({c['n']},{c['s']}) did not return: {co}"}
        want = diluted_naive(c['n'], c['s'], c['z'], c['al']) if c['n'] <= 14 and c['s'] <= 64 else diluted_doubling(c['n'], c['s'], c['z'], c['al'])
        if int(co[1], 16) != want:
            return {'key': 'diluted:value', 'what': f"get_diluted_product({c['n']},{c['s']},z,alpha) != defining recurrence"}
        return None
    z, al = c['z'], c['al']
    prod = 1
    for a, v in c['page']:
        prod = prod * (z - (a + al * v)) % P
    total = len(c['page'])
    for h in c['headers']:
        prod = prod * h[3] % P
        total = (total + h[1]) % P
    padded = (z - (c['pad'][0] + al * c['pad'][1])) % P
    size = c['size']
    guard = total > size or prod == 0 or (size >= total and pow(padded, size - total, P) == 0)
    if guard:
        # outside "all public memories with a defined ratio": the ratio is undefined and the Rust returns None
        if co[0] == 'panic': return {'key': 'memratio:panic', 'what': f'get_public_memory_product_ratio panicked: {co[1][:100]}'}
        return None if co[0] == 'err' else {'key': 'memratio:guard', 'what': 'ratio returned although total > size or a zero denominator'}
    if co[0] != 'ok':
        return {'key': 'memratio:noval', 'what': f'get_public_memory_product_ratio did not return: {co}'}
    want = pow(z, size, P) * pow(prod * pow(padded, size - total, P) % P, P - 2, P) % P
    if int(co[1], 16) != want:
        return {'key': 'memratio:value', 'what': 'public memory product ratio != z^size / padded product'}
    return None
