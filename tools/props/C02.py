"""C02 — accepted proofs are tamper-evident at every position.
Theorems: Props/C02.lean (for the positions bound by Merkle roots, lengths and configuration: two accepted proofs differing in
exactly one such position yield an explicit hash collision; deleting a consumed element is rejected or collides; appending unused
trailing elements never changes the verdict; for transcript-bound positions every later challenge changes or a collision is
exhibited). The statement "then some check fails" for transcript-bound positions is a random-oracle statement: left to the sweep.
Tie / search: the sweep below IS the violation search: every scalar position of accepted proofs (fixture + shipped) is replaced
(+1, 0, P-1 / type max, and for configuration / public-input scalars +2^32, +2^64, +2^128, +7*2^33) or its element deleted or swapped with its neighbour; the REAL verifier must not accept; a sample (and every
accepted mutant) also goes through the Lean pipeline model. Appending trailing elements is compared with the model only."""
import zlib
import framework as fw
from framework import P
from props import prooflib as PL

PID = 'C02'
LEVEL = 'proof'
LEAN_TARGETS = ['Swiftness.Props.C02']
TRANSLATOR_PARTS = ('consts', 'ast')
DRV_LAYOUTS = ['dex', 'recursive', 'recursive_with_poseidon', 'small', 'starknet', 'starknet_with_keccak']
BUILDS = {'quick': [('k160', 'stone5', 'full', 'all_layouts', 'parser'), ('b248', 'stone6', 'full', 'all_layouts', 'parser')],
          'thorough': [('k160', 'stone5', 'full', 'all_layouts', 'parser'), ('b248', 'stone6', 'full', 'all_layouts', 'parser')]}
RULE = ('bases: in-tree fixture + shipped recursive/dex stone5 proofs (thorough: all six static stone5 proofs). positions: every scalar in the '
        '37-token proof value (config numbers, public-input fields, commitments, oods values, FRI coefficients, nonce, decommitted cells, '
        'authentication nodes, FRI leaves). quick: a seed-dependent stride sample (~700 mutants per base) always including every config / '
        'public-input scalar; thorough: every position of the fixture and ~600 strided positions of each shipped proof x {+1, 0, max, one word-size alias, delete, swap}; configuration / public-input scalars also x {+2^32, +2^64, +2^128, +7*2^33} in both tiers. Model: every 25th mutant + every accepted one. '
        'non-trivial = all.')
ASSUMPTIONS = ['transcript-bound positions are rejected with overwhelming probability only (random-oracle heuristic); a legitimately accepted mutant would be reported',
               'pipeline model covers static layouts (dynamic: real code only)']
TRUSTED = ['Python oracle: replaced / deleted element => not accepted']
HX = None


def corpus(feats):
    return []


def cases(rng, tier, feats, drv_ok):
    out = []
    layouts = ('recursive', 'dex') if tier == 'quick' else ('dex', 'recursive', 'recursive_with_poseidon', 'small', 'starknet', 'starknet_with_keccak')
    if fw.stone_of(feats) == 'stone6':
        # the shipped stone6 proofs have 10 verifier-friendly layers only: their Merkle paths run through the MASKED hash (the stone5 ones
        # are Poseidon throughout); quick: the recursive one, hash-valued positions only
        bases = [b for b in PL.base_proofs(HX, tier, files=[(L, f'/repo/examples/proofs/{L}/cairo0_stone6_example_proof.json') for L in (layouts if tier == 'thorough' else ('recursive',))])
                 if b.name != 'fixture']
    else:
        bases = PL.base_proofs(HX, tier, layouts)
    k = 0
    for b in bases:
        out.append({'line': b.line(), 'kind': 'base', 'expect': 'ok', 'name': b.name, 'pos': '-'})
        pos = b.positions()
        # thorough: every position of the fixture; the shipped proofs (~10^4 positions of ~300 kB lines each) at a stride that keeps the run in memory
        stride = (1 if b.name == 'fixture' else max(1, len(pos) // 600)) if tier == 'thorough' else max(1, len(pos) // 230)
        off = rng.below(stride)
        for n, (i, path) in enumerate(pos):
            small = i < 23 and PL.KIND[i] != 'rows' or (i < 23 and i != PL.IDX['pi.main_page'])
            if not small and (n % stride) != off:
                continue
            cur = PL.get(b.v[i], path); lim = PL.limit(i)
            kinds = [('+1', (cur + 1) % lim), ('=0', 0), ('=max', lim - 1)] if (tier == 'thorough' or small) else [rng.choice([('+1', (cur + 1) % lim), ('=0', 0), ('=max', lim - 1)])]
            # values congruent to the original modulo a machine-word size: a truncating conversion of a count-like field would alias them
            alias = [(f'+2^{e}', (cur + (1 << e)) % lim) for e in (32, 64, 128)] + [('+7*2^33', (cur + 7 * (1 << 33)) % lim)]
            kinds = kinds + (alias if small else [rng.choice(alias)] if tier == 'thorough' else [])
            if not small and lim == P:   # hash-valued positions: differing only above the digest width (160 / 248 bits)
                kinds = kinds + [(f'+2^{e}', (cur + (1 << e)) % lim) for e in ((160, 248) if tier == 'thorough' or fw.stone_of(feats) == 'stone6' else (rng.choice((160, 248)),))]
            for kn, val in kinds:
                if val == cur: continue
                k += 1
                out.append({'line': b.line(PL.setp(b.v, i, path, val)), 'kind': 'replace' + kn, 'expect': 'reject', 'name': b.name,
                            'pos': f'{PL.TOK[i]}{list(path)}', 'hxonly': k % 25 != 0})
            eo = PL.element_ops(b, i, path)
            if eo:   # element of a vector: delete it / swap with the next one
                vpath, j = eo
                lst = PL.get(b.v[i], vpath)
                if rng.chance(1, 2) or tier == 'thorough' or small:
                    k += 1
                    out.append({'line': b.line(PL.mod_list(b.v, i, vpath, lambda l, j=j: l[:j] + l[j + 1:])), 'kind': 'delete', 'expect': 'reject',
                                'name': b.name, 'pos': f'{PL.TOK[i]}{list(path)}', 'hxonly': k % 25 != 0})
                if j + 1 < len(lst) and lst[j] != lst[j + 1] and (rng.chance(1, 4) or tier == 'thorough'):
                    k += 1
                    out.append({'line': b.line(PL.mod_list(b.v, i, vpath, lambda l, j=j: l[:j] + [l[j + 1], l[j]] + l[j + 2:])), 'kind': 'swap',
                                'expect': 'reject', 'name': b.name, 'pos': f'{PL.TOK[i]}{list(path)}', 'hxonly': k % 25 != 0})
        # appending trailing elements: the only tolerated malleability (verdict compared with the model)
        for i, path in b.vectors():
            extra = PL.extra_element(i, path)
            out.append({'line': b.line(PL.mod_list(b.v, i, path, lambda l, e=extra: l + [e])), 'kind': 'append', 'expect': 'any', 'name': b.name,
                        'pos': f'{PL.TOK[i]}{list(path)}'})
        # ... and to EVERY FRI vector at once (one more step size, inner-layer config, inner-layer commitment and layer witness after the
        # n_layers the config declares): still unused, still the same verdict — a verifier whose number of folding rounds follows the
        # lengths of these vectors instead of n_layers would run a round the config validation never saw
        I = PL.IDX; v = b.v
        for key in ('cfg.fri.fri_step_sizes', 'cfg.fri.inner_layers', 'unsent.fri.inner_layers', 'witness.fri_witness'):
            v = PL.mod_list(v, I[key], (), lambda l, e=PL.extra_element(I[key], ()): l + [e])
        out.append({'line': b.line(v), 'kind': 'append-all-fri-vectors', 'expect': 'ok', 'name': b.name, 'pos': 'fri vectors'})
    # model sample: every 25th mutant of the fixture / recursive / dex bases, every 200th of the larger layouts (thorough tier)
    for c in out:
        if c.get('hxonly') is False and not any(x in c['name'] for x in ('fixture', 'recursive/', 'dex/')):
            c['hxonly'] = (zlib.crc32(c['line'][-4000:].encode()) % 8) != 0
    return out


def classify(c, co):
    return f"{c['kind']}:{co[0]}"


def nontrivial(c, co):
    return c['kind'] != 'base'


def oracle(c, co):
    if c['expect'] == 'ok':
        return None if co[0] == 'ok' else {'key': 'base-rejected', 'what': f"honest proof {c['name']} rejected: {co[1][:100]}"}
    if c['expect'] == 'reject' and co[0] == 'ok':
        return {'key': f"accepted:{c['pos'].split('[')[0]}", 'what': f"tampered proof accepted: {c['kind']} at {c['pos']} of {c['name']}"}
    return None
