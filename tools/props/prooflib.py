"""Shared helpers for the whole-proof properties (C01, C02, C17, C18): base proofs as token lists and position-wise mutation.
proof = 37 tokens: CFG(13) PI(10) UNSENT(7) WITNESS(7), see harness/src/ops_proof.rs."""
import framework as fw
from framework import P, hexf

TOK = ['cfg.log_trace_domain_size', 'cfg.log_n_cosets', 'cfg.n_queries', 'cfg.n_verifier_friendly', 'cfg.pow_bits', 'cfg.traces.original',
       'cfg.traces.interaction', 'cfg.composition', 'cfg.fri.log_input_size', 'cfg.fri.n_layers', 'cfg.fri.log_last_layer_degree_bound',
       'cfg.fri.fri_step_sizes', 'cfg.fri.inner_layers',
       'pi.log_n_steps', 'pi.range_check_min', 'pi.range_check_max', 'pi.layout', 'pi.dynamic_params', 'pi.segments', 'pi.padding_addr',
       'pi.padding_value', 'pi.main_page', 'pi.continuous_page_headers',
       'unsent.traces.original', 'unsent.traces.interaction', 'unsent.composition', 'unsent.oods_values', 'unsent.fri.inner_layers',
       'unsent.fri.last_layer_coefficients', 'unsent.pow.nonce',
       'witness.traces_decommitment.original', 'witness.traces_decommitment.interaction', 'witness.traces_witness.original',
       'witness.traces_witness.interaction', 'witness.composition_decommitment', 'witness.composition_witness', 'witness.fri_witness']
IDX = {n: i for i, n in enumerate(TOK)}
# how each token is structured: 'felt' | 'u' (plain hex integer) | 'list' (comma) | 'rows' (a:b;c:d) | 'fri' (leaves|auths;...)
KIND = {i: 'felt' for i in range(37)}
for n in ('cfg.pow_bits', 'unsent.pow.nonce'): KIND[IDX[n]] = 'u'
for n in ('cfg.fri.fri_step_sizes', 'unsent.oods_values', 'unsent.fri.inner_layers', 'unsent.fri.last_layer_coefficients',
          'witness.traces_decommitment.original', 'witness.traces_decommitment.interaction', 'witness.traces_witness.original',
          'witness.traces_witness.interaction', 'witness.composition_decommitment', 'witness.composition_witness', 'pi.dynamic_params'):
    KIND[IDX[n]] = 'list'
for n in ('cfg.traces.original', 'cfg.traces.interaction', 'cfg.composition', 'cfg.fri.inner_layers', 'pi.segments', 'pi.main_page',
          'pi.continuous_page_headers'):
    KIND[IDX[n]] = 'rows'
KIND[IDX['witness.fri_witness']] = 'fri'


def decode(tok, kind):
    """-> nested python structure of ints"""
    if kind in ('felt', 'u'): return int(tok, 16)
    if tok == '-': return []
    if kind == 'list': return [int(x, 16) for x in tok.split(',')]
    if kind == 'rows': return [[int(x, 16) for x in r.split(':')] for r in tok.split(';')]
    return [[[] if p == '-' else [int(x, 16) for x in p.split(',')] for p in l.split('|')] for l in tok.split(';')]


def encode(v, kind):
    h = lambda x: format(x, 'x')
    if kind in ('felt', 'u'): return h(v)
    if not v: return '-'
    if kind == 'list': return ','.join(h(x) for x in v)
    if kind == 'rows': return ';'.join(':'.join(h(x) for x in r) for r in v)
    return ';'.join('|'.join((','.join(h(x) for x in p) if p else '-') for p in l) for l in v)


class Proof:
    def __init__(self, toks, layout, sec, name):
        self.toks, self.layout, self.sec, self.name = list(toks), layout, sec, name
        self.v = [decode(t, KIND[i]) for i, t in enumerate(toks)]

    def line(self, v=None, sec=None):
        v = self.v if v is None else v
        return f"verify {self.layout} {format(self.sec if sec is None else sec, 'x')} " + ' '.join(encode(x, KIND[i]) for i, x in enumerate(v))

    def positions(self):
        """every scalar position: (token index, path tuple)"""
        out = []
        for i, x in enumerate(self.v):
            k = KIND[i]
            if k in ('felt', 'u'): out.append((i, ()))
            elif k == 'list': out += [(i, (j,)) for j in range(len(x))]
            elif k == 'rows': out += [(i, (j, c)) for j, r in enumerate(x) for c in range(len(r))]
            else: out += [(i, (j, s, c)) for j, l in enumerate(x) for s in range(2) for c in range(len(l[s]))]
        return out

    def vectors(self):
        """every vector: (token index, path to the list)"""
        out = []
        for i, x in enumerate(self.v):
            k = KIND[i]
            if k == 'list' and TOK[i] != 'pi.dynamic_params': out.append((i, ()))
            elif k == 'rows' and TOK[i] in ROWW: out.append((i, ()))
            elif k == 'fri':
                out.append((i, ()))
                out += [(i, (j, s)) for j in range(len(x)) for s in range(2)]
        return out


# true vectors of rows and their row width (the single-row table configs are scalars-in-a-row, not vectors)
ROWW = {'cfg.fri.inner_layers': 3, 'pi.segments': 2, 'pi.main_page': 2, 'pi.continuous_page_headers': 4}


def element_ops(proof, i, path):
    """for a scalar position inside a vector: (path of the containing vector, index of the ELEMENT to delete / swap) or None"""
    k = KIND[i]
    if not path: return None
    if k == 'list': return ((), path[0])
    if k == 'rows':
        if TOK[i] not in ROWW or path[1] != 0: return None
        return ((), path[0])
    return (path[:-1], path[-1])


def extra_element(i, path):
    if KIND[i] == 'rows': return [1] * ROWW[TOK[i]]
    if KIND[i] == 'fri' and not path: return [[], []]
    return 7


def get(v, path):
    for p in path: v = v[p]
    return v


def setp(v, i, path, val):
    import copy
    w = list(v); w[i] = copy.deepcopy(v[i])
    if not path: w[i] = val; return w
    t = w[i]
    for p in path[:-1]: t = t[p]
    t[path[-1]] = val
    return w


def mod_list(v, i, path, f):
    import copy
    w = list(v); w[i] = copy.deepcopy(v[i])
    if not path: w[i] = f(w[i]); return w
    t = w[i]
    for p in path[:-1]: t = t[p]
    t[path[-1]] = f(t[path[-1]])
    return w


def limit(i):
    """modulus for the position's type"""
    return 256 if i == IDX['cfg.pow_bits'] else ((1 << 64) if i in (IDX['unsent.pow.nonce'], IDX['pi.dynamic_params']) else P)


def base_proofs(HX, tier, layouts=('recursive',), files=None):
    """fixture + shipped stone5 proofs of the given layouts, as Proof objects (needs the k160+stone5 parser build)"""
    out = []
    fx, _ = fw.run_hx(HX, ['fixture_proof'])
    if fx and fx[0].startswith('ok '):
        out.append(Proof(fx[0][3:].split(), 'recursive', 32, 'fixture'))
    paths = files if files is not None else [(L, f'/repo/examples/proofs/{L}/cairo0_stone5_example_proof.json') for L in layouts]
    if paths:
        toks, _ = fw.run_split(lambda ls, **kw: fw.run_hx(HX, ls), [f'parsefile {p}' for _, p in paths])
        secs, _ = fw.run_split(lambda ls, **kw: fw.run_hx(HX, ls), ['security_bits ' + t[3:] if t.startswith('ok ') else 'powcfg 0' for t in toks])
        for (L, p), t, s in zip(paths, toks, secs):
            if t.startswith('ok ') and s.startswith('ok '):
                out.append(Proof(t[3:].split(), L, int(s[3:], 16), p.split('proofs/')[1]))
    return out
