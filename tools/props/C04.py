"""C04 — Merkle vector decommitment complete and binding for all shapes.
Theorems: Props/C04.lean (every height <= 250, every friendly boundary, every sorted distinct in-range query set,
every hash instance: completeness, exact consumption, soundness w.r.t. the committed tree in collision-extraction
form, no panic, fuel bound).
Tie: trees built by the Lean SPEC builder (Prover.buildAuth, executable) for heights 0..H, every friendly boundary,
query shapes {single, adjacent pair, all leaves, sparse, dense}; then every kind of single-site corruption.
The real vector_commitment_decommit must agree with the model on each, under each hash build, and satisfy the oracle."""
import framework as fw
from framework import P, hexf, hexl

PID = 'C04'
LEVEL = 'proof'
LEAN_TARGETS = ['Swiftness.Props.C04', 'Swiftness.Prover.MerkleProver']
BUILDS = {'quick': [('k160', 'stone5'), ('k248', 'stone5'), ('b160', 'stone5'), ('b248', 'stone5')],   # the property names all four hash variants: all four in every tier
          'thorough': [('k160', 'stone5'), ('k248', 'stone5'), ('b160', 'stone5'), ('b248', 'stone5')]}
RULE = ('honest instances from the Lean spec builder: heights 0..8 (quick) / 0..12 (thorough), n_verifier_friendly 0..h+2 and huge, '
        'query shapes single/adjacent/all/sparse/dense; each followed by its single-site corruptions: every queried value (+1), '
        'an index moved to a neighbour, every consumed sibling (+1), root (+1), last sibling missing, one extra trailing node, '
        'duplicate index, unsorted indices, index out of range, empty query list, height / last index raised by 2^32, 2^64, 2^128; a sibling / value / root raised by 2^160, 2^200, 2^248, 2^250. Tall sparse trees: heights 20..250 x friendly 0, h/2, h+1 x query shapes (single, sibling pair, low 64-bit limb zero, spread, last leaf) with random siblings, honest root from the Lean model; honest + root/value/sibling corruptions, half the siblings missing. distinct = distinct case lines; non-trivial = height >= 1.')
ASSUMPTIONS = ['Keccak-256/Blake2s-256/Poseidon are modelled (executable Lean), compared with the real crates on every case',
               'a hash collision among the random test values is treated as impossible by the oracle']
TRUSTED = ['Python oracle: honest/extra-trailing => Ok; value/sibling/root corrupted, sibling missing, index moved to a different leaf => not Ok']


def corpus(feats):
    return []


def build(feats, specs):
    """specs: list of (h, nf, leaves, Q) -> list of (root, auths) via the Lean spec builder"""
    lines = [f'merkle_build {h:x} {hexf(nf)} {hexl(lv)} {",".join(format(q, "x") for q in Q) if Q else "-"}' for h, nf, lv, Q in specs]
    out, died = fw.run_split(lambda ls, **kw: fw.run_drv(feats, ls), lines)
    res = []
    for o in out:
        t = o.split()
        res.append((int(t[1], 16), [] if t[2] == '-' else [int(x, 16) for x in t[2].split(',')]))
    return res


def line(root, h, nf, idx, vals, auths):
    return f'vdecommit {hexf(root)} {hexf(h)} {hexf(nf)} {hexl(idx)} {hexl(vals)} {hexl(auths)}'


def shapes(rng, h):
    n = 1 << h
    out = [('single', [rng.below(n)])]
    if n >= 2:
        a = 2 * rng.below(n // 2)
        out.append(('adjacent', [a, a + 1]))
        out.append(('all', list(range(n))) if n <= 64 else ('dense', sorted({rng.below(n) for _ in range(64)})))
        out.append(('sparse', sorted({rng.below(n) for _ in range(min(n, 3))})))
        out.append(('dense', sorted({rng.below(n) for _ in range(min(n, 1 + n // 2, 40))})))
    return out


def cases(rng, tier, feats, drv_ok):
    if not drv_ok:
        return []
    Hmax = 8 if tier == 'quick' else 12
    specs, meta = [], []
    for h in range(0, Hmax + 1):
        nfs = sorted({0, 1, h // 2, h, h + 1, h + 2, rng.below(h + 3)}) + [rng.choice([P - 1, 1 << 64, 100])]
        for nf in nfs:
            if tier == 'quick' and h > 4 and rng.chance(1, 2):
                continue
            leaves = [rng.felt() for _ in range(1 << h)]
            for shape, Q in shapes(rng, h):
                if tier == 'quick' and h > 5 and shape in ('sparse',) and rng.chance(1, 2):
                    continue
                specs.append((h, nf, leaves, Q)); meta.append(shape)
    built = build(feats, specs)
    out = []
    for (h, nf, leaves, Q), shape, (root, auths) in zip(specs, meta, built):
        vals = [leaves[q] for q in Q]
        def add(kind, expect, r=root, hh=h, idx=Q, v=vals, a=auths):
            out.append({'line': line(r, hh, nf, idx, v, a), 'kind': kind, 'expect': expect, 'h': h, 'shape': shape})
        add('honest', 'ok')
        add('extra-trailing', 'ok', a=auths + [rng.felt()])
        add('root+1', 'reject', r=(root + 1) % P)
        for j in ([rng.below(len(Q))] if len(Q) > 3 else range(len(Q))):
            add('value+1', 'reject', v=vals[:j] + [(vals[j] + 1) % P] + vals[j + 1:])
        for j in ([rng.below(len(auths))] if len(auths) > 3 else range(len(auths))):
            add('sibling+1', 'reject', a=auths[:j] + [(auths[j] + 1) % P] + auths[j + 1:])
        if auths:
            add('sibling-missing', 'reject', a=auths[:-1])
        # high-bit aliases of hash-valued positions: a node differing only above the digest width (160 / 248 bits) must not be accepted
        for e in (160, 200, 248, 250):
            if auths:
                j = rng.below(len(auths))
                add(f'sibling+2^{e}', 'reject', a=auths[:j] + [(auths[j] + (1 << e)) % P] + auths[j + 1:])
            j = rng.below(len(Q))
            add(f'value+2^{e}', 'reject', v=vals[:j] + [(vals[j] + (1 << e)) % P] + vals[j + 1:])
        add('root+2^248', 'reject', r=(root + (1 << 248)) % P)
        if h >= 1:
            j = rng.below(len(Q)); q2 = Q[j] ^ 1
            if q2 not in Q:
                idx2 = sorted(Q[:j] + [q2] + Q[j + 1:]); order = sorted(range(len(Q)), key=lambda t: (Q[:j] + [q2] + Q[j + 1:])[t])
                v2 = [vals[t] for t in order]
                add('index-moved', 'reject', idx=idx2, v=v2)
            add('index-out-of-range', 'any', idx=Q[:-1] + [Q[-1] + (1 << h)])
        if len(Q) >= 2:
            add('unsorted', 'any', idx=Q[::-1], v=vals[::-1])
            add('duplicate-index', 'any', idx=[Q[0]] + Q[:-1], v=[vals[0]] + vals[:-1])
        add('empty-queries', 'reject', idx=[], v=[])
        for w in (32, 64, 128):   # heights / indices congruent to the honest ones modulo a machine word
            add(f'height+2^{w}', 'reject', hh=h + (1 << w))
            add(f'index+2^{w}', 'any', idx=Q[:-1] + [Q[-1] + (1 << w)])
    # TALL sparse trees (heights up to 250): queried leaves and random siblings along their paths; the honest root is the one the
    # Lean model computes (vroot; the C04 theorems hold at every height), the real code must accept it and reject every corruption
    def auth_count(Q, h):
        queue = [q + (1 << h) for q in Q]; n = 0
        while queue:
            cur = queue.pop(0)
            if cur == 1: break
            if cur % 2 == 0 and queue and queue[0] == cur + 1: queue.pop(0)
            else: n += 1
            queue.append(cur // 2)
        return n
    tall = []
    for h in ([20, 40, 62, 63, 64, 65, 80, 128, 250] if tier == 'quick' else [20, 33, 40, 62, 63, 64, 65, 66, 80, 100, 127, 128, 129, 200, 250]):
        for nf in (0, h // 2, h + 1):
            shapes_ = {'single': [rng.below(1 << h)], 'pair': [2 * rng.below(1 << (h - 1))], 'low-limb-zero': [rng.below(1 << max(1, h - 64)) << 64 if h > 64 else 0],
                       'spread': sorted({rng.below(1 << h) for _ in range(3)}), 'top': [(1 << h) - 1]}
            shapes_['pair'] = [shapes_['pair'][0], shapes_['pair'][0] + 1]
            for shape, Q in shapes_.items():
                if tier == 'quick' and rng.chance(1, 2): continue
                vals = [rng.felt() for _ in Q]; auths = [rng.felt() for _ in range(auth_count(Q, h))]
                tall.append((h, nf, Q, vals, auths, shape))
    if tall and drv_ok:
        ro, _ = fw.run_split(lambda ls, **kw: fw.run_drv(feats, ls), [f'vroot {h:x} {nf:x} {hexl(Q)} {hexl(v)} {hexl(a)}' for h, nf, Q, v, a, _ in tall])
        for (h, nf, Q, vals, auths, shape), o in zip(tall, ro):
            if not o.startswith('ok '):
                raise fw.Broken('prover', f'vroot failed on a tall sparse instance (h={h}): {o[:120]}')
            root = int(o.split()[1], 16)
            def addt(kind, expect, r=root, v=vals, a=auths, idx=Q):
                out.append({'line': line(r, h, nf, idx, v, a), 'kind': 'tall:' + kind, 'expect': expect, 'h': h, 'shape': shape})
            addt('honest', 'ok'); addt('root+1', 'reject', r=(root + 1) % P)
            j = rng.below(len(Q)); addt('value+1', 'reject', v=vals[:j] + [(vals[j] + 1) % P] + vals[j + 1:])
            for j in sorted({0, len(auths) // 2, len(auths) - 1}):
                addt('sibling+1', 'reject', a=auths[:j] + [(auths[j] + 1) % P] + auths[j + 1:])
            addt('sibling-missing', 'reject', a=auths[:-1])
            addt('half-the-siblings', 'reject', a=auths[:len(auths) // 2])
            addt('index+2^64', 'any', idx=Q[:-1] + [(Q[-1] + (1 << 64)) % P])
    # adversarial field-sized heights / indices: no panic, model agreement only
    for _ in range(20):
        out.append({'line': line(rng.felt(), rng.edge_felt(), rng.edge_felt(), [rng.edge_felt()], [rng.felt()], [rng.felt() for _ in range(rng.below(4))]),
                    'kind': 'adversarial', 'expect': 'any', 'h': 0, 'shape': 'adv'})
    return out


def classify(c, co):
    return f"{c['kind']}:{co[0]}"


def nontrivial(c, co):
    return c['h'] >= 1


def oracle(c, co):
    if co[0] == 'panic':
        return {'key': 'panic:vector_commitment_decommit', 'what': f"vector_commitment_decommit panicked ({c['kind']}): {co[1][:120]}"}
    if c['expect'] == 'ok' and co[0] != 'ok':
        return {'key': f"complete:{c['kind']}", 'what': f"honest decommitment rejected (height {c['h']}, {c['shape']}, {c['kind']})"}
    if c['expect'] == 'reject' and co[0] == 'ok':
        return {'key': f"binding:{c['kind']}", 'what': f"corrupted decommitment accepted: {c['kind']} (height {c['h']}, {c['shape']})"}
    return None
