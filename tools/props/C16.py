"""C16 — constraints and DEEP terms get independent random coefficients.
Theorems: Props/C16.lean — generic: a program accepted by the syntactic checker is linear in its coefficient vector (additive,
homogeneous, outcome class independent of the coefficients, unit decomposition); per layout (7 x {composition, DEEP}), by kernel
evaluation on the programs TRANSLATED FROM THE RUST ON THIS RUN: checkLinear = true, every coefficient position 0..N-1 is consumed by
exactly one accumulate statement (N = the layout's N_CONSTRAINTS resp. MASK_SIZE + CONSTRAINT_DEGREE, translated constants), static
layouts have no conditional statement, the dynamic layout's conditions are exactly its ten uses_*_builtin switches.
Tie: translator regenerated every run + its Lean printer checked by DumpAst + evaluation agreement: the driver evaluates the translated
program, hx calls the real eval_*_polynomial_inner, on random inputs, for all layouts.  Non-vanishing of every term ("not identically
zero") is a THEOREM: nonvanishing_<L> — on one witness input per program (proposed by tools/gen_witness.py, untrusted; for the dynamic layout
with all ten builtins on) every coefficient position has an executed term with a non-zero value, by kernel evaluation of an efficient evaluator
(Model/AstFast) proved equivalent to the executed-terms semantics (nzCount_sound).  It is ALSO tested at random points on the REAL code with
unit coefficient vectors (which is what ties the statement to the Rust evaluators rather than to their translation)."""
import json, os
import framework as fw
from framework import P, hexf, hexl

PID = 'C16'
LEVEL = 'proof'
LEAN_TARGETS = ['Swiftness.Props.C16']
TRANSLATOR_PARTS = ('consts', 'ast')
LAYOUTS = ['dex', 'dynamic', 'recursive', 'recursive_with_poseidon', 'small', 'starknet', 'starknet_with_keccak']
DRV_LAYOUTS = LAYOUTS
BUILDS = {'quick': [('k160', 'stone5', 'full', 'all_layouts', 'parser')], 'thorough': [('k160', 'stone5', 'full', 'all_layouts', 'parser')]}
RULE = ('per layout and per evaluator (composition, DEEP): R random full inputs (mask/columns, oods values, point, oods point, trace '
        'generator, every global value, coefficient vector) compared model-vs-code; additivity triples (c1, c2, c1+c2) and a scaled vector on '
        'the real code; every unit coefficient vector e_i on the real code (value must be non-zero for every position of an enabled '
        'component; dynamic layout: the shipped instance and ~16 instances with other builtin switches — each alone, all, none, random subsets). R = 2 quick / 8 thorough. Whole eval_composition_polynomial (global-value assembly '
        'around the inner evaluator) on the shipped public input of every layout / dynamic instance with random interaction elements, mask, coefficients, point; trace sizes t, t+1, 2^12..2^30: model-vs-code. non-trivial = all.')
ASSUMPTIONS = ['non-vanishing is proved on the TRANSLATED programs (one kernel-checked witness point each); on the real code it is tested at random points with unit vectors',
               'dynamic layout instances: shipped parameters with builtin switches toggled (row ratios of newly enabled builtins set to 16)']
TRUSTED = ['tools/gen_ast.py + tools/rustexpr.py (translator); DumpAst.lean printer check; Python additivity / non-zero oracle', 'tools/gen_witness.py only proposes witnesses: nothing it outputs is trusted (the kernel evaluates the programs on them)']
META = None
HX = None


def meta():
    global META
    if META is None:
        d = os.path.join(fw.LEAN, 'Swiftness', 'Generated')
        META = json.load(open(os.path.join(d, 'ast', 'meta.json')))
        META['consts'] = json.load(open(os.path.join(d, 'consts.json')))
        j = json.load(open('/repo/examples/proofs/dynamic/cairo0_stone6_example_proof.json'))
        dp = j['public_input']['dynamic_params']
        META['dyn'] = [dp[k] for k in sorted(dp)]
    return META


def dyn_instances(rng, tier):
    """dynamic-layout instances: the shipped parameters, and the same with other builtin switches (alone, all, none, random
    subsets; zero row ratios of newly enabled builtins set to 16 so that their domains are non-degenerate)"""
    m = meta(); names = m['dynamic_params']; base = list(m['dyn'])
    flags = [n for n in names if n.startswith('uses_')]
    ratios = [n for n in names if n.endswith('_ratio')]
    def inst(on):
        d = list(base)
        for f in flags: d[names.index(f)] = 1 if f in on else 0
        for r in ratios:
            if d[names.index(r)] == 0: d[names.index(r)] = 16
        return d
    sets = [None] + [{f} for f in flags] + [set(flags), set()]
    for _ in range(4 if tier == 'quick' else 40):
        sets.append({f for f in flags if rng.chance(1, 2)})
    return [(('shipped' if on is None else '+'.join(sorted(x[5:-8] for x in on)) or 'none'), base if on is None else inst(on)) for on in sets]


def enabled_positions(layout, fn, dyn=None):
    """coefficient index -> enabled? (from the translated text program: guards of acc statements, guard slot <- dp j)"""
    m = dict(meta())
    if dyn is not None: m['dyn'] = dyn
    path = os.path.join(fw.LEAN, 'Swiftness', 'Generated', 'ast', f'{layout}.{fn}.txt')
    slot_dp = {}; out = {}
    for line in open(path):
        t = line.split()
        if len(t) >= 5 and t[1] == 'set' and t[3] == 'dp':
            slot_dp[int(t[2])] = int(t[4])
        if len(t) >= 5 and t[1] == 'acc':
            gs = [] if t[0] == '-' else [int(x) for x in t[0].split(',')]
            out[int(t[4])] = all(m['dyn'][slot_dp[g]] != 0 for g in gs) if layout == 'dynamic' else (not gs)
    return out


def layout_dims(L):
    c = meta()['consts']; g = lambda k: c[f'Layout.{L}.{k}']
    if L == 'dynamic':
        dyn = meta()['dyn']; names = meta()['dynamic_params']
        n1 = dyn[names.index('num_columns_first')]; n2 = dyn[names.index('num_columns_second')]
    else:
        n1, n2 = g('NUM_COLUMNS_FIRST'), g('NUM_COLUMNS_SECOND')
    return g('N_CONSTRAINTS'), g('MASK_SIZE'), g('CONSTRAINT_DEGREE'), n1 + n2 + g('CONSTRAINT_DEGREE')


CUR_DYN = None


def dyn_tok(L):
    return (' ' + ','.join(format(x, 'x') for x in (CUR_DYN or meta()['dyn']))) if L == 'dynamic' else ''


def comp_line(L, mask, coeffs, point, tgen, gv):
    names = meta()[L]['gv']
    gvs = ';'.join(f'{n}:{hexf(v)}' for n, v in zip(names, gv)) if names else '-'
    return f'comp_inner {L} {hexl(mask)} {hexl(coeffs)} {hexf(point)} {hexf(tgen)} {gvs}' + dyn_tok(L)


def oods_line(L, cols, oods, coeffs, point, oods_point, tgen):
    return f'oods_inner {L} {hexl(cols)} {hexl(oods)} {hexl(coeffs)} {hexf(point)} {hexf(oods_point)} {hexf(tgen)}' + dyn_tok(L)


def corpus(feats):
    return []


def cases(rng, tier, feats, drv_ok):
    out = []
    R = 2 if tier == 'quick' else 8
    global CUR_DYN
    runs = [(L, None, None) for L in LAYOUTS if L != 'dynamic'] + [('dynamic', nm, d) for nm, d in dyn_instances(rng, tier)]
    for L, iname, dynv in runs:
        CUR_DYN = dynv
        N, M, D, ncols = layout_dims(L)
        ngv = len(meta()[L]['gv'])
        en_c = enabled_positions(L, 'composition', dynv); en_o = enabled_positions(L, 'oods', dynv)
        tag = L if iname is None else f'dynamic[{iname}]'
        for r in range(R if iname in (None, 'shipped') else 1):
            mask = [rng.felt() for _ in range(M)]; gv = [rng.felt() for _ in range(ngv)]
            # trace_length is used as an exponent divisor: keep it a plausible power of two half of the time
            if 'trace_length' in meta()[L]['gv'] and rng.chance(1, 2):
                gv[meta()[L]['gv'].index('trace_length')] = 1 << rng.choice([20, 22, 24])   # >= every row ratio: smaller traces give degenerate (zero) domains
            point, tgen = rng.felt(), rng.felt()
            c1 = [rng.felt() for _ in range(N)]; c2 = [rng.felt() for _ in range(N)]
            a = rng.felt()
            mk = lambda cs: comp_line(L, mask, cs, point, tgen, gv)
            out.append({'line': mk(c1), 'kind': f'{L}:composition:random', 'layout': tag, 'fn': 'composition', 'hxonly': iname not in (None, 'shipped') and not rng.chance(1, 4),
                        'aux': [mk(c2), mk([(x + y) % P for x, y in zip(c1, c2)]), mk([a * x % P for x in c1])], 'scalar': a})
            if r == 0:
                for i in range(N):
                    out.append({'line': mk([1 if j == i else 0 for j in range(N)]), 'kind': f'{L}:composition:unit', 'layout': tag, 'fn': 'composition',
                                'unit': i, 'enabled': en_c.get(i), 'hxonly': not (i % 37 == r)})
            cols = [rng.felt() for _ in range(ncols)]; oods = [rng.felt() for _ in range(M + D)]
            op = rng.felt()
            d1 = [rng.felt() for _ in range(M + D)]; d2 = [rng.felt() for _ in range(M + D)]
            mo = lambda cs: oods_line(L, cols, oods, cs, point, op, tgen)
            if iname not in (None, 'shipped'):
                continue        # the DEEP evaluator has no conditional statements: one dynamic instance suffices
            out.append({'line': mo(d1), 'kind': f'{L}:oods:random', 'layout': tag, 'fn': 'oods',
                        'aux': [mo(d2), mo([(x + y) % P for x, y in zip(d1, d2)]), mo([a * x % P for x in d1])], 'scalar': a})
            if r == 0:
                for i in range(M + D):
                    out.append({'line': mo([1 if j == i else 0 for j in range(M + D)]), 'kind': f'{L}:oods:unit', 'layout': tag, 'fn': 'oods',
                                'unit': i, 'enabled': en_o.get(i), 'hxonly': not (i % 41 == r)})
        if iname not in (None, 'shipped'):
            continue
        # short vectors: index panics must agree with the model (C18 tracks them)
        out.append({'line': comp_line(L, [1] * (M - 1), [1] * N, 5, 7, [3] * ngv), 'kind': f'{L}:composition:short-mask', 'layout': L, 'fn': 'composition'})
        out.append({'line': comp_line(L, [1] * M, [1] * (N - 1), 5, 7, [3] * ngv), 'kind': f'{L}:composition:short-coeffs', 'layout': L, 'fn': 'composition'})
    CUR_DYN = None
    # the layouts' eval_composition_polynomial as a whole (assembly of the global values around the inner evaluator: segment addresses,
    # periodic columns at point^(trace/ratio), public-memory ratio, diluted product; dynamic: per-builtin switches and declared ratios):
    # real code vs model on the shipped public inputs with random interaction elements, masks, coefficients and points
    if HX and 'parser' in feats:
        from props import C14
        C14.HX = HX
        pis = C14.bases()
        for L, iname, dynv in runs:
            if L not in pis: continue
            pi, t, c = pis[L]
            if dynv is not None:
                pi = dict(pi, dyn=list(dynv))
            N, M, D, ncols = layout_dims(L)
            ief = meta()[L]['interaction']
            for r in range(2 if iname in (None, 'shipped') else 1):
                ie = ';'.join(f'{n}:{hexf(rng.felt())}' for n in ief)
                tds = 1 << (t if r == 0 else rng.choice([t, t + 1, 12, 24, 30, 127, 128, 140, 200, 250]))     # (>= 2^128: the u128 range checks)
                out.append({'line': f'eval_comp {L} {ie} {C14.pi_tokens(pi)} {hexl([rng.felt() for _ in range(M)])} {hexl([rng.felt() for _ in range(N)])} '
                                    f'{hexf(rng.felt())} {hexf(tds)} {hexf(rng.felt())}',
                            'kind': f'{L}:composition:preamble', 'layout': L if iname is None else f'dynamic[{iname}]', 'fn': 'composition'})
            # the SAME property one level up: unit coefficient vectors through the whole eval_composition_polynomial, on the shipped public
            # input and on one whose builtin segments are all EMPTY (a program that uses no builtin: the instance still enables them) —
            # every position of an enabled component must still contribute
            en_w = enabled_positions(L, 'composition', dynv)
            tag_w = L if iname is None else f'dynamic[{iname}]'
            ie = ';'.join(f'{n}:{hexf(rng.felt())}' for n in ief)
            mask = [rng.felt() for _ in range(M)]; pt, tg = rng.felt(), rng.felt()
            nseg_fixed = 4   # program, execution, output, and the first builtin share the head of the segment table in every layout: empty everything after output
            pi_empty = dict(pi, segs=[list(sg) if i < 3 else [sg[0], sg[0]] for i, sg in enumerate(pi['segs'])])
            # (quick: a seeded sample of positions; every position in the thorough tier)
            for shape, pv in (('shipped-segments', pi), ('empty-builtin-segments', pi_empty)):
                for i in range(N):
                    if tier == 'quick' and not (i % 17 == 5 or rng.chance(1, 12)): continue
                    out.append({'line': f'eval_comp {L} {ie} {C14.pi_tokens(pv)} {hexl(mask)} {hexl([1 if j == i else 0 for j in range(N)])} {hexf(pt)} {hexf(1 << t)} {hexf(tg)}',
                                'kind': f'{L}:composition:unit', 'layout': tag_w + '/whole:' + shape, 'fn': 'composition', 'unit': i, 'enabled': en_w.get(i), 'hxonly': not rng.chance(1, 10)})
    return out


def classify(c, co):
    return ':'.join(c['kind'].split(':')[1:]) + ':' + co[0]


def nontrivial(c, co):
    return True


def oracle(c, co):
    k = c['kind'].split(':')[2]
    if k.startswith('short') or k == 'preamble':
        return None
    if co[0] != 'ok':
        return {'key': f"{c['kind']}:{co[0]}", 'what': f"{c['kind']} evaluation did not return a value: {co[0]} {co[1][:100]}"}
    v = int(co[1], 16)
    if k == 'unit':
        if c['enabled'] is None:
            return {'key': f"{c['layout']}:{c['fn']}:position-missing", 'what': f"coefficient position {c['unit']} of {c['layout']} {c['fn']} is consumed by no accumulate statement"}
        if c['enabled'] and v == 0:
            return {'key': f"{c['layout']}:{c['fn']}:zero-term", 'what': f"coefficient position {c['unit']} of {c['layout']} {c['fn']} (component enabled) contributes a zero term at a random point"}
        if c['enabled'] is False and v != 0:
            return {'key': f"{c['layout']}:{c['fn']}:disabled-term", 'what': f"coefficient position {c['unit']} of {c['layout']} {c['fn']} contributes although its component is disabled"}
        return None
    a = c.get('aux_code', [])
    if len(a) == 3 and all(x[0] == 'ok' for x in a):
        r2, r12, rs = (int(x[1], 16) for x in a)
        if (v + r2) % P != r12:
            return {'key': f"{c['layout']}:{c['fn']}:additivity", 'what': f"{c['layout']} {c['fn']} evaluation is not additive in the coefficient vector"}
        if c['scalar'] * v % P != rs:
            return {'key': f"{c['layout']}:{c['fn']}:homogeneity", 'what': f"{c['layout']} {c['fn']} evaluation is not homogeneous in the coefficient vector"}
    else:
        return {'key': 'aux', 'what': 'auxiliary evaluation failed'}
    return None
