"""C13 — the public-input digest binds every field of the public input.
Theorems: Props/C13.lean (the hashed list determines every listed field for same-shape inputs; Pedersen-chain binding of the
main page; digest binding in collision-extraction form; prod not bound; stone5 ignores the friendly count).
Tie: PublicInput::get_hash (real, both Stone builds) vs model (Lean Pedersen + Poseidon); relational oracle on the real
outputs: every single-field change / insertion / deletion / transposition changes the seed, equal inputs give equal seeds."""
import copy
from framework import P, hexf, hexl

PID = 'C13'
LEVEL = 'proof'
LEAN_TARGETS = ['Swiftness.Props.C13']
BUILDS = {'quick': [('k160', 'stone5', 'full'), ('k160', 'stone6', 'full')], 'thorough': [('k160', 'stone5', 'full'), ('k160', 'stone6', 'full')]}
RULE = ('bases: random public inputs (0..12 main-page cells, 0..3 continuous page headers, 2..11 segments, with/without 340 dynamic params (values up to 2^64-1; mutations +1, +2^31, +2^32, +2^33, +2^47, +2^63), '
        'edge field values); per base one case per single-field change (step count, range-check bounds, layout code, a dynamic parameter, each '
        'segment bound, padding cell, a main-page address, a main-page value, each page-header field), main-page cell insertion / deletion / '
        'adjacent transposition, a cell equal to the padding cell appended (once / twice) / prepended, first / last cell duplicated, a zero cell appended, friendly-layer count change; aux = the base itself (seed must differ, except: header prod, and the friendly '
        'count under stone5). non-trivial = mutated; distinct = distinct lines.')
ASSUMPTIONS = ['Pedersen/Poseidon (starknet-crypto) are modelled by executable Lean code compared on every case',
               'recorded first challenges of the shipped proofs are compared under C03/C19 (parser build)']
TRUSTED = ['Python relational oracle over the real code outputs']


def rand_pi(rng):
    return {'lns': rng.below(40), 'rmin': rng.below(1 << 16), 'rmax': rng.below(1 << 16), 'layout': rng.choice([0x726563757273697665, rng.felt()]),
            # usize-valued: small, around 2^32 and up to 2^64-1 (every bit of a dynamic parameter is bound)
            'dyn': [rng.choice([rng.below(1 << 20), rng.below(1 << 20), (1 << 32) - 1, 1 << 32, (1 << 32) + rng.below(9), 1 << 47, (1 << 64) - 1, rng.bits(64)])
                    for _ in range(340)] if rng.chance(1, 3) else None,
            'segs': [[rng.edge_felt(), rng.edge_felt()] for _ in range(rng.choice([2, 6, 7, 11]))],
            'pad': [rng.edge_felt(), rng.edge_felt()],
            'page': [[rng.below(1 << 30), rng.edge_felt()] for _ in range(rng.choice([0, 1, 2, 5, 12]))],
            'hdrs': [[rng.below(1 << 30), rng.below(100), rng.felt(), rng.felt()] for _ in range(rng.choice([0, 0, 1, 3]))]}


def rows(rs):
    return ';'.join(':'.join(hexf(x) for x in r) for r in rs) if rs else '-'


def line(pi, nf):
    dyn = ','.join(format(x, 'x') for x in pi['dyn']) if pi['dyn'] is not None else '-'
    return (f"pihash {hexf(pi['lns'])} {hexf(pi['rmin'])} {hexf(pi['rmax'])} {hexf(pi['layout'])} {dyn} {rows(pi['segs'])} "
            f"{hexf(pi['pad'][0])} {hexf(pi['pad'][1])} {rows(pi['page'])} {rows(pi['hdrs'])} {hexf(nf)}")


def corpus(feats):
    return []


def cases(rng, tier, feats, drv_ok):
    out = []
    for _ in range(12 if tier == 'quick' else 120):
        b = rand_pi(rng); nf = rng.choice([0, 9, 100])
        # (half of the bases: the padding cell IS a cell of the main page — what the real parser produces — so that a digest deriving the
        # padding from the page instead of from the field would not notice a changed padding value / address)
        if b['page'] and rng.chance(1, 2): b['pad'] = list(b['page'][rng.below(len(b['page']))])
        base = line(b, nf)
        out.append({'line': base, 'kind': 'base', 'aux': [base], 'bound': 'equal'})
        def mut(kind, f, bound=True, nf2=None):
            m = copy.deepcopy(b); f(m)
            l = line(m, nf if nf2 is None else nf2)
            if l != base:
                out.append({'line': l, 'kind': kind, 'aux': [base], 'bound': bound})
                # HISTORY: the base input is hashed, then the SAME object receives every field of the mutant and is hashed again —
                # the seed must be the one a fresh object with the mutant's value gets (no cache / memo may survive an edit)
                if nf2 is None and rng.chance(1, 2):
                    out.append({'line': 'pihash_seq ' + base.split(' ', 1)[1].rsplit(' ', 1)[0] + ' ' + l.split(' ', 1)[1], 'kind': 'seq:' + kind, 'aux': [l], 'bound': 'equal'})
        mut('log_n_steps', lambda m: m.__setitem__('lns', m['lns'] + 1))
        mut('range_check_min', lambda m: m.__setitem__('rmin', m['rmin'] + 1))
        mut('range_check_max', lambda m: m.__setitem__('rmax', m['rmax'] + 1))
        mut('layout', lambda m: m.__setitem__('layout', (m['layout'] + 1) % P))
        if b['dyn'] is not None:
            for delta in (1, 1 << 31, 1 << 32, 1 << 33, 1 << 47, 1 << 63):
                j = rng.below(340)
                mut('dynamic_param', lambda m, j=j, delta=delta: m['dyn'].__setitem__(j, (m['dyn'][j] + delta) % (1 << 64)))
        for i in range(len(b['segs'])):
            for k in (0, 1):
                if len(b['segs']) <= 3 or rng.chance(1, 3):
                    mut('segment', lambda m, i=i, k=k: m['segs'][i].__setitem__(k, (m['segs'][i][k] + 1) % P))
        mut('padding_addr', lambda m: m['pad'].__setitem__(0, (m['pad'][0] + 1) % P))
        mut('padding_value', lambda m: m['pad'].__setitem__(1, (m['pad'][1] + 1) % P))
        if b['page']:
            j = rng.below(len(b['page']))
            mut('page_address', lambda m: m['page'][j].__setitem__(0, m['page'][j][0] + 1))
            mut('page_value', lambda m: m['page'][j].__setitem__(1, (m['page'][j][1] + 1) % P))
            mut('page_delete', lambda m: m['page'].pop(j))
            if len(b['page']) >= 2 and b['page'][0] != b['page'][1]:
                mut('page_transpose', lambda m: m['page'].__setitem__(slice(0, 2), [m['page'][1], m['page'][0]]))
        mut('page_insert', lambda m: m['page'].insert(rng.below(len(m['page']) + 1), [rng.below(1 << 30), rng.felt()]))
        # cells that COINCIDE with other fields of the input: a cell equal to the padding cell appended / prepended / inserted, a cell
        # duplicated, the last cell repeated (a digest that skipped "padding-like" or repeated cells would not notice)
        mut('page_append_padding_cell', lambda m: m['page'].append(list(m['pad'])))
        mut('page_append_two_padding_cells', lambda m: m['page'].extend([list(m['pad']), list(m['pad'])]))
        mut('page_prepend_padding_cell', lambda m: m['page'].insert(0, list(m['pad'])))
        if b['page']:
            mut('page_duplicate_last', lambda m: m['page'].append(list(m['page'][-1])))
            mut('page_duplicate_first', lambda m: m['page'].insert(0, list(m['page'][0])))
            mut('page_zero_cell_appended', lambda m: m['page'].append([0, 0]))
        for i in range(len(b['hdrs'])):
            mut('header_start', lambda m, i=i: m['hdrs'][i].__setitem__(0, m['hdrs'][i][0] + 1))
            mut('header_size', lambda m, i=i: m['hdrs'][i].__setitem__(1, m['hdrs'][i][1] + 1))
            mut('header_hash', lambda m, i=i: m['hdrs'][i].__setitem__(2, (m['hdrs'][i][2] + 1) % P))
            mut('header_prod', lambda m, i=i: m['hdrs'][i].__setitem__(3, (m['hdrs'][i][3] + 1) % P), bound=False)
        mut('n_friendly', lambda m: None, bound='stone6', nf2=nf + 1)
        out[-1]['line'] = line(b, nf + 1); out[-1]['kind'] = 'n_friendly'
    return out


def classify(c, co):
    return f"{c['kind']}:{co[0]}"


def nontrivial(c, co):
    return c['kind'] != 'base'


def oracle(c, co):
    if co[0] != 'ok':
        return {'key': 'pihash:' + co[0], 'what': f'get_hash did not return ({co[0]} {co[1][:80]})'}
    a = c.get('aux_code', [])
    if not a or a[0][0] != 'ok':
        return {'key': 'pihash:aux', 'what': 'base get_hash failed'}
    same = a[0][1] == co[1]
    b = c['bound']
    if b == 'stone6': b = (c['_stone'] == 'stone6')
    if b == 'equal':
        return None if same else {'key': 'determinism', 'what': 'equal public inputs gave different seeds'}
    if b is True and same:
        return {'key': 'unbound:' + c['kind'], 'what': f"changing {c['kind']} did not change the transcript seed"}
    if b is False and not same and c['kind'] == 'n_friendly':
        return {'key': 'stone5:n_friendly', 'what': 'friendly-layer count changed the seed under stone5'}
    return None
