"""C19 — parser and CLI conversion hand the verifier exactly what the file says.
Theorems: Props/C19.lean over an INDEPENDENT Lean loader (Model/Loader.lean, written from the file format, not from the regexes):
extraction is an order-preserving filterMap that fails on an unparsable member; Data/Hash concatenation = stream order when no Hash
precedes a Data line; segments are the input entries permuted into builtin order, unknown name => error; the 340 dynamic-parameter
keys sorted = the verifier's struct field order (translated from dynamic.rs); checked narrowing (difficulty <= 255, nonce < 2^64);
config derivation; the prover messages tile the proof (byte ranges contiguous from 0, 32 bytes per value) and there is one commitment
per inner FRI layer, numbered in order. PARTIAL: the regex engine and serde are not modelled — they are covered only by this differential test.
Tie: REAL parse (proof_parser sources) + REAL TransformTo (cli/src/transform.rs) vs the Lean loader, token for token, on the 25 shipped
files and on edited copies (value changes; reordered / removed / duplicated / range-shifted / path-garbled annotation lines, each also with the
ranges renumbered so that the edit is a different WELL-FORMED file; a deep-FRI file; messages of a layer beyond the step list; unknown segment names, bad hex, difficulty
255/256/286, nonce 0 / 2^64 / 2^64+5, missing keys); oracle: never panic; truncating edits => error; accepted edits verify iff unchanged."""
import copy, glob, json, os, re
import framework as fw
from framework import P

PID = 'C19'
LEVEL = 'proof'
LEAN_TARGETS = ['Swiftness.Props.C19']
TRANSLATOR_PARTS = ('consts', 'ast')
BUILDS = {'quick': [('k160', 'stone5', 'full', 'all_layouts', 'parser')], 'thorough': [('k160', 'stone5', 'full', 'all_layouts', 'parser'), ('b248', 'stone6', 'full', 'all_layouts', 'parser')]}
RULE = ('all 25 shipped files (parse + convert, compared token for token with the Lean loader) and, from 3 (quick) / all (thorough) of them, edited '
        'copies: one hex digit changed in each annotation class; two lines of a class swapped / one line removed / duplicated / its byte range shifted / its path garbled '
        '(errors since the byte ranges tile the proof), and the same edits with the ranges renumbered (well-formed files: loader decides); a Hash '
        'line moved before the Data lines (with / without renumbering); a deep-FRI file with 12 single-step layers; a message of a layer beyond the step list; well-formed continuous pages in the public memory; difficulty in {0,20,255,256,286,2^32}; nonce in {0,1,2^64-1,2^64,2^64+5}; unknown / missing / extra '
        'memory segment; bad hex in a public-memory value, in the OODS list, in a Hash; n_steps not a power of two / 0; empty fri_step_list; '
        'huge steps; layout name unknown; public_memory empty; annotation list empty. non-trivial = edited.')
ASSUMPTIONS = ['regex and serde behaviour are exercised, not modelled', 'continuous page headers are dropped by the CLI conversion (recorded observation)']
TRUSTED = ['Python editor of the JSON files; oracle: no panic, expected-error classes, loader = parser on everything that parses']
HX = None
SCRATCH = os.path.join(fw.CACHE, 'c19')


def write(name, j):
    os.makedirs(SCRATCH, exist_ok=True)
    p = os.path.join(SCRATCH, name + '.json')
    json.dump(j, open(p, 'w'))
    return p


def ann_idx(j, pat):
    return [i for i, l in enumerate(j['annotations']) if re.search(pat, l)]


CLASSES = {'oods': r'P->V.*OODS values: : Field Elements', 'commit': r'P->V.*Original/Commit on Trace', 'fri-root': r'P->V.*FRI/Commitment/Layer \d+: Commitment',
           'last-layer': r'P->V.*Last Layer: Coefficients', 'pow': r'P->V.*Proof of Work', 'trace0-fe': r'P->V.*Layer 0/Virtual Oracle/Trace 0: Row .*Field Element\(',
           'trace0-hash': r'P->V.*Layer 0/Virtual Oracle/Trace 0: For node .*Hash\(', 'fri1-fe': r'P->V.*Decommitment/Layer 1: Row .*Field Element\(',
           'fri1-hash': r'P->V.*Decommitment/Layer 1: For node .*Hash\('}


def retile(k):
    """renumber the byte ranges of the prover messages so that they tile the proof again (32 bytes per value)"""
    nxt = 0
    for i, l in enumerate(k['annotations']):
        m = re.match(r'P->V\[\d+:\d+\]: (.*)$', l)
        if not m: continue
        n = len(re.findall(r'0x[0-9a-fA-F]+', l.rsplit('(', 1)[-1])) or 1
        k['annotations'][i] = f'P->V[{nxt}:{nxt + 32 * n}]: {m.group(1)}'
        nxt += 32 * n
    if 'proof_hex' in k:       # only its LENGTH is looked at (the messages must cover it)
        k['proof_hex'] = '0x' + '00' * nxt


def edits(rng, j, tag):
    """yield (name, edited json, expectation) ; expectation in {'ok','err','any'}"""
    def E(name, f, expect='any'):
        k = copy.deepcopy(j)
        try:
            f(k)
        except (IndexError, KeyError, StopIteration):
            return None
        return (f'{tag}-{name}', k, expect)
    out = []
    for cname, pat in CLASSES.items():
        idx = ann_idx(j, pat)
        if not idx: continue
        i = rng.choice(idx)
        def digit(k, i=i):
            l = k['annotations'][i]; m = list(re.finditer(r'0x([0-9a-f]+)', l))[-1]
            h = m.group(1); pos = rng.below(len(h)); nd = format((int(h[pos], 16) + 1) % 16, 'x')
            k['annotations'][i] = l[:m.start(1) + pos] + nd + l[m.start(1) + pos + 1:]
        out.append(E(f'{cname}-digit', digit, 'ok'))
        # the byte ranges of the prover messages tile the proof: a removed / duplicated / moved line is an ERROR; the same edit with the
        # ranges renumbered is a different well-formed file (what it converts to is decided by the independent loader)
        out.append(E(f'{cname}-removed', lambda k, i=i: k['annotations'].pop(i), 'err'))
        out.append(E(f'{cname}-duplicated', lambda k, i=i: k['annotations'].insert(i, k['annotations'][i]), 'err'))
        out.append(E(f'{cname}-removed-retiled', lambda k, i=i: (k['annotations'].pop(i), retile(k))))
        out.append(E(f'{cname}-duplicated-retiled', lambda k, i=i: (k['annotations'].insert(i, k['annotations'][i]), retile(k))))
        if len(idx) >= 2:
            a, b = idx[0], idx[1]
            sw = lambda k, a=a, b=b: k['annotations'].__setitem__(slice(a, b + 1), [k['annotations'][b]] + k['annotations'][a + 1:b] + [k['annotations'][a]])
            if j['annotations'][a] != j['annotations'][b]:
                out.append(E(f'{cname}-swapped', sw, 'err'))
            out.append(E(f'{cname}-swapped-retiled', lambda k, sw=sw: (sw(k), retile(k)), 'err' if cname == 'fri-root' else 'ok'))   # layer commitments carry their layer number: out of order is malformed
        def rng_shift(k, i=i):
            m = re.match(r'P->V\[(\d+):(\d+)\]', k['annotations'][i])
            k['annotations'][i] = f'P->V[{int(m.group(1)) + 1}:{int(m.group(2)) + 1}]' + k['annotations'][i][m.end():]
        out.append(E(f'{cname}-range-shifted', rng_shift, 'err'))
        def path_garbled(k, i=i):
            k['annotations'][i] = k['annotations'][i].replace('/cpu air/STARK/', '/cpu air/STARK/X', 1)
        out.append(E(f'{cname}-path-garbled', path_garbled, 'err'))
        def badhex(k, i=i):
            l = k['annotations'][i]; m = list(re.finditer(r'0x([0-9a-f]+)', l))[-1]
            k['annotations'][i] = l[:m.start(1)] + 'zz' + l[m.start(1) + 2:]
        out.append(E(f'{cname}-badhex', badhex, 'err'))
        # LEXICAL variants of one value (a random element of a list, not only the last one): the number written is the same, so the
        # converted proof must be the same (or the file is refused) — never a value cut at the first character a lexer dislikes
        def relex(k, f, i=i):
            l = k['annotations'][i]; head, _, tail = l.rpartition('(')
            ms = list(re.finditer(r'0x([0-9a-f]+)', tail)); m = ms[rng.below(len(ms))]
            k['annotations'][i] = head + '(' + tail[:m.start(1)] + f(m.group(1)) + tail[m.end(1):]
        def upper_tail(h):      # keep the first digit, upper-case the rest (needs a letter there: rotate a value's digits is not allowed, so force one)
            return h[0] + h[1:].upper()
        out.append(E(f'{cname}-lex-upper-tail', lambda k: relex(k, upper_tail), 'any'))
        out.append(E(f'{cname}-lex-upper-all', lambda k: relex(k, str.upper), 'any'))
        out.append(E(f'{cname}-lex-leading-zeros', lambda k: relex(k, lambda h: '000' + h), 'any'))
        out.append(E(f'{cname}-lex-mid-upper', lambda k: relex(k, lambda h: h[:len(h) // 2] + h[len(h) // 2:].upper()), 'any'))
    hs = ann_idx(j, CLASSES['trace0-hash']); ds = ann_idx(j, r'P->V.*Layer 0/Virtual Oracle/Trace 0: .*Data\(')
    if hs and ds:
        out.append(E('hash-before-data', lambda k: k['annotations'].insert(ds[0], k['annotations'].pop(hs[-1])), 'err'))
        out.append(E('hash-before-data-retiled', lambda k: (k['annotations'].insert(ds[0], k['annotations'].pop(hs[-1])), retile(k))))
    for b in [0, 20, 255, 256, 286, 1 << 32]:
        out.append(E(f'powbits={b}', lambda k, b=b: k['proof_parameters']['stark']['fri'].__setitem__('proof_of_work_bits', b), 'err' if b > 255 else 'ok'))
    pw = ann_idx(j, CLASSES['pow'])
    for n in [0, 1, (1 << 64) - 1, 1 << 64, (1 << 64) + 5]:
        out.append(E(f'nonce={n}', lambda k, n=n: k['annotations'].__setitem__(pw[0], re.sub(r'Data\(0x[0-9a-f]+\)', f'Data({hex(n)})', k['annotations'][pw[0]])), 'err' if n >= 1 << 64 else 'ok'))
    # segments whose ADDRESSES are not monotone in builtin order (the file keys them by name: the verifier must get each builtin's own entry
    # at its builtin position, whatever the addresses are)
    def seg_swap(k):
        ms = k['public_input']['memory_segments']; names = [n for n in ms if n not in ('program', 'execution', 'output')]
        a, b = names[0], names[-1]; ms[a], ms[b] = ms[b], ms[a]
    out.append(E('segments-two-builtins-exchanged', seg_swap, 'ok'))
    def seg_low(k):
        ms = k['public_input']['memory_segments']; names = [n for n in ms if n not in ('program', 'execution', 'output')]
        ms[names[-1]] = {'begin_addr': 3, 'stop_ptr': 3}
    out.append(E('segment-last-builtin-at-low-address', seg_low, 'ok'))
    out.append(E('segment-unknown', lambda k: k['public_input']['memory_segments'].__setitem__('frobnicate', {'begin_addr': 1, 'stop_ptr': 2}), 'err'))
    out.append(E('segment-missing', lambda k: k['public_input']['memory_segments'].pop('output'), 'ok'))
    out.append(E('memory-badhex', lambda k: k['public_input']['public_memory'][3].__setitem__('value', '0xzz'), 'err'))
    out.append(E('memory-badhex-page1', lambda k: (k['public_input']['public_memory'][3].__setitem__('value', 'nothex'), k['public_input']['public_memory'][3].__setitem__('page', 1)), 'err'))
    out.append(E('memory-value-lex-upper', lambda k: [e.__setitem__('value', e['value'][:3] + e['value'][3:].upper()) for e in k['public_input']['public_memory']], 'any'))
    out.append(E('memory-value-lex-leading-zeros', lambda k: [e.__setitem__('value', '0x00' + e['value'][2:]) for e in k['public_input']['public_memory'][:8]], 'any'))
    out.append(E('memory-value-ge-P', lambda k: k['public_input']['public_memory'][3].__setitem__('value', hex(P + 5))))
    out.append(E('memory-value-missing', lambda k: k['public_input']['public_memory'][3].pop('value'), 'err'))       # (coverage: never reached)
    out.append(E('memory-value-null', lambda k: k['public_input']['public_memory'][3].__setitem__('value', None), 'err'))
    vp = ann_idx(j, r'V->P.*nteraction element')
    if vp:
        out.append(E('interaction-element-badhex', lambda k: k['annotations'].__setitem__(vp[0], re.sub(r'0x[0-9a-f]+', '0xzz', k['annotations'][vp[0]])), 'any'))
    # ('plain' is a layout the real parser knows and the independent loader does not model: no verifier build exists for it — not compared)
    out.append(E('memory-empty', lambda k: k['public_input'].__setitem__('public_memory', []), 'err'))
    # a well-formed continuous page (consecutive addresses) in the MIDDLE / at the END of the public memory: the main page is
    # every page-0 entry in file order
    out.append(E('memory-page1-middle', lambda k: [k['public_input']['public_memory'][i].__setitem__('page', 1) for i in (5, 6, 7)], 'ok'))
    out.append(E('memory-page1-end', lambda k: [k['public_input']['public_memory'][i].__setitem__('page', 1) for i in (-2, -1)], 'ok'))
    out.append(E('memory-two-pages-interleaved', lambda k: ([k['public_input']['public_memory'][i].__setitem__('page', 1) for i in (3, 4)], [k['public_input']['public_memory'][i].__setitem__('page', 2) for i in (9, 10)]), 'ok'))
    out.append(E('memory-reordered', lambda k: k['public_input']['public_memory'].__setitem__(slice(2, 4), k['public_input']['public_memory'][2:4][::-1]), 'ok'))
    out.append(E('memory-page1-nonconsecutive', lambda k: [k['public_input']['public_memory'][i].__setitem__('page', 1) for i in (5, 9)]))
    out.append(E('n_steps=0', lambda k: k['public_input'].__setitem__('n_steps', 0), 'err'))
    out.append(E('n_steps=3', lambda k: k['public_input'].__setitem__('n_steps', 3), 'err'))
    out.append(E('n_steps=2^31', lambda k: k['public_input'].__setitem__('n_steps', 1 << 31), 'err'))
    out.append(E('steps-empty', lambda k: k['proof_parameters']['stark']['fri'].__setitem__('fri_step_list', []), 'err'))
    out.append(E('steps-huge', lambda k: k['proof_parameters']['stark']['fri'].__setitem__('fri_step_list', [0, 40, 40]), 'err'))
    out.append(E('steps-sum-too-big', lambda k: k['proof_parameters']['stark']['fri'].__setitem__('fri_step_list', [0, 4, 4, 4, 4, 4, 4, 4]), 'err'))
    # the SAME number of layers (so that every annotation still has its consumer) with a step that folds the domain below size 1: the derived
    # layer sizes cannot be computed — an error, never a shorter / partially filled FRI configuration
    def step_over(k, pos, extra):
        fri = k['proof_parameters']['stark']['fri']; st = list(fri['fri_step_list'])
        logn = k['public_input']['n_steps'].bit_length() - 1 + 4 + k['proof_parameters']['stark']['log_n_cosets']     # (upper bound of) log2 of the evaluation domain
        st[pos] = st[pos] + max(0, logn - sum(st)) + extra; fri['fri_step_list'] = st
    for pos in (0, 1, -1):
        for extra in (1, 2, 10):
            out.append(E(f'steps-overflow-pos{pos}+{extra}', lambda k, pos=pos, extra=extra: step_over(k, pos, extra), 'err'))
    out.append(E('last-layer-bound=3', lambda k: k['proof_parameters']['stark']['fri'].__setitem__('last_layer_degree_bound', 3), 'err'))
    out.append(E('layout-unknown', lambda k: k['public_input'].__setitem__('layout', 'nonsense'), 'err'))
    out.append(E('annotations-empty', lambda k: k.__setitem__('annotations', []), 'err'))
    out.append(E('rc_min=2^32', lambda k: k['public_input'].__setitem__('rc_min', 1 << 32), 'err'))
    out.append(E('key-missing', lambda k: k.pop('proof_parameters'), 'err'))
    dp = j['public_input'].get('dynamic_params')
    if dp:
        keys = sorted(dp)
        out.append(E('dynparams-339', lambda k: k['public_input']['dynamic_params'].pop(keys[17]), 'err'))
        out.append(E('dynparams-341', lambda k: k['public_input']['dynamic_params'].__setitem__('zzz_extra', 1), 'err'))
        out.append(E('dynparams-value+1', lambda k: k['public_input']['dynamic_params'].__setitem__(keys[5], dp[keys[5]] + 1), 'ok'))
        out.append(E('dynparams-step=2^28', lambda k: k['public_input']['dynamic_params'].__setitem__('cpu_component_step', 1 << 28), 'err'))
    else:
        out.append(E('dynparams-one-key-on-static', lambda k: k['public_input'].__setitem__('dynamic_params', {'a': 1}), 'err'))
        out.append(E('dynparams-empty-on-static', lambda k: k['public_input'].__setitem__('dynamic_params', {}), 'ok'))
    # a DEEP FRI: the same total folding spread over single-step layers, so that inner layers 10, 11, ... exist; fresh commitment and
    # decommitment lines for every inner layer (a prefix match on "Layer 1" must not swallow "Layer 10")
    def deep(k):
        fri = k['proof_parameters']['stark']['fri']; total = sum(fri['fri_step_list'])
        if total < 11: raise KeyError('too shallow')
        steps = [0] + [1] * 10 + [total - 10]; fri['fri_step_list'] = steps
        nl = len(steps) - 1
        ann = k['annotations']; new = []; done_c = done_d = False
        h = lambda a, b, c: hex((a * 1000003 + b * 7919 + c + 12345) * 0x9e3779b97f4a7c15 % (1 << 250))
        for l in ann:
            if re.search(r'/cpu air/STARK/FRI/Commitment/Layer [1-9]', l):
                if not done_c and 'P->V' in l:
                    done_c = True
                    for q in range(1, nl + 1):
                        new.append(f'V->P: /cpu air/STARK/FRI/Commitment/Layer {q}: Evaluation point: Field Element({h(q, 0, 1)})')
                        new.append(f'P->V[0:32]: /cpu air/STARK/FRI/Commitment/Layer {q}: Commitment: Hash({h(q, 0, 2)})')
                continue
            if re.search(r'/cpu air/STARK/FRI/Decommitment/Layer [1-9]', l):
                if not done_d:
                    done_d = True
                    for q in range(1, nl + 1):
                        for r in range(3):
                            new.append(f'P->V[0:32]: /cpu air/STARK/FRI/Decommitment/Layer {q}: Row {100 * q + r}, Column {r % 2}: Field Element({h(q, r, 3)})')
                        for r in range(2):
                            new.append(f'P->V[0:32]: /cpu air/STARK/FRI/Decommitment/Layer {q}: For node {500 * q + r}: Hash({h(q, r, 4)})')
                continue
            new.append(l)
        if not (done_c and done_d): raise KeyError('no FRI layer lines')
        k['annotations'] = new
        retile(k)
    out.append(E('deep-fri-12-layers', deep, 'ok'))
    def extra_layer(k):     # messages of a FRI layer the step list does not have: nobody consumes them
        nl = len(k['proof_parameters']['stark']['fri']['fri_step_list'])
        k['annotations'].append(f'P->V[0:32]: /cpu air/STARK/FRI/Decommitment/Layer {nl + 3}: Row 1, Column 0: Field Element(0x5)')
        retile(k)
    out.append(E('fri-layer-beyond-step-list', extra_layer, 'err'))
    # the LAST prover message has no successor whose range could expose a gap: damage to it must be caught by the line check itself
    lastpv = lambda k: max(i for i, l in enumerate(k['annotations']) if l.startswith('P->V'))
    out.append(E('last-message-paren-lost', lambda k: k['annotations'].__setitem__(lastpv(k), k['annotations'][lastpv(k)].rstrip(')')), 'err'))
    out.append(E('last-message-kind-misspelt', lambda k: k['annotations'].__setitem__(lastpv(k), k['annotations'][lastpv(k)].replace('Hash(', 'Hsah(').replace('Field Element(', 'Field Elemnt(')), 'err'))
    out.append(E('last-message-range-dash', lambda k: k['annotations'].__setitem__(lastpv(k), re.sub(r'^P->V\[(\d+):(\d+)\]', r'P->V[\1-\2]', k['annotations'][lastpv(k)])), 'err'))
    firstpv = lambda k: min(i for i, l in enumerate(k['annotations']) if l.startswith('P->V'))
    out.append(E('first-message-paren-lost', lambda k: k['annotations'].__setitem__(firstpv(k), k['annotations'][firstpv(k)].rstrip(')')), 'err'))
    out.append(E('trailing-message-removed', lambda k: k['annotations'].pop(max(i for i, l in enumerate(k['annotations']) if l.startswith('P->V'))), 'err'))   # proof_hex is longer than what the messages cover
    out.append(E('trailing-message-removed,no-proof-hex', lambda k: (k['annotations'].pop(max(i for i, l in enumerate(k['annotations']) if l.startswith('P->V'))), k.pop('proof_hex', None)), 'any'))
    out.append(E('proof-hex-truncated', lambda k: k.__setitem__('proof_hex', k['proof_hex'][:-64]), 'err'))
    out.append(E('proof-hex-absent', lambda k: k.pop('proof_hex'), 'ok'))
    out.append(E('log_n_cosets=2^32-1', lambda k: k['proof_parameters']['stark'].__setitem__('log_n_cosets', (1 << 32) - 1), 'err'))
    return [e for e in out if e]


def corpus(feats):
    return []


def cases(rng, tier, feats, drv_ok):
    out = []
    files = sorted(glob.glob('/repo/examples/proofs/*/*proof.json'))
    for f in files:
        out.append({'line': f'parsefile {f}', 'kind': 'shipped', 'expect': 'ok', 'name': f.split('proofs/')[1]})
    stone = fw.stone_of(feats)
    srcs = [f for f in files if (stone in os.path.basename(f))]
    if tier == 'quick': srcs = [f for f in srcs if '/recursive/' in f or '/starknet/' in f or '/dynamic/' in f][:3]
    for f in srcs:
        j = json.load(open(f))
        for k in ('private_input', 'prover_config'): j.pop(k, None)
        tag = f.split('proofs/')[1].replace('/', '_').replace('.json', '')
        for name, ej, expect in edits(rng, j, tag):
            p = write(name, ej)
            out.append({'line': f'parsefile {p}', 'kind': 'edited:' + name.split('-', 1)[1].split('=')[0], 'expect': expect, 'name': name})
    return out


def classify(c, co):
    return f"{c['kind'].split(':')[0]}:{c['expect']}:{co[0]}"


def nontrivial(c, co):
    return c['kind'] != 'shipped'


# edit classes on which the real regex-based parser is knowingly more lenient than the file format (recorded as known findings)
LENIENT = {'duplicated': 'duplicate-or-misordered-annotation', 'swapped': 'duplicate-or-misordered-annotation',
           'hash-before-data': 'hash-before-data-reordered', 'badhex': 'garbled-line-skipped', 'removed': 'garbled-line-skipped'}


def disagreement(c, co, mo):
    """the independent Lean loader is the specification of the file format here"""
    kind = c['kind'].split(':')[-1]
    if co[0] == 'panic':
        return None                      # reported by the oracle
    if co[0] == 'err' and mo[0] == 'ok':
        # the real parser validates data that never reaches the verifier (continuous pages, number of V->P interaction lines)
        # a lexical variant Stone never writes (upper-case digits, leading zeros) may be refused; it must never convert to another number
        return None if ('nonconsecutive' in kind or 'lex-' in kind or 'interaction-element' in kind) else {'key': 'rejects:' + kind, 'what': f"the real parser rejects a file the format accepts ({c['name']})"}
    if co[0] == 'ok' and mo[0] == 'err':
        for suffix, key in LENIENT.items():
            if kind.endswith(suffix):
                return {'key': 'lenient:' + key, 'what': f"the real parser converted a file the format rejects ({c['name']}: {mo[1] if len(mo) > 1 else ''})"}
        return {'key': 'lenient:' + kind, 'what': f"the real parser converted a file the format rejects ({c['name']})"}
    if co[0] == 'ok' and mo[0] == 'ok':
        for suffix, key in LENIENT.items():
            if kind.endswith(suffix):
                return {'key': 'differs:' + key, 'what': f"the converted proof differs from the file's stream order ({c['name']})"}
        return {'key': 'differs:' + kind, 'what': f"the converted proof differs from what the file says ({c['name']})"}
    return 'broken'


def oracle(c, co):
    if co[0] == 'panic':
        return {'key': 'panic:' + co[1].split(' ')[0].replace('/repo/', '').rsplit(':', 1)[0], 'what': f"parser/conversion panicked on {c['name']}: {co[1][:160]}"}
    if c['expect'] == 'ok' and co[0] != 'ok':
        return {'key': 'rejects:' + c['kind'], 'what': f"well-formed file rejected ({c['name']}): {co[1][:120]}"}
    if c['expect'] == 'err' and co[0] == 'ok':
        kind = c['kind'].split(':')[-1]
        if kind.endswith('badhex'):
            return {'key': 'lenient:garbled-line-skipped', 'what': f"an annotation line with an unparsable payload was skipped instead of rejected ({c['name']})"}
        return {'key': 'accepts:' + kind, 'what': f"malformed / non-fitting file converted without error ({c['name']})"}
    return None
