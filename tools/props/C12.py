"""C12 — domain generators have exactly the right order.
Theorems: Props/C12.lean (all t, c with t + c <= 192, by group theory, no enumeration).
Tie: StarkDomains::new (real) vs Model.StarkDomains.new on ALL 18 721 pairs (thorough) / a stride (quick)
plus random large field elements; spec oracle computed independently here in Python."""
from framework import P, hexf

PID = 'C12'
LEVEL = 'proof'
LEAN_TARGETS = ['Swiftness.Props.C12']
BUILDS = {'quick': [('k160', 'stone5', 'full')], 'thorough': [('k160', 'stone5', 'full')]}
RULE = ('cases = (log_trace_domain_size, log_n_cosets) pairs: every pair with sum <= 192 (thorough; quick: every pair with '
        'sum in a seed-dependent residue class mod 7 plus all pairs with sum >= 186 or <= 3), plus pairs with sum > 192 and random/edge '
        'field elements (no-panic + correspondence only). distinct = distinct pairs; non-trivial = sum >= 1.')
ASSUMPTIONS = ['Felt::pow_felt / field_div of starknet-types-core behave as Model.Felt.pow / inv (compared on every case)',
               'harness built with stable rustc instead of the repo-pinned 1.82']
TRUSTED = ['Python spec oracle: order(g) = 2^k checked as g^(2^k) = 1 and g^(2^(k-1)) != 1']


def corpus(feats):
    return [{'line': 'domains 12 4', 'kind': 'fixture', 't': 18, 'c': 4}]


def cases(rng, tier, feats, drv_ok):
    out = []
    r = rng.below(7)
    for s in range(0, 193):
        for t in range(0, s + 1):
            c = s - t
            if tier == 'thorough' or s % 7 == r or s >= 186 or s <= 3:
                out.append({'line': f'domains {t:x} {c:x}', 'kind': 'in-range', 't': t, 'c': c})
    for _ in range(200 if tier == 'quick' else 2000):
        t, c = rng.edge_felt(), rng.edge_felt()
        if rng.chance(1, 2):
            t, c = rng.below(400), rng.below(400)
        out.append({'line': f'domains {hexf(t)} {hexf(c)}', 'kind': 'in-range' if t + c <= 192 else 'out-of-range', 't': t, 'c': c})
    return out


def classify(c, co):
    return f"{c['kind']}:{co[0]}"


def nontrivial(c, co):
    return c['t'] + c['c'] >= 1


def order_is(g, k):
    if pow(g, 1 << k, P) != 1:
        return False
    return k == 0 or pow(g, 1 << (k - 1), P) != 1


def oracle(c, co):
    t, cc = c['t'], c['c']
    if co[0] == 'panic':
        return {'key': 'panic:domains', 'what': f'StarkDomains::new({t},{cc}) panicked: {co[1]}'}
    if t + cc > 192:
        return None
    if co[0] != 'ok':
        return {'key': 'err:domains', 'what': f'StarkDomains::new({t},{cc}) did not return a value'}
    v = [int(x, 16) for x in co[1].split()]
    log_eval, eval_size, eval_gen, log_trace, trace_size, trace_gen = v
    bad = []
    if log_eval != t + cc or eval_size != 1 << (t + cc): bad.append('eval size')
    if log_trace != t or trace_size != 1 << t: bad.append('trace size')
    if not order_is(eval_gen, t + cc): bad.append('eval generator order')
    if not order_is(trace_gen, t): bad.append('trace generator order')
    if pow(eval_gen, 1 << cc, P) != trace_gen: bad.append('trace generator != eval generator ^ 2^c')
    if bad:
        return {'key': 'domains:' + bad[0], 'what': f'StarkDomains::new({t},{cc}): wrong {", ".join(bad)}'}
    return None
