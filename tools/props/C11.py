"""C11 — config validation accepts exactly consistent, sufficiently secure configs.
Theorems: Props/C11.lean (validate = ok <-> ConfigOK over naturals, for ALL configs; never panics; corollaries).
Constants in the model come from the translator, so a changed bound in the Rust breaks validate_iff at build time.
Tie: StarkConfig::validate (real) vs model vs an independent Python transcription of the property sentence."""
import copy
from framework import P, hexf, hexl

PID = 'C11'
LEVEL = 'proof'
LEAN_TARGETS = ['Swiftness.Props.C11']
BUILDS = {'quick': [('k160', 'stone5', 'full')], 'thorough': [('k160', 'stone5', 'full')]}
RULE = ('bases: the in-tree fixture config and randomly synthesised VALID configs (random layer count 2..15, steps 1..4, last bound 0..15, '
        'blow-up 1..16, queries 1..48, pow 20..50, columns of the 7 layouts); from each base: every single-field perturbation by -1/+1, every '
        'numeric field set to each of {0,1,2,15,16,17,47,48,49,2^16,2^40,2^64,2^128,P-2,P-1}, vector truncations/extensions, consistent '
        're-declarations (trace halved & blow-up doubled, trace doubled with FRI untouched, blow-up = P-2 with modular re-declaration), '
        'security level around the threshold; every bound of the validation met by an otherwise fully consistent configuration (blow-up 0/1/16/17, queries 0/1/48/49, last bound 0/15/16, '
        'layers 1/2/15/16, step 0/5, first step 1, pow 19/51) with all dependent numbers re-derived. non-trivial = differs from its base; distinct = distinct lines.')
ASSUMPTIONS = ['harness built with stable rustc instead of the repo-pinned 1.82']
TRUSTED = ['Python oracle: the property sentence transcribed over Python integers (no modular arithmetic)']

EDGE = [0, 1, 2, 15, 16, 17, 47, 48, 49, 1 << 16, 1 << 40, 1 << 64, 1 << 128, P - 2, P - 1]
LAYOUT_COLS = [(7, 3), (21, 1), (25, 1), (8, 3), (10, 2), (15, 1), (12, 3)]


SCALARS = ['t', 'c', 'nq', 'nf', 'lis', 'nl', 'last']


def valid_config(rng):
    nl = rng.choice([2, 3, 5, 5, 8, 15])
    steps = [0] + [rng.choice([1, 2, 3, 4]) for _ in range(nl - 1)]
    last = rng.below(16)
    c = rng.choice([1, 2, 2, 4, 16])
    t = sum(steps) + last
    lis = t + c
    nf = rng.choice([0, 9, 100])
    inner = []
    h = lis
    for s in steps[1:]:
        h -= s
        inner.append([1 << s, h, nf])
    nc1, nc2 = rng.choice(LAYOUT_COLS)
    return {'t': t, 'c': c, 'nq': rng.choice([1, 10, 16, 48]), 'nf': nf, 'pow': rng.choice([20, 30, 50]),
            'orig': [nc1, lis, nf], 'inter': [nc2, lis, nf], 'comp': [2, lis, nf],
            'lis': lis, 'nl': nl, 'last': last, 'steps': steps, 'inner': inner, 'nc1': nc1, 'nc2': nc2}


FIXTURE = {'t': 0x12, 'c': 2, 'nq': 10, 'nf': 0x64, 'pow': 0x1e, 'orig': [7, 0x14, 0x64], 'inter': [3, 0x14, 0x64], 'comp': [2, 0x14, 0x64],
           'lis': 0x14, 'nl': 5, 'last': 7, 'steps': [0, 4, 3, 2, 2], 'inner': [[16, 16, 100], [8, 13, 100], [4, 11, 100], [4, 9, 100]],
           'nc1': 7, 'nc2': 3}


def rows(rs):
    return ';'.join(':'.join(hexf(x) for x in r) for r in rs) if rs else '-'


def line(cfg, sec):
    return (f"starkcfg {hexf(sec)} {hexf(cfg['nc1'])} {hexf(cfg['nc2'])} {hexf(cfg['t'])} {hexf(cfg['c'])} {hexf(cfg['nq'])} {hexf(cfg['nf'])} "
            f"{cfg['pow'] & 0xff:x} {rows([cfg['orig']])} {rows([cfg['inter']])} {rows([cfg['comp']])} {hexf(cfg['lis'])} {hexf(cfg['nl'])} "
            f"{hexf(cfg['last'])} {hexl(cfg['steps'])} {rows(cfg['inner'])}")


def config_ok(cfg, sec):
    """the property sentence, over integers"""
    pw = cfg['pow'] & 0xff
    if not (20 <= pw <= 50): return False
    if not (1 <= cfg['c'] <= 16 and 1 <= cfg['nq'] <= 48): return False
    if not (cfg['nq'] * cfg['c'] + pw >= sec): return False
    if cfg['orig'][0] != cfg['nc1'] or cfg['inter'][0] != cfg['nc2']: return False
    if not (1 <= cfg['nc1'] <= 128 and 1 <= cfg['nc2'] <= 128): return False   # every layout satisfies this; the Rust checks it too
    for v in (cfg['orig'], cfg['inter'], cfg['comp']):
        if v[1] != cfg['t'] + cfg['c'] or v[2] != cfg['nf']: return False
    nl = cfg['nl']
    if not (2 <= nl <= 15): return False
    if len(cfg['steps']) < nl or len(cfg['inner']) < nl - 1: return False
    if cfg['steps'][0] != 0: return False
    h = cfg['lis']
    for i in range(1, nl):
        s = cfg['steps'][i]
        if not (1 <= s <= 4): return False
        h -= s
        tc = cfg['inner'][i - 1]
        if tc[0] != 1 << s or tc[1] != h or tc[2] != cfg['nf'] or h < 0: return False
    if cfg['last'] > 15: return False
    tot = sum(cfg['steps'][1:nl]) + cfg['last'] + cfg['c']
    return cfg['lis'] == tot and cfg['lis'] == cfg['t'] + cfg['c']


def threshold(cfg):
    return cfg['nq'] * cfg['c'] + (cfg['pow'] & 0xff)


def corpus(feats):
    return [mk(FIXTURE, 50, 'fixture'), mk(FIXTURE, 51, 'fixture-sec+1')]


def norm(cfg):
    c = copy.deepcopy(cfg)
    for k in SCALARS + ['nc1', 'nc2']: c[k] %= P
    for k in ('orig', 'inter', 'comp'): c[k] = [x % P for x in c[k]]
    c['steps'] = [x % P for x in c['steps']]
    c['inner'] = [[x % P for x in r] for r in c['inner']]
    return c


def mk(cfg, sec, kind):
    cfg = norm(cfg); sec %= P
    return {'line': line(cfg, sec), 'kind': kind, 'cfg': cfg, 'sec': sec}




def mutants(rng, base, tier):
    out = []
    sec = min(threshold(base), 60) if rng.chance(3, 4) else rng.choice([0, threshold(base), threshold(base) + 1, P - 1])
    out.append(mk(base, sec, 'base'))
    out.append(mk(base, threshold(base) + 1, 'sec-above'))
    out.append(mk(base, threshold(base), 'sec-at'))
    def put(path, val, kind):
        c = copy.deepcopy(base)
        if len(path) == 1: c[path[0]] = val
        elif len(path) == 2: c[path[0]][path[1]] = val
        else: c[path[0]][path[1]][path[2]] = val
        out.append(mk(c, sec, kind))
    paths = [(k,) for k in SCALARS] + [(k, j) for k in ('orig', 'inter', 'comp') for j in range(3)] + \
            [('steps', j) for j in range(len(base['steps']))] + [('inner', i, j) for i in range(len(base['inner'])) for j in range(3)]
    for pth in paths:
        cur = base[pth[0]] if len(pth) == 1 else (base[pth[0]][pth[1]] if len(pth) == 2 else base[pth[0]][pth[1]][pth[2]])
        put(pth, (cur + 1) % P, 'field+1:' + pth[0])
        put(pth, (cur - 1) % P, 'field-1:' + pth[0])
        for e in (EDGE if tier == 'thorough' or len(pth) == 1 else [rng.choice(EDGE)]):
            put(pth, e, 'field=edge:' + pth[0])
    for pw in [0, 19, 20, 21, 49, 50, 51, 128, 255]:
        put(('pow',), pw, 'pow')
    # vector shapes
    put(('steps',), base['steps'][:-1], 'steps-truncated'); put(('steps',), base['steps'] + [2], 'steps-extended'); put(('steps',), [], 'steps-empty')
    put(('inner',), base['inner'][:-1], 'inner-truncated'); put(('inner',), base['inner'] + [[4, 1, base['nf']]], 'inner-extended'); put(('inner',), [], 'inner-empty')
    # layout column mismatch
    c = copy.deepcopy(base); c['nc1'] = base['nc1'] + 1; out.append(mk(c, sec, 'layout-cols-differ'))
    # consistent re-declarations
    c = copy.deepcopy(base); c['t'] -= 1; c['c'] += 1; c['last'] -= 1; out.append(mk(c, sec, 'redeclare:trace/2,blowup*2,bound/2'))
    c = copy.deepcopy(base); c['t'] += 1
    for k in ('orig', 'inter', 'comp'): c[k][1] += 1
    out.append(mk(c, sec, 'redeclare:trace*2,fri-untouched'))
    c = copy.deepcopy(base); deg = c['lis'] - c['c']; c['c'] = P - 2
    hh = (c['t'] + P - 2) % P
    for k in ('orig', 'inter', 'comp'): c[k][1] = hh
    c['lis'] = (deg + P - 2) % P
    l = c['lis']
    for i in range(1, len(c['steps'])):
        l = (l - c['steps'][i]) % P
        if i - 1 < len(c['inner']): c['inner'][i - 1][1] = l
    c['nq'] = 0
    out.append(mk(c, 30, 'redeclare:blowup=P-2-modular'))
    c = copy.deepcopy(base); c['nq'] = 1 << 40; out.append(mk(c, sec, 'nq=2^40'))
    # cooperating sites: vectors cut short AND every dependent number re-declared so that the shortened description is self-consistent
    nl = base['nl']
    for k in range(0, nl - 1):
        for keep_steps in (True, False):
            c = copy.deepcopy(base)
            c['inner'] = c['inner'][:k]
            if not keep_steps: c['steps'] = c['steps'][:k + 1]
            lis = sum(base['steps'][1:k + 1]) + base['last'] + base['c']
            c['lis'] = lis; c['t'] = lis - base['c']
            for key in ('orig', 'inter', 'comp'): c[key][1] = lis
            h = lis
            for i in range(k):
                h -= base['steps'][i + 1]; c['inner'][i][1] = h
            out.append(mk(c, min(sec, threshold(c)), f'truncated-consistent:inner={k},steps={"kept" if keep_steps else "cut"}'))
            c2 = copy.deepcopy(c); c2['steps'] = c2['steps'][:k + 1] + [rng.choice([0, 5, 9, P - 1])] * (nl - 1 - k)
            out.append(mk(c2, min(sec, threshold(c2)), f'truncated-consistent:inner={k},trailing-steps-out-of-range'))
    # every bound of the validation met by an otherwise fully CONSISTENT configuration: one parameter just outside (or on) its bound with all
    # dependent numbers (heights, input size, inner layers, steps, security request) re-derived from it
    def consistent(c_, nq_, steps_, last_, pw_):
        t_ = sum(steps_) + last_; lis_ = t_ + c_
        inner_, h = [], lis_
        for s_ in steps_[1:]:
            h -= s_; inner_.append([1 << s_, h, base['nf']])
        return {'t': t_, 'c': c_, 'nq': nq_, 'nf': base['nf'], 'pow': pw_, 'orig': [base['nc1'], lis_, base['nf']], 'inter': [base['nc2'], lis_, base['nf']],
                'comp': [2, lis_, base['nf']], 'lis': lis_, 'nl': len(steps_), 'last': last_, 'steps': list(steps_), 'inner': inner_, 'nc1': base['nc1'], 'nc2': base['nc2']}
    bs, bl, bq, bc, bp = base['steps'][:base['nl']], base['last'], base['nq'], base['c'], base['pow']
    for kind, cfg_ in [('blowup=0', consistent(0, bq, bs, bl, bp)), ('blowup=1', consistent(1, bq, bs, bl, bp)), ('blowup=16', consistent(16, bq, bs, bl, bp)),
                       ('blowup=17', consistent(17, bq, bs, bl, bp)), ('queries=0', consistent(bc, 0, bs, bl, bp)), ('queries=1', consistent(bc, 1, bs, bl, bp)),
                       ('queries=48', consistent(bc, 48, bs, bl, bp)), ('queries=49', consistent(bc, 49, bs, bl, bp)),
                       ('last=15', consistent(bc, bq, bs, 15, bp)), ('last=16', consistent(bc, bq, bs, 16, bp)), ('last=0', consistent(bc, bq, bs, 0, bp)),
                       ('layers=1', consistent(bc, bq, [0], bl, bp)), ('layers=2', consistent(bc, bq, [0, 2], bl, bp)),
                       ('layers=15', consistent(bc, bq, [0] + [1] * 14, bl, bp)), ('layers=16', consistent(bc, bq, [0] + [1] * 15, bl, bp)),
                       ('step=5', consistent(bc, bq, [0, 5], bl, bp)), ('step=0', consistent(bc, bq, [0, 0, 2], bl, bp)), ('first-step=1', consistent(bc, bq, [1, 2], bl, bp)),
                       ('pow=19', consistent(bc, bq, bs, bl, 19)), ('pow=51', consistent(bc, bq, bs, bl, 51)), ('blowup=0,queries=0', consistent(0, 0, bs, bl, bp))]:
        for sec_ in (0, min(threshold(cfg_), 60)):
            out.append(mk(cfg_, sec_, 'bound-consistent:' + kind))
    # several fields at once (random), verdict by the oracle and by the model
    for _ in range(30 if tier == 'quick' else 300):
        c = copy.deepcopy(base)
        for __ in range(rng.choice([2, 2, 3])):
            pth = rng.choice(paths)
            val = rng.choice([0, 1, 2, 3, 4, 5, 15, 16, 17, rng.below(40), P - 1])
            if len(pth) == 1: c[pth[0]] = val
            elif len(pth) == 2: c[pth[0]][pth[1]] = val
            else: c[pth[0]][pth[1]][pth[2]] = val
        out.append(mk(c, rng.choice([0, sec]), 'multi-field'))
    return out


def cases(rng, tier, feats, drv_ok):
    out = []
    bases = [FIXTURE] + [valid_config(rng) for _ in range(4 if tier == 'quick' else 40)]
    for b in bases:
        out += mutants(rng, b, tier)
    return out


def classify(c, co):
    k = c['kind'].split(':')[0]
    return f"{k}:{co[0]}"


def nontrivial(c, co):
    return c['kind'] not in ('base', 'fixture')


def oracle(c, co):
    if co[0] == 'panic':
        return {'key': 'panic:' + co[1].split(' ')[0].replace('/repo/', ''), 'what': f"StarkConfig::validate panicked ({c['kind']}): {co[1][:140]}"}
    want = config_ok(c['cfg'], c['sec'])
    if want and co[0] != 'ok':
        return {'key': 'exact:rejects-valid', 'what': f"a consistent, sufficiently secure config was rejected ({c['kind']})"}
    if not want and co[0] == 'ok':
        return {'key': 'exact:accepts-invalid:' + c['kind'].split(':')[0], 'what': f"an inconsistent or insecure config was accepted ({c['kind']})"}
    return None
