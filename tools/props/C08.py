"""C08 — Fiat-Shamir challenges depend on exactly the messages sent before them.
Theorems: Props/C08.lean (prefix independence, determinism, counter reset / increment, pairwise distinct consecutive
inputs, history binding and later-challenge change in collision-extraction form, and `commit_script`: stark_commit IS the
fixed script of absorbs and squeezes, for every layout-ops instance).
Tie: random interleavings of absorb(felt | vector | u64) and squeeze through the real Transcript and the model (Lean Poseidon);
relational oracle on the REAL outputs: prefix property, distinct consecutive challenges, a changed message changes every later
challenge, later messages change nothing before them."""
from framework import P, hexf, hexl

PID = 'C08'
LEVEL = 'proof'
LEAN_TARGETS = ['Swiftness.Props.C08']
BUILDS = {'quick': [('k160', 'stone5'), ('k160', 'stone5', 'full', 'all_layouts', 'parser')],
          'thorough': [('k160', 'stone5'), ('b248', 'stone5'), ('k160', 'stone5', 'full', 'all_layouts', 'parser'),
                       ('b248', 'stone6', 'full', 'all_layouts', 'parser'), ('k160', 'stone6', 'full', 'all_layouts', 'parser')]}
HX = None
RULE = ('random op sequences (length <= 40 quick / <= 400 thorough) over {absorb felt, commitment through vector_commit / table_commit with friendly-layer counts 0 / 1 / h / h+1 / 100, absorb vector (incl. empty), absorb u64 (incl. 0, '
        'u64::MAX), squeeze, batch squeeze of 0..7} from random/edge digests and counters (incl. P-1 wrap); each with three auxiliary real-code runs: a strict '
        'prefix, the sequence with one absorbed value changed, the sequence with extra trailing messages. non-trivial = >= 2 ops with an '
        'absorb and a squeeze.')
ASSUMPTIONS = ['Poseidon (starknet-crypto) is modelled by executable Lean code compared on every case; the oracle itself is relational',
               'recorded Stone transcripts (V->P lines of the shipped proofs) are a test on recorded data, run on the parser build(s)']
TRUSTED = ['Python relational oracle over the real code outputs']


def rand_ops(rng, n):
    ops = []
    for _ in range(n):
        k = rng.below(10)
        if k < 3: ops.append('r')
        elif k < 4: ops.append('R:' + format(rng.choice([0, 1, 2, 3, 7]), 'x'))
        elif k < 5: ops.append('f:' + hexf(rng.edge_felt()))
        elif k < 6:
            # a commitment sent through vector_commit / table_commit, for every kind of friendly-layer count (0 = all layers masked)
            h = rng.choice([0, 1, 5, 20, 64]); nf = rng.choice([0, 0, 1, h, h + 1, 100])
            root = rng.choice([rng.edge_felt(), rng.felt(), rng.bits(160), rng.bits(248)])
            ops.append(f'c:{hexf(root)}:{h:x}:{nf:x}' if rng.chance(1, 2) else f't:{hexf(root)}:{rng.choice([1, 2, 7]):x}:{h:x}:{nf:x}')
        elif k < 8: ops.append('v:' + hexl([rng.edge_felt() for _ in range(rng.choice([0, 1, 2, 5, 17]))]))
        else: ops.append('u:' + format(rng.choice([0, 1, rng.bits(64), (1 << 64) - 1]), 'x'))
    return ops


def mutate(rng, ops, force=None):
    idx = [i for i, o in enumerate(ops) if o[0] in 'fuct' or (o[0] == 'v' and o != 'v:-')]
    if not idx: return None, None
    i = rng.choice(idx) if force is None else force[0]; o = ops[i]
    # a changed message: +1, or a value that differs only ABOVE a digest width (what a truncating absorb would alias)
    delta = rng.choice([1, 1, 1 << 160, 1 << 200, 1 << 248, 1 << 250])
    if force is not None: delta = force[1]
    if o[0] == 'f': new = 'f:' + hexf((int(o[2:], 16) + delta) % P)
    elif o[0] in 'ct':
        f = o[2:].split(':'); f[0] = hexf((int(f[0], 16) + delta) % P); new = o[:2] + ':'.join(f)
    elif o[0] == 'u': new = 'u:' + format((int(o[2:], 16) + 1) % (1 << 64), 'x')
    else:
        vs = [int(x, 16) for x in o[2:].split(',')]; j = rng.below(len(vs)); vs[j] = (vs[j] + 1) % P
        new = 'v:' + hexl(vs)
    return i, ops[:i] + [new] + ops[i + 1:]


def mk(rng, d, c, ops, force=None):
    pre = rng.below(len(ops) + 1)
    mi, mops = mutate(rng, ops, force)
    head = f'transcript {hexf(d)} {hexf(c)} '
    aux = [head + ' '.join(ops[:pre]) if pre else head.strip(), head + ' '.join(ops + rand_ops(rng, 3))]
    if mops: aux.append(head + ' '.join(mops))
    return {'line': (head + ' '.join(ops)).strip(), 'kind': 'history', 'ops': ops, 'pre': pre, 'mi': mi, 'aux': aux}


def corpus(feats):
    return []


def recorded_cases(feats):
    """recorded Stone transcripts: the V->P lines of the shipped proofs this build accepts (a test on recorded data)"""
    import glob, json, os, re
    import framework as fw
    out = []
    files = []
    for f in sorted(glob.glob('/repo/examples/proofs/*/*proof.json')):
        j = json.load(open(f)); pp = j['proof_parameters']
        stone = 'stone6' if 'stone6' in os.path.basename(f) else 'stone5'
        if stone != fw.stone_of(feats): continue
        files.append((f, j))
    if not files or not HX: return out
    toks, _ = fw.run_split(lambda ls, **kw: fw.run_hx(HX, ls), [f'parsefile {f}' for f, _ in files])
    for (f, j), t in zip(files, toks):
        if not t.startswith('ok '): continue
        rec = {'ie': [], 'oods_point': None, 'oods_alpha': None, 'eval_points': [], 'queries': []}
        for l in j['annotations']:
            if not l.startswith('V->P'): continue
            m = re.search(r'\((0x[0-9a-f]+|\d+)\)\s*$', l)
            if not m: continue
            v = int(m.group(1), 0)
            if '/STARK/Interaction: Interaction element' in l: rec['ie'].append(v)
            elif '/Out Of Domain Sampling/OODS values: Evaluation point' in l: rec['oods_point'] = v
            elif '/Out Of Domain Sampling: Constraint polynomial random element' in l: rec['oods_alpha'] = v
            elif '/FRI/Commitment/Layer' in l and 'Evaluation point' in l: rec['eval_points'].append(v)
            elif '/FRI/QueryIndices' in l: rec['queries'].append(v)
        out.append({'line': f"challenges {j['public_input']['layout']} {t[3:]}", 'kind': 'recorded', 'ops': [], 'rec': rec, 'hxonly': True,
                    'name': f.split('proofs/')[1]})
    return out


def cases(rng, tier, feats, drv_ok):
    if 'parser' in feats:
        return recorded_cases(feats)
    out = []
    N, L = (200, 40) if tier == 'quick' else (1500, 400)
    for _ in range(N):
        n = rng.choice([1, 2, 3, 5, 10, 20, L])
        d = rng.edge_felt(); c = rng.choice([0, 0, 1, P - 1, P - 2, rng.felt()])
        out.append(mk(rng, d, c, rand_ops(rng, n)))
    # long runs of squeezes
    for k in [2, 50, 300]:
        out.append(mk(rng, rng.felt(), P - 3, ['r'] * k))
    # single squeezes followed by batch squeezes on the same digest (no absorb in between)
    for a, b in [(1, 3), (2, 4), (3, 1), (5, 5)]:
        out.append(mk(rng, rng.felt(), 0, ['r'] * a + ['R:%x' % b] + ['r']))
        out.append(mk(rng, rng.felt(), 0, ['f:5'] + ['r'] * a + ['R:%x' % b, 'R:2'] + ['r']))
    # every commitment entry point x every kind of friendly-layer count x a change above each digest width (deterministic)
    for h in (0, 3, 20):
        for nf in (0, 1, h, h + 1, 100):
            for delta in (1, 1 << 160, 1 << 248, 1 << 250):
                root = rng.bits(159)
                out.append(mk(rng, rng.felt(), 0, ['r', f'c:{hexf(root)}:{h:x}:{nf:x}', 'r', 'r'], force=(1, delta)))
                out.append(mk(rng, rng.felt(), 0, ['r', f't:{hexf(root)}:2:{h:x}:{nf:x}', 'r', 'r'], force=(1, delta)))
    return out


def classify(c, co):
    if c['kind'] == 'recorded': return f"recorded:{co[0]}"
    n = len(c['ops'])
    return f"len{'<=3' if n <= 3 else ('<=20' if n <= 20 else '>20')}:{co[0]}"


def nontrivial(c, co):
    return c['kind'] == 'recorded' or len(c['ops']) >= 2 and any(o == 'r' for o in c['ops']) and any(o != 'r' for o in c['ops'])


def expand(ops):
    """a batch squeeze `R:n` counts as n single squeezes"""
    out = []
    for o in ops:
        if o.startswith('R:'): out += ['r'] * int(o[2:], 16)
        else: out.append(o)
    return out


def parse(co):
    t = co[1].split()
    ch = [] if t[0] == '-' else t[0].split(',')
    return ch, t[1], t[2]


def oracle_recorded(c, co):
    # a build whose hash differs from the proof's rejects at the PoW check: nothing to compare then
    if co[0] != 'ok':
        return None
    t = co[1].split()
    ie = sorted(int(x, 16) for x in t[1].split(',')); rec = c['rec']
    bad = []
    if sorted(rec['ie']) != ie: bad.append('interaction elements')
    if rec['oods_point'] != int(t[2], 16): bad.append('out-of-domain point')
    if rec['oods_alpha'] != int(t[3], 16): bad.append('DEEP random coefficient')
    if rec['eval_points'] != ([] if t[4] == '-' else [int(x, 16) for x in t[4].split(',')]): bad.append('FRI evaluation points')
    if sorted(set(rec['queries'])) != ([] if t[5] == '-' else [int(x, 16) for x in t[5].split(',')]): bad.append('query indices')
    if bad:
        return {'key': 'recorded:' + bad[0], 'what': f"verifier-derived {', '.join(bad)} differ from the ones Stone logged in {c['name']}"}
    return None


def oracle(c, co):
    if c['kind'] == 'recorded':
        return oracle_recorded(c, co)
    if co[0] != 'ok':
        return {'key': 'transcript:' + co[0], 'what': f'transcript run did not return ({co[0]})'}
    ch, dg, ctr = parse(co)
    ops = expand(c['ops'])
    pre_sq = sum(1 for o in expand(c['ops'][:c['pre']]) if o == 'r')
    mi_before = None if c['mi'] is None else sum(1 for o in expand(c['ops'][:c['mi']]) if o == 'r')
    mi_tail_absorb = None if c['mi'] is None else any(not o.startswith(('r', 'R')) for o in c['ops'][c['mi'] + 1:])
    aux = c.get('aux_code', [])
    if len(aux) < 2 or any(a[0] != 'ok' for a in aux):
        return {'key': 'transcript:aux', 'what': 'auxiliary transcript run failed'}
    # 1. prefix: challenges of the prefix run are a prefix of ours
    pch, _, _ = parse(aux[0])
    nsq = pre_sq
    if pch != ch[:nsq]:
        return {'key': 'prefix', 'what': 'challenges of a prefix history differ from the first challenges of the full history'}
    # 2. later messages change nothing before them
    ech, _, _ = parse(aux[1])
    if ech[:len(ch)] != ch:
        return {'key': 'later-messages', 'what': 'appending later messages changed earlier challenges'}
    # 3. consecutive squeezes are pairwise different
    run = []
    k = 0
    for o in ops:
        if o == 'r':
            run.append(ch[k]); k += 1
        else:
            if len(set(run)) != len(run): return {'key': 'consecutive', 'what': 'two challenges drawn without an intervening message are equal'}
            run = []
    if len(set(run)) != len(run): return {'key': 'consecutive', 'what': 'two challenges drawn without an intervening message are equal'}
    # 4. a changed message changes every later challenge (and none before)
    if c['mi'] is not None and len(aux) >= 3:
        mch, mdg, _ = parse(aux[2])
        before = mi_before
        if mch[:before] != ch[:before]:
            return {'key': 'changed-message:before', 'what': 'changing a message changed a challenge drawn before it'}
        for a, b in zip(ch[before:], mch[before:]):
            if a == b:
                return {'key': 'changed-message:after', 'what': 'a challenge drawn after a changed message did not change'}
        if mdg == dg:
            return {'key': 'changed-message:digest', 'what': 'digest unchanged after a changed message'}
    # counter semantics
    trailing = 0
    for o in reversed(ops):
        if o == 'r': trailing += 1
        else: break
    if trailing < len(ops) and int(ctr, 16) != trailing:
        return {'key': 'counter', 'what': 'counter is not the number of squeezes since the last absorb'}
    return None
