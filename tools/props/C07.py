"""C07 — FRI rejects inconsistent layers and functions above the degree bound.
Theorems: Props/C07.lean (acceptance => every per-layer check; exact last-layer length; per-layer soundness against committed
tables in collision-extraction form; evaluation-point and last-layer-coefficient sensitivity; what is proved of the degree part is
named *_partial there).
Tie: every single-position corruption of honest instances from the Lean prover (every queried value, every point, every coset
sibling leaf, every authentication node, every layer commitment, every last-layer coefficient, last-layer length +-1, leaf/auth
deleted), and honestly folded polynomials of degree >= bound; real fri_commit+fri_verify vs model vs oracle (must not accept)."""
import framework as fw
from framework import P, hexf, hexl
from props import frilib as F

PID = 'C07'
LEVEL = 'proof'
LEAN_TARGETS = ['Swiftness.Props.C07', 'Swiftness.Prover.FriProver']
BUILDS = {'quick': [('k160', 'stone5')], 'thorough': [('k160', 'stone5'), ('b248', 'stone5')]}
RULE = ('from each honest instance (random config as in C06, polynomial at the bound): one mutant per position class and position '
        '(sampled when a class has > 4 positions): value+1, point+1, leaf+1, auth+1, root+1, lastcoef+1, lastcoef appended/removed, leaf '
        'removed, auth removed, layer witness dropped, auth / root + 2^160 / 2^248, points one short, last query junk with points and witness for the '
        'other queries only; plus high-degree inputs (length bound+1 .. 2*bound, honestly folded, last layer '
        'truncated). non-trivial = mutated. The exponential decay in the number of queries is NOT measured (one run per instance).')
ASSUMPTIONS = ['a hash collision / an accidental root of a difference polynomial among random test values is treated as impossible',
               'probabilistic part of the property (decay in #queries, dishonest folding) is not decided: see DESIGN section 10']
TRUSTED = ['Python oracle: corrupted or high-degree instance => not accepted (Err or panic is reported separately under C18)']


def corpus(feats):
    return []


def cases(rng, tier, feats, drv_ok):
    if not drv_ok:
        return []
    specs = []
    for _ in range(10 if tier == 'quick' else 80):
        steps, last, lnc = F.rand_config(rng, tier)
        bound = 1 << (sum(steps) + last)
        L = sum(steps) + last + lnc
        N = 1 << L
        Q = sorted({rng.below(N) for _ in range(rng.choice([1, 2, 4, 8]))})
        hi = rng.chance(1, 4)
        ncoef = bound + 1 + rng.below(bound) if hi else bound
        specs.append((rng.choice([0, L // 2, 100]), steps, last, lnc, [rng.felt() or 1 for _ in range(ncoef)], Q, rng.felt(), 0, hi))
    built = F.build(feats, [s[:8] for s in specs])
    # the same polynomial / transcript opened at all queries but the last one (for the dropped-query forgery below)
    shorter = {i: s[:5] + (s[5][:-1],) + s[6:8] for i, s in enumerate(specs) if len(s[5]) >= 2 and not s[8]}
    built_short = dict(zip(shorter, F.build(feats, list(shorter.values())))) if shorter else {}
    # ... and at all queries but the last 2 / 3 (a witness that is honest for a PREFIX of the queries)
    shorter_k = {(i, k): s[:5] + (s[5][:-k],) + s[6:8] for i, s in enumerate(specs) for k in (2, 3) if len(s[5]) > k and not s[8]}
    built_short_k = dict(zip(shorter_k, F.build(feats, list(shorter_k.values())))) if shorter_k else {}
    built_short_k.update({(i, 1): v for i, v in built_short.items()})
    out = []
    for si, (s, toks) in enumerate(zip(specs, built)):
        d, c, hi = s[6], s[7], s[8]
        cfg = f'steps={s[1]} last={s[2]} blowup={s[3]} nf={s[0]} queries={len(s[5])}'
        if hi:
            out.append({'line': F.fri_line(d, c, toks), 'kind': 'high-degree', 'expect': 'reject', 'cfg': cfg})
            continue
        out.append({'line': F.fri_line(d, c, toks), 'kind': 'honest', 'expect': 'ok', 'cfg': cfg})
        def mut(kind, pos, f):
            t = list(toks); t[pos] = f(t[pos])
            if t[pos] != toks[pos]:
                # `points` are the domain points the VERIFIER computes itself (queries_to_points); they are not one of the
                # positions the property lists, and fri_verify ignores the point of a query whose coset holds a later query
                # (the last query of a coset sets coset_x_inv): compared with the model only.
                out.append({'line': F.fri_line(d, c, t), 'kind': kind, 'expect': 'any' if kind == 'point+1' else 'reject', 'cfg': cfg})
        def each(kind, pos, bump=lambda x: (x + 1) % P):
            xs = F.parse_list(toks[pos])
            idx = range(len(xs)) if len(xs) <= 4 else sorted({rng.below(len(xs)) for _ in range(3)})
            for j in idx:
                mut(kind, pos, lambda s_, j=j: F.fmt_list(xs[:j] + [bump(xs[j])] + xs[j + 1:]))
        each('value+1', F.VALUES); each('point+1', F.POINTS); each('root+1', F.ROOTS); each('lastcoef+1', F.LASTC)
        mut('lastcoef-appended', F.LASTC, lambda s_: F.fmt_list(F.parse_list(s_) + [0]))
        mut('lastcoef-removed', F.LASTC, lambda s_: F.fmt_list(F.parse_list(s_)[:-1]))
        w = F.parse_wit(toks[F.WIT])
        for li, (leaves, auths) in enumerate(w):
            for j in (range(len(leaves)) if len(leaves) <= 3 else sorted({rng.below(len(leaves)) for _ in range(2)})):
                w2 = [list(map(list, x)) for x in w]; w2[li][0][j] = (w2[li][0][j] + 1) % P
                mut('leaf+1', F.WIT, lambda s_, w2=w2: F.fmt_wit(w2))
            for j in (range(len(auths)) if len(auths) <= 3 else sorted({rng.below(len(auths)) for _ in range(2)})):
                w2 = [list(map(list, x)) for x in w]; w2[li][1][j] = (w2[li][1][j] + 1) % P
                mut('auth+1', F.WIT, lambda s_, w2=w2: F.fmt_wit(w2))
            if leaves:
                w2 = [list(map(list, x)) for x in w]; w2[li][0].pop()
                mut('leaf-removed', F.WIT, lambda s_, w2=w2: F.fmt_wit(w2))
            if auths:
                w2 = [list(map(list, x)) for x in w]; w2[li][1].pop()
                mut('auth-removed', F.WIT, lambda s_, w2=w2: F.fmt_wit(w2))
        if w:
            mut('layer-witness-dropped', F.WIT, lambda s_: F.fmt_wit(w[:-1]))
        # high-bit aliases of hash-valued positions (authentication nodes, commitments)
        for li, (leaves, auths) in enumerate(w):
            if auths:
                j = rng.below(len(auths))
                for e in (160, 248):
                    w2 = [list(map(list, x)) for x in w]; w2[li][1][j] = (w2[li][1][j] + (1 << e)) % P
                    mut(f'auth+2^{e}', F.WIT, lambda s_, w2=w2: F.fmt_wit(w2))
        each('root+2^248', F.ROOTS, bump=lambda x: (x + (1 << 248)) % P)
        # vectors of unequal length: `points` / `values` one short (never reachable from stark_verify, which computes the points itself)
        mut('points-truncated', F.POINTS, lambda s_: F.fmt_list(F.parse_list(s_)[:-1]))
        mut('values-truncated', F.VALUES, lambda s_: F.fmt_list(F.parse_list(s_)[:-1]))      # (coverage: the length check of fri_verify was never reached)
        mut('values-extended', F.VALUES, lambda s_: F.fmt_list(F.parse_list(s_) + [1]))
        if si in built_short:
            # dropped-query forgery: the last query's value is junk, the points vector is one short and the witness opens only the other queries
            ts = built_short[si]; t = list(toks)
            t[F.VALUES] = F.fmt_list(F.parse_list(ts[F.VALUES]) + [rng.felt()]); t[F.POINTS] = ts[F.POINTS]; t[F.WIT] = ts[F.WIT]
            out.append({'line': F.fri_line(d, c, t), 'kind': 'last-query-dropped', 'expect': 'reject', 'cfg': cfg})
        # ADAPTIVE: the verifier's own queries and points in full, the values of the last k queries junk, and the witness that is honest for
        # the first queries only (fewer sibling leaves, authentication nodes recomputed for them): a verifier that derives how many rows to
        # process from the length of the prover's witness never looks at the trailing queries
        for k in (1, 2, 3):
            if (si, k) in built_short_k:
                ts = built_short_k[(si, k)]; t = list(toks)
                t[F.VALUES] = F.fmt_list(F.parse_list(ts[F.VALUES]) + [rng.felt() for _ in range(k)]); t[F.WIT] = ts[F.WIT]
                out.append({'line': F.fri_line(d, c, t), 'kind': f'trailing-{k}-junk,witness-for-prefix', 'expect': 'reject', 'cfg': cfg})
    return out


def classify(c, co):
    return f"{c['kind']}:{co[0]}"


def nontrivial(c, co):
    return c['kind'] != 'honest'


def oracle(c, co):
    if c['expect'] == 'ok':
        return None if co[0] == 'ok' else {'key': 'honest-rejected', 'what': f"honest FRI instance rejected ({c['cfg']})"}
    if c['expect'] == 'any':
        return None
    if co[0] == 'ok':
        return {'key': 'accepts:' + c['kind'], 'what': f"FRI accepted a corrupted instance: {c['kind']} ({c['cfg']})"}
    return None
