"""C03 — honest Stone proofs verify only under the matching build, with the right hashes.
Theorems: Props/C03.lean (acceptance => the proof's layout code is the build's, layout codes pairwise distinct => no proof is
accepted by two layout builds; the returned pair is the Pedersen chain of the address-checked program / output cells; purity).
"Every proof Stone can produce" is not quantifiable (no prover model): the matrix below is a TEST on the 25 shipped proofs and the
fixture, labelled as such.
Tie/matrix: each proof x each layout x each build (2 quick / 8 thorough): the real parser + CLI conversion + verify; expected verdict
from the proof's own parameters (layout, Stone version, pow hash, and the commitment hash iff a masked Merkle layer exists); the same
proofs through the Lean model (independent pipeline model, all seven layouts) must give the same verdict and the same returned pair;
serialise/deserialise round trip keeps value and verdict."""
import glob, json, os
import framework as fw
from framework import P

PID = 'C03'
LEVEL = 'proof'
LEAN_TARGETS = ['Swiftness.Props.C03']
TRANSLATOR_PARTS = ('consts', 'ast')
STATIC = ['dex', 'recursive', 'recursive_with_poseidon', 'small', 'starknet', 'starknet_with_keccak']
LAYOUTS = STATIC + ['dynamic']
DRV_LAYOUTS = STATIC + ['dynamic']
BUILDS = {'quick': [('k160', 'stone5', 'full', 'all_layouts', 'parser'), ('b248', 'stone6', 'full', 'all_layouts', 'parser')],
          'thorough': [(h, s, 'full', 'all_layouts', 'parser') for s in ('stone5', 'stone6') for h in ('k160', 'k248', 'b160', 'b248')]}
RULE = ('26 honest proofs (25 shipped Stone proofs + in-tree fixture) x 7 layouts under each build: verifyfile (real parser + CLI '
        'conversion + verify); own-layout proofs additionally through the Lean model (all seven layouts) and through a serde round trip. '
        'expected = accept iff layout, Stone version and PoW hash family match and (no masked Merkle layer or commitment hash matches). '
        'non-trivial = all; distinct = distinct (proof, layout, build).')
ASSUMPTIONS = ['"every proof the Stone prover can produce" is sampled by the shipped corpus only (no prover model)',
               'serde and the regex-based parser are exercised, not modelled']
TRUSTED = ['Python expectation rule derived from the proof file parameters']
HX = None


def proofs():
    out = []
    for f in sorted(glob.glob('/repo/examples/proofs/*/*proof.json')):
        j = json.load(open(f)); pp = j['proof_parameters']
        out.append({'path': f, 'layout': j['public_input']['layout'], 'stone': 'stone6' if 'stone6' in os.path.basename(f) else 'stone5',
                    'commit': 'k160' if pp['commitment_hash'] == 'keccak256_masked160_lsb' else ('b248' if pp['commitment_hash'] == 'blake256_masked248_lsb' else pp['commitment_hash']),
                    'pow': 'k' if pp['pow_hash'].startswith('keccak') else 'b', 'nf': pp['n_verifier_friendly_commitment_layers'],
                    'log_eval': (j['public_input']['n_steps'] * 16).bit_length() - 1 + pp['stark']['log_n_cosets']})
    return out


def expected(pr, layout, feats):
    h, s = fw.hash_of(feats), fw.stone_of(feats)
    if layout != pr['layout'] or s != pr['stone'] or h[0] != pr['pow']:
        return False
    masked = pr['nf'] < pr['log_eval'] + 1      # some Merkle layer (depth up to height+1) uses the masked hash
    return (not masked) or h == pr['commit']


def corpus(feats):
    return []


def cases(rng, tier, feats, drv_ok):
    out = []
    prs = proofs()
    for pr in prs:
        for L in LAYOUTS:
            if L != pr['layout'] and tier == 'quick' and not rng.chance(1, 3):
                continue
            out.append({'line': f"verifyfile {L} {pr['path']}", 'kind': 'matrix:' + ('own' if L == pr['layout'] else 'other-layout'),
                        'expect': expected(pr, L, feats), 'hxonly': True, 'pr': pr['path'].split('proofs/')[1], 'L': L})
        out.append({'line': f"roundtrip {pr['layout']} {pr['path']}", 'kind': 'roundtrip', 'expect': expected(pr, pr['layout'], feats), 'hxonly': True,
                    'pr': pr['path'].split('proofs/')[1], 'L': pr['layout']})
    # the same proofs through the model: tokens from the real parser (pre-stage); all seven layouts (the dynamic layout through Model/LayoutDynamic)
    if HX and drv_ok:
        st = [pr for pr in prs if pr['layout'] in LAYOUTS and (expected(pr, pr['layout'], feats) or rng.chance(1, 4))]
        toks, _ = fw.run_split(lambda ls, **kw: fw.run_hx(HX, ls), [f"parsefile {pr['path']}" for pr in st])
        secs, _ = fw.run_split(lambda ls, **kw: fw.run_hx(HX, ls), ['security_bits ' + t[3:] for t in toks])
        for pr, t, s in zip(st, toks, secs):
            if t.startswith('ok ') and s.startswith('ok '):
                out.append({'line': f"verify {pr['layout']} {s[3:]} {t[3:]}", 'kind': 'model:own', 'expect': expected(pr, pr['layout'], feats),
                            'pr': pr['path'].split('proofs/')[1], 'L': pr['layout']})
        fx, _ = fw.run_hx(HX, ['fixture_proof'])
        if fx and fx[0].startswith('ok '):
            out.append({'line': f"verify recursive 32 {fx[0][3:]}", 'kind': 'model:fixture', 'expect': fw.hash_of(feats)[0] == 'k' and fw.stone_of(feats) == 'stone5' and True,
                        'pr': 'fixture', 'L': 'recursive'})
            # PURITY under history: the same StarkProof object verified, overwritten with another proof, verified again (a memo inside the
            # object must not survive): honest -> tampered must reject, tampered -> honest must give the honest verdict
            ok = fw.hash_of(feats)[0] == 'k' and fw.stone_of(feats) == 'stone5'
            hon = fx[0][3:]; toks = hon.split(' ')
            # the main page is token CFG(13) + 8: change the value of its last cell (a false statement)
            mp = toks[13 + 8].split(';'); last = mp[-1].split(':'); last[1] = format((int(last[1], 16) + 1) % fw.P, 'x'); mp[-1] = ':'.join(last)
            tam = ' '.join(toks[:13 + 8] + [';'.join(mp)] + toks[13 + 9:])
            if ok: out.append({'line': f'verify_seq recursive 32 {hon} {tam}', 'kind': 'history:honest-then-tampered', 'expect': False, 'pr': 'fixture', 'L': 'recursive'})
            if ok: out.append({'line': f'verify_seq recursive 32 {tam} {hon}', 'kind': 'history:tampered-then-honest', 'expect': ok, 'pr': 'fixture', 'L': 'recursive'})
            if ok: out.append({'line': f'verify_seq recursive 32 {hon} {hon}', 'kind': 'history:honest-twice', 'expect': ok, 'pr': 'fixture', 'L': 'recursive'})
    return out


def classify(c, co):
    return f"{c['kind']}:{'accept' if c['expect'] else 'reject'}:{co[0]}"


def nontrivial(c, co):
    return True


def oracle(c, co):
    who = f"{c['pr']} under layout {c['L']}, build {c['_hash']}+{c['_stone']}"
    if c['kind'] == 'roundtrip':
        if co[0] != 'ok':
            return {'key': 'roundtrip:fail', 'what': f'round trip failed for {who}: {co[1][:100]}'}
        eq, v1, v2 = co[1].split()
        if eq != '1' or v1 != v2:
            return {'key': 'roundtrip:changed', 'what': f'serialise/deserialise changed the proof or its verdict for {who}'}
        if (v1 != 'err') != c['expect']:
            return {'key': 'matrix:' + ('rejected' if c['expect'] else 'accepted'), 'what': f"{who}: expected {'accept' if c['expect'] else 'reject'}"}
        return None
    if co[0] == 'panic':
        return {'key': 'matrix:panic:' + c['L'], 'what': f'verification panicked for {who}: {co[1][:120]}'}
    if c['kind'] == 'model:fixture' and c['_hash'] == 'k160' and c['_stone'] == 'stone5':
        return None if co[0] == 'ok' else {'key': 'fixture', 'what': 'in-tree fixture rejected by its own build'}
    if c['kind'] == 'model:fixture':
        return None
    if c['expect'] and co[0] != 'ok':
        return {'key': 'matrix:rejected', 'what': f'honest proof rejected by the matching build: {who}: {co[1][:120]}'}
    if not c['expect'] and co[0] == 'ok':
        return {'key': 'matrix:accepted', 'what': f'proof accepted by a non-matching build: {who}'}
    return None
