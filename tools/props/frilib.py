"""Shared helpers for C06/C07: honest FRI instances from the Lean prover, and Python-side algebra."""
import json, os
import framework as fw
from framework import P, hexf, hexl

CONSTS = None


def consts():
    global CONSTS
    if CONSTS is None:
        CONSTS = json.load(open(os.path.join(fw.LEAN, 'Swiftness', 'Generated', 'consts.json')))
    return CONSTS


def bitrev(k, i):
    r = 0
    for j in range(k):
        if (i >> j) & 1: r |= 1 << (k - 1 - j)
    return r


def evalp(cs, x):
    r = 0
    for c in reversed(cs): r = (r * x + c) % P
    return r


def rand_config(rng, tier):
    nl = rng.choice([2, 2, 3, 3, 4, 5] if tier == 'quick' else [2, 3, 4, 5, 6, 8])
    steps = [rng.choice([1, 2, 3, 4]) for _ in range(nl - 1)]
    while sum(steps) > (7 if tier == 'quick' else 10):
        steps[rng.below(len(steps))] = 1
    last = rng.choice([0, 1, 2, 3])
    lnc = rng.choice([1, 1, 2, 3])
    while sum(steps) + last + lnc > (9 if tier == 'quick' else 12):
        if last > 0: last -= 1
        elif lnc > 1: lnc -= 1
        else: break
    return steps, last, lnc


def build(feats, specs):
    """specs: list of (nf, steps, last, lnc, coeffs, Q, digest, counter) -> list of token lists (the 11 args after `fri d c`)"""
    lines = [f"fri_build {hexf(nf)} {','.join(format(s, 'x') for s in steps)} {last:x} {lnc:x} {hexl(cs)} {','.join(format(q, 'x') for q in Q)} {hexf(d)} {hexf(c)}"
             for nf, steps, last, lnc, cs, Q, d, c in specs]
    out, _ = fw.run_split(lambda ls, **kw: fw.run_drv(feats, ls), lines)
    res = []
    for o in out:
        t = o.split()
        if t[0] != 'ok' or len(t) != 12:
            raise fw.Broken('prover', f'fri_build failed: {o[:200]}')
        res.append(t[1:])
    return res


# token positions inside the 11-token instance
LIS, NL, LAST, STEPS, INNER, ROOTS, LASTC, QUERIES, VALUES, POINTS, WIT = range(11)


def fri_line(d, c, toks):
    return f"fri {hexf(d)} {hexf(c)} " + ' '.join(toks)


def parse_list(s):
    return [] if s == '-' else [int(x, 16) for x in s.split(',')]


def fmt_list(xs):
    return hexl(xs)


def parse_wit(s):
    if s == '-': return []
    out = []
    for l in s.split(';'):
        a, b = l.split('|')
        out.append([parse_list(a), parse_list(b)])
    return out


def fmt_wit(w):
    return ';'.join(f'{fmt_list(a)}|{fmt_list(b)}' for a, b in w) if w else '-'
