"""C10 — query indices in range, strictly increasing, mapped to the right points.
Theorems: Props/C10.lean (all transcripts, counts < 2^128, bounds; bit reversal for every k <= 64).
Tie: generate_queries / queries_to_points (real) vs the model on random transcripts x counts x domain sizes
2^1..2^64 with counts near/above the domain size (collisions are the norm); Python oracle re-derives the
sample set from the REAL transcript's raw squeezes (aux line) and the points from 3 * w^bitrev(i)."""
from framework import P, hexf, hexl

PID = 'C10'
LEVEL = 'proof'
LEAN_TARGETS = ['Swiftness.Props.C10']
BUILDS = {'quick': [('k160', 'stone5', 'full')], 'thorough': [('k160', 'stone5', 'full')]}
RULE = ('queries cases: random (digest,counter) x n_samples in 0..80 x upper bound 2^k (k=1..64, biased to k<=6 so that n exceeds the '
        'domain) and non-power-of-two bounds; points cases: (log_trace, log_n_cosets) with sum 1..64 and sorted random indices incl. 0 '
        'and 2^k-1; plus panic-boundary cases (n_samples 2^128, bound 0, sum 65). non-trivial = n_samples >= 2 or >= 1 point.')
ASSUMPTIONS = ['Poseidon (starknet-crypto) is modelled, not verified: the oracle takes the raw squeezes from the real Transcript',
               'harness built with stable rustc instead of the repo-pinned 1.82']
TRUSTED = ['Python oracle: sorted/strict/in-range/count/counter checks; sample set = {r mod 2^128 mod bound}; point = 3*w^bitrev_k(i)']


def corpus(feats):
    return [mk_q(7, 0, 5, 2), mk_q(7, 0, 0, 16), mk_p(18, 4, [0, 1, 6, (1 << 22) - 1])]


def mk_q(d, c, n, bound):
    return {'line': f'queries {hexf(d)} {hexf(c)} {n:x} {bound:x}', 'kind': 'queries', 'n': n, 'bound': bound, 'd': d, 'c': c,
            'aux': [f'transcript {hexf(d)} {hexf(c)} ' + ' '.join(['r'] * n)] if 0 < n <= 200 else []}


def mk_p(t, c, qs):
    return {'line': f'points {t:x} {c:x} {hexl(qs)}', 'kind': 'points', 't': t, 'cc': c, 'qs': qs}


def cases(rng, tier, feats, drv_ok):
    out = []
    N = 150 if tier == 'quick' else 1500
    for _ in range(N):
        k = rng.choice([1, 1, 2, 2, 3, 4, 5, 6, 8, 12, 16, 22, 32, 48, 63, 64])
        bound = 1 << k
        if rng.chance(1, 6):
            bound = 1 + rng.bits(rng.choice([2, 5, 20, 64, 130, 250])) % (P - 1)
        n = rng.choice([0, 1, 2, 3, 5, 8, 16, 17, 31, 48, 49, 80])
        d = rng.felt(); c = rng.choice([0, 0, 1, rng.below(1000), P - 1, P - 3, rng.felt()])
        out.append(mk_q(d, c, n, bound))
    # panic boundaries (n_samples >= 2^128; zero bound with n>0; zero bound with n = 0 is fine)
    out += [mk_q(5, 0, 1 << 128, 4), mk_q(5, 0, (1 << 128) + 7, 4), mk_q(5, 0, P - 1, 4), mk_q(5, 0, 3, 0), mk_q(5, 0, 0, 0)]
    for _ in range(N // 2):
        s = rng.choice([1, 2, 3, 5, 8, 16, 20, 22, 31, 32, 33, 47, 63, 64])
        t = rng.below(s + 1); c = s - t
        m = rng.choice([1, 2, 5, 16, 48])
        qs = sorted({rng.bits(s) for _ in range(m)} | ({0} if rng.chance(1, 4) else set()) | ({(1 << s) - 1} if rng.chance(1, 4) else set()))
        out.append(mk_p(t, c, qs))
    out += [mk_p(40, 25, [0, 1]), mk_p(64, 1, []), mk_p(10, 4, [1 << 14]), mk_p(10, 4, [(1 << 14) - 1, 1 << 20])]
    return out


def classify(c, co):
    if c['kind'] == 'queries':
        return f"queries:n{'0' if c['n']==0 else ('<=bound' if c['n'] <= c['bound'] else '>bound')}:{co[0]}"
    return f"points:{co[0]}"


def nontrivial(c, co):
    return (c['kind'] == 'queries' and c['n'] >= 2) or (c['kind'] == 'points' and len(c['qs']) >= 1)


def bitrev(k, i):
    r = 0
    for j in range(k):
        if (i >> j) & 1: r |= 1 << (k - 1 - j)
    return r


def oracle(c, co):
    if c['kind'] == 'queries':
        n, bound = c['n'], c['bound']
        should_panic = n >= (1 << 128) or (n > 0 and bound == 0)
        if co[0] == 'panic':
            if should_panic: return None  # outside the property's quantifier; reachable only through the pub fn (C18 covers verify)
            return {'key': 'queries:panic', 'what': f'generate_queries panicked on n={n} bound={bound}: {co[1]}'}
        if co[0] != 'ok':
            return {'key': 'queries:err', 'what': 'generate_queries returned no value'}
        toks = co[1].split()
        qs = [] if toks[0] == '-' else [int(x, 16) for x in toks[0].split(',')]
        d2, c2 = int(toks[1], 16), int(toks[2], 16)
        if any(q >= bound for q in qs): return {'key': 'queries:range', 'what': f'query index out of range (bound {bound}): {qs}'}
        if any(a >= b for a, b in zip(qs, qs[1:])): return {'key': 'queries:strict', 'what': f'query indices not strictly increasing: {qs[:8]}…'}
        if len(qs) > n: return {'key': 'queries:count', 'what': 'more queries than configured'}
        if d2 != c['d'] or c2 != (c['c'] + n) % P: return {'key': 'queries:transcript', 'what': 'transcript state after sampling is not (digest, counter+n)'}
        if c.get('aux_code'):
            a = c['aux_code'][0]
            if a[0] == 'ok':
                raw = a[1].split()[0]
                rs = [] if raw == '-' else [int(x, 16) for x in raw.split(',')]
                want = sorted({(r % (1 << 128)) % bound for r in rs})
                if want != qs: return {'key': 'queries:set', 'what': f'query set differs from the transcript-derived sample set'}
        return None
    # points
    t, cc, qs = c['t'], c['cc'], c['qs']
    k = t + cc
    bad_in = k > 64 or any(q >= (1 << 64) >> (64 - k) if k <= 64 else True for q in qs)
    if co[0] == 'panic':
        if k > 64 or any(q >= (1 << k) for q in qs): return None
        return {'key': 'points:panic', 'what': f'queries_to_points panicked for in-range input: {co[1]}'}
    if co[0] != 'ok':
        return {'key': 'points:err', 'what': 'queries_to_points returned no value'}
    pts = [] if co[1] == '-' else [int(x, 16) for x in co[1].split(',')]
    if any(q >= (1 << k) for q in qs):
        return None
    w = pow(3, (P - 1) >> k, P)
    want = [(3 * pow(w, bitrev(k, q), P)) % P for q in qs]
    if want != pts:
        return {'key': 'points:value', 'what': f'point of index != 3*w^bitrev(i) (k={k})'}
    return None
