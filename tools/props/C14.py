"""C14 — public-input validation and returned hashes follow the memory layout.
Theorems: Props/C14.lean (validate_public_input = ok <-> PublicInputOK over naturals; uses_field_div: how "whole number of
instances" is enforced through field division; verify_public_input = ok (a,b) <-> address-checked program / output cells and
a, b their Pedersen chains; no panic), over the generic static-layout model instantiated by DATA translated from the Rust on
every run (constants + the builtin table of each layout's validate_public_input).
Tie: the six static layouts' validate_public_input / verify_public_input (real) vs model vs an independent Python transcription
of the property. Dynamic layout: Model/LayoutDynamic.lean (hand model of validate_public_input around the TRANSLATED check_asserts list,
Generated/Layout/dynamic_asserts.lean) vs the real code vs a Python transcription that interprets the translated assertion list itself
(Generated/ast/dynamic.asserts.txt) and states the usage / budget conditions over the integers."""
import copy, glob, json, os
import framework as fw
from framework import P, hexf

PID = 'C14'
LEVEL = 'proof'
LEAN_TARGETS = ['Swiftness.Props.C14', 'Swiftness.Props.C14dyn']
PROPS_FILES = ['C14', 'C14dyn']
TRANSLATOR_PARTS = ('consts', 'ast')
STATIC = ['dex', 'recursive', 'recursive_with_poseidon', 'small', 'starknet', 'starknet_with_keccak']
DRV_LAYOUTS = STATIC + ['dynamic']
BUILDS = {'quick': [('k160', 'stone5', 'full', 'all_layouts', 'parser')], 'thorough': [('k160', 'stone5', 'full', 'all_layouts', 'parser')]}
RULE = ('bases: the public input of each layout\'s shipped proof (with its own trace size). validate cases: base; log_n_steps / trace size '
        '+-1; segment count +-1; range-check bounds at 0, 65535, 65536, min=max, min>max; layout code +1; for EVERY builtin segment: usage = '
        'exactly capacity, capacity+1 instance, a non-multiple of the cell count, stop < begin; output usage 2^128. verify cases: base; every '
        'program/output address +1 (sampled), all addresses +1000, page truncated at both ends, two cells swapped, output length +-1, empty output (cells dropped / kept), one output cell, '
        'initial_pc/final_pc changed, a continuous page header added, segments removed. dynamic layout (validate): every dynamic parameter '
        '(quick: every row ratio / switch / column count and a third of the 340) x {+1,-1,x2,/2,0,+2^32,2^64-1}; per builtin: usage at / over capacity, '
        'non-multiple, switch toggled with and without the segment emptied, row ratio in {0,1,3,T,2T}; all of it on TWO bases: the shipped dynamic public input and an instance with every builtin switched on, found by a local search against the translated assertion list. non-trivial = mutated.')
ASSUMPTIONS = ['dynamic layout: hand-written Lean model + translated assertion list, tied by the correspondence check on mutated instances of the shipped dynamic public input',
               'Pedersen is modelled by executable Lean code compared on every case']
TRUSTED = ['Python oracle: property sentence over integers; program/output cells by ADDRESS']
HX = None
_D = {}


def ldata(L):
    if L not in _D:
        d = os.path.join(fw.LEAN, 'Swiftness', 'Generated', 'ast')
        consts = {l.split()[0]: int(l.split()[1], 16) for l in open(os.path.join(d, f'{L}.consts.txt'))}
        bt = [tuple(int(x) for x in l.split()) for l in open(os.path.join(d, f'{L}.builtins.txt'))] if L != 'dynamic' else []
        _D[L] = (consts, bt)
    return _D[L]


def rows(rs):
    return ';'.join(':'.join(hexf(x) for x in r) for r in rs) if rs else '-'


def pi_tokens(pi):
    dyn = ','.join(format(x, 'x') for x in pi['dyn']) if pi['dyn'] is not None else '-'
    return (f"{hexf(pi['lns'])} {hexf(pi['rmin'])} {hexf(pi['rmax'])} {hexf(pi['layout'])} {dyn} {rows(pi['segs'])} "
            f"{hexf(pi['pad'][0])} {hexf(pi['pad'][1])} {rows(pi['page'])} {rows(pi['hdrs'])}")


def parse_pi(toks):
    r = lambda s: [] if s == '-' else [[int(x, 16) for x in row.split(':')] for row in s.split(';')]
    return {'lns': int(toks[0], 16), 'rmin': int(toks[1], 16), 'rmax': int(toks[2], 16), 'layout': int(toks[3], 16),
            'dyn': None if toks[4] == '-' else [int(x, 16) for x in toks[4].split(',')],
            'segs': r(toks[5]), 'pad': [int(toks[6], 16), int(toks[7], 16)], 'page': r(toks[8]), 'hdrs': r(toks[9])}


def validate_ok(L, pi, t):
    consts, bt = ldata(L)
    if not pi['lns'] < 80: return False
    if (1 << pi['lns']) * consts['CPU_COMPONENT_HEIGHT'] * consts['CPU_COMPONENT_STEP'] != 1 << t: return False
    if len(pi['segs']) != consts['SEG_N_SEGMENTS']: return False
    if not (pi['rmin'] < pi['rmax'] <= 65535): return False
    if pi['layout'] != consts['LAYOUT_CODE']: return False
    out = pi['segs'][consts['SEG_OUTPUT']]
    if (out[1] - out[0]) % P > (1 << 128) - 1: return False
    for seg, ratio, cells in bt:
        s = pi['segs'][seg]
        u = (s[1] - s[0]) % P
        if (1 << t) % ratio != 0:
            return False       # the trace does not hold a whole number of this builtin's rows (a trace shorter than the row ratio)
        if u % cells != 0 or u // cells > (1 << t) // ratio: return False
    return True


# ---- dynamic layout: independent transcription -------------------------------------------------------------------------------
DYN_BUILTINS = [('uses_pedersen_builtin', 'pedersen_builtin_row_ratio', 'SEG_PEDERSEN', 3), ('uses_range_check_builtin', 'range_check_builtin_row_ratio', 'SEG_RANGE_CHECK', 1),
                ('uses_ecdsa_builtin', 'ecdsa_builtin_row_ratio', 'SEG_ECDSA', 2), ('uses_bitwise_builtin', 'bitwise_row_ratio', 'SEG_BITWISE', 5),
                ('uses_ec_op_builtin', 'ec_op_builtin_row_ratio', 'SEG_EC_OP', 7), ('uses_keccak_builtin', 'keccak_row_ratio', 'SEG_KECCAK', 16),
                ('uses_poseidon_builtin', 'poseidon_row_ratio', 'SEG_POSEIDON', 6), ('uses_range_check96_builtin', 'range_check96_builtin_row_ratio', 'SEG_RANGE_CHECK96', 1),
                ('uses_add_mod_builtin', 'add_mod_row_ratio', 'SEG_ADD_MOD', 7), ('uses_mul_mod_builtin', 'mul_mod_row_ratio', 'SEG_MUL_MOD', 7)]
_DYN = {}


def dyn_meta():
    if not _DYN:
        d = os.path.join(fw.LEAN, 'Swiftness', 'Generated', 'ast')
        _DYN['idx'] = {n: i for i, n in enumerate(json.load(open(os.path.join(d, 'meta.json')))['dynamic_params'])}
        lines = open(os.path.join(d, 'dynamic.asserts.txt')).read().split('\n')
        _DYN['usize_max'] = int(lines[0].split()[1], 16)
        _DYN['asserts'] = [l.split(' ') for l in lines[1:] if l]
    return _DYN


def aeval(toks, i, dp, T):
    """prefix expression -> (value mod P | None = division by zero, next index)"""
    t = toks[i]
    if t == 'T': return T % P, i + 1
    if t[0] == 'd': return dp[int(t[1:])] % P, i + 1
    if t[0] == 'l': return int(t[1:], 16) % P, i + 1
    a, j = aeval(toks, i + 1, dp, T); b, k = aeval(toks, j, dp, T)
    if a is None or b is None: return None, k
    if t == '+': return (a + b) % P, k
    if t == '-': return (a - b) % P, k
    if t == '*': return a * b % P, k
    if t == '/': return (None if b == 0 else a // b), k
    raise ValueError(t)


def asserts_hold(dp, T):
    """True / False / 'panic' (a floor_div by zero reached)"""
    M = dyn_meta()
    for a in M['asserts']:
        if a[0] != '-' and dp[int(a[0])] == 0: continue
        x, _ = aeval(a, 2, dp, T)
        if x is None: return 'panic'
        if a[1] == 'pow2' and not (x != 0 and x & (x - 1) == 0): return False
        if a[1] == 'ltusize' and not x < M['usize_max']: return False
        if a[1] == 'zero' and x != 0: return False
    return True


def dyn_validate_ok(pi, t):
    consts, _ = ldata('dynamic'); M = dyn_meta(); ix = M['idx']
    dp = pi['dyn']
    if dp is None: return False
    T = 1 << t
    if not pi['lns'] < 80: return False
    if (1 << pi['lns']) * consts['CPU_COMPONENT_HEIGHT'] * dp[ix['cpu_component_step']] != T: return False
    if len(pi['segs']) != consts['SEG_N_SEGMENTS']: return False
    if not (pi['rmin'] < pi['rmax'] <= 65535): return False
    if pi['layout'] != consts['LAYOUT_CODE']: return False
    out = pi['segs'][consts['SEG_OUTPUT']]
    if (out[1] - out[0]) % P > (1 << 128) - 1: return False
    for u, r, sg, cells in DYN_BUILTINS:      # a zero row ratio of a switched-on builtin / of a unit pool is an error before the assertions
        if dp[ix[u]] != 0 and dp[ix[r]] == 0: return False
    for r in ('memory_units_row_ratio', 'range_check_units_row_ratio', 'diluted_units_row_ratio'):
        if dp[ix[r]] == 0: return False
    ah = asserts_hold(dp, T)
    if ah == 'panic': return None             # the oracle does not decide; model agreement does
    if not ah: return False
    # the assertions hold: every row ratio is a power of two dividing the trace length, all quotients are exact
    copies = []
    for u, r, sg, cells in DYN_BUILTINS:
        c = 0 if dp[ix[u]] == 0 else T // dp[ix[r]]
        if dp[ix[u]] != 0 and T % dp[ix[r]] != 0: return None
        s = pi['segs'][consts[sg]]; used = (s[1] - s[0]) % P
        if used % cells != 0 or used // cells > c: return False
        copies.append(c)
    mem = T // dp[ix['memory_units_row_ratio']]; rcu = T // dp[ix['range_check_units_row_ratio']]; dil = T // dp[ix['diluted_units_row_ratio']]
    n = 1 << pi['lns']
    if 4 * n + mem // consts['PUBLIC_MEMORY_FRACTION'] + sum(k * c for k, c in zip([3, 1, 2, 5, 7, 16, 6, 1, 7, 7], copies)) > mem: return False
    if 3 * n + 8 * copies[1] + 6 * copies[7] + 66 * copies[9] > rcu: return False
    if 68 * copies[3] + 16384 * copies[5] > dil: return False
    return True


def first_failing_assert(dp, T):
    M = dyn_meta()
    for n, a in enumerate(M['asserts']):
        if a[0] != '-' and dp[int(a[0])] == 0: continue
        x, _ = aeval(a, 2, dp, T)
        if x is None: return n
        if a[1] == 'pow2' and not (x != 0 and x & (x - 1) == 0): return n
        if a[1] == 'ltusize' and not x < M['usize_max']: return n
        if a[1] == 'zero' and x != 0: return n
    return len(M['asserts'])


def all_builtins_instance(pi, rng, t=24):
    """a public input of the dynamic layout with EVERY builtin switched on that the validation accepts: the shipped one with all
    switches set, repaired by a local search over the parameters of the first failing assertion, then row ratios doubled until the
    unit budgets hold.  Returns (pi, t) or None (then only the shipped instance is used)."""
    import copy
    M = dyn_meta(); ix = M['idx']; A = M['asserts']; consts, _ = ldata('dynamic')
    T = 1 << t
    p = copy.deepcopy(pi); dp = p['dyn']
    for n in ix:
        if n.startswith('uses_'): dp[ix[n]] = 1
    cand = [0, 1, 2, 3, 4, 8, 16, 32, 64, 128, 256, 512, 1024, 2048, 4096, 8192, 16384, 32768, 65536, 1 << 17, 1 << 18, 1 << 20]
    best = first_failing_assert(dp, T)
    for _ in range(20000):
        if best == len(A): break
        vs = [int(x[1:]) for x in A[best][2:] if x[0] == 'd']
        if not vs: return None
        v = rng.choice(vs); old = dp[v]; dp[v] = rng.choice(cand)
        f = first_failing_assert(dp, T)
        if f >= best: best = f
        else: dp[v] = old
    if best != len(A): return None
    step = dp[ix['cpu_component_step']] * consts['CPU_COMPONENT_HEIGHT']
    if step == 0 or T % step or (T // step) & (T // step - 1): return None
    p['lns'] = (T // step).bit_length() - 1
    for u, r, sg, cells in DYN_BUILTINS:           # no usage at first: every segment empty except what the shipped input uses
        sgi = consts[sg]
        if (p['segs'][sgi][1] - p['segs'][sgi][0]) % P > 0 and dp[ix[r]] and ((p['segs'][sgi][1] - p['segs'][sgi][0]) % P) // cells > T // dp[ix[r]]:
            p['segs'][sgi][1] = p['segs'][sgi][0]
    for _ in range(400):
        if dyn_validate_ok(p, t): return p, t
        u, r, sg, cells = rng.choice(DYN_BUILTINS)    # budgets exceeded: fewer instances of some builtin
        old = dp[ix[r]]; dp[ix[r]] = min(T, max(1, old) * 2)
        if first_failing_assert(dp, T) != len(A): dp[ix[r]] = old
    return None


def verify_expect(L, pi):
    """None = reject; else (program values, output values) chosen by ADDRESS"""
    consts, _ = ldata(L)
    try:
        prog, ex, out = pi['segs'][consts['SEG_PROGRAM']], pi['segs'][consts['SEG_EXECUTION']], pi['segs'][consts['SEG_OUTPUT']]
    except IndexError:
        return None
    if not (ex[0] < consts['PM_MAX_ADDRESS'] and ex[1] < consts['PM_MAX_ADDRESS']) or pi['hdrs']: return None
    if prog[0] != 1 or prog[1] != 5: return None
    plen = (ex[0] - 2 - prog[0]) % P; olen = (out[1] - out[0]) % P
    if plen >= 1 << 64 or olen >= 1 << 64 or plen + olen > len(pi['page']): return None
    pc = pi['page'][:plen]; oc = pi['page'][len(pi['page']) - olen:]
    if any(c[0] != (prog[0] + i) % P for i, c in enumerate(pc)) or any(c[0] != (out[0] + i) % P for i, c in enumerate(oc)): return None
    return True


def corpus(feats):
    return []


def bases():
    out = {}
    if not HX: return out
    files = {L: f'/repo/examples/proofs/{L}/cairo0_stone5_example_proof.json' for L in STATIC}
    files['dynamic'] = '/repo/examples/proofs/dynamic/cairo0_stone6_example_proof.json'
    res, _ = fw.run_split(lambda ls, **kw: fw.run_hx(HX, ls), [f'parsefile {f}' for f in files.values()])
    for L, o in zip(files, res):
        if o.startswith('ok '):
            t = o[3:].split()
            out[L] = (parse_pi(t[13:23]), int(t[0], 16), int(t[1], 16))
    return out


def cases(rng, tier, feats, drv_ok):
    out = []
    bs = bases()
    if 'dynamic' in bs:
        ao = all_builtins_instance(bs['dynamic'][0], rng)
        if ao: bs['dynamic:all-builtins'] = (ao[0], ao[1], bs['dynamic'][2])
    for Lname, (pi, t, c) in bs.items():
        L = Lname.split(':')[0]
        consts, bt = ldata(L)
        hxonly = False
        def V(kind, p, tt=t):
            out.append({'line': f'validate_pi {L} {pi_tokens(p)} {tt:x} {c:x}', 'kind': 'validate:' + kind + (':all-builtins' if ':' in Lname else ''), 'L': L, 'pi': p, 't': tt, 'hxonly': hxonly, 'fn': 'validate'})
        def W(kind, p):
            if ':' not in Lname: out.append({'line': f'verify_pi {L} {pi_tokens(p)}', 'kind': 'verify:' + kind, 'L': L, 'pi': p, 'hxonly': hxonly, 'fn': 'verify'})
        def m(f):
            p = copy.deepcopy(pi); f(p); return p
        V('base', pi); W('base', pi)
        if L != 'dynamic':
            V('trace+1', pi, t + 1); V('trace-1', pi, t - 1)
            for st in (4, 5, 7, 10):   # traces shorter than some builtin row ratio, step count adjusted to match
                ch = consts['CPU_COMPONENT_HEIGHT'] * consts['CPU_COMPONENT_STEP']
                V(f'short-trace-{st}', m(lambda p, st=st: p.__setitem__('lns', st - ch.bit_length() + 1)), st)
                V(f'short-trace-{st}-zero-usage', m(lambda p, st=st: (p.__setitem__('lns', st - ch.bit_length() + 1), [p['segs'][sg].__setitem__(1, p['segs'][sg][0]) for sg, _, _ in bt])), st)
            V('steps+1', m(lambda p: p.__setitem__('lns', p['lns'] + 1))); V('steps=80', m(lambda p: p.__setitem__('lns', 80)))
            V('segments-1', m(lambda p: p['segs'].pop())); V('segments+1', m(lambda p: p['segs'].append([1, 1])))
            for k, (a, b) in {'rc-min=max': (5, 5), 'rc-min>max': (9, 5), 'rc-max=65535': (0, 65535), 'rc-max=65536': (0, 65536), 'rc-min=P-1': (P - 1, 65535)}.items():
                V(k, m(lambda p, a=a, b=b: (p.__setitem__('rmin', a), p.__setitem__('rmax', b))))
            V('layout+1', m(lambda p: p.__setitem__('layout', p['layout'] + 1)))
            V('output=2^128', m(lambda p: p['segs'][consts['SEG_OUTPUT']].__setitem__(1, (p['segs'][consts['SEG_OUTPUT']][0] + (1 << 128)) % P)))
            V('output=2^128-1', m(lambda p: p['segs'][consts['SEG_OUTPUT']].__setitem__(1, (p['segs'][consts['SEG_OUTPUT']][0] + (1 << 128) - 1) % P)))
            for seg, ratio, cells in bt:
                cap = (1 << t) // ratio
                for kind, u in {'at-capacity': cap * cells, 'over-capacity': (cap + 1) * cells, 'non-multiple': cap * cells - 1 if cells > 1 else None,
                                'stop<begin': P - cells, 'zero': 0}.items():
                    if u is None: continue
                    V(f'builtin{seg}:{kind}', m(lambda p, seg=seg, u=u: p['segs'][seg].__setitem__(1, (p['segs'][seg][0] + u) % P)))
        if L == 'dynamic':
            M = dyn_meta(); ix = M['idx']; names = sorted(ix, key=ix.get)
            def D(name, val):
                def f(p): p['dyn'][ix[name]] = val
                return m(f)
            V('trace+1', pi, t + 1); V('trace-1', pi, t - 1)
            V('steps+1', m(lambda p: p.__setitem__('lns', p['lns'] + 1)))
            V('segments-1', m(lambda p: p['segs'].pop())); V('layout+1', m(lambda p: p.__setitem__('layout', p['layout'] + 1)))
            V('rc-min=max', m(lambda p: (p.__setitem__('rmin', 5), p.__setitem__('rmax', 5))))
            for k, (a, b) in {'rc-min>max': (9, 5), 'rc-max=65535': (0, 65535), 'rc-max=65536': (0, 65536), 'rc-min=P-1': (P - 1, 65535)}.items():
                V(k, m(lambda p, a=a, b=b: (p.__setitem__('rmin', a), p.__setitem__('rmax', b))))     # (coverage: the dynamic layout's range-check bound was never hit)
            # the three unit budgets (memory / range-check / diluted units = trace / ratio): shrink each budget by a growing factor until the
            # builtins no longer fit (coverage: the diluted-units inequality was never violated)
            for un in ('memory_units_row_ratio', 'range_check_units_row_ratio', 'diluted_units_row_ratio'):
                for f in (4, 16, 256, 1 << 12):
                    if pi['dyn'][ix[un]] * f < 1 << 64: V(f'dp:{un}x{f}', D(un, pi['dyn'][ix[un]] * f))
            V('dynamic-params-missing', m(lambda p: p.__setitem__('dyn', None)))
            # every dynamic parameter: +1, -1, x2, /2, 0, +2^32, 2^64-1 (quick: a seeded third of the parameters, every row ratio / switch always)
            for name in names:
                key = name.endswith('row_ratio') or name.startswith('uses_') or name in ('cpu_component_step', 'num_columns_first', 'num_columns_second')
                if tier == 'quick' and not key and not rng.chance(1, 3): continue
                cur = pi['dyn'][ix[name]]
                for kind, val in [('+1', cur + 1), ('-1', cur - 1), ('x2', cur * 2), ('/2', cur // 2), ('=0', 0), ('+2^32', cur + (1 << 32)), ('=2^64-1', (1 << 64) - 1)]:
                    if 0 <= val < 1 << 64 and val != cur and (key or tier == 'thorough' or rng.chance(1, 2)):
                        V(f'dp:{name}{kind}', D(name, val))
            # builtin usage at the capacity the declared row ratio gives; switches toggled with the segment emptied / kept
            for u, r, sg, cells in DYN_BUILTINS:
                seg = consts[sg]; on = pi['dyn'][ix[u]] != 0
                cap = ((1 << t) // pi['dyn'][ix[r]]) if on and pi['dyn'][ix[r]] else 0
                for kind, used in {'at-capacity': cap * cells, 'over-capacity': (cap + 1) * cells, 'non-multiple': cap * cells - 1 if cells > 1 and cap else None,
                                   'stop<begin': P - cells, 'zero': 0}.items():
                    if used is None: continue
                    V(f'builtin:{sg}:{kind}', m(lambda p, seg=seg, used=used: p['segs'][seg].__setitem__(1, (p['segs'][seg][0] + used) % P)))
                V(f'switch:{u}:toggled', D(u, 0 if on else 1))
                V(f'switch:{u}:toggled,segment-emptied', m(lambda p, seg=seg, u=u, on=on: (p['dyn'].__setitem__(ix[u], 0 if on else 1), p['segs'][seg].__setitem__(1, p['segs'][seg][0]))))
                for rr in (0, 1, 3, 1 << t, 1 << (t + 1)):
                    V(f'ratio:{r}={rr}', D(r, rr))
                    V(f'ratio:{r}={rr},segment-emptied', m(lambda p, seg=seg, r=r, rr=rr: (p['dyn'].__setitem__(ix[r], rr), p['segs'][seg].__setitem__(1, p['segs'][seg][0]))))
        # verify_public_input
        n = len(pi['page'])
        prog, ex, outp = pi['segs'][consts['SEG_PROGRAM']], pi['segs'][consts['SEG_EXECUTION']], pi['segs'][consts['SEG_OUTPUT']]
        plen = ex[0] - 2 - prog[0]; olen = outp[1] - outp[0]
        W('all-addresses+1000', m(lambda p: [cl.__setitem__(0, cl[0] + 1000) for cl in p['page']]))
        for j in sorted({0, plen - 1, rng.below(max(1, plen)), n - 1, n - olen} & set(range(n))):
            W('address+1', m(lambda p, j=j: p['page'][j].__setitem__(0, p['page'][j][0] + 1)))
            W('value+1', m(lambda p, j=j: p['page'][j].__setitem__(1, (p['page'][j][1] + 1) % P)))
        W('middle-address+1', m(lambda p: p['page'][plen].__setitem__(0, p['page'][plen][0] + 1)) if plen < n - olen else pi)
        W('truncated-end', m(lambda p: p['page'].pop())); W('truncated-start', m(lambda p: p['page'].pop(0)))
        W('page-too-short', m(lambda p: p.__setitem__('page', p['page'][:max(0, plen - 1)])))
        W('cells-swapped', m(lambda p: p['page'].__setitem__(slice(0, 2), [p['page'][1], p['page'][0]])))
        W('output-len+1', m(lambda p: p['segs'][consts['SEG_OUTPUT']].__setitem__(1, outp[1] + 1)))
        W('output-len-1', m(lambda p: p['segs'][consts['SEG_OUTPUT']].__setitem__(1, outp[1] - 1)))
        # boundary lengths: a program without output (empty output segment, its cells dropped), an output of one cell
        W('output-empty', m(lambda p: (p['segs'][consts['SEG_OUTPUT']].__setitem__(1, outp[0]), p.__setitem__('page', p['page'][:n - olen]))))
        W('output-empty,cells-kept', m(lambda p: p['segs'][consts['SEG_OUTPUT']].__setitem__(1, outp[0])))
        if olen >= 2:
            W('output-one-cell', m(lambda p: (p['segs'][consts['SEG_OUTPUT']].__setitem__(1, outp[0] + 1), p.__setitem__('page', p['page'][:n - olen + 1]))))
        W('program-only-page', m(lambda p: (p['segs'][consts['SEG_OUTPUT']].__setitem__(1, outp[0]), p.__setitem__('page', p['page'][:plen]))))
        # LENGTH GRID: every interesting page length x every output length (a unit slip between cells and field elements, or a `take` that
        # stops silently at the end of the page, shows only when the page is SHORTER than program + output while the output is empty / short)
        for ol in sorted({0, 1, olen}):
            for k in sorted({0, 1, plen // 2, plen - 1, plen, plen + 1, plen + 2, plen + ol - 1, plen + ol, n - olen + ol - 1} & set(range(0, n + 1))):
                W(f'grid:output={ol},page={k}', m(lambda p, ol=ol, k=k: (p['segs'][consts['SEG_OUTPUT']].__setitem__(1, outp[0] + ol), p.__setitem__('page', p['page'][:k]))))
                if ol and k >= ol:    # the output cells kept at the END of a page whose middle is cut out
                    W(f'grid:output={ol},page={k},tail-kept', m(lambda p, ol=ol, k=k: (p['segs'][consts['SEG_OUTPUT']].__setitem__(1, outp[0] + ol), p.__setitem__('page', p['page'][:k - ol] + p['page'][n - olen:n - olen + ol]))))
        W('output-len-huge', m(lambda p: p['segs'][consts['SEG_OUTPUT']].__setitem__(1, (outp[0] + (1 << 70)) % P)))
        W('initial_pc=2', m(lambda p: p['segs'][consts['SEG_PROGRAM']].__setitem__(0, 2)))
        W('final_pc+1', m(lambda p: p['segs'][consts['SEG_PROGRAM']].__setitem__(1, prog[1] + 1)))
        W('initial_ap-1', m(lambda p: p['segs'][consts['SEG_EXECUTION']].__setitem__(0, ex[0] - 1)))
        W('initial_ap=2^64', m(lambda p: p['segs'][consts['SEG_EXECUTION']].__setitem__(0, 1 << 64)))
        W('initial_ap=1', m(lambda p: p['segs'][consts['SEG_EXECUTION']].__setitem__(0, 1)))
        W('continuous-page', m(lambda p: p['hdrs'].append([1, 1, 1, 1])))
        W('segments-empty', m(lambda p: p.__setitem__('segs', [])))
        W('page-empty', m(lambda p: p.__setitem__('page', [])))
    return out


def classify(c, co):
    return f"{c['kind'].split(':')[0]}:{co[0]}"


def nontrivial(c, co):
    return not c['kind'].endswith(':base')


def oracle(c, co):
    who = f"{c['L']} {c['kind']}"
    if co[0] == 'panic':
        return {'key': f"panic:{c['fn']}_public_input:{c['L']}", 'what': f"{c['fn']}_public_input panicked ({who}): {co[1][:140]}"}
    if c['fn'] == 'validate':
        want = dyn_validate_ok(c['pi'], c['t']) if c['L'] == 'dynamic' else validate_ok(c['L'], c['pi'], c['t'])
        if want is None: return None
        if want != (co[0] == 'ok'):
            return {'key': f"validate:{'rejects-valid' if want else 'accepts-invalid'}:{c['kind'].split(':')[1].split(':')[0]}",
                    'what': f"validate_public_input {'rejected a valid' if want else 'accepted an invalid'} public input ({who})"}
        return None
    want = verify_expect(c['L'], c['pi'])
    if (want is not None) != (co[0] == 'ok'):
        return {'key': f"verify:{'rejects-valid' if want else 'hashes-positionally'}:{c['kind'].split(':')[1]}",
                'what': f"verify_public_input {'rejected a well-placed' if want else 'accepted a misplaced / too short'} main page ({who})"}
    return None
