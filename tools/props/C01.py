"""C01 — no proof is accepted for a trace that violates the AIR (partial: see level text).
Theorems: Props/C01.lean — acceptance <=> every check of the protocol succeeded (an iff); forced shapes (oods length, decommitment
lengths, composition column count, last-layer length); the composition values checked at the OODS point and the ones the DEEP quotient
subtracts are the same vector entries; blow-up >= 2, FRI input domain = evaluation domain, FRI degree bound = trace length, generators of
exact order, queries strictly increasing in range; the FRI input values are the DEEP combination of exactly the Merkle-opened rows.
NOT proved: STARK/FRI soundness itself (proximity gaps, random-oracle model) — DESIGN section 10.
Tie: full-pipeline correspondence (real StarkProof::verify vs the Lean pipeline model) on honest proofs and on FORGED proofs for false
statements built by the forgers below (each reproduces a way acceptance was obtainable before the fix commits): must be rejected."""
import copy
import framework as fw
from framework import P
from props import prooflib as PL

PID = 'C01'
LEVEL = 'proof'
LEAN_TARGETS = ['Swiftness.Props.C01']
TRANSLATOR_PARTS = ('consts', 'ast')
DRV_LAYOUTS = ['recursive', 'dex']
BUILDS = {'quick': [('k160', 'stone5', 'full', 'all_layouts', 'parser')], 'thorough': [('k160', 'stone5', 'full', 'all_layouts', 'parser'), ('b248', 'stone6', 'full', 'all_layouts', 'parser')]}
RULE = ('honest: fixture + shipped recursive/dex proofs (model and code must accept, same returned pair). forged (false statement: last output '
        'cell replaced): zero-trace forger (all-zero tables, uniform Merkle trees, oods tail = the verifier\'s own composition value) with and '
        'without the oods splice, for several (n_queries, pow bits 20..22, mined); forged output with the honest rest; every FRI inner authentication node '
        'corrupted; oods splice on the honest proof; parameter decoupling: trace halved & blow-up doubled, evaluation domain doubled with FRI '
        'untouched, blow-up = P-2 redeclared modulo P, n_queries = 0 / 2^40, security level above the configuration; vacuous-FRI forger (zero trace, DEEP quotient folded honestly '
        'down to a last layer whose degree bound equals its domain size; quick: steps 4,4,3 with blow-up 4 and with blow-up 1, i.e. log_n_cosets = 0) x 12 re-declarations of the config that try to get it past the validation '
        '(trailing step entries, negative first step, understated last bound, no / negative blow-up, overstated input size, fewer layers). non-trivial = forged.')
ASSUMPTIONS = ['soundness against ARBITRARY adaptive provers is not decided (only the listed forgers and the C02 sweep are run)',
               'pipeline model: static layouts']
TRUSTED = ['forgers in harness/src/ops_forge.rs (use only public functions of the real code)', 'Python oracle: forged => not accepted']
HX = None


def corpus(feats):
    return []


def cases(rng, tier, feats, drv_ok):
    out = []
    I = PL.IDX
    files = [(L, f'/repo/examples/proofs/{L}/cairo0_{fw.stone_of(feats)}_example_proof.json') for L in ('recursive', 'dex')]
    bases = PL.base_proofs(HX, tier, files=files)
    own = fw.hash_of(feats) == 'k160' and fw.stone_of(feats) == 'stone5'
    for b in bases:
        if b.name == 'fixture' and not own:
            continue
        out.append({'line': b.line(), 'kind': 'honest', 'expect': 'ok', 'name': b.name})
        def F(kind, v, sec=None):
            out.append({'line': b.line(v, sec), 'kind': 'forged:' + kind, 'expect': 'reject', 'name': b.name})
        # false statement with the honest rest
        mp = copy.deepcopy(b.v[I['pi.main_page']]); mp[-1][1] = 0xdeadbeef
        F('output-changed', PL.setp(b.v, I['pi.main_page'], (), mp))
        # every FRI inner-layer authentication node corrupted
        w = copy.deepcopy(b.v[I['witness.fri_witness']])
        for l in w: l[1] = [(x + 1) % P for x in l[1]]
        F('fri-auth-corrupted', PL.setp(b.v, I['witness.fri_witness'], (), w))
        for li in range(len(w)):
            w1 = copy.deepcopy(b.v[I['witness.fri_witness']]); w1[li][1] = [(x + 1) % P for x in w1[li][1]]
            F(f'fri-auth-corrupted-layer{li}', PL.setp(b.v, I['witness.fri_witness'], (), w1))
        # oods splice: two junk values inserted at [M], [M+1]
        o = list(b.v[I['unsent.oods_values']]); m = len(o) - 2
        F('oods-splice', PL.setp(b.v, I['unsent.oods_values'], (), o[:m] + [123, 456] + o[m:]))
        F('oods-truncated', PL.setp(b.v, I['unsent.oods_values'], (), o[:1]))
        # parameter decoupling
        t, c = b.v[I['cfg.log_trace_domain_size']], b.v[I['cfg.log_n_cosets']]
        v = PL.setp(PL.setp(PL.setp(b.v, I['cfg.log_trace_domain_size'], (), t - 1), I['cfg.log_n_cosets'], (), c + 1), I['cfg.fri.log_last_layer_degree_bound'], (), b.v[I['cfg.fri.log_last_layer_degree_bound']] - 1)
        F('trace/2,blowup*2,bound/2', v)
        v = copy.deepcopy(b.v); v[I['cfg.log_trace_domain_size']] = t + 1
        for k in ('cfg.traces.original', 'cfg.traces.interaction', 'cfg.composition'): v[I[k]][0][1] += 1
        F('eval-domain*2,fri-untouched', v)
        v = copy.deepcopy(b.v); deg = v[I['cfg.fri.log_input_size']] - c; v[I['cfg.log_n_cosets']] = P - 2
        for k in ('cfg.traces.original', 'cfg.traces.interaction', 'cfg.composition'): v[I[k]][0][1] = (t + P - 2) % P
        v[I['cfg.fri.log_input_size']] = (deg + P - 2) % P
        l = v[I['cfg.fri.log_input_size']]
        for i, s in enumerate(v[I['cfg.fri.fri_step_sizes']][1:]):
            l = (l - s) % P; v[I['cfg.fri.inner_layers']][i][1] = l
        v[I['cfg.n_queries']] = 0
        F('blowup=P-2-modular', v, sec=30)
        F('n_queries=0', PL.setp(b.v, I['cfg.n_queries'], (), 0), sec=20)
        F('n_queries=2^40', PL.setp(b.v, I['cfg.n_queries'], (), 1 << 40))
        F('security-above-config', b.v, sec=b.v[I['cfg.n_queries']] * b.v[I['cfg.log_n_cosets']] + b.v[I['cfg.pow_bits']] + 1)
    # zero-trace forger (built by the real code's public functions)
    if HX and own:
        specs = [(sp, nq, pw) for sp in (0, 1) for nq, pw in ([(16, 20), (6, 20)] if tier == 'quick' else [(16, 20), (6, 20), (48, 20), (30, 21), (10, 22)])]
        res, _ = fw.run_split(lambda ls, **kw: fw.run_hx(HX, ls), [f'forge_zero {sp} {nq:x} {pw:x}' for sp, nq, pw in specs])
        for (sp, nq, pw), o in zip(specs, res):
            if o.startswith('ok '):
                out.append({'line': f'verify recursive 32 {o[3:]}', 'kind': f"forged:zero-trace{'-spliced' if sp else ''}", 'expect': 'reject', 'name': f'forge_zero({sp},{nq},{pw})'})
            else:
                out.append({'line': 'powcfg 14', 'kind': 'forger-stopped', 'expect': 'any', 'name': o[:100]})
    # black-box SOLVING forger: oods = 0^M ++ [0,0] ++ extras with ONE free extra entry, solved (two probes, affine) so that whatever the
    # OODS check compares becomes equal — wins whenever the check reads ANY entry the DEEP quotient does not (length check weakened,
    # composition value assembled from a different slice, ...).  On a tree where the length is pinned the forger cannot even start.
    if HX and own:
        specs = [(1, 0), (2, 1), (2, 0), (3, 2)] if tier == 'quick' else [(1, 0), (2, 1), (2, 0), (3, 2), (3, 0), (4, 3), (8, 7), (16, 5)]
        res, _ = fw.run_split(lambda ls, **kw: fw.run_hx(HX, ls), [f'forge_zero_solve {el:x} {fo:x} 10 14' for el, fo in specs])
        for (el, fo), o in zip(specs, res):
            if o.startswith('ok '):
                out.append({'line': f'verify recursive 32 {o[3:]}', 'kind': 'forged:zero-trace-solved-extra', 'expect': 'reject', 'name': f'forge_zero_solve({el},{fo})'})
            else:
                out.append({'line': 'powcfg 14', 'kind': 'forger-stopped', 'expect': 'any', 'name': o[:100]})
    # the same forger with a FULLY VALID config (blow-up 2): the last layer carries one coefficient less than its DOMAIN (twice the declared
    # bound) and interpolates the folded junk on every point but one that no query reaches — accepted by any verifier that does not pin the
    # last layer to exactly 2^bound coefficients at every place it is read
    if HX and own:
        specs = [('4,4,4,3', 12), ('4,4,4,4', 12)] if tier == 'quick' else [('4,4,4,3', 12), ('4,4,4,4', 12), ('4,4,4,2', 10), ('4,4,3,3,2', 14)]
        res, _ = fw.run_split(lambda ls, **kw: fw.run_hx(HX, ls), [f'forge_vacuous {st} 1 {nq:x} 14 leave-one-out' for st, nq in specs])
        for (st, nq), o in zip(specs, res):
            if o.startswith('ok '):
                out.append({'line': f'verify recursive {nq + 20:x} {o[3:]}', 'kind': 'forged:vacuous-fri:last-layer-one-short-of-domain', 'expect': 'reject', 'name': f'forge_vacuous({st},1,{nq},20,leave-one-out)'})
            else:
                out.append({'line': 'powcfg 14', 'kind': 'forger-stopped', 'expect': 'any', 'name': o[:100]})
    # vacuous-FRI forger: a complete, internally consistent proof of a false statement whose FRI really folds down to a last layer whose
    # degree bound equals its domain size; the config is then re-declared in every way we can think of to get that past the
    # validation without touching the body (the config is not in the stone5 Fiat-Shamir seed).  None may be accepted.
    if HX and own:
        specs = [('4,4,3', 2, 15, 20), ('4,4,3', 0, 10, 20)] if tier == 'quick' else [('4,4,3', 2, 15, 20), ('4,4,3', 0, 10, 20), ('4,4,4,3', 0, 0, 30), ('4,4,4', 2, 15, 20), ('3,3', 1, 30, 20), ('4,4,4,4,4', 2, 16, 20)]
        res, _ = fw.run_split(lambda ls, **kw: fw.run_hx(HX, ls), [f'forge_vacuous {st} {c:x} {nq:x} {pw:x}' for st, c, nq, pw in specs])
        for (st, c, nq, pw), o in zip(specs, res):
            nm = f'forge_vacuous({st},{c},{nq},{pw})'
            if not o.startswith('ok '):
                out.append({'line': 'powcfg 14', 'kind': 'forger-stopped', 'expect': 'any', 'name': o[:100]}); continue
            sec = nq * c + pw
            b = PL.Proof(o[3:].split(' '), 'recursive', sec, nm)
            steps = b.v[I['cfg.fri.fri_step_sizes']]; nl = b.v[I['cfg.fri.n_layers']]; last = b.v[I['cfg.fri.log_last_layer_degree_bound']]
            t, lis = b.v[I['cfg.log_trace_domain_size']], b.v[I['cfg.fri.log_input_size']]
            gap = (t - (sum(steps) + last)) % P      # what the declared folding is short of the trace length (a "negative" felt)
            S = lambda v, k, x: PL.setp(v, I[k], (), x)
            lies = [('as-performed', b.v),
                    ('trailing-step', S(b.v, 'cfg.fri.fri_step_sizes', steps + [gap])),
                    ('two-trailing-steps', S(b.v, 'cfg.fri.fri_step_sizes', steps + [(gap + 1) % P, P - 1])),
                    ('trailing-step+inner-layer', S(S(b.v, 'cfg.fri.fri_step_sizes', steps + [gap]), 'cfg.fri.inner_layers', b.v[I['cfg.fri.inner_layers']] + [[1, 1, 100]])),
                    ('trailing-step+n_layers+1', S(S(S(b.v, 'cfg.fri.fri_step_sizes', steps + [gap]), 'cfg.fri.inner_layers', b.v[I['cfg.fri.inner_layers']] + [[1, 1, 100]]), 'cfg.fri.n_layers', nl + 1)),
                    ('first-step-negative', S(b.v, 'cfg.fri.fri_step_sizes', [gap] + steps[1:])),
                    ('last-bound-understated', S(b.v, 'cfg.fri.log_last_layer_degree_bound', (last + gap) % P)),
                    ('no-blowup', S(S(b.v, 'cfg.log_trace_domain_size', lis), 'cfg.log_n_cosets', 0)),
                    ('blowup-negative', S(S(b.v, 'cfg.log_trace_domain_size', (lis + 2) % P), 'cfg.log_n_cosets', P - 2)),
                    ('input-size-overstated', S(b.v, 'cfg.fri.log_input_size', (lis + c) % P)),
                    ('n_layers-1', S(b.v, 'cfg.fri.n_layers', nl - 1)),
                    ('n_layers-1,last+step', S(S(b.v, 'cfg.fri.n_layers', nl - 1), 'cfg.fri.log_last_layer_degree_bound', last + steps[-1]))]
            for kind, v in lies:
                out.append({'line': b.line(v), 'kind': 'forged:vacuous-fri:' + kind, 'expect': 'reject', 'name': nm})
    return out


def classify(c, co):
    return f"{c['kind'].split(':')[0]}:{co[0]}"


def nontrivial(c, co):
    return c['kind'].startswith('forged')


def oracle(c, co):
    if c['expect'] == 'ok':
        return None if co[0] == 'ok' else {'key': 'honest-rejected', 'what': f"honest proof {c['name']} rejected: {co[1][:120]}"}
    if c['expect'] == 'reject' and co[0] == 'ok':
        return {'key': 'forgery:' + ':'.join(c['kind'].split(':')[1:]), 'what': f"FORGED proof accepted ({c['kind']}, {c['name']}): returned {co[1][:80]}"}
    return None
