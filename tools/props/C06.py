"""C06 — FRI accepts every polynomial below the bound; folding is polynomial folding.
Theorems: Props/C06.lean (split decomposition, fold identity for k = 1..4 for every polynomial / challenge / point, facts about
the translated group constants, the per-layer step `next_layer_step`, Horner = evaluation, last-layer iff) and Props/C06b.lean
(assembled completeness of the honest prover, as far as proved — see its header).
Tie: the executable Lean honest prover produces whole FRI instances (commitments, coset leaves, paths, last layer) for random step
lists / bounds / blow-ups / friendly counts / polynomials / query sets; the REAL fri_commit + fri_verify must accept them and agree
with the model; fri_formula is compared pointwise with an independent Python evaluation of 2^k * sum_j b^j P_j(x^(2^k))."""
import framework as fw
from framework import P, hexf, hexl
from props import frilib as F

PID = 'C06'
LEVEL = 'proof'
LEAN_TARGETS = ['Swiftness.Props.C06', 'Swiftness.Props.C06b', 'Swiftness.Prover.FriProver']
PROPS_FILES = ['C06', 'C06b']
BUILDS = {'quick': [('k160', 'stone5'), ('b248', 'stone5')], 'thorough': [('k160', 'stone5'), ('k248', 'stone5'), ('b160', 'stone5'), ('b248', 'stone5')]}
RULE = ('honest instances: random layer counts 2..6(8), steps 1..4 incl. single-coset layers, last bound 0..3, blow-up 1..3, friendly counts '
        '0/mid/huge, random polynomials of every length up to the bound (incl. 0, 1, bound), query sets single/adjacent/same-coset/dense; '
        'fold cases: k = 1..4, random polynomials of length 0..40, random challenge and point; next_layer/last_layer unit cases. '
        'non-trivial = polynomial with >= 2 coefficients.')
ASSUMPTIONS = ['Poseidon/Keccak/Blake2s are modelled by executable Lean code compared on every case',
               'domain sizes in the generated instances are <= 2^12 (the theorems cover all sizes)']
TRUSTED = ['Python oracle for the fold identity (own polynomial arithmetic, group constants from the translator output)']


def corpus(feats):
    return []


def fold_case(rng):
    k = rng.choice([1, 2, 3, 4]); n = 1 << k
    cs = [rng.felt() for _ in range(rng.choice([0, 1, 2, 3, n, n + 1, 17, 40]))]
    x = rng.felt() or 1; b = rng.edge_felt()
    g = F.consts()['friGroup']
    vals = [F.evalp(cs, x * g[j] % P) for j in range(n)]
    xinv = pow(x, P - 2, P)
    want = n * sum(pow(b, j, P) * F.evalp(cs[j::n], pow(x, n, P)) for j in range(n)) % P
    return {'line': f'fri_formula {hexl(vals)} {hexf(b)} {hexf(xinv)} {n:x}', 'kind': f'fold{n}', 'want': want, 'ncoef': len(cs)}


def cases(rng, tier, feats, drv_ok):
    out = []
    for _ in range(80 if tier == 'quick' else 800):
        out.append(fold_case(rng))
    # malformed fold inputs: wrong value count, unsupported coset sizes (panic! in the pub fn)
    for cs_, nv in [(2, 3), (4, 3), (8, 7), (16, 15), (16, 17), (3, 3), (1, 1), (32, 32), (0, 0), (1 << 64, 2)]:
        out.append({'line': f'fri_formula {hexl([rng.felt() for _ in range(nv)])} {hexf(rng.felt())} {hexf(rng.felt())} {hexf(cs_)}', 'kind': 'fold-malformed', 'want': None, 'ncoef': 0})
    if not drv_ok:
        return out
    specs = []
    for _ in range(24 if tier == 'quick' else 200):
        steps, last, lnc = F.rand_config(rng, tier)
        bound = 1 << (sum(steps) + last)
        L = sum(steps) + last + lnc
        ncoef = rng.choice([0, 1, 2, bound // 2, bound - 1, bound, bound])
        cs = [rng.felt() for _ in range(max(0, ncoef))]
        N = 1 << L
        shape = rng.choice(['single', 'adjacent', 'same-coset', 'dense', 'sparse'])
        if shape == 'single': Q = [rng.below(N)]
        elif shape == 'adjacent': a = 2 * rng.below(N // 2); Q = [a, a + 1]
        elif shape == 'same-coset':
            n0 = 1 << steps[0]; c0 = rng.below(N // n0); Q = sorted({c0 * n0 + rng.below(n0) for _ in range(3)})
        elif shape == 'dense': Q = sorted({rng.below(N) for _ in range(min(N, 24))})
        else: Q = sorted({rng.below(N) for _ in range(3)})
        nf = rng.choice([0, L // 2, L, 100])
        # SPECIAL VALUES at queried positions: a polynomial that VANISHES at a queried point (value exactly 0 there), so that code treating
        # 0 as "no value" is exercised: P(x) = (x - x_q) * R(x), x_q = 3 * w^bitrev_L(q)
        if bound >= 2 and rng.chance(1, 4):
            w = pow(3, (P - 1) >> L, P); q = rng.choice(Q)
            xq = 3 * pow(w, int(format(q, f'0{L}b')[::-1], 2) if L else 0, P) % P
            R = [rng.felt() for _ in range(rng.choice([1, bound // 2, bound - 1]) or 1)]
            cs = [0] * (len(R) + 1)
            for i, r in enumerate(R):
                cs[i + 1] = (cs[i + 1] + r) % P; cs[i] = (cs[i] - xq * r) % P
            shape += '+vanishing'
        specs.append((nf, steps, last, lnc, cs, Q, rng.felt(), rng.choice([0, 1, 7]), shape))
    built = F.build(feats, [s[:8] for s in specs])
    for s, toks in zip(specs, built):
        out.append({'line': F.fri_line(s[6], s[7], toks), 'kind': 'honest:' + s[8], 'want': 'accept', 'ncoef': len(s[4]),
                    'cfg': f'steps={s[1]} last={s[2]} blowup={s[3]} nf={s[0]}'})
    return out


def classify(c, co):
    return f"{c['kind']}:{co[0]}"


def nontrivial(c, co):
    return c['ncoef'] >= 2


def oracle(c, co):
    if c['kind'] == 'fold-malformed':
        return None          # error/panic behaviour of the pub fn: compared with the model only (C18 covers verify)
    if c['kind'].startswith('fold'):
        if co[0] != 'ok':
            return {'key': 'fold:noval', 'what': f"fri_formula returned {co[0]} on a well-formed coset"}
        if int(co[1], 16) != c['want']:
            return {'key': 'fold:identity', 'what': f"fri_formula ({c['kind']}) != 2^k * sum_j b^j P_j(x^(2^k))"}
        return None
    if co[0] != 'ok':
        return {'key': 'complete:' + c['kind'].split(':')[1], 'what': f"honest FRI instance rejected ({co[0]} {co[1][:100]}); {c['cfg']}; {c['kind']}"}
    return None
