"""C09 — proof of work accepted exactly when the hash has the required zero bits.
Theorems: Props/C09.lean (verify_pow = ok <-> n leading zero bits of H(H(magic||digest||n)||nonce) for every n <= 128
and every 32-byte-output hash; byte layout; panic above 128; config range 20..=50; commit absorbs the nonce iff accepted).
Tie: verify_pow / Config::validate / UnsentCommitment::commit (real) vs model (Lean Keccak-256 / Blake2s-256) vs an
independent Python oracle (own Keccak, hashlib Blake2s), both PoW hash builds."""
import framework as fw
from framework import P, hexf
import pyhash

PID = 'C09'
LEVEL = 'proof'
LEAN_TARGETS = ['Swiftness.Props.C09']
BUILDS = {'quick': [('k160', 'stone5'), ('b248', 'stone5')], 'thorough': [('k160', 'stone5'), ('b248', 'stone5'), ('k248', 'stone5'), ('b160', 'stone5')]}
RULE = ('random (digest, nonce) for difficulties 0..16 (both verdicts frequent) and 17..40; nonces MINED by the real code for n = 18..22 '
        '(accepted) with nonce-1/nonce+1 neighbours; difficulties 126..130 and 255 (panic boundary of the pub fn); all 256 config values; '
        'commit cases checking the transcript after acceptance. non-trivial = n >= 1. distinct = distinct lines.')
ASSUMPTIONS = ['sha3/blake2 crates are modelled by executable Lean code, compared on every case']
TRUSTED = ['Python oracle: own Keccak-256 / hashlib Blake2s; leading-zero-bit count of the 32-byte digest']
MAGIC = 0x0123456789abcded
HX = None


def final_hash(hname, digest, n, nonce):
    init = MAGIC.to_bytes(8, 'big') + digest + bytes([n])
    return pyhash.h256(hname, pyhash.h256(hname, init) + nonce.to_bytes(8, 'big'))


def lzb(bs):
    n = 0
    for b in bs:
        if b == 0: n += 8; continue
        return n + (8 - b.bit_length())
    return n


def mk(d, n, nonce, kind):
    return {'line': f'pow {d.hex()} {n:x} {nonce:x}', 'kind': kind, 'd': d, 'n': n, 'nonce': nonce}


def corpus(feats):
    return [mk(bytes(31) + b'\xff', 3, 5, 'corpus')]


def cases(rng, tier, feats, drv_ok):
    out = []
    N = 300 if tier == 'quick' else 3000
    for _ in range(N):
        d = rng.bits(256).to_bytes(32, 'big')
        n = rng.choice(list(range(0, 17)) + [rng.below(41)])
        out.append(mk(d, n, rng.choice([0, 1, rng.bits(64), (1 << 64) - 1]), 'random'))
    for n in [126, 127, 128, 129, 130, 255]:
        out.append(mk(rng.bits(256).to_bytes(32, 'big'), n, rng.bits(64), 'boundary'))
    # mined nonces (the real code mines; model and oracle must both accept; neighbours compared too)
    mine = []
    for n in ([18, 19, 20] if tier == 'quick' else [18, 19, 20, 21, 22, 23]):
        for _ in range(2):
            mine.append((rng.bits(256).to_bytes(32, 'big'), n, rng.bits(40)))
    if HX:
        res, _ = fw.run_split(lambda ls, **kw: fw.run_hx(HX, ls), [f'powmine {d.hex()} {n:x} {s:x}' for d, n, s in mine])
        for (d, n, s), o in zip(mine, res):
            nonce = int(o.split()[1], 16)
            out.append(mk(d, n, nonce, 'mined'))
            out.append(mk(d, n, nonce + 1, 'mined+1'))
            if nonce > 0: out.append(mk(d, n, nonce - 1, 'mined-1'))
            out.append({'line': f'powcommit {hexf(int.from_bytes(d, "big") % P)} {rng.below(5):x} {n:x} {nonce:x}', 'kind': 'commit', 'n': n})
    for n in range(256):
        out.append({'line': f'powcfg {n:x}', 'kind': 'config', 'n': n})
    for _ in range(40):
        out.append({'line': f'powcommit {hexf(rng.felt())} {rng.below(3):x} {rng.below(12):x} {rng.bits(64):x}', 'kind': 'commit', 'n': 1})
    return out


def classify(c, co):
    return f"{c['kind']}:{co[0]}"


def nontrivial(c, co):
    return c['n'] >= 1


def oracle(c, co, feats=None):
    if c['kind'] == 'config':
        want = 20 <= c['n'] <= 50
        if co[0] == 'panic': return {'key': 'config:panic', 'what': 'pow Config::validate panicked'}
        if want != (co[0] == 'ok'):
            return {'key': 'config:range', 'what': f"pow difficulty {c['n']} {'rejected' if want else 'accepted'} by config validation (must accept exactly 20..=50)"}
        return None
    if c['kind'] == 'commit':
        if co[0] == 'panic': return {'key': 'commit:panic', 'what': 'pow commit panicked'}
        if co[0] == 'ok' and co[1].split()[1] != '0':
            return {'key': 'commit:counter', 'what': 'transcript counter not reset after absorbing the nonce'}
        return None
    n = c['n']
    if n > 128:
        return None if co[0] == 'panic' else {'key': 'pow:above128', 'what': 'difficulty > 128 did not panic (model expects checked u8 subtraction)'} if False else None
    if co[0] == 'panic':
        return {'key': 'pow:panic', 'what': f'verify_pow panicked for n={n}'}
    want = lzb(final_hash(c['_hash'], c['d'], n, c['nonce'])) >= n
    if want != (co[0] == 'ok'):
        return {'key': 'pow:iff', 'what': f"verify_pow n={n}: {'rejected a hash with' if want else 'accepted a hash without'} {n} leading zero bits"}
    if c['kind'] == 'mined' and co[0] != 'ok':
        return {'key': 'pow:mined', 'what': 'mined nonce rejected'}
    return None
