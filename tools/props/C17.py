"""C17 — verification work is bounded by the size of the proof.
Theorems: Props/C17.lean (after config validation every loop bound derived from a NUMERIC field of the proof is a constant: <= 48
query samples, <= 14 FRI rounds, coset loops <= 16, exponentiations <= 256 squarings, diluted product 15 steps; the Merkle walk
makes <= |queue| + |auths| steps; all model functions are total; cost bound as far as proved — see the file).
An INSTRUMENTED step-counting twin of the whole pipeline model (Proofs/Ticked*.lean: verify_ticked_erases, verify_ticks_le_cost,
verify_ticks_bounded) proves ticks <= A_L + B_L * size(proof) once the configuration validates, and that the sampling loop alone is
value-driven without validation.
The model cannot exhibit wall time or the allocator: every case below is ALSO run in an isolated child process of the real verifier
under a wall-clock limit and an address-space limit, and its time / peak RSS must stay within a fixed multiple of the honest run."""
import copy, os, resource, subprocess, time
import framework as fw
from framework import P
from props import prooflib as PL

PID = 'C17'
LEVEL = 'proof'
LEAN_TARGETS = ['Swiftness.Props.C17']
TRANSLATOR_PARTS = ('consts', 'ast')
DRV_LAYOUTS = ['dex', 'recursive', 'recursive_with_poseidon', 'small', 'starknet', 'starknet_with_keccak', 'dynamic']
BUILDS = {'quick': [('k160', 'stone5', 'full', 'all_layouts', 'parser')], 'thorough': [('k160', 'stone5', 'full', 'all_layouts', 'parser')]}
EXTREME = [0, 1, 2, 48, 49, 1 << 16, 1 << 20, 1 << 32, 1 << 40, (1 << 64) - 1, 1 << 64, 1 << 128, P - 2, P - 1]
RULE = ('bases: fixture + shipped recursive proof (thorough: + 5 other static layouts and the dynamic proof). every numeric field of the config '
        'and public input (and the nonce) set to each of {0,1,2,48,49,2^16,2^20,2^32,2^40,2^64-1,2^64,2^128,P-2,P-1}, alone, as an alias cur+k*2^w (w=32,64,128) of the honest value, and together with a '
        'consistent re-declaration of the dependent fields (n_queries with security incl. k*2^w+q, blow-up with heights, trace size with FRI, layer count '
        'with vectors, friendly-layer count in every table config, dynamic parameters); dynamic layout: validate_public_input of the shipped dynamic public input with every row ratio / switch / column count '
        '(and a sample of the other parameters) set to {0,1,2,T/2,T,2T,2^40,2^63,2^64-1}, also with the builtin switched on. each case: model agreement + isolated child process of the real verifier (wall limit 20 s per '
        'chunk of 25, address space 6 GiB); bound: time <= 40 x honest + 1 s, peak RSS <= honest + 512 MiB. non-trivial = all mutants.')
ASSUMPTIONS = ['wall time and RSS are measured on this machine in a child process; they are a test of the runtime behaviour the model cannot exhibit']
TRUSTED = ['Python oracle on measured time / RSS']
HX = None
CHUNK, WALL, AS_LIMIT = 25, 20, 6 << 30


def isolated(lines):
    """-> list of (usec, rss_kb, cls) | ('timeout',) | ('died', rc) per line"""
    res = []
    def lim():
        resource.setrlimit(resource.RLIMIT_AS, (AS_LIMIT, AS_LIMIT))
    i = 0
    while i < len(lines):
        chunk = lines[i:i + CHUNK]
        try:
            r = subprocess.run([HX], input='\n'.join('timed ' + l for l in chunk) + '\n', capture_output=True, text=True, timeout=WALL, preexec_fn=lim)
            outs = [o for o in r.stdout.split('\n') if o]
            for o in outs[:len(chunk)]:
                t = o.split()
                res.append((int(t[1]), int(t[2]), t[3]) if t[0] == 'ok' and len(t) == 4 else ('died', o[:80]))
            if len(outs) < len(chunk):
                res.append(('died', r.returncode)); i += len(outs) + 1; continue
        except subprocess.TimeoutExpired as e:
            done = [o for o in (e.stdout or b'').decode().split('\n') if o] if e.stdout else []
            for o in done[:len(chunk)]:
                t = o.split(); res.append((int(t[1]), int(t[2]), t[3]))
            res.append(('timeout',)); i += len(done) + 1; continue
        i += len(chunk)
    return res


def corpus(feats):
    return []


def cases(rng, tier, feats, drv_ok):
    from props.C18 import redeclared
    out = []
    layouts = ('recursive',) if tier == 'quick' else ('dex', 'recursive', 'recursive_with_poseidon', 'small', 'starknet', 'starknet_with_keccak')
    bases = PL.base_proofs(HX, tier, layouts)
    I = PL.IDX
    for b in bases:
        out.append({'line': b.line(), 'kind': 'base', 'name': b.name, 'pos': '-'})
        scal = [(i, path) for i, path in b.positions() if i < 23 and PL.TOK[i] != 'pi.main_page'] + [(I['unsent.pow.nonce'], ())]
        for i, path in scal:
            for x in (EXTREME if tier == 'thorough' or not path else [rng.choice(EXTREME) for _ in range(2)]):
                if x < PL.limit(i) and x != PL.get(b.v[i], path):
                    out.append({'line': b.line(PL.setp(b.v, i, path, x)), 'kind': 'numeric', 'name': b.name, 'pos': f'{PL.TOK[i]}{list(path)}={hex(x)}'})
            # aliases of the honest value modulo a machine word: they pass every check a truncating conversion would make
            cur = PL.get(b.v[i], path)
            for w in ((32, 64, 128) if tier == 'thorough' or not path else (rng.choice((32, 64, 128)),)):
                x = cur + (1 << w) * (1 + rng.below(3))
                if x < PL.limit(i):
                    out.append({'line': b.line(PL.setp(b.v, i, path, x)), 'kind': 'alias', 'name': b.name, 'pos': f'{PL.TOK[i]}{list(path)}=cur+k*2^{w}'})
        # consistent re-declarations: the extreme value is made to pass the checks that precede the loop it drives
        for nq in [48, 49, 1 << 16, 1 << 40, P - 1] + [(k << w) + q for w in (32, 64, 128) for k in (1, 3) for q in (1, 10, 48)]:
            out.append({'line': b.line(PL.setp(b.v, I['cfg.n_queries'], (), nq), sec=0), 'kind': 'redeclared:n_queries', 'name': b.name, 'pos': hex(nq)})
        # PAIRS: a loop bound may be derived from a SECOND field (a cap scaled by the blow-up, a size scaled by a step ...): every blow-up
        # exponent 1..16, re-declared consistently WITHOUT touching what the transcript hashes (same trace size, same FRI steps and last
        # layer: only the heights move), each with a huge query count
        for c in range(1, 17):
            v0 = copy.deepcopy(b.v); t0 = v0[I['cfg.log_trace_domain_size']]; lis = t0 + c
            v0[I['cfg.log_n_cosets']] = c
            for k in ('cfg.traces.original', 'cfg.traces.interaction', 'cfg.composition'):
                v0[I[k]][0][1] = lis
            v0[I['cfg.fri.log_input_size']] = lis
            h = lis; inner = []
            for st, row in zip(v0[I['cfg.fri.fri_step_sizes']][1:], v0[I['cfg.fri.inner_layers']]):
                h -= st; inner.append([row[0], h, row[2]])
            v0[I['cfg.fri.inner_layers']] = inner
            for nq in ([1 << 24, 1 << 40] if tier == 'quick' else [49, 97, 1 << 16, 1 << 24, 1 << 40, (1 << 64) + 7]):
                out.append({'line': b.line(PL.setp(v0, I['cfg.n_queries'], (), nq), sec=0), 'kind': 'redeclared:blowup x n_queries', 'name': b.name, 'pos': f'c={c},nq={hex(nq)}'})
        for t in [1, 20, 40, 60, 71]:
            for c in [1, 16]:
                v = redeclared(b, t, c)
                if v: out.append({'line': b.line(v), 'kind': 'redeclared:trace/blowup', 'name': b.name, 'pos': f't={t},c={c}'})
        for nl in [15, 16, 1 << 16, 1 << 40, P - 1]:
            v = PL.setp(b.v, I['cfg.fri.n_layers'], (), nl)
            if nl <= 1 << 16:
                v = PL.setp(v, I['cfg.fri.fri_step_sizes'], (), [0] + [1] * (nl - 1)); v = PL.setp(v, I['cfg.fri.inner_layers'], (), [[2, 1, 100]] * (nl - 1))
            out.append({'line': b.line(v), 'kind': 'redeclared:n_layers', 'name': b.name, 'pos': hex(nl)})
        for lns in [79, 80, 1 << 16, P - 1]:
            out.append({'line': b.line(PL.setp(b.v, I['pi.log_n_steps'], (), lns)), 'kind': 'redeclared:log_n_steps', 'name': b.name, 'pos': hex(lns)})
        # the friendly-layer count is repeated in every table / vector config and (stone5) not bound by the transcript: re-declared
        # consistently everywhere, any value >= the tallest tree is an HONEST description of the same proof
        for nf in [1 << 10, 1 << 20, 1 << 30, 1 << 40, 1 << 60, (1 << 64) - 1, 1 << 64, 1 << 128, P - 1]:
            v = PL.setp(b.v, I['cfg.n_verifier_friendly'], (), nf)
            for key in ('cfg.traces.original', 'cfg.traces.interaction', 'cfg.composition', 'cfg.fri.inner_layers'):
                v = PL.setp(v, I[key], (), [[r[0], r[1], nf] for r in b.v[I[key]]])
            out.append({'line': b.line(v), 'kind': 'redeclared:n_friendly', 'name': b.name, 'pos': hex(nf)})
        for last in [15, 16, 64, P - 1]:
            out.append({'line': b.line(PL.setp(b.v, I['cfg.fri.log_last_layer_degree_bound'], (), last)), 'kind': 'redeclared:last_layer', 'name': b.name, 'pos': hex(last)})
    # the dynamic layout's validation is driven by 340 prover-declared parameters (row ratios, offsets, switches): each key parameter set
    # to hostile values (zero, one, above the trace length, 2^40, 2^63, 2^64-1) must be answered as fast as the honest input
    from props import C14
    C14.HX = HX
    dynb = C14.bases().get('dynamic') if HX and 'parser' in feats else None
    if dynb:
        pi, t, c = dynb; ix = C14.dyn_meta()['idx']; T = 1 << t
        dl = lambda p: f'validate_pi dynamic {C14.pi_tokens(p)} {t:x} {c:x}'
        out.append({'line': dl(pi), 'kind': 'base', 'name': 'dynamic-public-input', 'pos': '-'})
        names = [n for n in sorted(ix, key=ix.get) if n.endswith('row_ratio') or n.startswith('uses_') or n in ('cpu_component_step', 'num_columns_first', 'num_columns_second')]
        names += [n for n in sorted(ix, key=ix.get) if n not in names and (tier == 'thorough' or rng.chance(1, 12))]
        for n in names:
            for v in [0, 1, 2, T // 2, T, 2 * T, 1 << 40, 1 << 63, (1 << 64) - 1]:
                if v == pi['dyn'][ix[n]]: continue
                p = copy.deepcopy(pi); p['dyn'][ix[n]] = v
                out.append({'line': dl(p), 'kind': 'dynamic-param', 'name': 'dynamic-public-input', 'pos': f'{n}={v:#x}'})
                if n.endswith('row_ratio') and n.split('_row_ratio')[0] + '_builtin' not in '':   # with the builtin switched on as well
                    for u in [k for k in ix if k.startswith('uses_') and k[5:].split('_builtin')[0] in n]:
                        if pi['dyn'][ix[u]] == 0:
                            p2 = copy.deepcopy(p); p2['dyn'][ix[u]] = 1
                            out.append({'line': dl(p2), 'kind': 'dynamic-param', 'name': 'dynamic-public-input', 'pos': f'{n}={v:#x},{u}=1'})
    # the model is run on every case of the fixture / recursive / dynamic bases and on a sample of the other layouts' (thorough tier)
    for n, c in enumerate(out):
        if c.get('name') not in ('fixture', 'dynamic-public-input') and 'recursive/' not in str(c.get('name')) and n % 40:
            c['hxonly'] = True
    return out


def prepare(cases):
    """every case (corpus and replayed ones included) first runs in an isolated child process under the limits"""
    if not HX: return
    iso = isolated([c['line'] for c in cases])
    for c, r in zip(cases, iso + [('died', 'missing')] * (len(cases) - len(iso))):
        c['iso'] = r
        if r[0] in ('timeout', 'died'):   # do not run it again in-process (it would hang / exhaust memory there too)
            c['precomputed'] = f'panic ISOLATED-RUN-{r[0].upper()}'; c['hxonly'] = True


def classify(c, co):
    return f"{c['kind'].split(':')[0]}:{co[0]}"


def nontrivial(c, co):
    return c['kind'] != 'base'


BASE = {}


def oracle(c, co):
    r = c.get('iso')
    if r is None: return None
    if c['kind'] == 'base' and len(r) == 3:
        BASE[c['name']] = r
        return None
    who = f"{c['kind']} {c['pos']} of {c['name']}"
    if r[0] == 'timeout':
        return {'key': 'unbounded-time:' + c['kind'], 'what': f'the real verifier did not finish within {WALL}s ({who})'}
    if r[0] == 'died':
        return {'key': 'died:' + c['kind'], 'what': f'the real verifier process died (memory limit / abort) ({who}): {r[1]}'}
    b = BASE.get(c['name'])
    if b and (r[0] > 40 * b[0] + 1_000_000 or r[1] > b[1] + 512 * 1024):
        return {'key': 'value-driven:' + c['kind'], 'what': f'work grows with a numeric field: {r[0]} us / {r[1]} kB vs honest {b[0]} us / {b[1]} kB ({who})'}
    return None
