"""C18 — malformed proofs are reported as errors, not crashes.
Theorems: Props/C18.lean (for ANY layout ops that do not panic, Stark.verify never panics — every unwrap / assert / index of the
pipeline is dominated by a check; for the static layouts the translated evaluators can only panic on a field division by zero
(Fiat-Shamir challenge hitting a root of a denominator), since their array indices pass a kernel-checked syntactic bounds check).
Tie: the malformed stream below through the REAL verifier (catch_unwind per case; an abort is recorded as a panic), the model, and the
oracle "never panic".  Also StarkConfig::validate, validate_public_input, verify_public_input taken alone."""
import framework as fw
from framework import P
from props import prooflib as PL

PID = 'C18'
LEVEL = 'proof'
LEAN_TARGETS = ['Swiftness.Props.C18', 'Swiftness.Props.C18dyn', 'Swiftness.Props.C18dynPipeline']
PROPS_FILES = ['C18', 'C18dyn', 'C18dynPipeline']
TRANSLATOR_PARTS = ('consts', 'ast')
DRV_LAYOUTS = ['dex', 'recursive', 'recursive_with_poseidon', 'small', 'starknet', 'starknet_with_keccak', 'dynamic']
BUILDS = {'quick': [('k160', 'stone5', 'full', 'all_layouts', 'parser'), ('b248', 'stone6', 'full', 'all_layouts', 'parser')], 'thorough': [('k160', 'stone5', 'full', 'all_layouts', 'parser'), ('b248', 'stone6', 'full', 'all_layouts', 'parser')]}
EXTREME = [0, 1, 2, 15, 16, 17, 48, 49, 64, 65, 255, 1 << 16, 1 << 32, 1 << 40, (1 << 64) - 1, 1 << 64, 1 << 128, (1 << 128) + 1, P - 2, P - 1]
RULE = ('[dynamic layout, stone6 build: zero-trace forgeries for public inputs with edited column / offset parameters, which reach the DEEP-quotient evaluation; adversarial parameter vectors through check_asserts] bases: fixture + shipped recursive/dex proofs (thorough: + all static layouts and the dynamic proof). every vector: emptied, truncated by '
        '1, truncated to 1, first element dropped (shift), lengthened by 1 and by 100; every numeric scalar at each extreme value '
        '(0,1,2,15..17,48,49,64,65,255,2^16,2^32,2^40,2^64-1,2^64,2^128,2^128+1,P-2,P-1); consistent re-declarations (small traces t=1..12 with '
        'matching FRI/commitment configs, eval domain 2^65..2^87, composition columns 1/3, the column count of every table together with its decommitment length, FRI layer columns); pairs of the above. plus config validation and '
        'public-input validation taken alone (C11/C14 generators). non-trivial = all.')
ASSUMPTIONS = ['a process abort (stack overflow, allocation failure) is recorded as a panic of that case; resource exhaustion itself is C17',
               'dynamic layout: Model/LayoutDynamic (hand model of mod.rs around the translated evaluators and assertion list), compared on a sample of the mutants']
TRUSTED = ['Python oracle: outcome must be ok or err']
HX = None


def corpus(feats):
    return []


def redeclared(b, t, c=None, comp_cols=None):
    """a self-consistent config for trace exponent t (FRI steps/last re-derived, commitments' heights re-declared)"""
    import copy
    v = copy.deepcopy(b.v); I = PL.IDX
    c = v[I['cfg.log_n_cosets']] if c is None else c
    nf = v[I['cfg.n_verifier_friendly']]
    steps = [0]; rem = t
    while rem > 0 and len(steps) < 15:
        s = min(4, rem) if len(steps) < 14 else 0
        if s == 0: break
        steps.append(s); rem -= s
    if len(steps) < 2:
        return None
    last = rem
    if last > 15: return None
    lis = t + c
    inner = []; h = lis
    for s in steps[1:]:
        h -= s; inner.append([1 << s, h, nf])
    v[I['cfg.log_trace_domain_size']] = t; v[I['cfg.log_n_cosets']] = c
    for k in ('cfg.traces.original', 'cfg.traces.interaction', 'cfg.composition'):
        v[I[k]][0][1] = lis
    if comp_cols is not None: v[I['cfg.composition']][0][0] = comp_cols
    v[I['cfg.fri.log_input_size']] = lis; v[I['cfg.fri.n_layers']] = len(steps); v[I['cfg.fri.log_last_layer_degree_bound']] = last
    v[I['cfg.fri.fri_step_sizes']] = steps; v[I['cfg.fri.inner_layers']] = inner
    v[I['pi.log_n_steps']] = (t - 4) % P
    v[I['unsent.fri.inner_layers']] = (v[I['unsent.fri.inner_layers']] + [1] * 15)[:len(steps) - 1]
    v[I['unsent.fri.last_layer_coefficients']] = ([1] * (1 << last))
    return v


def cases(rng, tier, feats, drv_ok):
    out = []
    layouts = ('recursive', 'dex') if tier == 'quick' else ('dex', 'recursive', 'recursive_with_poseidon', 'small', 'starknet', 'starknet_with_keccak')
    if fw.stone_of(feats) == 'stone6' and tier == 'quick':
        layouts = ()          # quick: the stone6 build contributes the dynamic layout's proof only
    files = [(L, f'/repo/examples/proofs/{L}/cairo0_stone5_example_proof.json') for L in layouts] if fw.stone_of(feats) == 'stone5' else \
            [(L, f'/repo/examples/proofs/{L}/cairo0_stone6_example_proof.json') for L in layouts + ('dynamic',)]
    bases = PL.base_proofs(HX, tier, files=files)
    if fw.stone_of(feats) == 'stone6' and tier == 'quick':
        bases = [b for b in bases if b.layout == 'dynamic']
    k = 0
    def add(b, v, kind, pos):
        nonlocal k
        k += 1
        out.append({'line': b.line(v), 'kind': kind, 'name': b.name, 'pos': pos, 'hxonly': k % (25 if b.layout == 'dynamic' else 9 if b.layout in ('recursive', 'dex') else 60) != 0})
    for b in bases:
        add(b, b.v, 'base', '-')
        for i, path in b.vectors():
            lst = PL.get(b.v[i], path); nm = f'{PL.TOK[i]}{list(path)}'
            e = PL.extra_element(i, path)
            for kind, f in [('emptied', lambda l: []), ('truncated-1', lambda l: l[:-1]), ('truncated-to-1', lambda l: l[:1]), ('shifted', lambda l: l[1:]),
                            ('lengthened+1', lambda l, e=e: l + [e]), ('lengthened+100', lambda l, e=e: l + [e] * 100)]:
                if f(lst) != lst:
                    add(b, PL.mod_list(b.v, i, path, f), 'vector:' + kind, nm)
        scal = [(i, path) for i, path in b.positions() if i < 23 and PL.TOK[i] != 'pi.main_page'] + \
               [(i, ()) for i in (PL.IDX['unsent.traces.original'], PL.IDX['unsent.composition'], PL.IDX['unsent.pow.nonce'])]
        for i, path in scal:
            lim = PL.limit(i)
            vals = EXTREME if tier == 'thorough' or not path else [rng.choice(EXTREME) for _ in range(3)]
            for x in vals:
                if x < lim:
                    add(b, PL.setp(b.v, i, path, x), 'numeric', f'{PL.TOK[i]}{list(path)}={x if x < 1 << 20 else hex(x)}')
            cur = PL.get(b.v[i], path)   # aliases of the honest value modulo a machine word
            for w in ((32, 64, 128) if tier == 'thorough' or not path else (rng.choice((32, 64, 128)),)):
                if cur + (1 << w) < lim:
                    add(b, PL.setp(b.v, i, path, cur + (1 << w)), 'numeric', f'{PL.TOK[i]}{list(path)}=cur+2^{w}')
        # consistent re-declarations reaching deep into the pipeline
        for t in ([1, 2, 3, 4, 5, 8, 12] if tier == 'quick' else list(range(1, 20))):
            v = redeclared(b, t)
            if v: add(b, v, 'redeclared:small-trace', f't={t}')
        for t, c in [(60, 5), (63, 2), (64, 1), (65, 16), (71, 16), (50, 15)]:
            v = redeclared(b, t, c)
            if v: add(b, v, 'redeclared:large-domain', f't={t},c={c}')
        for cc in (1, 3, 0):
            v = redeclared(b, b.v[PL.IDX['cfg.log_trace_domain_size']], comp_cols=cc)
            if v: add(b, v, 'redeclared:composition-columns', f'n_columns={cc}')
        # cooperating sites: a table's declared column count changed TOGETHER with its decommitment length (so that the
        # first length check passes and the mutant reaches the row hashing / the DEEP evaluation)
        I = PL.IDX
        for cfgk, valk in (('cfg.composition', 'witness.composition_decommitment'), ('cfg.traces.original', 'witness.traces_decommitment.original'),
                           ('cfg.traces.interaction', 'witness.traces_decommitment.interaction')):
            cols = b.v[I[cfgk]][0][0]; vals = b.v[I[valk]]
            nq = len(vals) // cols if cols else 0
            for cc in (0, 1, cols - 1, cols + 1, 2 * cols):
                if cc < 0 or cc == cols: continue
                v = PL.setp(b.v, I[cfgk], (0, 0), cc)
                v = PL.setp(v, I[valk], (), (vals * 3)[:cc * nq])
                add(b, v, 'redeclared:columns+values', f'{cfgk}={cc}')
        for li in range(len(b.v[I['cfg.fri.inner_layers']])):
            cols = b.v[I['cfg.fri.inner_layers']][li][0]
            for cc in (0, 1, cols // 2, cols * 2):
                if cc == cols: continue
                add(b, PL.setp(b.v, I['cfg.fri.inner_layers'], (li, 0), cc), 'redeclared:fri-layer-columns', f'layer{li}={cc}')
        # the friendly-layer count re-declared CONSISTENTLY in the global field and in every table / vector config (equality is all the
        # validation asks of it): a value no narrowing conversion can hold must still be an error, not a crash
        for nf in [(1 << 32) - 1, 1 << 32, (1 << 64) - 1, 1 << 64, 1 << 128, P - 1]:
            v = PL.setp(b.v, I['cfg.n_verifier_friendly'], (), nf)
            for key in ('cfg.traces.original', 'cfg.traces.interaction', 'cfg.composition', 'cfg.fri.inner_layers'):
                v = PL.setp(v, I[key], (), [[r[0], r[1], nf] for r in b.v[I[key]]])
            add(b, v, 'redeclared:n_friendly', hex(nf))
        # pairs
        vecs = b.vectors()
        for _ in range(40 if tier == 'quick' else 400):
            (i1, p1), (i2, p2) = rng.choice(vecs), rng.choice(scal)
            v = PL.mod_list(b.v, i1, p1, rng.choice([lambda l: [], lambda l: l[:-1], lambda l: l[1:]]))
            x = rng.choice(EXTREME)
            if x < PL.limit(i2):
                try: v = PL.setp(v, i2, p2, x)
                except IndexError: pass        # the scalar lived in the vector that was just cut
            add(b, v, 'pair', f'{PL.TOK[i1]}+{PL.TOK[i2]}')
    # DEEP reach for the dynamic layout: a zero-trace forgery (harness forge_zero_from: consistent transcript, mined nonce, zero rows) built for
    # an EDITED public input gets past the commitment phase and the three table decommitments, so the verifier evaluates the DEEP quotient
    # with the edited dynamic parameters as column indices / offsets before FRI rejects it.  Nothing on the way may panic.
    for b in bases:
        if b.layout != 'dynamic' or not HX: continue
        from props import C14
        ix = C14.dyn_meta()['idx']; names = sorted(ix, key=ix.get)
        I = PL.IDX
        v0 = PL.setp(b.v, I['cfg.pow_bits'], (), 20)
        c1, c2 = b.v[I['pi.dynamic_params']][ix['num_columns_first']], b.v[I['pi.dynamic_params']][ix['num_columns_second']]
        cols = [n for n in names if n.endswith('_column')]
        picks = cols if tier == 'thorough' else [n for n in cols if rng.chance(1, 4)]
        specs = [('unedited', v0)]
        for n in picks:
            for val in ([c1 - 1, c1, c1 + c2 - 1, c1 + c2, 1 << 32, (1 << 64) - 1] if tier == 'thorough' else [rng.choice([c1 - 1, c1, c1 + c2 - 1, c1 + c2, 1 << 32, (1 << 64) - 1])]):
                dp = list(b.v[I['pi.dynamic_params']]); dp[ix[n]] = val
                specs.append((f'{n}={val:#x}', PL.setp(v0, I['pi.dynamic_params'], (), dp)))
        for n in [x for x in names if x.endswith('_offset') or x.endswith('_suboffset')]:
            if tier == 'thorough' or rng.chance(1, 12):
                dp = list(b.v[I['pi.dynamic_params']]); dp[ix[n]] = rng.choice([1, 1 << 16, (1 << 17) - 1, 1 << 17, 1 << 40])
                specs.append((f'{n}={dp[ix[n]]:#x}', PL.setp(v0, I['pi.dynamic_params'], (), dp)))
        fo, _ = fw.run_split(lambda ls, **kw: fw.run_hx(HX, ls), ['forge_zero_from dynamic ' + ' '.join(b.line(v).split(' ')[3:]) for _, v in specs])
        for (nm, v), o in zip(specs, fo):
            if o.startswith('ok '):
                k += 1
                out.append({'line': f'verify dynamic 14 {o[3:]}', 'kind': 'forged-dynamic', 'name': b.name, 'pos': nm, 'hxonly': nm != 'unedited' and k % 25 != 0})
            elif o.startswith('panic'):
                out.append({'line': 'forge_zero_from dynamic ' + ' '.join(b.line(v).split(' ')[3:]), 'kind': 'forged-dynamic', 'name': b.name, 'pos': nm + ' (panic while forging, inside stark_commit)', 'hxonly': True})
    # SHAPES carried deep by a forger (harness forge_zero_knobs): a zero-trace forgery whose transcript, proof of work and decommitments are
    # consistent with the shape it SENDS — fewer / no FRI inner-layer commitments, a short / long / empty last layer, fewer / no layer
    # witnesses.  A mutated honest proof with such a shape dies at the proof of work; this one goes as far as the verifier lets it.
    if HX and 'full' in feats:
        shapes = [(i, l, w) for i in ('0', '1', '3', '-') for l in ('-', '0', '1', '100') for w in ('-', '0', '1', '9')]
        if tier == 'quick': shapes = [sh for sh in shapes if sh.count('-') >= 1]
        shapes = [sh + ('-',) for sh in shapes] + [('-', '-', '-', cc) for cc in ('0', '1', '3', '4', '10')]     # composition tables of other widths (coverage: the DEEP length checks)
        fo, _ = fw.run_split(lambda ls, **kw: fw.run_hx(HX, ls), ['forge_zero_knobs 0 10 14 %s %s %s %s' % sh for sh in shapes])
        for sh, o in zip(shapes, fo):
            nm = 'inner_sent=%s last_len=%s layers_sent=%s composition_columns=%s' % sh
            if o.startswith('ok '):
                out.append({'line': f'verify recursive 32 {o[3:]}', 'kind': 'forged-shape', 'name': 'fixture', 'pos': nm})
            elif o.startswith('panic'):
                out.append({'line': 'forge_zero_knobs 0 10 14 %s %s %s %s' % sh, 'kind': 'forged-shape', 'name': 'fixture', 'pos': nm + ' (panic while forging, inside stark_commit)', 'hxonly': True})
    # the dynamic layout's autogenerated assertion list alone, on adversarial parameter vectors (no panic: Props/C18dyn; model agreement)
    if 'all_layouts' in feats:
        vals = [0, 1, 2, 3, 4, 8, 16, 64, 256, 1 << 12, 1 << 16, 1 << 20, 1 << 31, 1 << 32, 1 << 63, (1 << 64) - 1]
        for n in range(60 if tier == 'quick' else 600):
            mode = n % 4
            dp = [rng.choice(vals) if mode == 0 else rng.choice([1, 2, 4, 8, 16, 32]) if mode == 1 else rng.bits(64) if mode == 2 else rng.choice([0, 1]) for _ in range(340)]
            T = rng.choice([0, 1, 2, 1 << 10, 1 << 17, 1 << 30, 1 << 64, 3 << 20, P - 1])
            out.append({'line': f"check_asserts dynamic {','.join(format(x, 'x') for x in dp)} {T:x}", 'kind': 'dynamic-asserts', 'name': 'check_asserts', 'pos': f'mode{mode}'})
    return out


def classify(c, co):
    return f"{c['kind'].split(':')[0]}:{co[0]}"


def nontrivial(c, co):
    return c['kind'] != 'base'


def site(msg):
    # `<file>:<line> <message>` -> stable key: file + first words of the message (line numbers drift)
    f = msg.split(' ')[0].replace('/repo/', '')
    f = f.rsplit(':', 1)[0]
    words = ' '.join(msg.split(' ')[1:4])
    return f'{f}:{words}'


def oracle(c, co):
    if co[0] == 'panic':
        return {'key': 'panic:' + site(co[1]), 'what': f"verification panicked on a malformed proof ({c['kind']} {c['pos']} of {c['name']}): {co[1][:160]}"}
    return None
