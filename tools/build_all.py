#!/usr/bin/env python3
"""warm the cargo cache: build hx for every feature set any quick check uses"""
import importlib, os, sys
sys.path.insert(0, os.path.dirname(os.path.abspath(__file__)))
import framework as fw
seen = []
for f in sorted(os.listdir(os.path.join(fw.ROOT, 'tools', 'props'))):
    if f.startswith('C') and f.endswith('.py'):
        m = importlib.import_module('props.' + f[:-3])
        for b in m.BUILDS['quick']:
            if b not in seen:
                seen.append(b)
for b in seen:
    print('building hx', b, flush=True)
    fw.build_hx(b)
