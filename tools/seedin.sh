#!/bin/sh
# usage: seedin.sh <Cxx> <seed-id> <prop> [<prop>...]   : take a sub-agent's SEED/ from /tmp/seedd-<Cxx>, confirm it, run our checks
set -e
P=$1; S=$2; shift 2
mkdir -p /verif/seeded/$S
cp ${WTP:-/tmp/seedd-}$P/SEED/patch.diff ${WTP:-/tmp/seedd-}$P/SEED/demo.rs ${WTP:-/tmp/seedd-}$P/SEED/meta.json /verif/seeded/$S/
[ -d ${WTP:-/tmp/seedd-}$P/SEED/pp ] && cp -r ${WTP:-/tmp/seedd-}$P/SEED/pp /verif/seeded/$S/ || true
git -C /repo worktree remove --force ${WTP:-/tmp/seedd-}$P || true
rm -rf ${WTP:-/tmp/seedd-}$P
DP=$(python3 -c "import json;print(json.load(open('/verif/seeded/$S/meta.json'))['demo_path'])")
cd /verif && python3 tools/seedtest.py $S $DP "$@" > /tmp/seedtest-$S.log 2>&1 || true
python3 -c "
import json; m=json.load(open('/verif/seeded/$S/meta.json')); v=m['verified_by_us']; print('confirmed', v['confirmed'], v['suite_with_patch']); print(json.dumps(v['checks'], indent=1))"
git -C /repo status --short | head -3
