#!/usr/bin/env python3
"""development helper: run a property module's generator + hx + drv + oracle without the Lean audit"""
import sys, zlib, importlib, collections, os, time
sys.path.insert(0, os.path.dirname(os.path.abspath(__file__)))
import framework as fw
pid = sys.argv[1]; tier = sys.argv[2] if len(sys.argv) > 2 else 'quick'
mod = importlib.import_module('props.' + pid)
for feats in mod.BUILDS[tier]:
    t0 = time.time()
    hx = fw.build_hx(feats); mod.HX = hx
    fw.DRV_LAYOUTS = getattr(mod, 'DRV_LAYOUTS', None)
    rng = fw.Rng(1 * 1000003 + zlib.crc32('+'.join(feats).encode()) % 65521)
    cs = mod.corpus(feats) + mod.cases(rng, tier, feats, True)
    lines = [c['line'] for c in cs]
    code, _ = fw.run_split(lambda ls, **kw: fw.run_hx(hx, ls), lines)
    aux_lines, owner = [], []
    for i, c in enumerate(cs):
        for a in c.get('aux', []): aux_lines.append(a); owner.append(i)
    if aux_lines:
        ao, _ = fw.run_split(lambda ls, **kw: fw.run_hx(hx, ls), aux_lines)
        for i, o in zip(owner, ao): cs[i].setdefault('aux_code', []).append(fw.canon(o))
    ml = [l for l, c in zip(lines, cs) if not c.get('hxonly')]
    mo, died = fw.run_split(lambda ls, **kw: fw.run_drv(feats, ls), ml) if ml else ([], None)
    if died: print('DRV DIED', died)
    it = iter(mo); model = [None if c.get('hxonly') else next(it, 'MISSING') for c in cs]
    cnt = collections.Counter(); bad = 0; viol = collections.Counter()
    for c, a, b in zip(cs, code, model):
        c['_hash'] = fw.hash_of(feats); c['_stone'] = fw.stone_of(feats)
        ca = fw.canon(a)
        cnt[mod.classify(c, ca)] += 1
        if b is not None:
            cb = fw.canon(b)
            if ca[0] != cb[0] or (ca[0] == 'ok' and ca[1] != cb[1]):
                bad += 1
                if bad < 6: print('DISAGREE', c.get('kind'), '| code:', a[:160], '| model:', b[:160], '|', c['line'][:120])
        v = mod.oracle(c, ca)
        if v:
            viol[v['key']] += 1
            if viol[v['key']] < 3: print('VIOL', v, a[:120])
    print(feats, len(cs), 'cases', 'disagree', bad, 'violations', dict(viol), round(time.time() - t0, 1), 's')
    for k, v in sorted(cnt.items()): print('   ', k, v)
