#!/usr/bin/env python3
"""Build an offline cargo "directory source" from every .crate file in ~/.cargo/registry/cache/*.

The sandbox has two disjoint registry caches (the repo's own pinned crates, and the tooling crates);
neither alone resolves the harness (proof_parser needs regex/anyhow).  Output: /verif/.cache/vendor
(git-ignored).  Idempotent: existing unpacked crates are kept.
"""
import os, glob, tarfile, hashlib, json, sys
dst = os.path.join(os.path.dirname(os.path.abspath(__file__)), '..', '.cache', 'vendor')
os.makedirs(dst, exist_ok=True)
n = 0
for reg in sorted(glob.glob(os.path.expanduser('~/.cargo/registry/cache/*/'))):
    for c in sorted(glob.glob(reg + '*.crate')):
        name = os.path.basename(c)[:-6]
        out = os.path.join(dst, name)
        if os.path.exists(os.path.join(out, '.cargo-checksum.json')):
            continue
        with tarfile.open(c) as t:
            t.extractall(dst)
        h = hashlib.sha256(open(c, 'rb').read()).hexdigest()
        json.dump({"files": {}, "package": h}, open(os.path.join(out, '.cargo-checksum.json'), 'w'))
        n += 1
print(f'vendor.py: {n} crates unpacked into {os.path.normpath(dst)}')
