#!/usr/bin/env python3
"""Witness inputs for property C16 ("no coefficient position is identically zero").

For every layout L and evaluator fn in {composition, oods} write into
  lean/Swiftness/Generated/Witness/<L>.lean
one `def <L>.witnessComposition : Ast.Inputs` and one `def <L>.witnessOods : Ast.Inputs` such that, on that
input, the coefficient-free shadow run of the translated program (lean/Swiftness/Generated/ast/<L>.<fn>.txt, written
by gen_ast.py on the same run) executes EVERY accumulate statement, no `field_div` divisor is zero, no index is out
of range, and every accumulated term is non-zero.  The Lean kernel re-checks all of this
(Proofs/AstNonvanish*.lean: `nzCount <witness> <program> = some <n>` by `decide +kernel`); this script is not trusted,
it only has to FIND a point.

Candidates are pseudo-random field elements in [1, P) from a fixed seed (deterministic, no network); each candidate is
checked with the evaluator below (same semantics as Model/Ast.lean) and the next attempt number is tried if it fails.
The trace length is a random 64-bit number (it only feeds exponents: smaller exponents = cheaper kernel evaluation).
Dynamic layout: the shipped dynamic parameters with ALL ten uses_*_builtin switches set to 1 and every zero row
ratio set to 16 (the instance tools/props/C16.py calls "all").  Files are rewritten only when their content changes."""
import json, os, random, sys

ROOT = os.path.normpath(os.path.join(os.path.dirname(os.path.abspath(__file__)), '..'))
GEN = os.path.join(ROOT, 'lean', 'Swiftness', 'Generated')
OUT = os.path.join(GEN, 'Witness')
P = 0x800000000000011000000000000000000000000000000000000000000000001
SEED = 'swiftness-C16-nonvanishing-v1'
LAYOUTS = ['dex', 'dynamic', 'recursive', 'recursive_with_poseidon', 'small', 'starknet', 'starknet_with_keccak']
DYN_PROOF = '/repo/examples/proofs/dynamic/cairo0_stone6_example_proof.json'
ARITY2 = {'add', 'sub', 'mul', 'fdiv', 'floorDiv', 'powFelt'}


class Fail(Exception):
    pass


# ---- the text programs ---------------------------------------------------------------------------
def parse_ix(t, i):
    k = t[i]
    if k in ('lit', 'dp'): return (k, int(t[i + 1])), i + 2
    if k == 'add':
        a, i = parse_ix(t, i + 1); b, i = parse_ix(t, i)
        return ('add', a, b), i
    raise SyntaxError(f'index expression {k}')


def parse_expr(t, i):
    k = t[i]
    if k in ('point', 'tgen', 'oodsPoint'): return (k,), i + 1
    if k in ('const', 'var', 'gv', 'dp', 'mask', 'oodsv', 'coeff'): return (k, int(t[i + 1])), i + 2
    if k == 'col':
        ix, i = parse_ix(t, i + 1)
        return ('col', ix), i
    if k == 'neg':
        a, i = parse_expr(t, i + 1)
        return ('neg', a), i
    if k in ARITY2:
        a, i = parse_expr(t, i + 1); b, i = parse_expr(t, i)
        return (k, a, b), i
    raise SyntaxError(f'expression {k}')


def load_program(layout, fn):
    prog = []
    for line in open(os.path.join(GEN, 'ast', f'{layout}.{fn}.txt')):
        t = line.split()
        if not t or t[0] == 'res': continue
        guards = [] if t[0] == '-' else [int(x) for x in t[0].split(',')]
        if t[1] == 'set':
            e, i = parse_expr(t, 3)
            s = ('set', int(t[2]), e)
        elif t[1] == 'acc':
            e, i = parse_expr(t, 5)
            s = ('acc', int(t[2]), int(t[3]), int(t[4]), e)
        else:
            raise SyntaxError(line)
        if i != len(t): raise SyntaxError(line)
        prog.append((guards, s))
    return prog


def walk(e, f):
    f(e)
    for x in e[1:]:
        if isinstance(x, tuple) and x and isinstance(x[0], str) and x[0] not in ('lit',): walk(x, f)


def max_indices(prog):
    """largest literal index used per input vector (-1 = unused)"""
    m = {'mask': -1, 'oodsv': -1, 'gv': -1, 'dp': -1, 'col': -1}
    def ixmax(ix):
        if ix[0] == 'lit': m['col'] = max(m['col'], ix[1])
        elif ix[0] == 'dp': m['dp'] = max(m['dp'], ix[1])
        else: ixmax(ix[1]); ixmax(ix[2])
    def f(e):
        if e[0] in ('mask', 'oodsv', 'gv', 'dp'): m[e[0]] = max(m[e[0]], e[1])
        if e[0] == 'col': ixmax(e[1])
    for g, s in prog:
        walk(s[-1], f)
    return m


# ---- evaluator (the shadow run of Proofs/AstChain.lean: empty coefficient vector, accumulators := 0) ----
def ev_ix(ix, inp):
    if ix[0] == 'lit': return ix[1]
    if ix[0] == 'dp':
        if ix[1] >= len(inp['dp']): raise Fail('dynamic_params index')
        return inp['dp'][ix[1]]
    return ev_ix(ix[1], inp) + ev_ix(ix[2], inp)


def ev(e, inp, st, hints):
    k = e[0]
    if k == 'const': return e[1] % P
    if k == 'var': return st.get(e[1], 0)
    if k in ('gv', 'mask', 'oodsv'):
        if e[1] >= len(inp[k]): raise Fail(f'{k} index')
        return inp[k][e[1]]
    if k == 'dp':
        if e[1] >= len(inp['dp']): raise Fail('dp index')
        return inp['dp'][e[1]] % P
    if k == 'coeff': raise Fail('coefficient read outside an accumulate statement')
    if k == 'col':
        i = ev_ix(e[1], inp)
        if i >= len(inp['col']): raise Fail('column index')
        return inp['col'][i]
    if k in ('point', 'tgen', 'oodsPoint'): return inp[k]
    if k == 'neg': return (-ev(e[1], inp, st, hints)) % P
    a = ev(e[1], inp, st, hints); b = ev(e[2], inp, st, hints)
    if k == 'add': return (a + b) % P
    if k == 'sub': return (a - b) % P
    if k == 'mul': return a * b % P
    if k == 'fdiv':
        if b == 0: raise Fail('zero divisor')
        h = pow(b, P - 2, P)
        hints.append(h)         # consumed by Fast.fdivN in exactly this (post-)order
        return a * h % P
    if k == 'floorDiv': return (a // b if b else 0) % P
    if k == 'powFelt': return pow(a, b, P)
    raise SyntaxError(k)


def count_nonzero_terms(prog, inp):
    """(number of executed accumulate statements, inverses of the field_div divisors in evaluation order); Fail if a
    panic occurs or a term is zero"""
    st = {}; n = 0; hints = []
    for guards, s in prog:
        if not all(st.get(g, 0) != 0 for g in guards): continue
        v = ev(s[-1], inp, st, hints)
        if s[0] == 'set':
            st[s[1]] = v
        else:
            if v == 0: raise Fail(f'term {s[3]} is zero')
            st[s[1]] = 0; n += 1
    return n, hints


# ---- candidates -------------------------------------------------------------------------------------
def all_on_dynamic_params(names):
    dp = json.load(open(DYN_PROOF))['public_input']['dynamic_params']
    keys = sorted(dp)
    if [k.replace('__', '_') for k in keys] != names:
        raise SystemExit('gen_witness: dynamic parameter names of the shipped proof do not match DynamicParams')
    d = [int(dp[k]) for k in keys]
    for i, n in enumerate(names):
        if n.startswith('uses_'): d[i] = 1
        if n.endswith('_ratio') and d[i] == 0: d[i] = 16
    return d


def candidate(layout, fn, attempt, dims, dyn):
    rng = random.Random(f'{SEED}:{layout}:{fn}:{attempt}')
    felt = lambda: rng.randrange(1, P)
    inp = {k: [] for k in ('mask', 'col', 'oodsv', 'gv', 'dp')}
    inp['point'] = felt(); inp['tgen'] = felt(); inp['oodsPoint'] = felt() if fn == 'oods' else 0
    if fn == 'composition':
        inp['mask'] = [felt() for _ in range(dims['mask'])]
        inp['gv'] = [felt() for _ in range(dims['gv'])]
        if dims['trace_length'] is not None:
            inp['gv'][dims['trace_length']] = rng.randrange(1 << 63, 1 << 64)
    else:
        inp['col'] = [felt() for _ in range(dims['col'])]
        inp['oodsv'] = [felt() for _ in range(dims['oodsv'])]
    if dyn is not None: inp['dp'] = list(dyn)
    return inp


ATTEMPTS = 16


def find_witness(layout, fn, prog, dims, dyn, expect):
    why = []
    for attempt in range(ATTEMPTS):
        inp = candidate(layout, fn, attempt, dims, dyn)
        try:
            n, hints = count_nonzero_terms(prog, inp)
        except Fail as e:
            why.append(str(e))
            continue
        if n != expect:
            why.append(f'{n} of {expect} accumulate statements executed')
            continue
        return inp, hints, attempt
    reasons = '; '.join(f'{w} ({why.count(w)}x)' for w in sorted(set(why)))
    raise SystemExit(f'gen_witness: no witness found for {layout}.{fn} in {ATTEMPTS} random points: {reasons} '
                     '-- a coefficient position whose term is identically zero, or an evaluator that always panics?')


# ---- output --------------------------------------------------------------------------------------------
def lean_felts(xs):
    return '⟨[]⟩' if not xs else '⟨List.map Felt.ofNat [' + ', '.join(map(str, xs)) + ']⟩'


def lean_inputs(name, inp):
    L = [f'def {name} : Inputs where']
    for k in ('mask', 'col', 'oodsv', 'gv'):
        if inp[k]: L.append(f'  {k} := {lean_felts(inp[k])}')
    if inp['dp']: L.append('  dp := ⟨[' + ', '.join(map(str, inp['dp'])) + ']⟩')
    for k in ('point', 'tgen', 'oodsPoint'):
        if inp[k]: L.append(f'  {k} := Felt.ofNat {inp[k]}')
    return '\n'.join(L)


def write_if_changed(path, text):
    if os.path.exists(path) and open(path).read() == text:
        return False
    os.makedirs(os.path.dirname(path), exist_ok=True)
    open(path, 'w').write(text)
    return True


def main(layouts=None):
    meta = json.load(open(os.path.join(GEN, 'ast', 'meta.json')))
    consts = json.load(open(os.path.join(GEN, 'consts.json')))
    changed = 0
    for layout in layouts or LAYOUTS:
        g = lambda k: consts[f'Layout.{layout}.{k}']
        dyn = all_on_dynamic_params(meta['dynamic_params']) if layout == 'dynamic' else None
        gvf = meta[layout]['gv']
        parts = []
        for fn, expect in (('composition', g('N_CONSTRAINTS')), ('oods', g('MASK_SIZE') + g('CONSTRAINT_DEGREE'))):
            prog = load_program(layout, fn)
            mx = max_indices(prog)
            if dyn is not None:
                ncols = dyn[meta['dynamic_params'].index('num_columns_first')] + dyn[meta['dynamic_params'].index('num_columns_second')]
            else:
                ncols = g('NUM_COLUMNS_FIRST') + g('NUM_COLUMNS_SECOND')
            dims = {'mask': max(g('MASK_SIZE'), mx['mask'] + 1), 'gv': max(len(gvf), mx['gv'] + 1),
                    'oodsv': max(g('MASK_SIZE') + g('CONSTRAINT_DEGREE'), mx['oodsv'] + 1),
                    'col': max(ncols + g('CONSTRAINT_DEGREE'), mx['col'] + 1),
                    'trace_length': gvf.index('trace_length') if 'trace_length' in gvf else None}
            inp, hints, attempt = find_witness(layout, fn, prog, dims, dyn, expect)
            name = 'witness' + fn.capitalize()
            parts.append(f'/-- attempt {attempt}; {expect} accumulate statements, all executed with a non-zero term -/\n' + lean_inputs(name, inp) +
                         f'\n\n/-- inverses of the {len(hints)} `field_div` divisors of that run, in evaluation order (hints: each one is checked) -/\n'
                         f'def {name}Inv : List Nat := [' + ', '.join(map(str, hints)) + ']')
        text = (f'/- GENERATED by tools/gen_witness.py (seed "{SEED}"); do not edit.\n'
                f'   One input per evaluator of layout `{layout}` on which every coefficient position has a non-zero term\n'
                f'   (found by search, CHECKED by the Lean kernel in Proofs/AstNonvanish*.lean). -/\n'
                'import Swiftness.Model.Ast\nset_option maxRecDepth 100000\n'
                f'namespace Swiftness.Gen.Layout.{layout}\nopen Swiftness Swiftness.Ast\n\n' + '\n\n'.join(parts) +
                f'\n\nend Swiftness.Gen.Layout.{layout}\n')
        changed += write_if_changed(os.path.join(OUT, f'{layout}.lean'), text)
    print(f'gen_witness: {len(layouts or LAYOUTS)} layouts, {changed} files rewritten')


if __name__ == '__main__':
    main(sys.argv[1:] or None)
