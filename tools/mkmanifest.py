#!/usr/bin/env python3
"""Regenerates /verif/MANIFEST.json from the table below (one entry per claimed property)."""
import json, os
ROOT = os.path.normpath(os.path.join(os.path.dirname(os.path.abspath(__file__)), '..'))

NOTE_COMMON = ("Trusted: Lean 4.33 kernel; axioms propext / Classical.choice / Quot.sound only (audited by #print axioms on every "
               "theorem of the Props file on every run); tools/gen.py translator (constants re-read from the Rust on every run); the hx/drv "
               "correspondence (differential testing of the hand-written model against the real code — bounded by the generators, "
               "whose distribution is written to the evidence); Python spec oracles; starknet-crypto / lambdaworks / sha3 / blake2 are "
               "modelled (executable Lean models compared on every case), not verified; the harness is built with stable rustc, "
               "not the repo-pinned 1.82. ")

CLAIMS = {
 'C12': ("proof",
  "Lean theorems (Props/C12.lean) prove for ALL field elements t,c with t+c<=192 that the model of StarkDomains::new returns "
  "generators of order exactly 2^(t+c) and 2^t, trace = eval^(2^c), sizes exact, and never panics; by group theory from a "
  "kernel-checked Pratt certificate of the Stark prime and primitivity of 3 (no enumeration). The hand model is tied to /repo by "
  "running StarkDomains::new and the model on the same pairs (all 18721 in-range pairs in the thorough tier) with an independent "
  "Python order check; constants are re-translated from the Rust sources on every run.",
  "", "Lean 4 machine-checked proof over a hand model + correspondence check + translated constants", "7/C12"),
 'C10': ("proof",
  "Lean theorems (Props/C10.lean): for every hash instance, transcript state, count < 2^128 and non-zero bound the model of "
  "generate_queries returns indices that are in range, STRICTLY increasing, at most n, exactly the set of the n raw samples, and leaves "
  "the transcript at (digest, counter+n); reverse_bits on a shifted k-bit index is the k-bit reversal for every k<=64 (general lemma), "
  "and queries_to_points returns 3*w^bitrev(i) without panicking when k<=64. Model tied to the code by running generate_queries / "
  "queries_to_points on random transcripts, counts above the domain size, domains 2^1..2^64; the oracle recomputes the sample set "
  "from the real transcript's raw squeezes.",
  "Recorded-proof query sets are checked under C08/C03 (they need the parser build).",
  "Lean 4 machine-checked proof over a hand model + correspondence check", "7/C10"),
 'C15': ("proof",
  "Lean theorems (Props/C15.lean): get_diluted_product's log-step closed form equals the defining recurrence over all 2^n diluted "
  "values for every 1<=n<P, every spacing, z, alpha (induction with the periodicity of u_j); the public-memory ratio equals "
  "z^size / (product over cells x page products x padding^(size-total)) and equals the product over the padded cell list; it panics "
  "exactly at the assert / zero-denominator guards and never errs. Tied to the code by running both on all (n<=10..14, spacing<=8) and "
  "random memories, with the naive recurrence/product as Python oracle.",
  "", "Lean 4 machine-checked proof over a hand model + correspondence check", "7/C15"),

 'C04': ("proof",
  "Lean theorems (Props/C04.lean) for an ARBITRARY hash instance, friendly-layer count, every height <= 250 and every non-empty strictly "
  "increasing in-range query list: decommitment of the committed tree's leaves with its authentication path (spec: layer-by-layer "
  "sibling list, not the model) is accepted with any trailing extra nodes; any strict prefix of the path is rejected; acceptance against "
  "the committed root implies every queried value and every consumed sibling is the tree's, OR an explicit hash collision is produced "
  "(collision-extraction, no injectivity assumed); corollaries for wrong value / sibling / root / index; the 64-byte preimage is "
  "injective; the recursion's fuel |queue|+|auths|+1 is never exhausted; no panic for any input. The model is tied to the code by "
  "running vector_commitment_decommit and the model on trees built by the executable Lean spec builder (all friendly boundaries, five "
  "query shapes, every single-site corruption) under 2 (quick) / all 4 (thorough) hash builds.",
  "Recursion depth of the (recursive) Rust walk: proved in the model to be at most 1 + sum of log2(heap index) over the queue, whatever the number of authentication nodes supplied (Props/C18 merkle_walk_calls_le, vector_decommit_calls_le); the frame size of the compiled Rust is not modelled.",
  "Lean 4 machine-checked proof (collision-extraction) over a hand model + correspondence check", "7/C04"),
 'C05': ("proof",
  "Lean theorems (Props/C05.lean): table decommitment of committed rows is accepted (Montgomery form, single-column rows unhashed, row "
  "hash by the friendly rule at depth height+1); values.length != columns x queries is rejected for all inputs; Montgomery multiplication "
  "and the row preimage are injective; acceptance against a committed table's root implies every cell of every queried row is the "
  "committed cell or an explicit collision of the node hash / poseidon_hash_many / masked hash is produced; no panic. Tied to the code "
  "on tables from the Lean spec builder with cell, swap, length and witness corruptions under 2/4 hash builds.",
  "", "Lean 4 machine-checked proof (collision-extraction) over a hand model + correspondence check", "7/C05"),
 'C08': ("proof",
  "Lean theorems (Props/C08.lean) for an arbitrary hash instance: challenges of a history are a prefix of those of any extension "
  "(unaffected by later messages); absorb resets the counter, k squeezes use pairwise distinct (digest, counter+j) inputs for k <= P; two "
  "same-kind histories differing in a message have different digests afterwards or exhibit a poseidon_hash_many collision, hence every later "
  "challenge differs or a collision is exhibited; and commit_script: whenever stark_commit (any layout ops) succeeds, its transcript IS "
  "the fixed script [trace root, n interaction squeezes, interaction root, alpha, composition root, OODS point, oods values, oods alpha, "
  "(layer root, eval point)*, last layer, nonce] — so the OODS point precedes the oods values, the DEEP coefficients follow them, and "
  "queries are drawn after the nonce. Tied to the code by random absorb/squeeze interleavings through the real Transcript vs the model "
  "with a relational oracle (prefix, later-message independence, distinct consecutive challenges, changed message changes all later ones).",
  "Fiat-Shamir soundness itself (random-oracle model) is not formalised. Recorded Stone transcripts are compared under C03/C19.",
  "Lean 4 machine-checked proof (collision-extraction) over a hand model + correspondence check", "7/C08"),
 'C09': ("proof",
  "Lean theorems (Props/C09.lean) for any 32-byte-output hash: verify_pow(digest,n,nonce) = Ok <-> the 32-byte H(H(0x0123456789abcded || "
  "digest || n) || nonce_be64) has >= n leading zero bits, for every n <= 128 (never panics there, panics above 128); exact byte layout; "
  "Config::validate = Ok <-> 20 <= n <= 50; commit absorbs the nonce iff the check passed (C08.nonce_absorbed_last / queries_after_nonce give "
  "the ordering). Tied to the code by random and MINED (digest, nonce) pairs under both PoW hashes, against the model (Lean Keccak/Blake2s) and "
  "an independent Python oracle (own Keccak-256, hashlib Blake2s).",
  "", "Lean 4 machine-checked proof over a hand model + correspondence check", "7/C09"),
 'C11': ("proof",
  "Lean theorem validate_iff (Props/C11.lean): for ALL configurations, security levels and layout column counts in 1..128, "
  "StarkConfig::validate's model returns Ok <-> ConfigOK, the property sentence transcribed over natural numbers (no modular reading): "
  "the proof shows every accepted field equality is an equality of naturals; plus validate never panics, and accepted => FRI degree bound "
  "= trace length, blow-up >= 1, t <= 71. Bounds in the model are constants re-translated from the Rust on every run. Tied to the code by "
  "running StarkConfig::validate on the fixture and synthesised valid configs with every single-field perturbation, edge values in every "
  "numeric field, vector truncations and consistent re-declarations, against the model and an independent Python transcription.",
  "The 1..128 column clause: all seven layouts' column counts are within it.",
  "Lean 4 machine-checked proof over a hand model + correspondence check + translated constants", "7/C11"),
 'C13': ("proof",
  "Lean theorems (Props/C13.lean) for arbitrary Pedersen/Poseidon instances: for two public inputs of the same shape (segment count, "
  "dynamic-parameter presence/count), equal hashed lists force equality of every listed field, of the main-page length and Pedersen chain, "
  "and (stone6) of the friendly-layer count; a main-page difference with equal chains yields an explicit Pedersen collision; equal seeds for "
  "inputs differing in a bound field yield an explicit Pedersen or poseidon_hash_many collision; prod is not bound; the shape proviso is "
  "necessary (counter-lemma). Tied to the code by get_hash vs model (Lean Pedersen + Poseidon) on random inputs and every single-field "
  "change / insertion / deletion / transposition, both Stone builds, with a relational oracle.",
  "Dynamic-parameter field ORDER is the translator's (Generated/DynamicParams) and is exercised under C16/C19.",
  "Lean 4 machine-checked proof (collision-extraction) over a hand model + correspondence check", "7/C13"),

 'C06': ("proof",
  "Lean theorems (Props/C06.lean): P(x) = sum_j x^j P_j(x^(2^k)) for the coefficient-list split; for k = 1..4, every polynomial, challenge b "
  "and point x != 0, fri_formula on the coset values (in the verifier's order P(x*group[j])) equals 2^k * sum_j b^j * P_j(x^(2^k)) — the "
  "property's sentence verbatim; facts about the group/omega constants TRANSLATED from the Rust (orders, bit-reversed layout) by kernel "
  "computation; the per-layer step: on correct (index, P(pt), 1/pt) queries with the expected sibling leaves compute_next_layer returns "
  "the correct next-layer queries for the folded polynomial, the coset indices and full coset rows, consumes exactly the expected "
  "siblings, never exhausts its fuel; Horner = evaluation and the last-layer iff. Props/C06b.lean holds the assembled completeness of the "
  "honest prover as far as proved (see file header). Tied to the code by whole FRI instances from the executable Lean honest prover "
  "that the REAL fri_commit+fri_verify must accept (random step lists, bounds, blow-ups, friendly counts, polynomials up to the bound, "
  "query shapes, 2/4 hash builds) and a pointwise Python oracle for the fold identity.",
  "Generated test domains are <= 2^12; the theorems cover all sizes.",
  "Lean 4 machine-checked proof over a hand model + executable Lean honest prover accepted by the real code", "7/C06"),
 'C16': ("proof",
  "The composition and DEEP evaluators of all 7 layouts are TRANSLATED from the Rust on every run (tools/gen_ast.py) into deep-embedded "
  "programs; Lean proves once that a program accepted by the syntactic checker is linear in its coefficient vector (additive, homogeneous, "
  "outcome class independent of the coefficients, decomposes over unit vectors), and for each of the 14 programs, by kernel evaluation on "
  "what the code says now: the checker accepts, every coefficient position 0..N-1 is consumed by exactly one accumulate statement "
  "(N from the translated layout constants), static layouts have no conditional statement, the dynamic layout's conditions are exactly its "
  "ten uses_*_builtin switches, and (checkChain + chain_sound + no_term_dropped_*) the accumulator DATA FLOW is a single chain: the returned value "
  "equals the sum over exactly the executed accumulate statements of coefficient x term, every index 0..N-1 contributing exactly once in the "
  "static layouts and, in the dynamic layout, exactly once iff its builtin switch (loaded from the named dynamic parameter and never overwritten) "
  "is non-zero — so no constraint's term can be computed and then dropped on the way to the result. The translator is validated, not assumed: its Lean printer is checked by printing the elaborated terms "
  "back (DumpAst), and the driver's evaluation of the translated programs must equal the real eval_*_polynomial_inner on random inputs for "
  "all layouts. and (checkScope + scope_sound + no_stale_read_*) in every run an executed statement never reads a non-accumulator slot whose latest assignment was skipped (so no term of a switched-on builtin is built from the zeroed intermediates of a switched-off one). 'Not identically zero' is a THEOREM too (nonvanishing_<L>, 7 layouts x 2 programs): on one witness input per program (for the dynamic layout "
  "with all ten builtins switched on — witness_dynamic_all_builtins) EVERY coefficient position i < N has an executed term whose value is non-zero; "
  "exhibiting one such point is a complete proof that the term is not the zero function. Established by kernel evaluation (decide +kernel, no native_decide) of an "
  "efficient evaluator (Model/AstFast: packed-Nat inputs, paged store, CPS, field inverses supplied as hints and checked by one multiplication) proved equivalent to the "
  "executed-terms semantics for ALL programs and inputs (nzCount_sound, nonvanishing_of_witness). The witnesses are proposed by tools/gen_witness.py on every run and are "
  "not trusted. The same is tested with unit coefficient vectors at random points on the REAL code (which ties it to the Rust evaluators, not only to their translation).",
  "Trusted additionally: tools/rustexpr.py parser of the Rust subset. Dynamic-layout instances in the evaluation test: the shipped parameters with builtin switches toggled.",
  "Lean 4 reflective proof over programs regenerated from source by a translator + evaluation agreement", "7/C16"),

 'C07': ("proof",
  "Lean theorems (Props/C07.lean) for an arbitrary hash instance: Fri.verify = Ok <-> an explicit accepting trace (every per-layer "
  "compute_next_layer and table decommitment, then the last-layer check); a last layer of length != 2^bound is rejected; per layer, "
  "acceptance against a COMMITTED table's root implies every coset row the verifier folded (queried values and sibling leaves) is the "
  "committed row and the consumed authentication nodes are the committed path, or an explicit hash collision is produced; wrong cell / "
  "query value / auth node / commitment are rejected (or collision); sortedness and ranges propagate through all layers; changing the FRI "
  "evaluation point changes a 2-fold unless x_inv = 0 or the odd part vanishes (exception found by the proof), and 2^k points agreeing "
  "force P_j = 0; two different last layers accepted on the same queries agree on all query points, impossible with >= 2^bound distinct "
  "points; fold_degree: a polynomial of degree >= bound keeps degree >= d after folding for all but at most 2^k - 1 challenges. "
  "Tied to the code by every single-position corruption (value, sibling leaf, auth node, commitment, last-layer coefficient, lengths) "
  "of honest instances from the Lean prover and by honestly folded high-degree inputs: real fri_commit+fri_verify vs model vs oracle. "
  "NO QUERY IS SKIPPED (section 7 of the file): for ANY sibling witness and any query order, a successful compute_next_layer has put every input query's coset among the rows "
  "that are Merkle-checked and folded, with the queried value at its position of the row (computeNextLayer_covers, computeNextLayer_row_of_query); through all layers every "
  "first-layer query has its image in the last layer (verifyLayers_covers), and an accepting fri_verify has applied the last-layer polynomial check to the image of EVERY "
  "query (verify_checks_every_query) — the only hypothesis is that indices do not wrap in the field (shown necessary). Tie: adaptive forgeries (junk values at trailing "
  "queries with the witness that is honest for the prefix; dropped-query forgery; points / values of unequal length).",
  "NOT proved (stated in an UNPROVED block and DESIGN section 10): the probabilistic claim (rejection probability decaying "
  "exponentially in the number of queries; dishonest folding / proximity gaps; random-oracle step). The harness runs one instance per "
  "high-degree input and does not measure the decay.",
  "Lean 4 machine-checked proof (collision-extraction, partial on the probabilistic clause) + correspondence check", "7/C07"),

 'C01': ("proof",
  "PARTIAL by nature. Lean theorems (Props/C01.lean) for ARBITRARY layout ops and hash instances: StarkProof::verify's model accepts IF AND "
  "ONLY IF every check of the protocol succeeded (config valid, public input valid, OODS equation, PoW, the three trace/composition "
  "decommitments, FRI) — so no vector length or configuration number bypasses a check; forced shapes (exactly MASK_SIZE+CONSTRAINT_DEGREE oods "
  "values, decommitment lengths = columns x queries, composition column count forced to CONSTRAINT_DEGREE, last layer 2^bound); the "
  "composition values checked at the OODS point and the ones the DEEP quotient subtracts are the SAME vector entries; blow-up >= 2, FRI input "
  "domain = evaluation domain 2^(t+c), FRI degree bound = trace length, t+c <= 64, generators of exact order (C12), 1..48 strictly increasing "
  "in-range queries; the FRI input values are the DEEP combination of exactly the rows hashed by table_decommit and the absorbed oods values "
  "with coefficients alpha^i drawn after them (C08). Tied to the code by full-pipeline correspondence (real verify vs the Lean pipeline model: "
  "translated AIR evaluators, Lean hashes) on honest proofs and on FORGED proofs for false statements (zero-trace universal forger with/without "
  "oods splice, corrupted FRI paths, parameter decoupling, and a vacuous-FRI forger — zero trace, DEEP quotient folded honestly down to a last layer "
  "whose degree bound equals its domain size — under 12 re-declarations of the config that try to pass validation), which must be rejected.",
  "NOT proved and not provable with this toolchain (DESIGN section 10): STARK/FRI soundness proper — that a prover without a satisfying trace "
  "fails some check except with negligible probability (FRI proximity gaps, DEEP-ALI, Fiat-Shamir in the random-oracle model). The theorems stop at "
  "'acceptance factors through every IOP check with undecoupled parameters'. Adaptive provers are sampled by the forgers and the C02 sweep only.",
  "Lean 4 machine-checked proof (partial: IOP soundness not formalised) + full-pipeline correspondence + forgers", "7/C01"),
 'C03': ("proof",
  "PARTIAL: 'every proof Stone can produce' is not quantifiable without a prover model. Lean theorems (Props/C03.lean): acceptance under a "
  "static layout's ops implies the proof's layout code and segment count are that layout's; the seven TRANSLATED layout codes are pairwise "
  "distinct, so no proof is accepted by two layout builds; the returned pair is the Pedersen chain of the first programLen / last outputLen "
  "main-page cells, which sit at the consecutive program / output addresses; the verdict is a function of the proof value and unchanged by "
  "appended unused witness elements. The MATRIX (a test, labelled so): 25 shipped Stone proofs + fixture x 7 layouts x 2 builds (quick) / 8 "
  "builds (thorough) through the real parser + CLI conversion + verify, expected verdict from the proof's own parameters (layout, Stone "
  "version, PoW hash, commitment hash iff a masked Merkle layer exists); own-layout proofs also through the Lean pipeline model (same "
  "verdict and same returned pair, incl. masked Blake2s layers) and through a serde round trip.",
  "serde and the regex parser are exercised, not modelled. The dynamic layout's proof goes through the real code and the Lean pipeline model (Model/LayoutDynamic: hand model + translated evaluators and assertion list), same returned pair.",
  "Lean 4 machine-checked proof (partial) + build/proof matrix on the real code + pipeline model agreement", "7/C03"),
 'C14': ("proof",
  "Lean theorems (Props/C14.lean) over the generic static-layout model instantiated by data TRANSLATED from the Rust on every run (constants and "
  "each layout's builtin table: segment, row ratio, cells per instance): validate_public_input = Ok <-> PublicInputOK over natural numbers (step "
  "count x component height = trace length, segment count, layout code, range-check bounds, and for every builtin: row ratio divides the trace "
  "length, usage is a whole number of instances and at most trace/ratio) — exact, via uses_field_div (how field division enforces 'whole "
  "number'); verify_public_input = Ok (a,b) <-> the first programLen cells are at initial_pc+i, the last outputLen cells at output_begin+i, "
  "the page is long enough, and a, b are their Pedersen chains; shifted addresses / short pages are rejected; chain binding in "
  "collision-extraction form; neither function panics. Tied to the code on all six static layouts (real vs model vs an independent Python "
  "transcription) with boundary usages for every builtin, short traces, address perturbations, truncations, swaps, empty output. DYNAMIC layout "
  "(Props/C14dyn.lean over Model/LayoutDynamic + the 885 assertions of check_asserts TRANSLATED on every run): dyn_validate_iff — "
  "validate_public_input = Ok <-> DynPublicInputOK over the naturals (per switched-on builtin the declared row ratio divides the trace length, usage "
  "is a whole number of instances <= trace/ratio; switched-off builtins have no usage; the three unit budgets; the assertion list holds); "
  "asserts_force_pow2 (the list forces trace length and every relevant ratio to be powers of two, ratio <= trace), field_quotient_exact (so the "
  "field quotients the code computes are the natural ones). Tied to the code by ~1000 mutated dynamic public inputs (two bases: shipped, and an "
  "all-builtins-on instance found by local search against the translated list) through real code, Lean model and a Python interpreter of the list.",
  "WellFormed(D) is proved for the generated data of all six static layouts by a decidable checker (wellFormedB_iff), giving validate_pi_iff_static_layouts with no hypothesis left. The dynamic layout's mod.rs is a hand-written model (tied by correspondence); only its assertion list and evaluators are translated.",
  "Lean 4 machine-checked proof over a translator-instantiated model + correspondence check", "7/C14"),
 'C17': ("proof",
  "PARTIAL (time/RSS of the Rust binary are measured, not proved). Lean theorems (Props/C17.lean): every model function is total (termination "
  "checked by Lean); after config validation every loop bound that derives from a NUMERIC field is a constant — <= 48 query samples, <= 14 FRI "
  "rounds, coset loops <= 16, exponentiation <= 256 squarings, diluted product 15 steps — and every other loop is bounded by the length of a list "
  "in the proof. INSTRUMENTED SEMANTICS (Proofs/Ticked*.lean): a step-counting twin `verifyT` of the WHOLE pipeline model (config validation, "
  "domains, public-input hash, stark_commit, query sampling / sort / dedup, three table decommitments with the Merkle walk, queries_to_points, the "
  "DEEP loop, fri_commit / fri_verify with all layers and the last layer) in a writer monad: one tick per loop iteration / recursive call, per hash "
  "call and per absorbed element, 256 per pow/inverse, one per list element produced or walked by a bulk operation (so ticks also bound list "
  "cells allocated). Proved: verify_ticked_erases (the twin's result IS Stark.verify's — the counter is the only difference); verify_ticks_le_cost "
  "(for EVERY proof value ticks <= verifyCost', value-driven factors written as the fields' values); verify_ticks_bounded (once validate accepts, "
  "ticks <= verifyCost' <= A_L + B_L x size(proof), constants depending only on the layout); sampling_ticks_value_driven (without validation the "
  "sampling loop alone takes 2n ticks for any n). The older hand-assembled formula (cost_bound_partial) is kept; the instrumented semantics showed "
  "it under-counted (six pow/inv in StarkDomains::new, 2^height / 2^step exponentiations, per-value copies). Wall time and memory of the REAL code: every "
  "extreme-value mutant (each numeric field in {0,1,2,48,49,2^16..2^128,P-1}, word-size aliases, consistent re-declarations, hostile dynamic "
  "parameters) is run in an isolated child process of the real verifier under a wall-clock and address-space limit and must stay within a fixed "
  "multiple of the honest run.",
  "Parameters, not proved: hash-function cost (one tick per call + per absorbed element); the layout callbacks' step counts enter through KF with the hypothesis KF.BoundedBy K; fixed-width field arithmetic, List.length, indexing and the straight-line fri_formula are unit/constant cost by convention; the tick semantics is the MODEL's (tied to the Rust by the correspondence check and the isolated time/RSS runs).",
  "Lean 4 machine-checked proof (instrumented step-counting semantics of the pipeline model, erasure + linear bound) + isolated-process time/RSS measurement of the real verifier", "7/C17"),
 'C18': ("proof",
  "Lean theorems (Props/C18.lean): for ARBITRARY layout ops that do not panic on the arguments the pipeline passes them, StarkProof::verify's "
  "model never panics — every unwrap / assert / index / checked subtraction of stark, commit, verify, oods, fri, layer, formula, first/last "
  "layer, queries, domains, pow, table/vector decommit is dominated by a check (one lemma per function, incl. the invariant that x-inverses "
  "stay non-zero through all FRI layers); for the six static layouts the TRANSLATED evaluators pass a kernel-checked syntactic bounds check, so "
  "the ONLY panic of verify is a field division by zero inside the autogenerated code (a Fiat-Shamir challenge hitting a root of a "
  "denominator, ~2^-240 per denominator) — stated as the one explicit exception; config validation and both public-input functions never "
  "panic. Tied to the code by a malformed stream (every vector emptied / truncated / shifted / lengthened, every numeric field at 20 extreme "
  "values, consistent re-declarations reaching deep into the pipeline, pairs) through the real verifier with catch_unwind, the model, and the "
  "oracle 'never panic'. DYNAMIC layout (Props/C18dyn.lean): the translated check_asserts list never panics for any u64 parameters and any trace "
  "length — every floor_div divisor is known non-zero where it is reached (reflective checker guardsOK proved sound, kernel-evaluated on the "
  "regenerated list) — and validate_public_input never panics; the shipped dynamic proof's mutants (incl. all 340 parameters at extreme values) "
  "and adversarial parameter vectors go through real code and model. Props/C18dynPipeline.lean: verify_panic_only_division_by_zero_dynamic — for the "
  "dynamic layout too, the ONLY panic of verify is the field division by zero inside the autogenerated code: the DEEP evaluator's 943 column reads "
  "are indexed by dynamic parameters, each bounded by an UNGUARDED assertion of the translated list (reflective checker dynBoundsOK, proved sound, "
  "kernel-evaluated on the regenerated programs + list), conditional on validate_public_input having accepted the same public input — which is "
  "how the pipeline calls it (CallbacksOKAt, verify_panic_sites_at). Deep-reaching zero-trace forgeries with edited column / offset parameters "
  "exercise exactly that path on the real code.",
  "The dynamic headline theorem assumes the Rust type facts (340 parameters, each a u64) and is a RELEASE-profile statement: floor_div by zero returns 0 in lambdaworks release builds (modelled so), a debug_assert would fire in a debug build. RECURSION DEPTH is now a theorem of the model: every Merkle walk started by stark_verify (three trace / composition tables and every FRI layer) makes at most 1 + 48 x 87 = 4177 recursive calls whatever the lengths of the authentication vectors (merkle_walk_depth_bounded; the call count is proved to be exactly the least sufficient fuel, and to depend only on the indices); the frame size of the compiled Rust and allocator aborts remain runtime behaviour (an abort is recorded as a panic by the harness).",
  "Lean 4 machine-checked proof over model + translated programs + malformed-input sweep", "7/C18"),

 'C02': ("proof",
  "PARTIAL on the transcript-bound half. Lean theorems (Props/C02.lean) for ARBITRARY layout ops and hash instances: (A) proofs agreeing on "
  "the hashed public input and the unsent commitment have identical challenges and queries, so witness-only mutants run the same protocol; "
  "(B) two ACCEPTED proofs differing only in the witness agree on every decommitted cell of the three tables, on the consumed prefix of every "
  "authentication list, and through every FRI layer on coset rows, consumed leaves and consumed auth nodes — or an explicit hash collision is "
  "produced (decommit_two_openings / table_two_openings: two accepting openings of ONE root at the same queries, no committed tree assumed); "
  "(C) deleting an element of oods_values, last-layer coefficients or any decommitment list is rejected unconditionally; deleting a consumed "
  "auth node is rejected or collides; (D) appending unused trailing auth nodes / FRI leaves / layer witnesses / inner roots keeps an "
  "accepted verdict — the tolerated malleability, proved as such; (E) every config number that ConfigOK pins (heights, columns, input size, "
  "inner-layer shapes, friendly counts, composition columns) cannot be changed alone; (F) changing a commitment, an oods value, a FRI "
  "coefficient, the nonce or a hashed public-input field changes EVERY later challenge and the query-sampling state, or a "
  "Poseidon/Pedersen collision is exhibited. The sweep IS the violation search: every scalar position of accepted proofs replaced / deleted / "
  "swapped on the real verifier (must not accept), sampled mutants and every trailing append through the Lean pipeline model.",
  "NOT proved (UNPROVED block in the file, DESIGN section 10): for transcript-bound positions, and for pow_bits / n_queries, that the mutant "
  "then fails some check — a random-oracle statement; left to the sweep.",
  "Lean 4 machine-checked proof (collision-extraction; partial on transcript-bound positions) + position sweep on the real verifier", "7/C02"),

 'C19': ("proof",
  "PARTIAL: the regex engine and serde are not modelled. The MODEL is an INDEPENDENT Lean loader (Model/Loader.lean) written from the Stone "
  "file format, with checked narrowing, using the VERIFIER's translated layout constants and DynamicParams field order. Lean theorems "
  "(Props/C19.lean): extraction of every annotation class is an order-preserving filterMap over the stream and an unparsable member fails "
  "the whole load; Data-then-Hash concatenation equals stream order when no Hash precedes a Data line; segments are the input entries "
  "permuted into builtin order (unknown name => error); the 340 Stone dynamic-parameter keys, sorted, are exactly the verifier struct's field "
  "order translated from dynamic.rs; difficulty <= 255 and nonce < 2^64 or error; config derivation from step list / n_steps / blow-up; the "
  "loader is total and all-or-nothing; the prover messages TILE the proof (prover_messages_tile, tiles_step: every P->V[a:b] range starts where the "
  "previous one ended, 32 bytes per value; duplicated_message_fails) and there is exactly one commitment per inner FRI layer, numbered in order "
  "(fri_commitments_count). Tie: the REAL proof_parser + REAL cli/src/transform.rs (compiled from /repo) vs the loader, token for "
  "token, on all 25 shipped files (identical) and on edited copies (digit changes, swapped / removed / duplicated lines, Hash before Data, "
  "difficulty 255/256/286, nonce 0 / 2^64, unknown / missing segments, bad hex, n_steps, step lists, dynamic-parameter counts): the loader is "
  "the specification; the real code must never panic, must reject the truncating / malformed classes, and must agree with the loader wherever "
  "both succeed. Eight parser/CLI defects were repaired (fix: commits) — the last one (99103ae) removed the five leniencies of the regex design first "
  "recorded as known findings (garbled / removed / duplicated / reordered lines, unknown paths), using the tiling of the byte ranges; there are no known findings left.",
  "Values >= P are reduced silently; continuous page headers are dropped by the CLI conversion (observations, not in the property). The regex engine and serde are exercised, not modelled.",
  "Lean 4 machine-checked proof over an independent loader + differential test against the real parser and CLI conversion", "7/C19"),
}

ORDER = [f'C{i:02d}' for i in range(1, 20)]
PENDING_REASON = "not yet claimed in this commit (machinery under construction; see DESIGN.md section 11 for the order)"


def main():
    checks = []
    for pid in ORDER:
        if pid not in CLAIMS:
            continue
        cat, text, extra, tech, ref = CLAIMS[pid]
        checks.append({
            "property_id": pid, "quick_cmd": f"./check {pid} quick", "thorough_cmd": f"./check {pid} thorough",
            "evidence_file": f"/verif/evidence/{pid}.json", "replay_cmd_template": f"./check {pid} quick --replay {{path}}",
            "engine": "lean-proof+correspondence",
            "level_claimed": {"category": cat, "text": text, "design_ref": ref},
            "level_note": NOTE_COMMON + extra, "technique": tech})
    m = {"version": 1, "setup_cmd": "./setup.sh",
         "hooks": {"guard": "--cfg swiftness_verif",
                   "enable": "none needed: every function the checks observe is pub; the harness path-depends on /repo/crates/* and compiles the real sources",
                   "baseline_off_cmd": "cd /repo && cargo test --workspace --no-fail-fast --offline", "source_commits": [], "add_only": True},
         "engines": [{"name": "lean-proof+correspondence", "path": "/verif/check", "serves_properties": sorted(CLAIMS),
                      "kind_free_text": "Lean 4.33 + Mathlib theorems over a hand-written executable model (lean/Swiftness), constants and autogenerated AIR evaluators re-translated from /repo by tools/gen.py on every run, model tied to the real Rust code by a line-protocol differential harness (harness/ hx vs lean drv) with independent Python spec oracles"}],
         "checks": checks,
         "notes": "Properties are claimed one by one as their theorems and correspondence land; see DESIGN.md.",
         "not_applicable": [{"property_id": p, "reason": PENDING_REASON} for p in ORDER if p not in CLAIMS]}
    json.dump(m, open(os.path.join(ROOT, 'MANIFEST.json'), 'w'), indent=1)
    print('MANIFEST.json:', len(checks), 'checks')


if __name__ == '__main__':
    main()
