#!/usr/bin/env python3
"""Shared machinery of ./check: translator run, Lean build + axiom audit, harness build,
line-protocol execution of the REAL code (hx) and of the Lean MODEL (drv), three-way comparison
(code vs model = correspondence; code vs spec oracle = the property), evidence, verdict lines.
See DESIGN.md sections 2, 5, 6."""
import json, os, re, subprocess, sys, time, hashlib, random

ROOT = os.path.normpath(os.path.join(os.path.dirname(os.path.abspath(__file__)), '..'))
LEAN = os.path.join(ROOT, 'lean')
HARNESS = os.path.join(ROOT, 'harness')
CACHE = os.path.join(ROOT, '.cache')
TARGET = os.path.join(CACHE, 'target')
REPO = '/repo'
P = 0x800000000000011000000000000000000000000000000000000000000000001
ALLOWED_AXIOMS = {'propext', 'Classical.choice', 'Quot.sound'}
FORBIDDEN = re.compile(r'\b(sorry|admit|native_decide|bv_decide|implemented_by)\b|^\s*axiom\s|^\s*unsafe\s|maxHeartbeats\s+0', re.M)

ENV = dict(os.environ, CARGO_NET_OFFLINE='true', PIP_NO_INDEX='1', GOPROXY='off')
CARGO_CFG = ['--config', 'source.vendored.directory="%s"' % os.path.join(CACHE, 'vendor')]
COV = bool(os.environ.get('VERIF_COV'))           # set by tools/coverage.py only; never by a registered check
COV_TARGET = os.path.join(CACHE, 'covtarget')
COV_RAW = os.environ.get('VERIF_COV_RAW', os.path.join(CACHE, 'cov', 'raw'))


class Broken(Exception):
    """A proof obligation or the correspondence no longer checks (DESIGN section 6 a-d)."""
    def __init__(self, kind, what, detail=''):
        super().__init__(f'{kind}: {what}')
        self.kind, self.what, self.detail = kind, what, detail


def sh(cmd, cwd=None, timeout=None, check=False, input=None):
    r = subprocess.run(cmd, cwd=cwd, env=ENV, stdout=subprocess.PIPE, stderr=subprocess.STDOUT,
                       text=True, timeout=timeout, input=input)
    if check and r.returncode != 0:
        raise RuntimeError(f'{cmd} failed:\n{r.stdout[-4000:]}')
    return r


# --------------------------------------------------------------------------------------------
# 1. translator
def run_translator(parts=('consts',)):
    r = sh([sys.executable, os.path.join(ROOT, 'tools', 'gen.py')])
    if r.returncode != 0:
        raise Broken('translator', 'tools/gen.py failed', r.stdout[-3000:])
    out = r.stdout.strip()
    # the dynamic layout's assertion list and parameter order: always (the driver is built against them)
    r = sh([sys.executable, os.path.join(ROOT, 'tools', 'gen_asserts.py')])
    if r.returncode != 0:
        raise Broken('translator', 'tools/gen_asserts.py failed (check_asserts outside the translated shape?)', r.stdout[-3000:])
    out += '\n' + r.stdout.strip()
    if 'ast' in parts:
        r = sh([sys.executable, os.path.join(ROOT, 'tools', 'gen_ast.py')])
        if r.returncode != 0:
            raise Broken('translator', 'tools/gen_ast.py failed (construct outside the translated Rust subset?)', r.stdout[-3000:])
        out += '\n' + r.stdout.strip()
        # witness inputs for the non-vanishing theorems (C16): one point per program where every term is non-zero; the generator
        # only PROPOSES (untrusted Python evaluator), the Lean kernel re-checks; it fails when some term is zero at 16 random points
        r = sh([sys.executable, os.path.join(ROOT, 'tools', 'gen_witness.py')])
        if r.returncode != 0:
            raise Broken('translator', 'tools/gen_witness.py: no non-vanishing witness (a coefficient position whose term is identically zero?)', r.stdout[-3000:])
        out += '\n' + r.stdout.strip()
    return out


def check_lean_printer():
    """the elaborated Generated/Layout/*.lean programs, printed back, must equal Generated/ast/*.txt byte for byte"""
    d = os.path.join(CACHE, 'dump')
    os.makedirs(d, exist_ok=True)
    # DumpAst imports the compiled generated modules: make sure every one of them is built from what the translator wrote in THIS run
    mods = [f'Swiftness.Generated.Layout.{f[:-5]}' for f in sorted(os.listdir(os.path.join(LEAN, 'Swiftness', 'Generated', 'Layout'))) if f.endswith('.lean')]
    r = sh(['lake', 'build'] + mods + ['Driver.AstLoad'], cwd=LEAN, timeout=3000)
    if r.returncode != 0:
        raise Broken('translator', 'generated Lean modules do not build', r.stdout[-2000:])
    r = sh(['lake', 'env', 'lean', '--run', 'DumpAst.lean', d], cwd=LEAN, timeout=1800)
    if r.returncode != 0:
        raise Broken('translator', 'DumpAst.lean failed', r.stdout[-2000:])
    src = os.path.join(LEAN, 'Swiftness', 'Generated', 'ast')
    n = 0
    for f in sorted(os.listdir(d)):
        if f.endswith('.txt'):
            n += 1
            if open(os.path.join(d, f)).read() != open(os.path.join(src, f)).read():
                raise Broken('translator', f'elaborated Lean program differs from the driver text program: {f}')
    return n


# --------------------------------------------------------------------------------------------
# 2./3. Lean build and audit
def lean_strip_comments(src):
    src = re.sub(r'/-.*?-/', '', src, flags=re.S)
    return re.sub(r'--[^\n]*', '', src)


def prop_theorems(pid, files=None):
    """theorem names declared in Props/<f>.lean for f in files (fully qualified)."""
    out = []
    for f in (files or [pid]):
        src = lean_strip_comments(open(os.path.join(LEAN, 'Swiftness', 'Props', f'{f}.lean')).read())
        ns = re.search(r'^namespace\s+(\S+)', src, re.M)
        pre = ns.group(1) + '.' if ns else ''
        out += [pre + m for m in re.findall(r'^theorem\s+(\S+)', src, re.M)]
    return out


def lean_sources_of(modules):
    """transitive project-local imports of the given modules -> file paths"""
    seen, todo = {}, list(modules)
    while todo:
        m = todo.pop()
        if m in seen:
            continue
        path = os.path.join(LEAN, *m.split('.')) + '.lean'
        if not os.path.exists(path):
            continue
        seen[m] = path
        for imp in re.findall(r'^import\s+(\S+)', open(path).read(), re.M):
            if imp.startswith('Swiftness') or imp.startswith('Driver'):
                todo.append(imp)
    return seen


def lake_build(targets, timeout=3600):
    r = sh(['lake', 'build'] + targets, cwd=LEAN, timeout=timeout)
    if r.returncode != 0:
        errs = re.findall(r'^error: (.*)$', r.stdout, re.M)
        raise Broken('lean-build', f'lake build {" ".join(targets)}', '\n'.join(errs[:20]) or r.stdout[-3000:])
    return r.stdout


def audit(pid, props_files=None):
    """grep for forbidden constructs and `#print axioms` for every theorem of the property's Props files"""
    props_files = props_files or [pid]
    thms = prop_theorems(pid, props_files)
    if not thms:
        raise Broken('audit', f'no theorems found in Props/{pid}.lean')
    files = lean_sources_of([f'Swiftness.Props.{f}' for f in props_files])
    for m, path in files.items():
        hit = FORBIDDEN.search(lean_strip_comments(open(path).read()))
        if hit:
            raise Broken('audit', f'forbidden construct `{hit.group(0).strip()}` in {m}')
    os.makedirs(os.path.join(CACHE, 'audit'), exist_ok=True)
    f = os.path.join(CACHE, 'audit', f'{pid}.lean')
    with open(f, 'w') as fh:
        for pf in props_files:
            fh.write(f'import Swiftness.Props.{pf}\n')
        for t in thms:
            fh.write(f'#print axioms {t}\n')
    r = sh(['lake', 'env', 'lean', f], cwd=LEAN, timeout=1800)
    if r.returncode != 0:
        raise Broken('audit', f'#print axioms failed for {pid}', r.stdout[-2000:])
    axioms = {}
    for m in re.finditer(r"^'(\S+)' depends on axioms: \[([^\]]*)\]", r.stdout, re.S | re.M):
        axioms[m.group(1)] = [a.strip() for a in m.group(2).replace('\n', ' ').split(',') if a.strip()]
    for m in re.finditer(r"^'(\S+)' does not depend on any axioms", r.stdout, re.M):
        axioms[m.group(1)] = []
    for t in thms:
        if t not in axioms:
            raise Broken('audit', f'no axiom report for theorem {t}', r.stdout[-1500:])
        bad = [a for a in axioms[t] if a not in ALLOWED_AXIOMS]
        if bad:
            raise Broken('audit', f'theorem {t} depends on non-standard axioms {bad}')
    return thms, axioms, sorted(files)


def leanchecker(modules):
    r = sh(['lake', 'env', 'leanchecker'] + modules, cwd=LEAN, timeout=3600)
    if r.returncode != 0:
        raise Broken('leanchecker', ' '.join(modules), r.stdout[-2000:])
    return True


# --------------------------------------------------------------------------------------------
# 4. harness build (against /repo's CURRENT working tree)
def ensure_vendor():
    if not os.path.isdir(os.path.join(CACHE, 'vendor', 'serde_json-1.0.128')):
        sh([sys.executable, os.path.join(ROOT, 'tools', 'vendor.py')], check=True)


def build_hx(features):
    """features: e.g. ('k160','stone5','full').  Returns path of a private copy of the binary."""
    ensure_vendor()
    feats = ' '.join(features)
    if COV:
        # coverage run (tools/coverage.py): the same harness, built by the nightly toolchain (the only one with llvm-tools here) with
        # source-based coverage instrumentation, in its own target directory; every hx process then leaves a .profraw file
        global ENV
        ENV = dict(ENV, RUSTFLAGS='-C instrument-coverage', CARGO_TARGET_DIR=COV_TARGET, LLVM_PROFILE_FILE=os.path.join(COV_RAW, '%p-%m.profraw'))
        os.makedirs(COV_RAW, exist_ok=True)
        r = sh(['cargo', '+nightly', 'build', '--release', '--offline', '--features', feats] + CARGO_CFG, cwd=HARNESS, timeout=3600)
    else:
        # target directory and vendored registry are those of THIS copy of /verif (a `vp run` snapshot must not share them with /verif)
        ENV['CARGO_TARGET_DIR'] = TARGET
        r = sh(['cargo', '+stable', 'build', '--release', '--offline', '--features', feats] + CARGO_CFG, cwd=HARNESS, timeout=3600)
    if r.returncode != 0:
        errs = '\n'.join(l for l in r.stdout.splitlines() if l.startswith('error'))[:3000]
        raise Broken('harness-build', f'cargo build --features "{feats}" against /repo failed', errs or r.stdout[-3000:])
    src = os.path.join(COV_TARGET if COV else TARGET, 'release', 'hx')
    dst = os.path.join(CACHE, 'bin', ('hxcov-' if COV else 'hx-') + '-'.join(features))
    os.makedirs(os.path.dirname(dst), exist_ok=True)
    sh(['cp', '-f', src, dst], check=True)
    return dst


DRV = os.path.join(LEAN, '.lake', 'build', 'bin', 'drv')


def hash_of(features):
    for f in features:
        if f in ('k160', 'k248', 'b160', 'b248'):
            return f
    return 'k160'


def stone_of(features):
    return 'stone6' if 'stone6' in features else 'stone5'


# --------------------------------------------------------------------------------------------
# 5. running cases
def canon(line):
    """canonical outcome class + payload: ('ok', payload) | ('err','') | ('panic', site-or-'') | ('badinput', ..)"""
    line = line.rstrip('\n')
    if line == 'ok' or line.startswith('ok '):
        return ('ok', line[3:].strip())
    if line.startswith('err'):
        return ('err', '')
    if line.startswith('panic'):
        return ('panic', line[6:].strip())
    return ('bad', line)


def run_lines(cmd, lines, timeout=900, chunk=None):
    """feed lines to a line-protocol process; returns list of output lines (same length)."""
    data = '\n'.join(lines) + '\n'
    r = subprocess.run(cmd, input=data, stdout=subprocess.PIPE, stderr=subprocess.PIPE, text=True, timeout=timeout, env=ENV)
    out = r.stdout.split('\n')
    if out and out[-1] == '':
        out.pop()
    if len(out) != len(lines):
        # the process died (abort / stack overflow / OOM) on line len(out)
        return out, (r.returncode, r.stderr[-2000:])
    return out, None


def run_hx(binary, lines, **kw):
    return run_lines([binary], lines, **kw)


DRV_LAYOUTS = None   # set by a property module that needs translated programs loaded by the driver


def run_drv(features, lines, mode='model', **kw):
    cmd = [DRV, mode, hash_of(features), stone_of(features)]
    if DRV_LAYOUTS:
        cmd += [os.path.join(LEAN, 'Swiftness', 'Generated', 'ast'), ','.join(DRV_LAYOUTS)]
    return run_lines(cmd, lines, **kw)


def parallel_map(fn, chunks, workers=16):
    from concurrent.futures import ThreadPoolExecutor
    with ThreadPoolExecutor(max_workers=workers) as ex:
        return list(ex.map(fn, chunks))


def run_split(runner, lines, workers=16, **kw):
    """run a line-protocol process over `lines` split in `workers` chunks, in parallel"""
    if len(lines) < 64 or workers <= 1:
        return runner(lines, **kw)
    n = (len(lines) + workers - 1) // workers
    chunks = [lines[i:i + n] for i in range(0, len(lines), n)]
    res = parallel_map(lambda c: runner(c, **kw), chunks, workers)
    out = []
    for o, died in res:
        out.extend(o)
        if died:
            return out, died
    return out, None


# --------------------------------------------------------------------------------------------
# 7. evidence and verdict
class Rng:
    """SplitMix64: every random choice of a run derives from VERIF_SEED."""
    def __init__(self, seed):
        self.s = seed & 0xFFFFFFFFFFFFFFFF
    def u64(self):
        self.s = (self.s + 0x9E3779B97F4A7C15) & 0xFFFFFFFFFFFFFFFF
        z = self.s
        z = ((z ^ (z >> 30)) * 0xBF58476D1CE4E5B9) & 0xFFFFFFFFFFFFFFFF
        z = ((z ^ (z >> 27)) * 0x94D049BB133111EB) & 0xFFFFFFFFFFFFFFFF
        return z ^ (z >> 31)
    def below(self, n):
        return self.u64() % n if n > 0 else 0
    def felt(self):
        return ((self.u64() << 192) | (self.u64() << 128) | (self.u64() << 64) | self.u64()) % P
    def choice(self, xs):
        return xs[self.below(len(xs))]
    def chance(self, num, den):
        return self.below(den) < num
    def bits(self, k):
        r = 0
        for _ in range((k + 63) // 64):
            r = (r << 64) | self.u64()
        return r & ((1 << k) - 1)
    def edge_felt(self):
        """field element biased to boundary values"""
        c = self.below(10)
        if c < 4:
            return self.felt()
        return self.choice([0, 1, 2, 3, P - 1, P - 2, 2**64 - 1, 2**64, 2**128 - 1, 2**128, 2**192, 2**251, (P - 1) // 2, (P + 1) // 2,
                            self.below(1 << 16), self.below(1 << 32)])


def hexf(n):
    return format(n % P, 'x')


def hexl(ns):
    return ','.join(hexf(n) for n in ns) if ns else '-'


def load_known_findings():
    p = os.path.join(ROOT, 'known_findings.json')
    if not os.path.exists(p):
        return {'findings': [], 'fixed': []}
    return json.load(open(p))


def write_evidence(pid, tier, seed, level, coverage, assumptions, wall, violations):
    # seeded-change runs (tools/seedtest.py, tools/seedregress.py) set VERIF_EVIDENCE_DIR so that the committed evidence, which must
    # describe /repo itself, is never overwritten by a run against a patched tree
    evdir = os.environ.get('VERIF_EVIDENCE_DIR') or os.path.join(ROOT, 'evidence')
    os.makedirs(evdir, exist_ok=True)
    ev = {'property_id': pid, 'tier': tier, 'seed': seed, 'level': level, 'coverage': coverage,
          'assumptions': assumptions, 'wall_s': round(wall, 2), 'violations': violations}
    with open(os.path.join(evdir, f'{pid}.json'), 'w') as f:
        json.dump(ev, f, indent=1)
    return ev


def write_replay(pid, name, obj):
    d = os.path.join(ROOT, 'replays')
    os.makedirs(d, exist_ok=True)
    p = os.path.join(d, f'{pid}-{name}.json')
    with open(p, 'w') as f:
        json.dump(obj, f, indent=1)
    return p


# --------------------------------------------------------------------------------------------
# corpus: minimised past failures (e.g. the failing cases of the seeded changes), run first on every check
def jsonable(c):
    """a case dict restricted to JSON-serialisable entries (plus the build it belongs to)"""
    out = {}
    for k, v in c.items():
        if k in ('code', 'model', 'aux_code', 'iso', 'precomputed', 'from_corpus'): continue
        try:
            json.dumps(v); out[k] = v
        except TypeError:
            if isinstance(v, bytes): out[k] = {'__bytes__': v.hex()}
    return out


def load_corpus(pid, feats):
    p = os.path.join(ROOT, 'corpus', f'{pid}.jsonl')
    if not os.path.exists(p):
        return []
    out = []
    tag = hash_of(feats) + '+' + stone_of(feats)
    for l in open(p):
        l = l.strip()
        if not l: continue
        c = json.loads(l)
        if c.get('_build') and c['_build'] != tag: continue
        if c.get('_needs') and not all(f in feats for f in c['_needs']): continue
        for k, v in list(c.items()):
            if isinstance(v, dict) and '__bytes__' in v: c[k] = bytes.fromhex(v['__bytes__'])
        c['kind'] = c.get('kind', 'corpus'); c['from_corpus'] = True
        out.append(c)
    return out
