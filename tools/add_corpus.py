#!/usr/bin/env python3
"""append the failing case(s) of a replay file to corpus/<property>.jsonl (run by hand when a violation is worth keeping)
usage: add_corpus.py <replay.json> [<note>]"""
import json, os, sys
r = json.load(open(sys.argv[1])); note = sys.argv[2] if len(sys.argv) > 2 else ''
pid = r['property']; root = os.path.normpath(os.path.join(os.path.dirname(os.path.abspath(__file__)), '..'))
os.makedirs(os.path.join(root, 'corpus'), exist_ok=True)
path = os.path.join(root, 'corpus', f'{pid}.jsonl')
have = set(open(path).read().splitlines()) if os.path.exists(path) else set()
n = 0
feats = r.get('build', '').split('+')
for c in r.get('cases', []):
    if 'line' not in c or len(c['line']) > 400000: continue
    c = dict(c); c['_note'] = note or r.get('what', '')
    c['_needs'] = [f for f in feats if f in ('full', 'all_layouts', 'parser')]
    if c.get('_hash') and c.get('_stone'): c['_build'] = c['_hash'] + '+' + c['_stone']
    for k in ('_hash', '_stone', 'precomputed', 'iso'): c.pop(k, None)
    if c['line'].startswith(('parsefile', 'verifyfile', 'roundtrip')) and '.cache' in c['line']: continue   # scratch files do not persist
    l = json.dumps(c, sort_keys=True)
    if l not in have:
        open(path, 'a').write(l + '\n'); n += 1
print(f'{n} case(s) added to {path}')
