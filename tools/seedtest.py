#!/usr/bin/env python3
"""Confirm a seeded change and run our checks against it.
usage: seedtest.py <seed-id> <demo path inside the repo> <property> [<more properties>...]
The seed lives in /verif/seeded/<seed-id>/ {patch.diff, demo.rs, meta.json}.
 1. fresh scratch worktree of /repo under /tmp; demo installed at <demo path>
 2. confirms: demo PASSES without the patch; with the patch the unedited 45-test suite PASSES (demo set aside) and the demo FAILS
 3. applies the patch to /repo, runs ./check <property> quick for each property, undoes it
 4. writes what was run and observed into meta.json; removes the worktree and its build output"""
import json, os, shutil, subprocess, sys, time
os.environ['VERIF_EVIDENCE_DIR'] = '/verif/.cache/seed-evidence'   # never overwrite the committed evidence from a patched tree
sid, demo_path, props = sys.argv[1], sys.argv[2], sys.argv[3:]
dst = f'/verif/seeded/{sid}'
meta = json.load(open(f'{dst}/meta.json'))
wt = f'/tmp/seedwt-{sid}'
def sh(cmd, cwd=None, timeout=3400):
    r = subprocess.run(cmd, shell=True, cwd=cwd, stdout=subprocess.PIPE, stderr=subprocess.STDOUT, text=True, timeout=timeout)
    return r.returncode, r.stdout
sh(f'git -C /repo worktree remove --force {wt}'); shutil.rmtree(wt, ignore_errors=True)
rc, o = sh(f'git -C /repo worktree add -q {wt} HEAD'); assert rc == 0, o
demo_cmd = meta['demo_cmd']
ran = {'demo_cmd': demo_cmd, 'demo_path': demo_path}
scratch_crate = os.path.isdir(f'{dst}/pp')   # demo is a scratch crate SEED/pp (outside the workspace) instead of a test file
def install():
    if os.path.isdir(f'{dst}/SEED'):       # extra demo scaffolding (shim crate, scripts) the seed's author needs next to the demo
        shutil.copytree(f'{dst}/SEED', f'{wt}/SEED', dirs_exist_ok=True)
    if scratch_crate:
        shutil.copytree(f'{dst}/pp', f'{wt}/SEED/pp', dirs_exist_ok=True); return
    os.makedirs(os.path.dirname(os.path.join(wt, demo_path)), exist_ok=True); shutil.copy(f'{dst}/demo.rs', os.path.join(wt, demo_path))
install()
rc0, o0 = sh(demo_cmd, wt); ran['demo_without_patch'] = {'rc': rc0, 'tail': o0[-300:]}
rc, o = sh(f'git apply {dst}/patch.diff', wt); ran['apply_rc'] = rc
if not scratch_crate: os.remove(os.path.join(wt, demo_path))
rc2, o2 = sh('cargo test --workspace --no-fail-fast --offline 2>&1 | grep -E "^test result|FAILED|^error"', wt)
if 'failed to run `rustc`' in o2:      # transient under load (several cargo processes): once more
    time.sleep(5)
    rc2, o2 = sh('cargo test --workspace --no-fail-fast --offline 2>&1 | grep -E "^test result|FAILED|^error"', wt)
passed = sum(int(l.split('ok. ')[1].split(' passed')[0]) for l in o2.splitlines() if l.startswith('test result: ok.'))
ran['suite_with_patch'] = {'passed': passed, 'failed_lines': [l for l in o2.splitlines() if 'FAILED' in l or l.startswith('error')][:5]}
install()
rc1, o1 = sh(demo_cmd, wt); ran['demo_with_patch'] = {'rc': rc1, 'tail': o1[-500:]}
confirmed = rc0 == 0 and rc1 != 0 and passed == 45 and not ran['suite_with_patch']['failed_lines']
ran['confirmed'] = confirmed
sh(f'git -C /repo worktree remove --force {wt}'); shutil.rmtree(wt, ignore_errors=True)
checks = {}
if confirmed:
    rc, o = sh(f'git -C /repo apply {dst}/patch.diff')
    if rc != 0:
        checks['apply'] = o[-400:]
    else:
        for p in props:
            t0 = time.time()
            rc, o = sh(f'./check {p} quick', '/verif')
            checks[p] = {'rc': rc, 'seconds': round(time.time() - t0), 'out': [l for l in o.splitlines() if l.startswith(('VIOLATION', 'violation', 'broken', 'KNOWN', p))][-4:]}
            rp = [l for l in o.splitlines() if l.startswith('VIOLATION')]
            if rp and 'replay=' in rp[0]:
                rf = rp[0].split('replay=')[1].split()[0]
                if os.path.exists(rf): shutil.copy(rf, f'{dst}/replay-{p}.json')
    sh('git -C /repo checkout -- . && git -C /repo clean -fdq -- crates proof_parser cli')
    for g in ('gen.py', 'gen_ast.py', 'gen_asserts.py', 'gen_witness.py'):      # the translated files follow /repo: put them back to the clean tree's
        sh(f'python3 /verif/tools/{g}')
ran['checks'] = checks
meta['breaks_property'] = props[0]
meta['verified_by_us'] = ran
json.dump(meta, open(f'{dst}/meta.json', 'w'), indent=1)
print(json.dumps({'seed': sid, 'confirmed': confirmed, 'checks': {k: (v['rc'], v['out']) if isinstance(v, dict) else v for k, v in checks.items()}}, indent=1))
