#!/bin/sh
# MANIFEST.setup_cmd: build the framework from files on disk only (offline).
set -e
cd "$(dirname "$0")"
export CARGO_NET_OFFLINE=true
python3 tools/vendor.py
python3 tools/gen.py
python3 tools/gen_ast.py >/dev/null
python3 tools/gen_asserts.py
python3 tools/gen_witness.py
cp -f /repo/Cargo.lock harness/Cargo.lock 2>/dev/null || true
(cd lean && lake build Swiftness drv)
python3 tools/build_all.py
